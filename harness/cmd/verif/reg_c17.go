//go:build verif

package main

import (
	"encoding/json"

	"verif/harness/monitor"
	"verif/harness/props/c17"
)

func init() {
	c17.RedisCfgFault = redisCfgFault
	registry["C17"] = entry{run: c17.Run, replay: func(r *monitor.Run, d json.RawMessage) { c17.Replay(r, d) }, level: "exploration",
		rule: "cases = generated distributions of subscriptions (plain, wildcard, $-topics, share groups g1/g2 spanning nodes, nodes without any subscription) over three in-process nodes federated through real serf/gRPC, then 20-30 unique publishes from any node (QoS0-2, retained, retained clears) after the views have converged, closed by per-node sentinels; checked: applied message events per node (forwarded once to every node with a matching non-shared subscription, never to a node without any match, never back to the origin, never re-forwarded, retained to all), copies received by every MQTT subscriber (exactly one per client with a matching non-shared subscription at min QoS; exactly one member per share group in the whole federation, attributed by subscription identifiers), retained stores of all nodes. Every scenario is non-trivial; distinct by scenario. Plus: publications as will messages, a directed spanning-group scenario, a session that ends while redis refuses a clean-up command, stored sessions replaced without re-subscribing, messages with non-UTF-8 Correlation Data and 5 MiB payloads.",
		assumptions: []string{"federation views have converged before publishing (logical barrier on the views)", "per-peer event streams are FIFO (sentinel barrier)", "which member / node serves a share group is free"}}
}
