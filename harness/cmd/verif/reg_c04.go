package main

import (
	"strings"
	"sync"

	"github.com/DrmagicE/gmqtt/config"

	"verif/harness/props/c04"
	"verif/harness/redisx"
)

// redisCfg switches a broker configuration to the redis back end on a private fake redis.
func redisCfg(c *config.Config) (func(), error) {
	cl, _, err := redisCfgFault(c)
	return cl, err
}

// redisCfgFault additionally returns arm(cmd, key): the next command of that name on that key is answered with an
// error reply and not executed (a redis that refuses one write: OOM, READONLY after a fail-over, ...).
func redisCfgFault(c *config.Config) (func(), func(cmd, key string), error) {
	e, err := redisx.NewEnv()
	if err != nil {
		return nil, nil, err
	}
	c.Persistence.Type = config.PersistenceTypeRedis
	c.Persistence.Redis.Addr = e.Srv.Addr()
	var mu sync.Mutex
	var wantCmd, wantKey string
	e.Srv.SetFault(func(pos int, args [][]byte) string {
		mu.Lock()
		defer mu.Unlock()
		if wantCmd != "" && len(args) > 1 && string(args[0]) == wantCmd && string(args[1]) == wantKey {
			wantCmd = ""
			return "ERR verif: injected write refusal"
		}
		return ""
	})
	arm := func(cmd, key string) {
		mu.Lock()
		wantCmd, wantKey = strings.ToUpper(cmd), key
		mu.Unlock()
	}
	return e.Close, arm, nil
}

func init() {
	c04.RedisCfg = redisCfg
	c04.RedisCfgFault = redisCfgFault
	registry["C04"] = entry{run: c04.Run, level: "exploration",
		rule: "cases = generated packet histories of one publisher over packet ids {1,2,3}: PUBLISH QoS2, retransmission (same id, DUP), PUBREL (also unknown ids), id reuse, QoS1 publishes, connection cut between PUBLISH and PUBREC, reconnects with Clean Start 0/1, v3.1.1/v5, persistent or not, memory and redis unack store, with a concurrent publisher on another session using the same ids; an independent QoS2 subscriber counts deliveries, acks are compared in order behind a PINGREQ barrier. Thorough adds all histories up to length 6 over one id. Non-trivial = at least one retransmission or cut; distinct by scenario. Plus fault histories on redis: the HSET of a PUBLISH or the HDEL of a PUBREL is refused, the client resumes and retransmits.",
		assumptions: []string{"mqttx codec", "per-connection packets are handled sequentially (PINGREQ barrier)", "fakeredis for the redis unack store"}}
}
