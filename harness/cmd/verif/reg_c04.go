package main

import (
	"github.com/DrmagicE/gmqtt/config"

	"verif/harness/props/c04"
	"verif/harness/redisx"
)

// redisCfg switches a broker configuration to the redis back end on a private fake redis.
func redisCfg(c *config.Config) (func(), error) {
	e, err := redisx.NewEnv()
	if err != nil {
		return nil, err
	}
	c.Persistence.Type = config.PersistenceTypeRedis
	c.Persistence.Redis.Addr = e.Srv.Addr()
	return e.Close, nil
}

func init() {
	c04.RedisCfg = redisCfg
	registry["C04"] = entry{run: c04.Run, level: "exploration",
		rule: "cases = generated packet histories of one publisher over packet ids {1,2,3}: PUBLISH QoS2, retransmission (same id, DUP), PUBREL (also unknown ids), id reuse, QoS1 publishes, connection cut between PUBLISH and PUBREC, reconnects with Clean Start 0/1, v3.1.1/v5, persistent or not, memory and redis unack store, with a concurrent publisher on another session using the same ids; an independent QoS2 subscriber counts deliveries, acks are compared in order behind a PINGREQ barrier. Thorough adds all histories up to length 6 over one id. Non-trivial = at least one retransmission or cut; distinct by scenario.",
		assumptions: []string{"mqttx codec", "per-connection packets are handled sequentially (PINGREQ barrier)", "fakeredis for the redis unack store"}}
}
