package main

import "verif/harness/props/c14"

func init() {
	c14.RedisCfg = redisCfg
	c14.RedisCfgFault = redisCfgFault
	registry["C14"] = entry{run: c14.Run, level: "exploration",
		rule: "cases = (a) hook verdict cases: auth reject (basic/enhanced, reason codes, v3.1/v3.1.1/v5) with will/retained/follow-up packets; OnSubscribe whole-request reject, per-topic reject, QoS downgrade; OnMsgArrived reject/drop/rewrite/replace over QoS x retain x clear; OnWillPublish edit/replace/drop - after each request the wire and the services are inspected; (b) three recording plugins whose HookWrapper fills every field of server.HookWrapper by reflection, all 6 plugin orders, one scripted session triggering every hook kind; per kind the trace must be repetitions of enter(first)...enter(last) core leave(last)...leave(first). Every case is non-trivial; distinct by case parameters / (order, kind). (c) wrappers for sessions restored at start-up; (d) a session ends while redis refuses a clean-up command: OnSessionTerminated fires once; (e) sessions created vs terminated over take-overs; a new PUBLISH re-using the packet id after a rejected exchange is an event of its own. Plus (f) 33 publications refused one at a time by OnMsgArrived per (version, code) on a broker with server_receive_maximum 3: each is answered like the first, the hook fires once each, and publications nobody objects to are accepted and delivered afterwards. The re-authentication of the composition scenario carries data different from the method name.",
		assumptions: []string{"hooks that rewrite the topic also set IterationOptions.TopicName", "the scripted composition session is sequential, so events of one kind do not interleave"}}
}
