package main

import (
	"encoding/json"

	"verif/harness/monitor"
	"verif/harness/props/c12"
)

func init() {
	registry["C12"] = entry{run: c12.Run, replay: func(r *monitor.Run, d json.RawMessage) { c12.Replay(r, d) }, level: "exploration",
		rule: "cases = publisher (v5 with expiry 1/2/3/10 s, v5 without, v3.1.1, Publisher API with and without expiry) x configured message_expiry (0/1 s/2 s/2 h) x subscriber (v3.1.1/v5) x waiting mode (online, offline for w then reconnect, slow: Receive Maximum 1 with a withheld ack) with w at least 0.9 s on either side of the lifetime min(expiry, configured); the waiting interval is measured from client-side send/ack/receive times, only cases whose whole interval lies 400 ms off the boundary are decided, verdicts must recur on re-execution; checks: not delivered after expiry + reported expired, delivered before, forwarded interval within [e-ceil(w_hi), e-floor(w_lo)], absent iff the publisher set none. Distinct by parameters; all decided cases are non-trivial. Half of the cases run with the default inflight_expiry.",
		assumptions: []string{"real time with 400 ms margins", "sentinel published after the test message decides 'not delivered'", "retained-store ageing is outside the statement's quantifier"}}
}
