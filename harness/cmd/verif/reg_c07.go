package main

import (
	"verif/harness/monitor"
	"verif/harness/props/c07"
)

func init() {
	registry["C07"] = entry{run: func(r *monitor.Run) { c07.RunStore(r); c07.RunWire(r); c07.RunRace(r); c07.RunWills(r) }, level: "exploration",
		rule: "cases = (a) histories of AddOrReplace/Remove/ClearAll on the retained store (exhaustive short histories over 5 topics + seeded random over ~80 topics), every lookup compared with a map model after each step; (b) wire scenarios: retained publishes/clears by v3/v5 publishers, then subscriptions with every filter shape x QoS x Retain Handling x RAP x shared x version incl. re-subscription, replayed PUBLISH packets compared with the model. Non-trivial = the store was non-empty / at least one retained message matched a subscription; distinct by scenario. (c) races of a retained PUBLISH against a SUBSCRIBE for its topic on two connections over a retained store that takes 3 ms per update: the acknowledged subscriber sees the kept message at least once. Plus (d) wills with RETAIN=1: with a payload they replace what the topic holds, with an empty payload they clear it (v3.1.1/v5 testators, QoS 0-2, broken and taken-over connections, with and without a prior message), checked in RetainedService and in what a new subscription is sent.",
		assumptions: []string{"reference matcher implements MQTT 4.7", "completeness of replay decided by an API-published sentinel (queue and connection are FIFO)"}}
}
