package main

import (
	"encoding/json"

	"verif/harness/monitor"
	"verif/harness/props/c18"
)

func init() {
	registry["C18"] = entry{run: c18.Run, replay: func(r *monitor.Run, d json.RawMessage) { c18.Replay(r, d) }, level: "exploration",
		rule: "cases = segmentations of a reference MQTT byte stream (CONNECT, SUBSCRIBE, QoS1 PUBLISHes with payload sizes 0..5000 incl. 1021-1027 and 2045-2051, PINGREQ) into WebSocket binary messages: packet-aligned, several packets per message, fixed chunk size k (sample in quick, every k in 1..2100 in thorough), every single cut position of a 3 KB stream (thorough), random cuts biased to 1023-1025 bytes after packet starts, empty messages in between; the dialogue (CONNACK, SUBACK, PUBACK ids, checksums of echoed payloads, PINGRESP, frame types) must equal the expected one, which is cross-checked over plain TCP; text messages before/after CONNECT must close the connection without effect. Non-trivial = more than one WebSocket message; distinct by segmentation. Plus runs of 40-440 empty binary messages in front of every packet, and a neighbours phase (refused connections, subscribers dropping out of a flood, held read loops). Neighbour connections include ones given up by the broker with most of a 3 KiB WebSocket message unread.",
		assumptions: []string{"gorilla/websocket client", "mqttx codec", "echo subscription at QoS 0 on the client's own topic"}}
}
