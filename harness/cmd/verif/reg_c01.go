package main

import "verif/harness/props/c01"

func init() {
	registry["C01"] = entry{run: c01.Run, level: "exploration",
		rule: "cases = generated scenarios on a real in-process broker: 2-8 v3.1/v3.1.1/v5 clients with random subscription tables (filters with +/#/empty levels/$-topics, QoS x NoLocal x RAP x subscription id, re-subscription), 1-4 concurrent publishers (MQTT connections or the Publisher API) sending uniquely tagged messages, both delivery modes; every reception is compared with a reference delivery model, completeness decided by per-publisher sentinels. Non-trivial = more copies expected than the sentinels alone; distinct by scenario. Publishers also use two topic aliases with re-binding; some scenarios add a burst publisher (QoS 0 PUBLISH packets + DISCONNECT in one write, then close).",
		assumptions: []string{"mqttx codec and refmodel.Match are correct", "TCP loopback and the broker's per-session queue are FIFO (used for the sentinel barrier; a violation of it is itself reported as an ordering/missing violation)", "no drop condition is configured (queue 20000, no expiry)"}}
}
