package main

import (
	"sync"
	"time"

	"github.com/DrmagicE/gmqtt/persistence/queue"
	"github.com/DrmagicE/gmqtt/persistence/subscription"

	"verif/harness/props/c02"
	"verif/harness/props/c10"
	"verif/harness/redisx"
)

var (
	envOnce sync.Once
	env     *redisx.Env
	envErr  error
)

func sharedEnv() (*redisx.Env, error) {
	envOnce.Do(func() { env, envErr = redisx.NewEnv() })
	return env, envErr
}

type noCloseSub struct{ subscription.Store }

// Close of the redis wrapper closes the shared pool; the harness keeps the pool alive.
func (noCloseSub) Close() error { return nil }

func init() {
	c02.ExtraFactories = append(c02.ExtraFactories, c02.Factory{Name: "redis", New: func() (subscription.Store, func(), error) {
		e, err := sharedEnv()
		if err != nil {
			return nil, nil, err
		}
		e.Flush()
		return noCloseSub{e.SubStore()}, func() {}, nil
	}, Reload: func(clients []string) (subscription.Store, error) {
		e, err := sharedEnv()
		if err != nil {
			return nil, err
		}
		st := e.SubStore()
		if err := st.Init(clients); err != nil {
			return nil, err
		}
		return noCloseSub{st}, nil
	}, FailNext: func() {
		if e, err := sharedEnv(); err == nil {
			e.FailNext()
		}
	}})
	c10.ExtraFactories = append(c10.ExtraFactories, c10.Factory{Name: "redis", New: func(capacity int, ie time.Duration, id string, def queue.Notifier) (queue.Store, func(), error) {
		e, err := sharedEnv()
		if err != nil {
			return nil, nil, err
		}
		e.Flush()
		q, err := e.Queue(capacity, ie, id, def)
		return q, func() {}, err
	}, Reopen: func(capacity int, ie time.Duration, id string, def queue.Notifier) (queue.Store, error) {
		e, err := sharedEnv()
		if err != nil {
			return nil, err
		}
		return e.Queue(capacity, ie, id, def)
	}, Refuse: func(cmd string) {
		e, err := sharedEnv()
		if err != nil {
			return
		}
		var once sync.Once
		e.Srv.SetFault(func(pos int, args [][]byte) string {
			hit := ""
			if string(args[0]) == cmd {
				once.Do(func() { hit = "BUSY verif: injected refusal" })
			}
			return hit
		})
	}})
}
