package main

import (
	"encoding/json"

	"verif/harness/monitor"
	"verif/harness/props/c11"
)

func init() {
	c11.RedisCfgFault = redisCfgFault
	registry["C11"] = entry{run: c11.Run, replay: func(r *monitor.Run, d json.RawMessage) { c11.Replay(r, d) }, level: "exploration",
		rule: "cases = (a) seeded histories of joins/leaves (Subscribe/Unsubscribe/UnsubscribeAll) of 5 clients over share groups g1-g3 on overlapping filters, coexisting with non-shared subscriptions, on the memory and redis subscription stores: after every operation the shared lookups for ~80 probe topics and per client are compared with a reference table, and the non-shared lookups must be untouched; (b) wire scenarios: v5 members join/leave groups by every leaving mechanism, unique messages are published, and for every message and matching group the copies received by its current members must sum to exactly 1. Non-trivial = a group had >= 2 members when a message matched; distinct by scenario. Plus: a member with a 1 s session expiry leaves by expiry (messages published after the expiry and before any sweep belong to the others) and comes back without subscribing; a member's session ends while redis refuses the DEL of its queue. Ops include leaving with DISCONNECT/Session Expiry Interval 0; 6 directed scenarios: a member that leaves that way, and the member with the 1 s expiry that drops, resumes at once and stays connected beyond the old deadline (sole member, then one of two).",
		assumptions: []string{"refmodel.Match", "mqttx codec", "per-member sentinels decide completeness"}}
}
