package main

import "verif/harness/props/c10"

func init() {
	registry["C10"] = entry{run: c10.Run, level: "exploration",
		rule: "cases = seeded operation histories on queue.Store (Add/Read/ReadInflight/Remove/Replace/Init/Close; capacities 1-6; QoS mix; message expiry past/future/none; InflightExpiry -1h/0/+1h; sizes around ReadBytesLimit) validated step by step by a model that accepts every outcome the statement allows, with a per-message conservation ledger and a final drain; non-trivial = the queue became full or a message was dropped; distinct by operation sequence. Plus: reopen (a new store object over the list the back end holds, Adds before Init), timed in-flight cases, and a refused LRANGE on a full queue (durable back end). Read limits include 129/130/131 and 16387/16388 (the packet sizes on both sides of the remaining lengths 128 and 16384).",
		assumptions: []string{"expiry decided with +-1 hour offsets, never by wall-clock races", "interface contract respected: ReadInflight drained before Read, Remove/Replace only for ids handed out in this epoch"}}
}
