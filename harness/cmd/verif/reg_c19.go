package main

import "verif/harness/props/c19"

func init() {
	registry["C19"] = entry{run: c19.Run, level: "exploration",
		rule: "cases = CONNECT attempts against a broker with the auth plugin (plain/md5/sha256/bcrypt, password file written with independently computed hashes): v3.1/v3.1.1/v5 x user/password flags x {correct, case, trailing byte, prefix, other user's password, stored hash itself, empty, 65535 bytes, unknown user} x AuthMethod/AuthData x will/clean x TCP/WebSocket, before and after account histories (Update/Delete/re-create through the plugin's account handlers) and broker restarts on the same file; plus scripts of unauthenticated traffic (before CONNECT, after a rejected CONNECT, good credentials after a rejection) whose effects on sessions, subscriptions, retained messages and an authenticated observer must be nil. Non-trivial = distinct (hash, attempt shape, user, verdict) / pre-auth script. Plus rounds of 8 concurrent account calls (16 callers in flight per round, a restart after every second round) on distinct users with restarts. Plus: every account deleted through the API (1 or 2 accounts per hash kind), then a restart on the file the plugin wrote: nobody is accepted or listed. Every second broker of the run carries a second plugin with a pass-through basic-auth wrapper, alternately before and after auth in the plugin order.",
		assumptions: []string{"stdlib md5/sha256 and x/crypto bcrypt as independent reference", "a CONNECT carrying an Authentication Method may legitimately be refused (no enhanced-auth hook); it must never be accepted without valid credentials"}}
}
