// Command verif runs one property check: verif run <ID> [--tier quick|thorough] [--seed N]
package main

import (
	"flag"
	"fmt"
	"os"
	"sort"

	"verif/harness/monitor"
)

type entry struct {
	run         func(r *monitor.Run)
	level       string
	rule        string
	assumptions []string
}

var registry = map[string]entry{}

func main() {
	if len(os.Args) < 3 || os.Args[1] != "run" {
		ids := []string{}
		for k := range registry {
			ids = append(ids, k)
		}
		sort.Strings(ids)
		fmt.Fprintf(os.Stderr, "usage: verif run <ID> [--tier quick|thorough] [--seed N]\nproperties: %v\n", ids)
		os.Exit(2)
	}
	id := os.Args[2]
	fs := flag.NewFlagSet("run", flag.ExitOnError)
	tier := fs.String("tier", envOr("VERIF_TIER", "quick"), "quick|thorough")
	seed := fs.Int64("seed", monitor.SeedFromEnv(), "seed")
	_ = fs.Parse(os.Args[3:])
	e, ok := registry[id]
	if !ok {
		fmt.Fprintf(os.Stderr, "unknown property %s\n", id)
		os.Exit(2)
	}
	if *tier != "thorough" {
		*tier = "quick"
	}
	r := monitor.NewRun(id, *tier, *seed)
	if e.level != "" {
		r.Level = e.level
	}
	e.run(r)
	os.Exit(r.Finish(e.rule, e.assumptions, nil))
}

func envOr(k, d string) string {
	if v := os.Getenv(k); v != "" {
		return v
	}
	return d
}
