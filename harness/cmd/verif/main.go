// Command verif runs one property check: verif run <ID> [--tier quick|thorough] [--seed N]
package main

import (
	"encoding/json"
	"flag"
	"fmt"
	"os"
	"sort"

	"verif/harness/monitor"
)

type entry struct {
	replay      func(r *monitor.Run, detail json.RawMessage)
	run         func(r *monitor.Run)
	level       string
	rule        string
	assumptions []string
}

var registry = map[string]entry{}

func main() {
	if len(os.Args) >= 4 && os.Args[1] == "racefilter" {
		os.Exit(raceFilter(os.Args[2], os.Args[3]))
	}
	if len(os.Args) >= 4 && os.Args[1] == "replay" {
		doReplay(os.Args[2], os.Args[3])
		return
	}
	if len(os.Args) < 3 || os.Args[1] != "run" {
		ids := []string{}
		for k := range registry {
			ids = append(ids, k)
		}
		sort.Strings(ids)
		fmt.Fprintf(os.Stderr, "usage: verif run <ID> [--tier quick|thorough] [--seed N]\nproperties: %v\n", ids)
		os.Exit(2)
	}
	id := os.Args[2]
	fs := flag.NewFlagSet("run", flag.ExitOnError)
	tier := fs.String("tier", envOr("VERIF_TIER", "quick"), "quick|thorough")
	seed := fs.Int64("seed", monitor.SeedFromEnv(), "seed")
	_ = fs.Parse(os.Args[3:])
	e, ok := registry[id]
	if !ok {
		fmt.Fprintf(os.Stderr, "unknown property %s\n", id)
		os.Exit(2)
	}
	if *tier != "thorough" {
		*tier = "quick"
	}
	monitor.StartJitterProbe()
	r := monitor.NewRun(id, *tier, *seed)
	if e.level != "" {
		r.Level = e.level
	}
	e.run(r)
	os.Exit(r.Finish(e.rule, e.assumptions, nil))
}

// doReplay re-executes the scenario stored in a violation file.
func doReplay(id, path string) {
	e, ok := registry[id]
	if !ok || e.replay == nil {
		fmt.Fprintf(os.Stderr, "no replay support for %s\n", id)
		os.Exit(2)
	}
	b, err := os.ReadFile(path)
	if err != nil {
		fmt.Fprintln(os.Stderr, err)
		os.Exit(2)
	}
	var v struct {
		Tier   string
		Seed   int64
		Detail json.RawMessage
	}
	if err := json.Unmarshal(b, &v); err != nil {
		fmt.Fprintln(os.Stderr, err)
		os.Exit(2)
	}
	r := monitor.NewRun(id, "quick", v.Seed)
	r.NoEvidence = true
	e.replay(r, v.Detail)
	if r.NumViolations() > 0 {
		fmt.Println("replay: violation recurred")
		os.Exit(1)
	}
	fmt.Println("replay: no violation this time")
	os.Exit(0)
}

func envOr(k, d string) string {
	if v := os.Getenv(k); v != "" {
		return v
	}
	return d
}
