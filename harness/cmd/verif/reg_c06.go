package main

import (
	"encoding/json"

	"verif/harness/monitor"
	"verif/harness/props/c06"
)

func init() {
	registry["C06"] = entry{run: c06.Run, replay: func(r *monitor.Run, d json.RawMessage) { c06.Replay(r, d) }, level: "exploration",
		rule: "cases = inputs of packets.Reader.ReadPacket (versions 3, 4, 5 via SetVersion), all seeded, fixed counts per tier:  Plus retention (hundreds of packets decoded from one Reader, kept, compared afterwards) and encodings right after a Pack whose writer broke." +
			"(i) well-formed values of all 15 packet types x v3.1/v3.1.1/v5 (every v5 property drawn with p=1/3, all of them in 10% of the values; short and long v5 ack/DISCONNECT/AUTH forms) encoded by the independent codec mqttx; " +
			"(ii) mutants of those bytes (random draws plus a systematic catalogue of every mutation kind and every string field x forbidden content class per type and version): truncation at every offset, remaining length -1/+1/0/max, non-canonical and 5..7-byte length fields, flag/type bits, bit flips, inserts/deletes/splices/glued packets, duplicated/misplaced/unknown/truncated properties, property-length edits, ill-formed UTF-8, U+0000, control characters, invalid topic names and filters, QoS 3, wrong protocol name/level, packet id 0, invalid reason codes; " +
			"(iii) raw random byte strings of length 0..64 with biased first byte and length field; (iv) bombs: at most 8 bytes declaring up to 268,435,455 remaining bytes or huge string/property lengths. " +
			"Monitors per decode: recover() for panics, 10 s watchdog, framing through a counting bufio.Reader with a PINGREQ trailer, TotalAlloc delta (serial section only, limit 64 KiB + 32 x bytes supplied), field-wise comparison with mqttx whenever both decoders accept, Pack -> gmqtt-decode and Pack -> mqttx-decode round trips, TotalBytes after Unpack and Pack. " +
			"Also: session streams CONNECT(v) + packet + PINGREQ through one Reader initially set to another version (CONNECT must decide the version); every generated value built directly as gmqtt struct (incl. server->client only values such as PUBLISH with Subscription Identifiers) -> Pack -> mqttx-decode; gmqtt.Message.TotalBytes vs packed length for random messages and lengths around 127/128, 16383/16384, 2097151/2097152; the four validity predicates on all strings of <= 5 (quick) / 6 (thorough) symbols over {a / + # $ NUL e-acute 0xff}, on $share-prefixed strings and on a list of special code points. " +
			"evaluations = executed inputs (decode inputs + session streams + constructed values + messages + predicate strings). A case is non-trivial if the decoder accepted the input, a well-formed value round-tripped, a message size matched, or a reference predicate accepts the string; distinct by input bytes.",
		assumptions: []string{
			"mqttx (written from the OASIS texts, sharing no code with pkg/packets) decides well-formedness and field values; refmodel and mqttx predicates are compared with each other on every string (disagreement = inconclusive)",
			"well-formed domain for gmqtt's decoder excludes its documented server-role choices: PUBLISH carrying Subscription Identifiers (packets.ValidProperties: 'valid for server to unpack'), v3.x CONNECT with empty client id and Clean Session 0 (decoder answers Identifier Rejected itself), and strings with code points a receiver MAY refuse (U+0001..1F, U+007F..9F, non-characters; MQTT 1.5.4); those are only exercised in the encode direction or as mutants",
			"acceptance of ill-formed input is a violation only where MQTT 1.5.4/4.7 is explicit (ill-formed UTF-8, U+0000, invalid topic name/filter), for truncated streams, for length fields longer than 4 bytes, for inner length fields (string, binary, property length) that run past the end of the packet or are cut off by it, and for framing errors; other leniency (non-canonical lengths, reserved flag bits, protocol errors) is only counted, and such packets must still round-trip",
			"allocation is measured with runtime.MemStats.TotalAlloc in a single-threaded section at the start of the process; inputs declaring more than 1 MiB that arise in the parallel sections are executed serially afterwards, at most 60 (quick) / 400 (thorough) of them",
			"a decode that does not return within 10 s counts as a hang",
		}}
}
