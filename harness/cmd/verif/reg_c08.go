package main

import (
	"encoding/json"

	"verif/harness/monitor"
	"verif/harness/props/c08"
)

func init() {
	c08.RedisCfgFault = redisCfgFault
	registry["C08"] = entry{run: c08.Run, replay: func(r *monitor.Run, d json.RawMessage) { c08.Replay(r, d) }, level: "exploration",
		rule: "cases = cross product (complete in thorough, one of every kind in quick) of will settings (QoS, retain, delay 0/1/2 s, v5 properties, v3.1/v3.1.1/v5) x way the connection ends (DISCONNECT 0x00, DISCONNECT 0x04, socket close, malformed packet, keep-alive timeout, take-over with clean start 0/1, server-side Close, TerminateSession) x session expiry 0/1/5 s x re-attachment (never / before the delay / after it / clean start before it); an independent QoS2 Retain-As-Published subscriber and the retained store are observed; publication time is measured from the broker's OnClosed timestamp and decided only outside a 400 ms margin, timing verdicts must recur on re-execution. Every case is non-trivial; distinct by parameters. Plus: DISCONNECT queued behind a busy packet handler; a Clean Start re-attach while redis refuses the DEL of the old session's queue.",
		assumptions: []string{"real time with whole-second intervals and 400 ms margins", "bounded progress: the will must arrive within delay + 5 s", "take-over with clean start 0 counts as re-attachment before the delay when the delay is > 0"}}
}
