package main

import (
	"encoding/json"

	"verif/harness/monitor"
	"verif/harness/props/c05"
)

func init() {
	c05.RedisCfg = redisCfg
	c05.RedisCfgFault = redisCfgFault
	registry["C05"] = entry{run: c05.Run, replay: func(r *monitor.Run, d json.RawMessage) { c05.Replay(r, d) }, level: "exploration",
		rule: "cases = (a) lifecycle histories of one client id: v3.1/v3.1.1/v5, configured session_expiry 2 s / 2 h, requested expiry absent/0/1/2/3/3600/0xFFFFFFFF, connection shorter or longer than the expiry, DISCONNECT / DISCONNECT with new expiry / abrupt close, TerminateSession, offline time 0.9 s on either side of the expiry, reconnect with clean start 0/1 or as take-over; Session Present, the CONNACK expiry, subscriptions and a QoS1 message queued while offline are compared with a session model (real time, 400 ms margins, verdicts must recur); (b) storms of 2-6 simultaneous CONNECTs with one client id on a new / offline / online session under the Go race detector with seeded delays at the broker's lock hand-over points: exactly one socket answers PINGREQ, the others are closed, hooks never show two attached connections, GetClient is the survivor, later messages reach only the survivor; plus the deterministic take-over of a stuck consumer. Distinct by case parameters; all non-trivial. Plus broker restarts on the redis store during the offline period and sessions that end while redis refuses the DEL of their queue. Ends of the first connection include a DISCONNECT that tries to give an expiry-0 session a non-zero expiry (refused: the session ends as CONNECT said) and, drawn at random, DISCONNECTs that raise, lower or zero the expiry. DISCONNECT values above the configured maximum are capped like the one of CONNECT.",
		assumptions: []string{"real time with 400 ms margins for (a)", "the DISCONNECT 0x8E to a displaced connection is optional", "race reports in gmqtt code during the storms are violations (counted by ./check from the race log)"}}
}
