package main

import (
	"encoding/json"

	"verif/harness/monitor"
	"verif/harness/props/c09"
)

func init() {
	registry["C09"] = entry{run: c09.Run, replay: func(r *monitor.Run, d json.RawMessage) { c09.Replay(r, d) }, level: "fault_enumeration",
		rule: "cases = crash points: a broker with the redis back end (on an in-process RESP server that journals every state-changing command) executes a generated client history one step at a time (persistent v3.1.1/v5 sessions, client ids that start with the letters of the key prefixes, subscriptions with all option values incl. shared, unsubscribes, QoS1/2 publishes to online and offline subscribers, withheld and later acks, QoS2 publishes left awaiting PUBREL) with a barrier after every step, so every journal position is either inside one step (in flight) or after its acknowledgement; for every prefix of the journal (thorough) or a stratified sample of 40 (quick) a fresh broker is started on the replayed store state and sessions, subscriptions with options, undelivered acknowledged messages and QoS2 duplicate detection are checked; operations in flight at the crash point may be either way. Non-trivial = at least one durable fact was checked at that crash point; distinct by (history, prefix length). Plus a fixed history that replays five in-flight messages in batches (Receive Maximum 2) with inflight_expiry set; restarted brokers find their sessions through SCAN pages of 1-10 keys.",
		assumptions: []string{"fakeredis implements the redis semantics of the commands gmqtt issues (it passes gmqtt's own redis store suites)", "a crash loses all volatile state between two storage commands; single commands are atomic", "redis itself does not lose acknowledged writes"}}
}
