package main

import "verif/harness/props/c02"

func init() {
	registry["C02"] = entry{run: c02.Run, level: "exploration",
		rule: "cases = operation histories (subscribe/re-subscribe/unsubscribe/unsubscribe-all) on subscription.Store: all histories up to the tier's length over a tiny universe (2 clients x 6 filters, exhaustive) plus seeded random histories over ~600 filters; after every operation every lookup kind (incl. exact-filter lookups with strings nobody subscribed to, such as $share/g) is compared with a reference table + MQTT 4.7 matcher; plus all valid (name,filter) pairs for TopicMatch. A case is non-trivial if the model table is non-empty at some point; distinct by operation sequence. Plus rounds of 8 concurrent read-only lookups on an unmodified store, each compared with the lone result.",
		assumptions: []string{"reference matcher refmodel.Match implements MQTT 4.7", "store used through its public API from one goroutine (concurrency is C15)"}}
}
