package main

import (
	"github.com/DrmagicE/gmqtt/config"

	"verif/harness/props/c15"
	"verif/harness/redisx"
)

func init() {
	c15.RedisCfgHook = func(c *config.Config) (func(), func(f func(pos int, args [][]byte) string), error) {
		e, err := redisx.NewEnv()
		if err != nil {
			return nil, nil, err
		}
		c.Persistence.Type = config.PersistenceTypeRedis
		c.Persistence.Redis.Addr = e.Srv.Addr()
		return e.Close, e.Srv.SetFault, nil
	}
	registry["C15"] = entry{run: c15.Run, level: "exploration",
		rule: "cases = chaos runs against one broker each, built with the Go race detector and seeded delays at the broker's lock hand-over points: 20-60 scripted v3.1.1/v5 clients (a third sharing client ids) connect, subscribe/unsubscribe (overlapping, shared), publish QoS0-2 (retained, aliases), stop acknowledging, DISCONNECT, close abruptly, some connections never complete CONNECT, while 4 API goroutines call Publisher, SubscriptionService, ClientService (incl. TerminateSession), StatsManager and RetainedService; wills with delays and 1 s session expiries fire meanwhile; Stop is called while traffic flows; GOMAXPROCS rotates over 16/2/4/1. Monitors: race log, recovered and fatal panics, 30 s request watchdog with two goroutine dumps, Stop result, listeners, sockets at EOF, plugin Load/Unload/OnStop counts, goroutine profile polled for 10 s; plus porcupine linearizability of recorded concurrent histories of the retained and subscription stores. Distinct by run parameters / history. Plus directed cases: Stop with pending delayed wills, the will timer firing while the lock holder signals, sessions restored from redis at start-up, refused v3 requests, Stop during a tear-down; chaos runs alternate delivery_mode and one in four runs on redis; panics recovered by connection goroutines are seen through a verif hook. Plus a resumed session whose client stops reading right after CONNACK (20 x 512 KiB retransmissions stuck in its socket, in-flight entries expired, queue full): another client's PUBLISH to its topic and a fresh client are still answered, Stop returns.",
		assumptions: []string{"the Go race detector sees only the schedules produced", "goroutines are attributed to gmqtt by function name (one broker at a time in the process)"}}
}
