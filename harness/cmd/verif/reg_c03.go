package main

import (
	"encoding/json"

	"verif/harness/monitor"
	"verif/harness/props/c03"
)

func init() {
	c03.RedisCfg = redisCfg
	registry["C03"] = entry{run: c03.Run, replay: func(r *monitor.Run, d json.RawMessage) { c03.Replay(r, d) }, level: "exploration",
		rule: "cases = generated (message sequence, acknowledgement script, cut script) triples for one persistent subscriber: QoS1/2 mixes, acks prompt/late/out of order/never/PUBREC-without-PUBCOMP/error codes, abrupt closes and DISCONNECTs at arbitrary packet counts with or without a PINGREQ barrier, Receive Maximum in {absent,1,2,3,10,65535} x max_inflight in {1,2,5,100}, v3.1.1/v5, memory and redis queues; monitors on the subscriber's wire: window bound, identifier uniqueness, resume order/DUP/ids, at-least-once, no retransmission after confirmed acks; thorough adds a 70000-message wrap-around of the identifier space. Non-trivial = at least one retransmission observed; distinct by scenario. A third of the scenarios take their messages from a publisher that sets DUP; a quarter of the v5 scenarios lower the Receive Maximum to 1 on every resume; half run with the default inflight_expiry. Plus directed cases: the same retained QoS 1/2 messages replayed to two persistent sessions with different identifier histories (each retransmits under its own identifiers, DUP only on retransmissions; v3.1.1/v5, 3 interleavings, mem and redis); unacknowledged messages of exactly the declared Maximum Packet Size and one byte less across a resume with the same and with a smaller maximum.",
		assumptions: []string{"the subscriber's count of unacknowledged messages is a lower bound of the broker's", "no drop condition configured (queue 1000, no expiry)", "quiet periods (150 ms) only serve to catch optional extras, never to raise an alarm by themselves except for 'retransmission after confirmed ack'"}}
}
