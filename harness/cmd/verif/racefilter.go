package main

import (
	"fmt"
	"os"
	"regexp"
	"sort"
	"strings"

	"verif/harness/monitor"
)

var frameRe = regexp.MustCompile(`^  (\S+)\(`)

// raceFilter reads a concatenated Go race-detector log, keeps the reports that involve gmqtt code,
// de-duplicates them by the pair of innermost gmqtt functions of the two conflicting accesses and
// reports each pair as a violation (signature race:<fn1>|<fn2>) unless it is a listed known finding.
func raceFilter(id, path string) int {
	b, err := os.ReadFile(path)
	if err != nil {
		fmt.Println("BROKEN: cannot read race log:", err)
		return 2
	}
	r := monitor.NewRun(id, "quick", 0)
	blocks := strings.Split(string(b), "WARNING: DATA RACE")
	pairs := map[string]string{}
	total := 0
	for _, blk := range blocks[1:] {
		total++
		// the two access stacks are the first two paragraphs
		paras := strings.Split(blk, "\n\n")
		var fns []string
		for _, p := range paras {
			if len(fns) == 2 {
				break
			}
			p = strings.TrimLeft(p, "\r\n") // the first paragraph follows the WARNING line directly
			first := ""
			for _, line := range strings.Split(p, "\n") {
				if m := frameRe.FindStringSubmatch(line); m != nil && strings.Contains(m[1], "github.com/DrmagicE/gmqtt") {
					first = m[1]
					break
				}
			}
			head := strings.TrimSpace(strings.SplitN(p, "\n", 2)[0])
			if strings.HasPrefix(head, "Read at") || strings.HasPrefix(head, "Write at") || strings.HasPrefix(head, "Previous") {
				fns = append(fns, first)
			}
		}
		if len(fns) < 2 || (fns[0] == "" && fns[1] == "") {
			continue // a race inside the harness or a dependency only
		}
		sort.Strings(fns)
		key := strings.TrimPrefix(fns[0], "github.com/DrmagicE/gmqtt/") + "|" + strings.TrimPrefix(fns[1], "github.com/DrmagicE/gmqtt/")
		if _, ok := pairs[key]; !ok {
			pairs[key] = blk
		}
	}
	fmt.Printf("race log: %d reports, %d distinct gmqtt function pairs\n", total, len(pairs))
	keys := make([]string, 0, len(pairs))
	for k := range pairs {
		keys = append(keys, k)
	}
	sort.Strings(keys)
	for _, k := range keys {
		blk := pairs[k]
		if len(blk) > 6000 {
			blk = blk[:6000]
		}
		r.Violation("race:"+k, "data race between "+strings.Replace(k, "|", " and ", 1), map[string]any{"report": "WARNING: DATA RACE" + blk})
	}
	r.PrintKnown()
	if r.NumViolations() > 0 {
		return 1
	}
	return 0
}
