//go:build verif

package main

import "verif/harness/props/c16"

func init() {
	registry["C16"] = entry{run: c16.Run, level: "exploration",
		rule: "cases = fault scripts on pairs of in-process nodes federated through real serf/gRPC on loopback, the emitter's stream to the receiver crossing a fault-injecting TCP proxy: 8-32 MQTT operations at the emitter (subscribe/unsubscribe of unique and re-used topics, retained and plain publishes the peer is interested in; one client, or four concurrently) with cuts of all connections, cuts after n more bytes in either direction, 0.3-1 s black holes and cuts during the re-established handshake/resend (thorough: every byte offset 1..600 of a re-established stream); the receiver's applied-event trace (hook after duplicate suppression) must contain every emitted event exactly once in emission order (per client when concurrent) within 15 s after the last fault, the views must converge and every forwarded message must reach the receiver's subscriber once; plus replacement of the receiver by a new node of the same name (full resynchronisation incl. retained messages). Non-trivial = script with at least one fault; distinct by script. Plus: acknowledgements lost in one direction before a resume (60-260 events), resynchronisation while 400 topics are being unsubscribed, bulk events, one-sided bounces, outage with an empty resynchronisation; views are compared with the subscription store. Plus clusters of three nodes whose per-peer event streams have advanced differently (messages forwarded to one peer only): every further subscription change reaches both peers. Plus rounds in which one client of a node gives up the last subscription to a filter while another client subscribes to it, with the hook of one of them held between the node's book-keeping and the emission of its event (verif yield sites fed.unsubscribed.counted / fed.subscribed.counted).",
		assumptions: []string{"hooks of build tag verif expose the applied-event trace and the federation views", "bounded progress: 15 s after the last fault", "serf membership itself is trusted"}}
}
