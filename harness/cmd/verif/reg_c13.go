package main

import (
	"encoding/json"

	"verif/harness/monitor"
	"verif/harness/props/c13"
)

func init() {
	registry["C13"] = entry{run: c13.Run, replay: func(r *monitor.Run, d json.RawMessage) { c13.Replay(r, d) }, level: "exploration",
		rule: "cases = (validator-accepted configuration, script) pairs over server_receive_maximum {1,2,5,100,65535} x topic_alias_maximum {0,1,5,10,65535} x max_packet_size {64,300,268435456} x max_inflight {1,5,100} (all 225 in thorough, a sample in quick); scripts: inbound alias bind/reuse/rebind at 1, mid, max-1 and max; invalid aliases (max+1, 0, unbound); Receive Maximum open/complete cycles and R+1; packets of exactly P and P+1 bytes; outbound: a v5 subscriber declaring Maximum Packet Size {48,64,200,absent} and Topic Alias Maximum {0,1,3,65535} receives messages sized M-6..M+4 on aliased and fresh topics and keeps the spec's alias table. Every case is non-trivial; distinct by (configuration, script, declared maxima). Plus: outbound limits of a resumed session (incl. messages in flight at the resume), messages too large under any alias choice, 28 directed cases where a new alias crosses two length-field boundaries, 90 directed cases with Subscription Identifiers of every varint width (one and two per packet) at M-8..M+1. 32 directed cases with the remaining length / property length exactly on the varint boundaries (subscriber declaring exactly the packet size and one byte less); sessions created by an MQTT 3.1.1 connection and resumed by an MQTT 5 one that declares maxima.",
		assumptions: []string{"mqttx.Size gives the wire size", "a message that fits only thanks to alias compression may be delivered or dropped (either accepted)"}}
}
