package main

import (
	"encoding/json"

	"verif/harness/monitor"
	"verif/harness/props/c20"
)

func init() {
	c20.RedisCfgFault = redisCfgFault
	registry["C20"] = entry{run: c20.Run, replay: func(r *monitor.Run, d json.RawMessage) { c20.Replay(r, d) }, level: "exploration",
		rule: "cases = seeded scenarios: 2-5 persistent v3.1.1/v5 clients exchange random SUBSCRIBE/UNSUBSCRIBE/PUBLISH QoS0-2/PINGREQ traffic, dedicated victims produce exactly known drops (queue full while offline, oversize for the client's Maximum Packet Size, expiry in the queue) and known queued/in-flight gauges, then connection churn (DISCONNECT, reconnect, take-over, TerminateSession, clean start over an offline session) and more traffic; at a logically reached quiescent point (PINGREQ barriers + two identical snapshots) every per-client and global packet/byte/message/drop counter is compared with the wire log of the scripted clients, gauges with the known queue contents, connection counters with the scenario's ground truth, globals with the sum of per-client values; a poller samples the gauges every 100 us for wrap below zero. Every scenario is non-trivial; distinct by seed/parameters. Plus: sessions restored from redis at start-up (drops for them are counted; session gauges right after the restart and session and queue gauges after the resume), directed session-gauge scenarios (expired unswept session replaced, session with queued messages ended, session ended while redis refuses a command). One publish in ten has a remaining length on or next to a boundary of the variable byte integer (127/128, 16383/16384/16385, +-3).",
		assumptions: []string{"mqttx sizes = bytes on the wire", "displaced (taken-over) connections may have been sent packets they never read: 'sent' counters compared with >= for them", "per-client statistics restart when the session is terminated (epoch)"}}
}
