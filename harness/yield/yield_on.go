//go:build verif

// Package yield installs a seeded schedule perturbation at gmqtt's verifYield sites.
package yield

import (
	"math/rand"
	"sync"
	"sync/atomic"
	"time"

	"github.com/DrmagicE/gmqtt/server"
)

var observer atomic.Value // func(site string)

// Observe installs a function that is told about every site hit (nil removes it).
func Observe(f func(site string)) {
	if f == nil {
		f = func(string) {}
	}
	observer.Store(f)
}

var (
	mu    sync.Mutex
	rng   = rand.New(rand.NewSource(1))
	hits  = map[string]int64{}
	level int // 0 off, 1 light (Gosched-like), 2 heavy (up to 2 ms)
)

// Enable installs the callback. heavy=true sleeps up to 2 ms at lock hand-over sites.
func Enable(seed int64, heavy bool) {
	mu.Lock()
	rng = rand.New(rand.NewSource(seed))
	level = 1
	if heavy {
		level = 2
	}
	mu.Unlock()
	server.SetVerifYield(func(site string) {
		if f, ok := observer.Load().(func(string)); ok {
			f(site)
		}
		mu.Lock()
		hits[site]++
		x := rng.Intn(100)
		lv := level
		mu.Unlock()
		switch {
		case lv == 0:
		case lv == 2 && x < 40:
			time.Sleep(time.Duration(x*50) * time.Microsecond)
		case x < 10:
			time.Sleep(time.Duration(x*20) * time.Microsecond)
		}
	})
}

// Hits returns how often each site was reached.
func Hits() map[string]int64 {
	mu.Lock()
	defer mu.Unlock()
	out := map[string]int64{}
	for k, v := range hits {
		out[k] = v
	}
	return out
}

// Available reports whether the hooks are compiled in.
const Available = true
