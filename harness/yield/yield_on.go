//go:build verif

// Package yield installs a seeded schedule perturbation at gmqtt's verifYield sites.
package yield

import (
	"fmt"
	"math/rand"
	"sync"
	"sync/atomic"
	"time"

	"github.com/DrmagicE/gmqtt/server"
)

var observer atomic.Value // func(site string)

// Observe installs a function that is told about every site hit (nil removes it).
func Observe(f func(site string)) {
	if f == nil {
		f = func(string) {}
	}
	observer.Store(f)
}

var (
	mu    sync.Mutex
	rng   = rand.New(rand.NewSource(1))
	hits  = map[string]int64{}
	level int // 0 off, 1 light (Gosched-like), 2 heavy (up to 2 ms)
)

// Enable installs the callback. heavy=true sleeps up to 2 ms at lock hand-over sites.
func Enable(seed int64, heavy bool) {
	mu.Lock()
	rng = rand.New(rand.NewSource(seed))
	level = 1
	if heavy {
		level = 2
	}
	mu.Unlock()
	server.SetVerifYield(func(site string) {
		if f, ok := observer.Load().(func(string)); ok {
			f(site)
		}
		mu.Lock()
		hits[site]++
		x := rng.Intn(100)
		lv := level
		mu.Unlock()
		switch {
		case lv == 0:
		case lv == 2 && x < 40:
			time.Sleep(time.Duration(x*50) * time.Microsecond)
		case x < 10:
			time.Sleep(time.Duration(x*20) * time.Microsecond)
		}
	})
}

// Hits returns how often each site was reached.
func Hits() map[string]int64 {
	mu.Lock()
	defer mu.Unlock()
	out := map[string]int64{}
	for k, v := range hits {
		out[k] = v
	}
	return out
}

// Available reports whether the hooks are compiled in.
const Available = true

// Recovered is one panic a connection goroutine of the broker recovered from.
type Recovered struct {
	Site  string
	Value string
	Stack string
}

var (
	recMu  sync.Mutex
	recs   []Recovered
	recSet bool
)

// WatchRecovered starts collecting the panics the broker's connection goroutines recover from (idempotent).
func WatchRecovered() {
	recMu.Lock()
	defer recMu.Unlock()
	if recSet {
		return
	}
	recSet = true
	server.SetVerifRecovered(func(site string, v interface{}, stack []byte) {
		recMu.Lock()
		if len(recs) < 1000 {
			recs = append(recs, Recovered{Site: site, Value: fmt.Sprint(v), Stack: string(stack)})
		}
		recMu.Unlock()
	})
}

// TakeRecovered returns and forgets what was collected.
func TakeRecovered() []Recovered {
	recMu.Lock()
	defer recMu.Unlock()
	out := recs
	recs = nil
	return out
}
