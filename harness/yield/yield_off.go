//go:build !verif

// Package yield: without the build tag verif the hooks are not compiled in.
package yield

func Enable(seed int64, heavy bool) {}
func Hits() map[string]int64       { return map[string]int64{} }

const Available = false

// Observe is a no-op without the hooks.
func Observe(f func(site string)) {}

// Recovered is one panic a connection goroutine of the broker recovered from.
type Recovered struct{ Site, Value, Stack string }

func WatchRecovered()             {}
func TakeRecovered() []Recovered { return nil }
