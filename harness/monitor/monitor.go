// Package monitor holds the verdict discipline shared by all checks:
// counting of evaluations / distinct non-trivial cases, violations with
// signatures, known findings, inconclusive cases, evidence files, replay files.
package monitor

import (
	"bufio"
	"encoding/json"
	"fmt"
	"hash/fnv"
	"math/rand"
	"os"
	"path/filepath"
	"runtime"
	"sort"
	"strconv"
	"strings"
	"sync"
	"time"
)

// Root returns the /verif directory (env VERIF_ROOT, default /verif).
func Root() string {
	if r := os.Getenv("VERIF_ROOT"); r != "" {
		return r
	}
	return "/verif"
}

// Violation is one refuted case.
type Violation struct {
	Sig    string `json:"sig"`
	What   string `json:"what"`
	Detail any    `json:"detail,omitempty"`
	Known  bool   `json:"known"`
	Replay string `json:"replay,omitempty"`
}

// Run collects everything one check invocation observed.
type Run struct {
	Prop  string
	Tier  string
	Seed  int64
	Level string // exploration | fault_enumeration | ...

	start time.Time
	mu    sync.Mutex

	evaluations  int64
	distinct     map[uint64]struct{}
	samples      []any
	maxSamples   int
	counters     map[string]int64
	sets         map[string]map[string]struct{}
	violations   []Violation
	unknownSigs  map[string]int
	knownSeen    map[string]int
	inconclusive []string
	known        map[string]string // sig -> text
	exhaustive   bool
	InconBudget  float64 // allowed fraction of inconclusive cases
	NoEvidence   bool    // replay mode: do not write the evidence file
	MaxReplays   int
}

// NewRun creates a run; level defaults to "exploration".
func NewRun(prop, tier string, seed int64) *Run {
	r := &Run{
		Prop: prop, Tier: tier, Seed: seed, Level: "exploration",
		start:       time.Now(),
		distinct:    map[uint64]struct{}{},
		counters:    map[string]int64{},
		sets:        map[string]map[string]struct{}{},
		unknownSigs: map[string]int{},
		knownSeen:   map[string]int{},
		known:       map[string]string{},
		maxSamples:  6,
		InconBudget: 0.05,
		MaxReplays:  10,
	}
	r.loadKnown()
	return r
}

// Quick reports whether this is the quick tier.
func (r *Run) Quick() bool { return r.Tier != "thorough" }

// Pick returns q in the quick tier and t in the thorough tier.
func (r *Run) Pick(q, t int) int {
	if r.Quick() {
		return q
	}
	return t
}

// Rand returns a PRNG derived from the run seed and a stream name, so that
// independent parts of a check draw independent but reproducible streams.
func (r *Run) Rand(stream string) *rand.Rand {
	h := fnv.New64a()
	h.Write([]byte(r.Prop))
	h.Write([]byte{0})
	h.Write([]byte(stream))
	return rand.New(rand.NewSource(r.Seed*1000003 + int64(h.Sum64()&0x7fffffffffff)))
}

func (r *Run) loadKnown() {
	f, err := os.Open(filepath.Join(Root(), "KNOWN_FINDINGS"))
	if err != nil {
		return
	}
	defer f.Close()
	sc := bufio.NewScanner(f)
	sc.Buffer(make([]byte, 1<<20), 1<<20)
	for sc.Scan() {
		line := strings.TrimSpace(sc.Text())
		if !strings.HasPrefix(line, "known:") {
			continue
		}
		rest := strings.TrimSpace(strings.TrimPrefix(line, "known:"))
		head, text, _ := strings.Cut(rest, "::")
		var prop, sig string
		for _, f := range strings.Fields(head) {
			if v, ok := strings.CutPrefix(f, "property="); ok {
				prop = v
			}
			if v, ok := strings.CutPrefix(f, "sig="); ok {
				sig = v
			}
		}
		if prop == r.Prop && sig != "" {
			r.known[sig] = strings.TrimSpace(text)
		}
	}
}

// IsKnown tells whether sig is a listed known finding of this property.
func (r *Run) IsKnown(sig string) bool {
	r.mu.Lock()
	defer r.mu.Unlock()
	_, ok := r.known[sig]
	return ok
}

// Eval counts n generated/executed cases.
func (r *Run) Eval(n int) {
	r.mu.Lock()
	r.evaluations += int64(n)
	r.mu.Unlock()
}

// Nontrivial records a case that reached the state the property talks about;
// key is the canonical description of the case (hashed for distinctness).
func (r *Run) Nontrivial(key string) {
	h := fnv.New64a()
	h.Write([]byte(key))
	r.mu.Lock()
	r.distinct[h.Sum64()] = struct{}{}
	r.mu.Unlock()
}

// Sample keeps the first few samples verbatim for the evidence file.
func (r *Run) Sample(v any) {
	r.mu.Lock()
	if len(r.samples) < r.maxSamples {
		r.samples = append(r.samples, v)
	}
	r.mu.Unlock()
}

// Count adds n to a named counter reported under coverage.observed.
func (r *Run) Count(name string, n int64) {
	r.mu.Lock()
	r.counters[name] += n
	r.mu.Unlock()
}

// Max raises a named counter to at least n.
func (r *Run) Max(name string, n int64) {
	r.mu.Lock()
	if r.counters[name] < n {
		r.counters[name] = n
	}
	r.mu.Unlock()
}

// Distinct adds an element to a named set; the set sizes are reported.
func (r *Run) Distinct(set, elem string) {
	r.mu.Lock()
	m := r.sets[set]
	if m == nil {
		m = map[string]struct{}{}
		r.sets[set] = m
	}
	if len(m) < 1<<20 {
		m[elem] = struct{}{}
	}
	r.mu.Unlock()
}

// Counter reads a counter.
func (r *Run) Counter(name string) int64 {
	r.mu.Lock()
	defer r.mu.Unlock()
	return r.counters[name]
}

// SetExhaustive marks the explored space as completely enumerated.
func (r *Run) SetExhaustive(b bool) { r.exhaustive = b }

// Inconclusive records a case that could not be decided.
func (r *Run) Inconclusive(what string) {
	r.mu.Lock()
	r.inconclusive = append(r.inconclusive, what)
	r.mu.Unlock()
}

// Violation records a refuted case. sig is the signature (kind of assertion +
// minimal discriminating parameters, never seeds or payloads). detail is
// written to the replay file. Returns true if it is a listed known finding.
func (r *Run) Violation(sig, what string, detail any) bool {
	r.mu.Lock()
	defer r.mu.Unlock()
	_, known := r.known[sig]
	if known {
		r.knownSeen[sig]++
		return true
	}
	r.unknownSigs[sig]++
	if r.unknownSigs[sig] > 3 || len(r.violations) >= r.MaxReplays*4 {
		return false // enough witnesses of this signature
	}
	v := Violation{Sig: sig, What: what, Detail: detail}
	dir := filepath.Join(Root(), "out", r.Prop)
	_ = os.MkdirAll(dir, 0o755)
	path := filepath.Join(dir, fmt.Sprintf("violation-%s-%d-%d.json", r.Tier, r.Seed, len(r.violations)+1))
	v.Replay = path
	b, err := json.MarshalIndent(map[string]any{
		"property": r.Prop, "tier": r.Tier, "seed": r.Seed, "sig": sig, "what": what, "detail": detail,
	}, "", " ")
	if err != nil {
		b = []byte(fmt.Sprintf("{\"property\":%q,\"sig\":%q,\"what\":%q,\"detail\":%q}", r.Prop, sig, what, fmt.Sprint(detail)))
	}
	_ = os.WriteFile(path, b, 0o644)
	r.violations = append(r.violations, v)
	fmt.Printf("VIOLATION property=%s replay=%s\n  sig=%s\n  %s\n", r.Prop, path, sig, what)
	return false
}

// PrintKnown prints the KNOWN-FINDING lines collected so far (for helpers that do not call Finish).
func (r *Run) PrintKnown() {
	r.mu.Lock()
	defer r.mu.Unlock()
	for s, n := range r.knownSeen {
		fmt.Printf("KNOWN-FINDING: property=%s sig=%s occurrences=%d :: %s\n", r.Prop, s, n, r.known[s])
	}
}

// NumViolations returns the number of unlisted violation signatures so far.
func (r *Run) NumViolations() int {
	r.mu.Lock()
	defer r.mu.Unlock()
	return len(r.unknownSigs)
}

// Finish writes the evidence file, prints KNOWN-FINDING lines and returns the
// process exit code (0 held, 1 violated, 2 inconclusive/broken).
func (r *Run) Finish(rule string, assumptions []string, extra map[string]any) int {
	r.mu.Lock()
	defer r.mu.Unlock()
	wall := time.Since(r.start).Seconds()

	sigs := make([]string, 0, len(r.knownSeen))
	for s := range r.knownSeen {
		sigs = append(sigs, s)
	}
	sort.Strings(sigs)
	for _, s := range sigs {
		fmt.Printf("KNOWN-FINDING: property=%s sig=%s occurrences=%d :: %s\n", r.Prop, s, r.knownSeen[s], r.known[s])
	}

	observed := map[string]any{}
	for k, v := range r.counters {
		observed[k] = v
	}
	for k, v := range r.sets {
		observed["distinct_"+k] = len(v)
	}
	cov := map[string]any{
		"evaluations":         r.evaluations,
		"distinct_nontrivial": len(r.distinct),
		"rule":                rule,
		"samples":             r.samples,
		"observed":            observed,
		"inconclusive":        len(r.inconclusive),
		"known_findings_seen": r.knownSeen,
	}
	if r.exhaustive {
		cov["exhaustive"] = true
	}
	if len(r.inconclusive) > 0 {
		n := len(r.inconclusive)
		if n > 5 {
			n = 5
		}
		cov["inconclusive_examples"] = r.inconclusive[:n]
	}
	if len(r.unknownSigs) > 0 {
		cov["violation_signatures"] = r.unknownSigs
	}
	for k, v := range extra {
		cov[k] = v
	}
	if r.samples == nil {
		cov["samples"] = []any{}
	}
	ev := map[string]any{
		"property_id": r.Prop,
		"tier":        r.Tier,
		"seed":        r.Seed,
		"level":       r.Level,
		"coverage":    cov,
		"assumptions": assumptions,
		"wall_s":      float64(int(wall*100)) / 100,
		"violations":  len(r.unknownSigs),
	}
	if !r.NoEvidence {
		dir := filepath.Join(Root(), "evidence")
		_ = os.MkdirAll(dir, 0o755)
		b, _ := json.MarshalIndent(ev, "", " ")
		_ = os.WriteFile(filepath.Join(dir, r.Prop+".json"), append(b, '\n'), 0o644)
	}

	fmt.Printf("%s %s seed=%d: evaluations=%d distinct_nontrivial=%d violations=%d known=%d inconclusive=%d wall=%.1fs\n",
		r.Prop, r.Tier, r.Seed, r.evaluations, len(r.distinct), len(r.unknownSigs), len(r.knownSeen), len(r.inconclusive), wall)
	keys := make([]string, 0, len(observed))
	for k := range observed {
		keys = append(keys, k)
	}
	sort.Strings(keys)
	for _, k := range keys {
		fmt.Printf("  observed %s=%v\n", k, observed[k])
	}
	if len(r.unknownSigs) > 0 {
		return 1
	}
	if r.evaluations == 0 || len(r.distinct) < 2 {
		fmt.Printf("BROKEN: %s observed nothing (evaluations=%d distinct_nontrivial=%d)\n", r.Prop, r.evaluations, len(r.distinct))
		return 2
	}
	if float64(len(r.inconclusive)) > r.InconBudget*float64(r.evaluations) && len(r.inconclusive) > 0 {
		fmt.Printf("INCONCLUSIVE: %s had %d inconclusive cases of %d (budget %.0f%%): %v\n", r.Prop, len(r.inconclusive), r.evaluations, r.InconBudget*100, cov["inconclusive_examples"])
		return 2
	}
	return 0
}

// SeedFromEnv parses VERIF_SEED (default 1).
func SeedFromEnv() int64 {
	if s := os.Getenv("VERIF_SEED"); s != "" {
		if v, err := strconv.ParseInt(s, 10, 64); err == nil {
			return v
		}
	}
	return 1
}

// J renders v as compact JSON (for signatures' detail and keys).
func J(v any) string {
	b, err := json.Marshal(v)
	if err != nil {
		return fmt.Sprint(v)
	}
	return string(b)
}

// Parallel runs fn(0..n-1) on at most workers goroutines.
func (r *Run) Parallel(n, workers int, fn func(i int)) {
	var wg sync.WaitGroup
	sem := make(chan struct{}, workers)
	for i := 0; i < n; i++ {
		wg.Add(1)
		sem <- struct{}{}
		go func(i int) {
			defer wg.Done()
			defer func() { <-sem }()
			fn(i)
		}(i)
	}
	wg.Wait()
}

// GoroutineDump returns the stacks of all goroutines that have a frame matching substr
// (all goroutines if substr is empty). Used as witness for stuck requests.
func GoroutineDump(substr string) []string {
	buf := make([]byte, 1<<22)
	n := runtime.Stack(buf, true)
	var out []string
	for _, g := range strings.Split(string(buf[:n]), "\n\n") {
		if substr == "" || strings.Contains(g, substr) {
			out = append(out, g)
		}
	}
	return out
}

// ---- scheduling-latency probe ------------------------------------------------------------------
//
// Verdicts of the form "X did not happen within T" are only as good as the machine's ability to run
// goroutines on time. A probe goroutine sleeps 5 ms at a time and records by how much each sleep overshoots;
// a check asks for the worst overshoot during the interval its verdict depends on and treats the case as
// inconclusive if the harness' own timers were that late.

type jitterSample struct {
	at   time.Time
	over time.Duration
}

var (
	jitterOnce sync.Once
	jitterMu   sync.Mutex
	jitterRing []jitterSample
)

func startJitterProbe() {
	jitterOnce.Do(func() {
		go func() {
			for {
				t0 := time.Now()
				time.Sleep(5 * time.Millisecond)
				over := time.Since(t0) - 5*time.Millisecond
				if over > 20*time.Millisecond {
					jitterMu.Lock()
					jitterRing = append(jitterRing, jitterSample{time.Now(), over})
					if len(jitterRing) > 4096 {
						jitterRing = jitterRing[len(jitterRing)-2048:]
					}
					jitterMu.Unlock()
				}
			}
		}()
	})
}

// Jitter returns the largest overshoot of the probe's 5 ms sleeps observed since `since` (0 if none above 20 ms).
func Jitter(since time.Time) time.Duration {
	startJitterProbe()
	jitterMu.Lock()
	defer jitterMu.Unlock()
	var m time.Duration
	for i := len(jitterRing) - 1; i >= 0; i-- {
		if jitterRing[i].at.Before(since) {
			break
		}
		if jitterRing[i].over > m {
			m = jitterRing[i].over
		}
	}
	return m
}

// StartJitterProbe starts the probe (idempotent); called by the CLI before any check runs.
func StartJitterProbe() { startJitterProbe() }
