package wire

import (
	"fmt"
	"net"
	"testing"
	"time"

	"verif/harness/broker"
	"verif/harness/mqttx"
)

// Probe: take-over of a v5 connection whose consumer stopped reading.
func TestProbeTakeoverStuckConsumer(t *testing.T) {
	b, err := broker.Start(broker.Options{})
	if err != nil {
		t.Fatal(err)
	}
	defer b.Stop(5 * time.Second)
	// raw connection that never reads after SUBACK
	conn, err := net.Dial("tcp", b.Addr)
	if err != nil {
		t.Fatal(err)
	}
	c := New("stuck", conn, mqttx.V5)
	e := uint32(100)
	if _, err := c.Connect(&mqttx.Packet{ClientID: "x", CleanStart: true, Props: &mqttx.Props{SessionExpiry: &e}}, 5*time.Second); err != nil {
		t.Fatal(err)
	}
	if _, err := c.Subscribe([]mqttx.Sub{{Filter: "t", QoS: 0}}, 0, 5*time.Second); err != nil {
		t.Fatal(err)
	}
	// stop reading: shrink the receive buffer and block the reader by never calling Read again is not possible with the
	// background reader, so use a second raw socket instead
	c.Close()
	raw, err := net.Dial("tcp", b.Addr)
	if err != nil {
		t.Fatal(err)
	}
	defer raw.Close()
	_ = raw.(*net.TCPConn).SetReadBuffer(1024)
	pk, _ := mqttx.Encode(&mqttx.Packet{Type: mqttx.CONNECT, ProtoName: "MQTT", Level: 5, ClientID: "x", CleanStart: false, Props: &mqttx.Props{SessionExpiry: &e}}, mqttx.V5)
	raw.Write(pk)
	time.Sleep(200 * time.Millisecond)
	big := make([]byte, 60000)
	for i := 0; i < 400; i++ {
		b.Publish("t", string(big), 0, false)
	}
	time.Sleep(300 * time.Millisecond)
	// now take over
	c2, err := Dial("new", b.Addr, mqttx.V5)
	if err != nil {
		t.Fatal(err)
	}
	defer c2.Close()
	start := time.Now()
	ack, err := c2.Connect(&mqttx.Packet{ClientID: "x", CleanStart: false, Props: &mqttx.Props{SessionExpiry: &e}}, 8*time.Second)
	fmt.Println("takeover connack:", ack, err, time.Since(start))
	if err != nil {
		t.Fatalf("take-over of a stuck consumer got no CONNACK: %v", err)
	}
}
