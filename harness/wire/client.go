// Package wire is a scripted MQTT client over net.Conn (TCP or WebSocket) that
// records every packet sent and received with monotonic timestamps. It uses
// the independent codec mqttx only.
package wire

import (
	"errors"
	"fmt"
	"io"
	"net"
	"sync"
	"time"

	"github.com/gorilla/websocket"

	"verif/harness/broker"
	"verif/harness/mqttx"
)

// Rec is one packet seen on the wire.
type Rec struct {
	Seq  int64
	T    time.Duration
	Dir  string // "in" (from broker) or "out"
	P    *mqttx.Packet
	Size int
}

// Client is a scripted client. All methods are safe for concurrent use.
type Client struct {
	Name string
	V    mqttx.Version
	conn net.Conn

	mu       sync.Mutex
	wake     chan struct{}
	log      []Rec // everything, in order
	ctl      []*mqttx.Packet // unconsumed non-PUBLISH packets
	pubs     []Rec           // received PUBLISH packets
	eof      bool
	readErr  error
	eofAt    time.Duration
	wmu      sync.Mutex
	nextID   uint16

	// AutoAck: answer PUBLISH QoS1 with PUBACK, QoS2 with PUBREC, PUBREL with PUBCOMP.
	AutoAck bool
	// OnPublish, if set, is called (in the reader goroutine) for every PUBLISH before auto-ack;
	// returning false suppresses the automatic acknowledgement of that packet.
	OnPublish func(p *mqttx.Packet) bool
	// Violations found by the codec itself (malformed packet from the broker).
	DecodeErr error
}

// Dial opens a TCP connection.
func Dial(name, addr string, v mqttx.Version) (*Client, error) {
	conn, err := net.DialTimeout("tcp", addr, 5*time.Second)
	if err != nil {
		return nil, err
	}
	return New(name, conn, v), nil
}

// New wraps an existing connection and starts the reader.
func New(name string, conn net.Conn, v mqttx.Version) *Client {
	c := &Client{Name: name, V: v, conn: conn, wake: make(chan struct{}), AutoAck: true}
	go c.readLoop()
	return c
}

func (c *Client) broadcast() {
	close(c.wake)
	c.wake = make(chan struct{})
}

func (c *Client) readLoop() {
	rd := mqttx.NewReader(c.conn, c.V)
	for {
		p, raw, err := rd.ReadPacket()
		if err != nil {
			c.mu.Lock()
			c.eof = true
			c.eofAt = broker.Now()
			c.readErr = err
			var me *mqttx.MalformedError
			if errors.As(err, &me) {
				c.DecodeErr = fmt.Errorf("%w (raw % x)", err, raw)
			}
			c.broadcast()
			c.mu.Unlock()
			return
		}
		rec := Rec{Seq: broker.NextSeq(), T: broker.Now(), Dir: "in", P: p, Size: len(raw)}
		c.mu.Lock()
		c.log = append(c.log, rec)
		if p.Type == mqttx.PUBLISH {
			c.pubs = append(c.pubs, rec)
		} else {
			c.ctl = append(c.ctl, p)
		}
		auto := c.AutoAck
		onPub := c.OnPublish
		if p.Type != mqttx.PUBLISH && p.Type != mqttx.PUBREL {
			c.broadcast()
		}
		c.mu.Unlock()
		// For PUBLISH and PUBREL the automatic acknowledgement is written BEFORE anybody waiting for the packet is
		// woken: whoever has seen the packet may rely on its acknowledgement preceding anything he sends next.
		switch p.Type {
		case mqttx.PUBLISH:
			ack := auto
			if onPub != nil {
				ack = onPub(p) && auto
			}
			if ack {
				switch p.QoS {
				case 1:
					_ = c.Send(&mqttx.Packet{Type: mqttx.PUBACK, PacketID: p.PacketID})
				case 2:
					_ = c.Send(&mqttx.Packet{Type: mqttx.PUBREC, PacketID: p.PacketID})
				}
			}
		case mqttx.PUBREL:
			if auto {
				_ = c.Send(&mqttx.Packet{Type: mqttx.PUBCOMP, PacketID: p.PacketID})
			}
		}
		if p.Type == mqttx.PUBLISH || p.Type == mqttx.PUBREL {
			c.mu.Lock()
			c.broadcast()
			c.mu.Unlock()
		}
	}
}

// Send encodes and writes one packet.
func (c *Client) Send(p *mqttx.Packet) error {
	b, err := mqttx.Encode(p, c.V)
	if err != nil {
		return err
	}
	return c.SendRaw(b, p)
}

// SendRaw writes raw bytes (p is only recorded; may be nil).
func (c *Client) SendRaw(b []byte, p *mqttx.Packet) error {
	c.wmu.Lock()
	defer c.wmu.Unlock()
	c.mu.Lock()
	c.log = append(c.log, Rec{Seq: broker.NextSeq(), T: broker.Now(), Dir: "out", P: p, Size: len(b)})
	c.mu.Unlock()
	_ = c.conn.SetWriteDeadline(time.Now().Add(10 * time.Second))
	_, err := c.conn.Write(b)
	return err
}

// NextID returns a fresh packet identifier for client-originated packets.
func (c *Client) NextID() uint16 {
	c.mu.Lock()
	defer c.mu.Unlock()
	c.nextID++
	if c.nextID == 0 {
		c.nextID = 1
	}
	return c.nextID
}

var ErrTimeout = errors.New("wire: timeout")
var ErrClosed = errors.New("wire: connection closed by peer")

// WaitCtl waits for (and consumes) the first unconsumed non-PUBLISH packet satisfying pred.
func (c *Client) WaitCtl(pred func(*mqttx.Packet) bool, timeout time.Duration) (*mqttx.Packet, error) {
	deadline := time.Now().Add(timeout)
	for {
		c.mu.Lock()
		for i, p := range c.ctl {
			if pred(p) {
				c.ctl = append(c.ctl[:i], c.ctl[i+1:]...)
				c.mu.Unlock()
				return p, nil
			}
		}
		if c.eof {
			c.mu.Unlock()
			return nil, ErrClosed
		}
		w := c.wake
		c.mu.Unlock()
		rem := time.Until(deadline)
		if rem <= 0 {
			return nil, ErrTimeout
		}
		select {
		case <-w:
		case <-time.After(rem):
		}
	}
}

// WaitType waits for a control packet of type t (and packet id if id != 0).
func (c *Client) WaitType(t byte, id uint16, timeout time.Duration) (*mqttx.Packet, error) {
	return c.WaitCtl(func(p *mqttx.Packet) bool { return p.Type == t && (id == 0 || p.PacketID == id) }, timeout)
}

// Connect sends CONNECT and waits for CONNACK.
func (c *Client) Connect(p *mqttx.Packet, timeout time.Duration) (*mqttx.Packet, error) {
	p.Type = mqttx.CONNECT
	if p.Level == 0 {
		p.Level = byte(c.V)
	}
	if p.ProtoName == "" {
		if c.V == mqttx.V31 {
			p.ProtoName = "MQIsdp"
		} else {
			p.ProtoName = "MQTT"
		}
	}
	if err := c.Send(p); err != nil {
		return nil, err
	}
	return c.WaitType(mqttx.CONNACK, 0, timeout)
}

// Ping is a per-connection processing barrier: PINGREQ -> PINGRESP.
func (c *Client) Ping(timeout time.Duration) error {
	if err := c.Send(&mqttx.Packet{Type: mqttx.PINGREQ}); err != nil {
		return err
	}
	_, err := c.WaitType(mqttx.PINGRESP, 0, timeout)
	return err
}

// Subscribe sends SUBSCRIBE and waits for the SUBACK.
func (c *Client) Subscribe(subs []mqttx.Sub, subID uint32, timeout time.Duration) (*mqttx.Packet, error) {
	id := c.NextID()
	p := &mqttx.Packet{Type: mqttx.SUBSCRIBE, PacketID: id, Subs: subs}
	if subID != 0 && c.V == mqttx.V5 {
		p.Props = &mqttx.Props{SubscriptionIDs: []uint32{subID}}
	}
	if err := c.Send(p); err != nil {
		return nil, err
	}
	return c.WaitType(mqttx.SUBACK, id, timeout)
}

// Unsubscribe sends UNSUBSCRIBE and waits for UNSUBACK.
func (c *Client) Unsubscribe(filters []string, timeout time.Duration) (*mqttx.Packet, error) {
	id := c.NextID()
	if err := c.Send(&mqttx.Packet{Type: mqttx.UNSUBSCRIBE, PacketID: id, Filters: filters}); err != nil {
		return nil, err
	}
	return c.WaitType(mqttx.UNSUBACK, id, timeout)
}

// Publish sends a PUBLISH and, for QoS>0, completes the acknowledgement flow.
// It returns the PUBACK / PUBREC packet (nil for QoS 0).
func (c *Client) Publish(p *mqttx.Packet, timeout time.Duration) (*mqttx.Packet, error) {
	p.Type = mqttx.PUBLISH
	if p.QoS > 0 && p.PacketID == 0 {
		p.PacketID = c.NextID()
	}
	if err := c.Send(p); err != nil {
		return nil, err
	}
	switch p.QoS {
	case 1:
		return c.WaitType(mqttx.PUBACK, p.PacketID, timeout)
	case 2:
		rec, err := c.WaitType(mqttx.PUBREC, p.PacketID, timeout)
		if err != nil {
			return nil, err
		}
		if c.V == mqttx.V5 && rec.Code >= 0x80 {
			return rec, nil
		}
		if err := c.Send(&mqttx.Packet{Type: mqttx.PUBREL, PacketID: p.PacketID}); err != nil {
			return rec, err
		}
		_, err = c.WaitType(mqttx.PUBCOMP, p.PacketID, timeout)
		return rec, err
	}
	return nil, nil
}

// Publishes returns a snapshot of received PUBLISH records.
func (c *Client) Publishes() []Rec {
	c.mu.Lock()
	defer c.mu.Unlock()
	return append([]Rec(nil), c.pubs...)
}

// WaitPublish waits until a received PUBLISH at index >= from satisfies pred; returns its index.
func (c *Client) WaitPublish(from int, pred func(*mqttx.Packet) bool, timeout time.Duration) (int, error) {
	deadline := time.Now().Add(timeout)
	for {
		c.mu.Lock()
		for i := from; i < len(c.pubs); i++ {
			if pred(c.pubs[i].P) {
				c.mu.Unlock()
				return i, nil
			}
		}
		from = len(c.pubs)
		if c.eof {
			c.mu.Unlock()
			return -1, ErrClosed
		}
		w := c.wake
		c.mu.Unlock()
		rem := time.Until(deadline)
		if rem <= 0 {
			return -1, ErrTimeout
		}
		select {
		case <-w:
		case <-time.After(rem):
		}
	}
}

// WaitPayload waits for a PUBLISH with the given payload.
func (c *Client) WaitPayload(payload string, timeout time.Duration) error {
	_, err := c.WaitPublish(0, func(p *mqttx.Packet) bool { return string(p.Payload) == payload }, timeout)
	return err
}

// Log returns a snapshot of everything sent and received.
func (c *Client) Log() []Rec {
	c.mu.Lock()
	defer c.mu.Unlock()
	return append([]Rec(nil), c.log...)
}

// Ctl returns (without consuming) the unconsumed control packets.
func (c *Client) Ctl() []*mqttx.Packet {
	c.mu.Lock()
	defer c.mu.Unlock()
	return append([]*mqttx.Packet(nil), c.ctl...)
}

// EOF reports whether the broker closed the connection (and when).
func (c *Client) EOF() (bool, time.Duration, error) {
	c.mu.Lock()
	defer c.mu.Unlock()
	return c.eof, c.eofAt, c.readErr
}

// WaitEOF waits until the connection is closed by the peer.
func (c *Client) WaitEOF(timeout time.Duration) bool {
	deadline := time.Now().Add(timeout)
	for {
		c.mu.Lock()
		if c.eof {
			c.mu.Unlock()
			return true
		}
		w := c.wake
		c.mu.Unlock()
		rem := time.Until(deadline)
		if rem <= 0 {
			return false
		}
		select {
		case <-w:
		case <-time.After(rem):
		}
	}
}

// Close closes the socket abruptly (no DISCONNECT).
func (c *Client) Close() { _ = c.conn.Close() }

// Disconnect sends DISCONNECT (reason code for v5) and closes.
func (c *Client) Disconnect(code byte, props *mqttx.Props) {
	_ = c.Send(&mqttx.Packet{Type: mqttx.DISCONNECT, Code: code, Props: props})
	// TCP delivers the DISCONNECT before the FIN; gmqtt handles queued packets before unregistering
	_ = c.conn.Close()
}

// ---- websocket transport ----------------------------------------------------

// WSConn adapts a gorilla websocket connection to net.Conn: reads concatenate
// binary message payloads, each Write is one binary message.
type WSConn struct {
	*websocket.Conn
	buf []byte
	// Frames records the message type of every frame received.
	mu     sync.Mutex
	Frames []int
}

func (w *WSConn) Read(p []byte) (int, error) {
	for len(w.buf) == 0 {
		mt, b, err := w.Conn.ReadMessage()
		if err != nil {
			if websocket.IsCloseError(err, websocket.CloseNormalClosure, websocket.CloseGoingAway, websocket.CloseAbnormalClosure, websocket.CloseNoStatusReceived) {
				return 0, io.EOF
			}
			return 0, err
		}
		w.mu.Lock()
		w.Frames = append(w.Frames, mt)
		w.mu.Unlock()
		w.buf = b
	}
	n := copy(p, w.buf)
	w.buf = w.buf[n:]
	return n, nil
}

func (w *WSConn) Write(p []byte) (int, error) {
	if err := w.Conn.WriteMessage(websocket.BinaryMessage, p); err != nil {
		return 0, err
	}
	return len(p), nil
}

func (w *WSConn) SetDeadline(t time.Time) error {
	_ = w.Conn.SetReadDeadline(t)
	return w.Conn.SetWriteDeadline(t)
}

// DialWS opens a websocket connection (subprotocol mqtt).
func DialWS(addr string) (*WSConn, error) {
	d := websocket.Dialer{Subprotocols: []string{"mqtt"}, HandshakeTimeout: 5 * time.Second}
	c, _, err := d.Dial("ws://"+addr+"/", nil)
	if err != nil {
		return nil, err
	}
	return &WSConn{Conn: c}, nil
}

// In returns a snapshot of all incoming packets in arrival order.
func (c *Client) In() []Rec {
	c.mu.Lock()
	defer c.mu.Unlock()
	var out []Rec
	for _, r := range c.log {
		if r.Dir == "in" {
			out = append(out, r)
		}
	}
	return out
}

// WaitIn waits until more than n packets have arrived; returns false on timeout or EOF without new packets.
func (c *Client) WaitIn(n int, timeout time.Duration) bool {
	deadline := time.Now().Add(timeout)
	for {
		c.mu.Lock()
		cnt := 0
		for _, r := range c.log {
			if r.Dir == "in" {
				cnt++
			}
		}
		if cnt > n {
			c.mu.Unlock()
			return true
		}
		if c.eof {
			c.mu.Unlock()
			return false
		}
		w := c.wake
		c.mu.Unlock()
		rem := time.Until(deadline)
		if rem <= 0 {
			return false
		}
		select {
		case <-w:
		case <-time.After(rem):
		}
	}
}

// FrameTypes returns the websocket message types of all frames received so far.
func (w *WSConn) FrameTypes() []int {
	w.mu.Lock()
	defer w.mu.Unlock()
	return append([]int(nil), w.Frames...)
}

// SetAutoAck switches automatic acknowledgement on or off (safe while the reader runs).
func (c *Client) SetAutoAck(on bool) {
	c.mu.Lock()
	c.AutoAck = on
	c.mu.Unlock()
}

// LocalAddr returns the local address of the underlying connection.
func (c *Client) LocalAddr() string { return c.conn.LocalAddr().String() }

// DialRaw opens a bare TCP connection with a small receive buffer that nobody reads from (a stuck consumer).
func DialRaw(addr string) (net.Conn, error) {
	c, err := net.DialTimeout("tcp", addr, 5*time.Second)
	if err != nil {
		return nil, err
	}
	if tc, ok := c.(*net.TCPConn); ok {
		_ = tc.SetReadBuffer(1024)
	}
	return c, nil
}
