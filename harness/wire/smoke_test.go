package wire

import (
	"testing"
	"time"

	"verif/harness/broker"
	"verif/harness/mqttx"
)

func TestSmoke(t *testing.T) {
	b, err := broker.Start(broker.Options{WS: true})
	if err != nil {
		t.Fatal(err)
	}
	defer b.Stop(5 * time.Second)
	for _, v := range []mqttx.Version{mqttx.V311, mqttx.V5} {
		c, err := Dial("c", b.Addr, v)
		if err != nil {
			t.Fatal(err)
		}
		ack, err := c.Connect(&mqttx.Packet{ClientID: "c1", CleanStart: true, KeepAlive: 30}, 5*time.Second)
		if err != nil || ack.Code != 0 {
			t.Fatalf("connack %v %v", ack, err)
		}
		t.Log(ack.String())
		sa, err := c.Subscribe([]mqttx.Sub{{Filter: "a/#", QoS: 2}}, 7, 5*time.Second)
		if err != nil {
			t.Fatal(err)
		}
		t.Log(sa.String())
		for q := byte(0); q < 3; q++ {
			if _, err := c.Publish(&mqttx.Packet{Topic: "a/b", QoS: q, Payload: []byte{'p', '0' + q}}, 5*time.Second); err != nil {
				t.Fatal(err)
			}
		}
		if err := c.WaitPayload("p2", 5*time.Second); err != nil {
			t.Fatal(err)
		}
		for _, r := range c.Publishes() {
			t.Log(r.P.String())
		}
		c.Disconnect(0, nil)
	}
	ws, err := DialWS(b.WSAddr)
	if err != nil {
		t.Fatal(err)
	}
	c := New("ws", ws, mqttx.V5)
	ack, err := c.Connect(&mqttx.Packet{ClientID: "w1", CleanStart: true}, 5*time.Second)
	if err != nil || ack.Code != 0 {
		t.Fatalf("ws connack %v %v", ack, err)
	}
	if err := c.Ping(5 * time.Second); err != nil {
		t.Fatal(err)
	}
	c.Close()
	for _, e := range b.Log.Events() {
		t.Log(e.Seq, e.Kind, e.Client, e.Topic, e.Err)
	}
}
