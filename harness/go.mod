module verif/harness

go 1.26.1

require (
	github.com/DrmagicE/gmqtt v0.0.0
	github.com/anishathalye/porcupine v1.3.0
	github.com/gomodule/redigo v1.8.2
	github.com/gorilla/websocket v1.4.2
	golang.org/x/crypto v0.49.0
)

require (
	github.com/armon/go-metrics v0.0.0-20180917152333-f0300d1749da // indirect
	github.com/beorn7/perks v1.0.1 // indirect
	github.com/cespare/xxhash/v2 v2.3.0 // indirect
	github.com/golang/protobuf v1.5.4 // indirect
	github.com/google/btree v1.0.0 // indirect
	github.com/google/uuid v1.6.0 // indirect
	github.com/grpc-ecosystem/go-grpc-middleware v1.0.0 // indirect
	github.com/grpc-ecosystem/go-grpc-prometheus v1.2.0 // indirect
	github.com/grpc-ecosystem/grpc-gateway/v2 v2.28.0 // indirect
	github.com/hashicorp/errwrap v1.0.0 // indirect
	github.com/hashicorp/go-immutable-radix v1.0.0 // indirect
	github.com/hashicorp/go-msgpack v0.5.3 // indirect
	github.com/hashicorp/go-multierror v1.1.0 // indirect
	github.com/hashicorp/go-sockaddr v1.0.0 // indirect
	github.com/hashicorp/golang-lru v0.5.0 // indirect
	github.com/hashicorp/logutils v1.0.0 // indirect
	github.com/hashicorp/memberlist v0.2.2 // indirect
	github.com/hashicorp/serf v0.9.5 // indirect
	github.com/matttproud/golang_protobuf_extensions v1.0.1 // indirect
	github.com/miekg/dns v1.1.26 // indirect
	github.com/pkg/errors v0.9.1 // indirect
	github.com/prometheus/client_golang v1.11.1 // indirect
	github.com/prometheus/client_model v0.2.0 // indirect
	github.com/prometheus/common v0.26.0 // indirect
	github.com/prometheus/procfs v0.6.0 // indirect
	github.com/sean-/seed v0.0.0-20170313163322-e2103e2c3529 // indirect
	go.uber.org/atomic v1.9.0 // indirect
	go.uber.org/mock v0.6.0 // indirect
	go.uber.org/multierr v1.9.0 // indirect
	go.uber.org/zap v1.13.0 // indirect
	golang.org/x/net v0.52.0 // indirect
	golang.org/x/sys v0.42.0 // indirect
	golang.org/x/text v0.35.0 // indirect
	google.golang.org/genproto v0.0.0-20230410155749-daa745c078e1 // indirect
	google.golang.org/grpc v1.79.3 // indirect
	google.golang.org/protobuf v1.36.11 // indirect
	gopkg.in/yaml.v2 v2.4.0 // indirect
)

replace github.com/DrmagicE/gmqtt => /repo
