package faultproxy

import (
	"io"
	"net"
	"testing"
	"time"
)

func TestCutAfter(t *testing.T) {
	ln, _ := net.Listen("tcp", "127.0.0.1:0")
	go func() {
		for {
			c, err := ln.Accept()
			if err != nil {
				return
			}
			go io.Copy(c, c)
		}
	}()
	p, err := Start(ln.Addr().String())
	if err != nil {
		t.Fatal(err)
	}
	c, _ := net.Dial("tcp", p.Addr())
	c.Write([]byte("hello"))
	buf := make([]byte, 10)
	c.SetReadDeadline(time.Now().Add(time.Second))
	n, err := c.Read(buf)
	t.Log(n, err, string(buf[:n]))
	up, _, _, _ := p.Totals()
	p.CutAfter("up", up+3)
	c.Write([]byte("abcdefgh"))
	c.SetReadDeadline(time.Now().Add(2 * time.Second))
	total := 0
	for {
		n, err = c.Read(buf)
		total += n
		if err != nil {
			break
		}
	}
	t.Log("after cut: read", total, err)
	if err != io.EOF && total != 3 {
		t.Fatalf("client side not closed: %v", err)
	}
	if ne, ok := err.(net.Error); ok && ne.Timeout() {
		t.Fatal("client connection still open after the cut")
	}
}
