// Package faultproxy is a TCP proxy that cuts, delays or black-holes the
// connections crossing it at scripted points (total bytes forwarded per direction).
package faultproxy

import (
	"net"
	"sync"
	"time"
)

// Proxy forwards every accepted connection to Target.
type Proxy struct {
	ln     net.Listener
	target string

	mu        sync.Mutex
	conns     map[net.Conn]net.Conn // client side -> target side
	up, down  int64                 // total bytes forwarded (client->target, target->client)
	cutsUp    []int64               // cut all connections when `up` reaches one of these totals
	cutsDown  []int64
	holdUp, holdDown bool
	holdUntil time.Time // black hole: bytes are held back until then
	refuse    bool      // refuse (close at once) new connections
	nConns    int
	nCuts     int
	closed    bool
}

// Start listens on 127.0.0.1:0.
func Start(target string) (*Proxy, error) {
	ln, err := net.Listen("tcp", "127.0.0.1:0")
	if err != nil {
		return nil, err
	}
	p := &Proxy{ln: ln, target: target, conns: map[net.Conn]net.Conn{}}
	go p.accept()
	return p, nil
}

func (p *Proxy) Addr() string { return p.ln.Addr().String() }

// SetTarget changes where new connections are forwarded to.
func (p *Proxy) SetTarget(t string) { p.mu.Lock(); p.target = t; p.mu.Unlock() }

func (p *Proxy) accept() {
	for {
		c, err := p.ln.Accept()
		if err != nil {
			return
		}
		p.mu.Lock()
		refuse, target := p.refuse, p.target
		p.mu.Unlock()
		if refuse {
			c.Close()
			continue
		}
		t, err := net.DialTimeout("tcp", target, 2*time.Second)
		if err != nil {
			c.Close()
			continue
		}
		p.mu.Lock()
		p.conns[c] = t
		p.nConns++
		p.mu.Unlock()
		go p.pipe(c, t, true)
		go p.pipe(t, c, false)
	}
}

func (p *Proxy) pipe(src, dst net.Conn, upDir bool) {
	buf := make([]byte, 4096)
	for {
		n, err := src.Read(buf)
		if n > 0 {
			data := buf[:n]
			for len(data) > 0 {
				// honour a black hole
				for {
					p.mu.Lock()
					h := p.holdUntil
					p.mu.Unlock()
					if d := time.Until(h); d > 0 {
						time.Sleep(d)
						continue
					}
					break
				}
				// honour a hold of this direction: the bytes wait here; a cut discards them
				for {
					p.mu.Lock()
					held := (upDir && p.holdUp) || (!upDir && p.holdDown)
					_, a1 := p.conns[src]
					_, a2 := p.conns[dst]
					alive := a1 || a2
					p.mu.Unlock()
					if !held {
						break
					}
					if !alive {
						src.Close()
						dst.Close()
						return
					}
					time.Sleep(2 * time.Millisecond)
				}
				// forward up to the next cut point
				p.mu.Lock()
				total := &p.down
				cuts := &p.cutsDown
				if upDir {
					total, cuts = &p.up, &p.cutsUp
				}
				chunk := len(data)
				cutHere := false
				if len(*cuts) > 0 {
					rem := (*cuts)[0] - *total
					if rem <= int64(chunk) {
						if rem < 0 {
							rem = 0
						}
						chunk = int(rem)
						cutHere = true
						*cuts = (*cuts)[1:]
					}
				}
				*total += int64(chunk)
				p.mu.Unlock()
				if chunk > 0 {
					if _, werr := dst.Write(data[:chunk]); werr != nil {
						src.Close()
						dst.Close()
						return
					}
				}
				data = data[chunk:]
				if cutHere {
					p.CutNow()
					return
				}
			}
		}
		if err != nil {
			src.Close()
			dst.Close()
			p.mu.Lock()
			delete(p.conns, src)
			delete(p.conns, dst)
			p.mu.Unlock()
			return
		}
	}
}

// CutNow closes every connection crossing the proxy.
func (p *Proxy) CutNow() {
	p.mu.Lock()
	for c, t := range p.conns {
		c.Close()
		t.Close()
		delete(p.conns, c)
	}
	p.nCuts++
	p.mu.Unlock()
}

// CutAfter schedules a cut when the total number of bytes forwarded in the given direction reaches `at`
// ("up" = towards the target). Cut points must be added in increasing order per direction.
func (p *Proxy) CutAfter(dir string, at int64) {
	p.mu.Lock()
	if dir == "up" {
		p.cutsUp = append(p.cutsUp, at)
	} else {
		p.cutsDown = append(p.cutsDown, at)
	}
	p.mu.Unlock()
}

// Blackhole holds all traffic back for d.
func (p *Proxy) Blackhole(d time.Duration) {
	p.mu.Lock()
	p.holdUntil = time.Now().Add(d)
	p.mu.Unlock()
}

// HoldDir holds back (or releases) everything travelling in one direction ("up" = towards the target). Bytes held
// when the connection is cut are lost, as on a path that loses one direction before the connection breaks.
func (p *Proxy) HoldDir(dir string, on bool) {
	p.mu.Lock()
	if dir == "up" {
		p.holdUp = on
	} else {
		p.holdDown = on
	}
	p.mu.Unlock()
}

// Refuse makes the proxy close new connections at once (or stop doing so).
func (p *Proxy) Refuse(on bool) { p.mu.Lock(); p.refuse = on; p.mu.Unlock() }

// Totals returns bytes forwarded up/down, connections accepted, cuts performed.
func (p *Proxy) Totals() (up, down int64, conns, cuts int) {
	p.mu.Lock()
	defer p.mu.Unlock()
	return p.up, p.down, p.nConns, p.nCuts
}

// ClearCuts removes all pending cut points.
func (p *Proxy) ClearCuts() { p.mu.Lock(); p.cutsUp, p.cutsDown = nil, nil; p.mu.Unlock() }

// Close stops the proxy.
func (p *Proxy) Close() {
	p.ln.Close()
	p.CutNow()
}
