// Package c09: durable (redis) sessions survive a broker crash at any point
// (DESIGN.md §5 C09). Fault enumeration over the journal of an in-process
// redis stand-in: crash = loss of all volatile state between two storage commands.
package c09

import (
	"bytes"
	"encoding/json"
	"fmt"
	"math/rand"
	"sort"
	"strings"
	"sync"
	"time"

	"github.com/DrmagicE/gmqtt"
	"github.com/DrmagicE/gmqtt/config"
	"github.com/DrmagicE/gmqtt/persistence/subscription"

	"verif/harness/broker"
	"verif/harness/fakeredis"
	"verif/harness/monitor"
	"verif/harness/mqttx"
	"verif/harness/redisx"
	"verif/harness/wire"
)

const step = 10 * time.Second

// Step is one client step of a history.
type Step struct {
	Kind   string // connect | disconnect | sub | unsub | pub | ack | q2open | q2close
	C      int    // acting client
	Filter string `json:",omitempty"`
	QoS    byte   `json:",omitempty"`
	NL     bool   `json:",omitempty"`
	RAP    bool   `json:",omitempty"`
	RH     byte   `json:",omitempty"`
	SubID  uint32 `json:",omitempty"`
	Topic  string `json:",omitempty"`
	PID    uint16 `json:",omitempty"`
	RM     uint16 `json:",omitempty"` // connect (v5): Receive Maximum declared by this connection
}

// History is one generated case.
type History struct {
	IDs   []string // client ids (some start with the letters of the key prefixes)
	V     []byte
	Steps []Step
	// InflightExpiry: mqtt.inflight_expiry is one hour instead of 0 (in-flight entries carry a deadline that is
	// rewritten in the store whenever they are replayed)
	InflightExpiry bool `json:",omitempty"`
}

func (s Step) String() string {
	switch s.Kind {
	case "sub":
		return fmt.Sprintf("sub(c%d,%s,q%d,nl%v,rap%v,rh%d,id%d)", s.C, s.Filter, s.QoS, s.NL, s.RAP, s.RH, s.SubID)
	case "unsub":
		return fmt.Sprintf("unsub(c%d,%s)", s.C, s.Filter)
	case "pub":
		return fmt.Sprintf("pub(c%d,%s,q%d)", s.C, s.Topic, s.QoS)
	case "q2open", "q2close":
		return fmt.Sprintf("%s(c%d,id%d)", s.Kind, s.C, s.PID)
	}
	return fmt.Sprintf("%s(c%d)", s.Kind, s.C)
}

// interval of journal positions during which a step was in flight
type span struct{ From, To int }

type subFact struct {
	span
	Unsub bool
	Opt   Step
}
type msgFact struct {
	Payload string
	To      int   // subscriber index
	Pub     span  // publish step (acknowledged to the publisher at Pub.To)
	Acked   *span // subscriber's acknowledgement, nil if never
	QoS     byte
}
type q2Fact struct {
	C       int
	PID     uint16
	Payload string
	Open    span
	Close   *span
}

// pubFact is one publish step: who sent what with which packet identifier to which subscribers
type pubFact struct {
	C       int
	PID     uint16
	Topic   string
	QoS     byte
	Payload string
	Span    span
	Targets []int // subscribers whose effective QoS is > 0
}

type trace struct {
	pubs    []pubFact
	h       *History
	journal []fakeredis.Cmd
	created map[int]span         // session creation (first CONNACK)
	subs    map[string][]subFact // key client|filter
	msgs    []msgFact
	q2      []q2Fact
	stepEnd []int
}

func redisBroker(addr string, h *History) (*broker.Broker, error) {
	return broker.Start(broker.Options{Cfg: func(c *config.Config) {
		c.Persistence.Type = config.PersistenceTypeRedis
		c.Persistence.Redis.Addr = addr
		c.MQTT.MessageExpiry = 0
		c.MQTT.InflightExpiry = 0
		if h != nil && h.InflightExpiry {
			c.MQTT.InflightExpiry = time.Hour
		}
	}})
}

// execute runs the history one step at a time and records the journal position around every step.
func execute(h *History) (*trace, []string, error) {
	env, err := redisx.NewEnv()
	if err != nil {
		return nil, nil, err
	}
	defer env.Close()
	b, err := redisBroker(env.Srv.Addr(), h)
	if err != nil {
		return nil, nil, err
	}
	defer b.Stop(step)
	tr := &trace{h: h, created: map[int]span{}, subs: map[string][]subFact{}}
	var notes []string
	conns := make([]*wire.Client, len(h.IDs))
	live := make([]map[string]byte, len(h.IDs)) // current subscriptions (model of the running broker)
	liveNL := make([]map[string]bool, len(h.IDs))
	for i := range live {
		live[i] = map[string]byte{}
		liveNL[i] = map[string]bool{}
	}
	pending := map[int][]*mqttx.Packet{} // subscriber -> received but unacknowledged PUBLISH packets
	seq := 0
	connect := func(i int, rm uint16) error {
		c, err := wire.Dial(h.IDs[i], b.Addr, mqttx.Version(h.V[i]))
		if err != nil {
			return err
		}
		c.AutoAck = false
		p := &mqttx.Packet{ClientID: h.IDs[i], CleanStart: false}
		if h.V[i] == 5 {
			e := uint32(7200)
			p.Props = &mqttx.Props{SessionExpiry: &e}
			if rm != 0 {
				p.Props.ReceiveMax = &rm
			}
		}
		ack, err := c.Connect(p, step)
		if err != nil || ack.Code != 0 {
			return fmt.Errorf("connect %s: %v %v", h.IDs[i], ack, err)
		}
		conns[i] = c
		return nil
	}
	matchSubs := func(topic string, publisher int) []int {
		var out []int
		for i, m := range live {
			for f := range m {
				if i == publisher && liveNL[i][f] {
					continue
				}
				if mqttx.TopicMatch(topic, f) {
					out = append(out, i)
					break
				}
			}
		}
		return out
	}
	for _, st := range h.Steps {
		from := env.Srv.JournalLen()
		c := conns[st.C]
		switch st.Kind {
		case "connect":
			if c != nil {
				break
			}
			if err := connect(st.C, st.RM); err != nil {
				return nil, nil, err
			}
			_ = conns[st.C].Ping(step)
			if _, ok := tr.created[st.C]; !ok {
				tr.created[st.C] = span{from, env.Srv.JournalLen()}
			}
			// messages queued while offline are (re)sent now; they stay unacknowledged
			time.Sleep(20 * time.Millisecond)
			_ = conns[st.C].Ping(step)
			for _, r := range conns[st.C].Publishes() {
				pending[st.C] = append(pending[st.C], r.P)
			}
		case "disconnect":
			if c == nil {
				break
			}
			lf := b.Log.Len()
			c.Disconnect(0, nil)
			b.Log.Wait(lf, func(e broker.Event) bool { return e.Kind == "OnClosed" && e.Client == h.IDs[st.C] }, step)
			conns[st.C] = nil
			pending[st.C] = nil
		case "sub":
			if c == nil {
				break
			}
			s := mqttx.Sub{Filter: st.Filter, QoS: st.QoS}
			if h.V[st.C] == 5 {
				s.NoLocal, s.RAP, s.RetainHandling = st.NL, st.RAP, st.RH
			}
			if _, err := c.Subscribe([]mqttx.Sub{s}, st.SubID, step); err != nil {
				return nil, nil, err
			}
			_ = c.Ping(step)
			k := fmt.Sprintf("%d|%s", st.C, st.Filter)
			tr.subs[k] = append(tr.subs[k], subFact{span: span{from, env.Srv.JournalLen()}, Opt: st})
			live[st.C][st.Filter] = st.QoS
			liveNL[st.C][st.Filter] = s.NoLocal
		case "unsub":
			if c == nil {
				break
			}
			if _, err := c.Unsubscribe([]string{st.Filter}, step); err != nil {
				return nil, nil, err
			}
			_ = c.Ping(step)
			k := fmt.Sprintf("%d|%s", st.C, st.Filter)
			tr.subs[k] = append(tr.subs[k], subFact{span: span{from, env.Srv.JournalLen()}, Unsub: true})
			delete(live[st.C], st.Filter)
		case "pub":
			if c == nil {
				break
			}
			seq++
			payload := fmt.Sprintf("m%d", seq)
			targets := matchSubs(st.Topic, st.C)
			pp := &mqttx.Packet{Topic: st.Topic, QoS: st.QoS, Payload: []byte(payload)}
			if _, err := c.Publish(pp, step); err != nil {
				return nil, nil, err
			}
			pf := pubFact{C: st.C, PID: pp.PacketID, Topic: st.Topic, QoS: st.QoS, Payload: payload}
			_ = c.Ping(step)
			// online subscribers must have received it before the step ends (so that later steps are not in flight with it)
			for _, t := range targets {
				if conns[t] != nil {
					if err := conns[t].WaitPayload(payload, step); err != nil {
						notes = append(notes, fmt.Sprintf("live delivery of %s to %s missing", payload, h.IDs[t]))
					}
					for _, r := range conns[t].Publishes() {
						if string(r.P.Payload) == payload {
							pending[t] = append(pending[t], r.P)
						}
					}
				}
			}
			to := env.Srv.JournalLen()
			for _, t := range targets {
				q := st.QoS
				if live[t] != nil {
					mq := byte(0)
					for f, fq := range live[t] {
						if t == st.C && liveNL[t][f] {
							continue
						}
						if mqttx.TopicMatch(st.Topic, f) && fq > mq {
							mq = fq
						}
					}
					if mq < q {
						q = mq
					}
				}
				if q > 0 {
					tr.msgs = append(tr.msgs, msgFact{Payload: payload, To: t, Pub: span{from, to}, QoS: q})
					pf.Targets = append(pf.Targets, t)
				}
			}
			pf.Span = span{from, to}
			tr.pubs = append(tr.pubs, pf)
		case "ack":
			if c == nil || len(pending[st.C]) == 0 {
				break
			}
			p := pending[st.C][0]
			pending[st.C] = pending[st.C][1:]
			switch p.QoS {
			case 1:
				_ = c.Send(&mqttx.Packet{Type: mqttx.PUBACK, PacketID: p.PacketID})
			case 2:
				_ = c.Send(&mqttx.Packet{Type: mqttx.PUBREC, PacketID: p.PacketID})
				if _, err := c.WaitType(mqttx.PUBREL, p.PacketID, step); err != nil {
					return nil, nil, err
				}
				_ = c.Send(&mqttx.Packet{Type: mqttx.PUBCOMP, PacketID: p.PacketID})
			}
			_ = c.Ping(step)
			to := env.Srv.JournalLen()
			for i := range tr.msgs {
				if tr.msgs[i].Payload == string(p.Payload) && tr.msgs[i].To == st.C && tr.msgs[i].Acked == nil {
					tr.msgs[i].Acked = &span{from, to}
				}
			}
		case "q2open":
			if c == nil {
				break
			}
			seq++
			payload := fmt.Sprintf("q2-%d", seq)
			_ = c.Send(&mqttx.Packet{Type: mqttx.PUBLISH, Topic: "q2/only", QoS: 2, PacketID: st.PID, Payload: []byte(payload)})
			if _, err := c.WaitType(mqttx.PUBREC, st.PID, step); err != nil {
				return nil, nil, err
			}
			_ = c.Ping(step)
			tr.q2 = append(tr.q2, q2Fact{C: st.C, PID: st.PID, Payload: payload, Open: span{from, env.Srv.JournalLen()}})
		case "q2close":
			if c == nil {
				break
			}
			for i := range tr.q2 {
				if tr.q2[i].C == st.C && tr.q2[i].PID == st.PID && tr.q2[i].Close == nil {
					_ = c.Send(&mqttx.Packet{Type: mqttx.PUBREL, PacketID: st.PID})
					if _, err := c.WaitType(mqttx.PUBCOMP, st.PID, step); err != nil {
						return nil, nil, err
					}
					_ = c.Ping(step)
					tr.q2[i].Close = &span{from, env.Srv.JournalLen()}
				}
			}
		}
		tr.stepEnd = append(tr.stepEnd, env.Srv.JournalLen())
	}
	for _, c := range conns {
		if c != nil {
			c.Close()
		}
	}
	tr.journal = env.Srv.Journal()
	return tr, notes, nil
}

type finding struct{ Sig, What string }

// checkPrefix starts a fresh broker on the store state after journal[:k] and checks what must have survived.
func checkPrefix(tr *trace, k int) (fs []finding, obs map[string]int, rerr error) {
	obs = map[string]int{}
	add := func(sig, what string) { fs = append(fs, finding{sig, what}) }
	h := tr.h
	srv, err := fakeredis.Start()
	if err != nil {
		return nil, nil, err
	}
	defer srv.Close()
	// the restarted broker finds its sessions with SCAN: small pages, MATCH applied afterwards (empty pages before the end)
	srv.SetScanPage([]int{1, 2, 3, 5, 10}[k%5])
	if err := srv.Apply(tr.journal[:k]); err != nil {
		return nil, nil, err
	}
	crashState := srv.Snapshot()
	var b *broker.Broker
	func() {
		defer func() {
			if p := recover(); p != nil {
				add("startup.panic", fmt.Sprintf("broker start-up on the store state after %d commands panicked: %v", k, p))
			}
		}()
		b, err = redisBroker(srv.Addr(), h)
	}()
	if len(fs) > 0 {
		return fs, obs, nil
	}
	if err != nil {
		add("startup.error", fmt.Sprintf("broker does not start on the store state after %d commands: %v", k, err))
		return fs, obs, nil
	}
	defer b.Stop(step)
	// sessions
	alive := map[int]bool{}
	for i, sp := range tr.created {
		if sp.To <= k {
			s, err := b.Srv.ClientService().GetSession(h.IDs[i])
			if err != nil || s == nil || s.ClientID != h.IDs[i] {
				add("session.lost", fmt.Sprintf("session of %q (creation acknowledged at command %d) is gone after a crash at %d: %v %v", h.IDs[i], sp.To, k, s, err))
				continue
			}
			alive[i] = true
			obs["sessions_checked"]++
		}
	}
	// subscriptions
	for key, facts := range tr.subs {
		var ci int
		var filter string
		fmt.Sscanf(strings.SplitN(key, "|", 2)[0], "%d", &ci)
		filter = strings.SplitN(key, "|", 2)[1]
		if !alive[ci] {
			continue
		}
		inflight := false
		var last *subFact
		for i := range facts {
			f := &facts[i]
			if f.From < k && k < f.To {
				inflight = true
			}
			if f.To <= k {
				last = f
			}
		}
		if inflight || last == nil {
			continue
		}
		var got *gmqtt.Subscription
		b.Srv.SubscriptionService().Iterate(func(c string, s *gmqtt.Subscription) bool {
			if s.GetFullTopicName() == filter {
				got = s
			}
			return true
		}, subscription.IterationOptions{Type: subscription.TypeAll, ClientID: h.IDs[ci]})
		obs["subscriptions_checked"]++
		cid := h.IDs[ci]
		pre := strings.HasPrefix(cid, "s") || strings.HasPrefix(cid, "u") || strings.HasPrefix(cid, "b") || strings.HasPrefix(cid, ":")
		switch {
		case last.Unsub && got != nil:
			add("subscription.resurrected", fmt.Sprintf("subscription %s of %q whose UNSUBACK was sent at command %d is back after a crash at %d", filter, cid, last.To, k))
		case !last.Unsub && got == nil:
			add(fmt.Sprintf("subscription.lost:client_id_starts_with_prefix_letter=%v", pre), fmt.Sprintf("subscription %s of %q whose SUBACK was sent at command %d is gone after a crash at %d", filter, cid, last.To, k))
		case !last.Unsub:
			o := last.Opt
			v5 := h.V[ci] == 5
			if got.QoS != o.QoS || (v5 && (got.NoLocal != o.NL || got.RetainAsPublished != o.RAP || got.RetainHandling != o.RH || got.ID != o.SubID)) {
				add("subscription.options_changed", fmt.Sprintf("subscription %s of %q restored as %+v, acknowledged as %s", filter, cid, *got, o))
			}
		}
	}
	// messages that must be (re)delivered
	need := map[int]map[string]bool{}
	for _, m := range tr.msgs {
		if !alive[m.To] || m.Pub.To > k {
			continue
		}
		if m.Acked != nil && m.Acked.From < k {
			continue // acknowledged or acknowledgement in flight
		}
		if need[m.To] == nil {
			need[m.To] = map[string]bool{}
		}
		need[m.To][m.Payload] = true
	}
	// A publish that was in flight when the broker died: its publisher has no acknowledgement, comes back with
	// Clean Start 0 and sends the PUBLISH again (same packet identifier, DUP). Once that retransmission is
	// acknowledged the message is one "whose publisher had been acknowledged": the subscribers must get it.
	inflightPub := map[string]bool{}
	re := map[int]*wire.Client{} // connections re-established after the restart, one per client id
	defer func() {
		for _, c := range re {
			c.Close()
		}
	}()
	reconnect := func(i int) (*wire.Client, *mqttx.Packet, error) {
		c, err := wire.Dial(h.IDs[i], b.Addr, mqttx.Version(h.V[i]))
		if err != nil {
			return nil, nil, err
		}
		p := &mqttx.Packet{ClientID: h.IDs[i], CleanStart: false}
		if h.V[i] == 5 {
			e := uint32(7200)
			p.Props = &mqttx.Props{SessionExpiry: &e}
		}
		c.AutoAck = false // what is stored for the session is observed, not consumed
		ack, err := c.Connect(p, step)
		if err != nil || ack.Code != 0 {
			c.Close()
			return nil, ack, fmt.Errorf("connect: %v %v", ack, err)
		}
		re[i] = c
		return c, ack, nil
	}
	for _, pf := range tr.pubs {
		if !(pf.Span.From < k && k < pf.Span.To) || !alive[pf.C] {
			continue
		}
		c := re[pf.C]
		if c == nil {
			var err error
			if c, _, err = reconnect(pf.C); err != nil {
				continue
			}
		}
		_ = c.Send(&mqttx.Packet{Type: mqttx.PUBLISH, Topic: pf.Topic, QoS: pf.QoS, Dup: true, PacketID: pf.PID, Payload: []byte(pf.Payload)})
		acked := false
		var err error
		if pf.QoS == 1 {
			_, err = c.WaitType(mqttx.PUBACK, pf.PID, step)
			acked = err == nil
		} else if _, err = c.WaitType(mqttx.PUBREC, pf.PID, step); err == nil {
			_ = c.Send(&mqttx.Packet{Type: mqttx.PUBREL, PacketID: pf.PID})
			_, err = c.WaitType(mqttx.PUBCOMP, pf.PID, step)
			acked = err == nil
		}
		if !acked {
			add("inflight_publish.no_ack_after_restart", fmt.Sprintf("PUBLISH %s (qos %d, id %d) retransmitted by %q after the crash at %d is not acknowledged", pf.Payload, pf.QoS, pf.PID, h.IDs[pf.C], k))
			continue
		}
		obs["inflight_publishes_retransmitted"]++
		for _, t := range pf.Targets {
			if alive[t] {
				if need[t] == nil {
					need[t] = map[string]bool{}
				}
				need[t][pf.Payload] = true
				inflightPub[fmt.Sprintf("%d|%s", t, pf.Payload)] = true
			}
		}
	}
	idxs := []int{}
	for i := range need {
		idxs = append(idxs, i)
	}
	sort.Ints(idxs)
	for _, i := range idxs {
		c := re[i]
		if c == nil {
			var ack *mqttx.Packet
			var err error
			c, ack, err = reconnect(i)
			if err != nil {
				add("reconnect.failed", fmt.Sprintf("%q cannot reconnect after the crash at %d: %v %v", h.IDs[i], k, ack, err))
				continue
			}
			if !ack.SessionPresent {
				add("reconnect.session_present_0", fmt.Sprintf("%q reconnects with Clean Start 0 after the crash at %d and gets Session Present 0", h.IDs[i], k))
			}
		}
		// Barrier instead of a deadline: what is stored for the session is sent in queue order, so once a
		// sentinel published now has arrived, everything stored before it has arrived as well.
		sentinel := fmt.Sprintf("sentinel-%d-%d", k, i)
		if _, err := c.Subscribe([]mqttx.Sub{{Filter: "c09sentinel/" + h.IDs[i], QoS: 1}}, 0, step); err == nil {
			b.Publish("c09sentinel/"+h.IDs[i], sentinel, 1, false)
			if err := c.WaitPayload(sentinel, step); err != nil {
				add("reconnect.sentinel_missing", fmt.Sprintf("%q does not receive a message published after its reconnect (crash at %d)", h.IDs[i], k))
			}
		}
		pls := make([]string, 0, len(need[i]))
		for pl := range need[i] {
			pls = append(pls, pl)
		}
		sort.Strings(pls)
		for _, pl := range pls {
			obs["redeliveries_checked"]++
			wait := 50 * time.Millisecond
			if err := c.WaitPayload(pl, wait); err != nil {
				if inflightPub[fmt.Sprintf("%d|%s", i, pl)] {
					// what of this publish had reached the store when the broker died
					var pf pubFact
					for _, x := range tr.pubs {
						if x.Payload == pl {
							pf = x
						}
					}
					unackRec, queued := false, false
					for _, cmd := range tr.journal[pf.Span.From:k] {
						if len(cmd.Args) < 2 {
							continue
						}
						if op, key := strings.ToUpper(string(cmd.Args[0])), string(cmd.Args[1]); op == "HSET" && key == "unack:"+h.IDs[pf.C] {
							unackRec = true
						}
					}
					// is an element with this payload in the subscriber's stored queue (state the broker restarted on)
					needle := append([]byte{byte(len(pl) >> 8), byte(len(pl))}, pl...)
					for _, e := range crashState.Lists["queue:"+h.IDs[i]] {
						if bytes.Contains(e, needle) {
							queued = true
						}
					}
					add(fmt.Sprintf("message.lost:publish_in_flight_at_crash:qos=%d:unack_id_stored=%v:queued=%v", pf.QoS, unackRec, queued), fmt.Sprintf("message %s (qos %d, id %d) was being published when the broker died at %d; its retransmission after the restart was acknowledged but subscriber %q never gets it", pl, pf.QoS, pf.PID, k, h.IDs[i]))
				} else {
					add("message.lost", fmt.Sprintf("message %s (publisher acknowledged, subscriber %q had not acknowledged) is not delivered after the crash at %d", pl, h.IDs[i], k))
				}
			}
		}
		c.Close()
	}
	// QoS 2 identifiers awaiting PUBREL are still recognised as duplicates
	for _, q := range tr.q2 {
		if !alive[q.C] || q.Open.To > k || (q.Close != nil && q.Close.From < k) {
			continue
		}
		o, err := wire.Dial("obs", b.Addr, mqttx.V5)
		if err != nil {
			return fs, obs, err
		}
		if _, err := o.Connect(&mqttx.Packet{ClientID: "observer-after-crash", CleanStart: true}, step); err != nil {
			o.Close()
			return fs, obs, err
		}
		if _, err := o.Subscribe([]mqttx.Sub{{Filter: "q2/#", QoS: 2}}, 0, step); err != nil {
			o.Close()
			return fs, obs, err
		}
		c, err := wire.Dial(h.IDs[q.C], b.Addr, mqttx.Version(h.V[q.C]))
		if err != nil {
			o.Close()
			return fs, obs, err
		}
		p := &mqttx.Packet{ClientID: h.IDs[q.C], CleanStart: false}
		if h.V[q.C] == 5 {
			e := uint32(7200)
			p.Props = &mqttx.Props{SessionExpiry: &e}
		}
		if ack, err := c.Connect(p, step); err == nil && ack.Code == 0 {
			_ = c.Send(&mqttx.Packet{Type: mqttx.PUBLISH, Topic: "q2/only", QoS: 2, Dup: true, PacketID: q.PID, Payload: []byte(q.Payload)})
			if _, err := c.WaitType(mqttx.PUBREC, q.PID, step); err != nil {
				add("qos2.no_pubrec_after_crash", "retransmitted QoS 2 PUBLISH gets no PUBREC after restart")
			}
			_, _ = c.Publish(&mqttx.Packet{Topic: "q2/sentinel", QoS: 1, Payload: []byte("sentinel")}, step)
			_ = o.WaitPayload("sentinel", step)
			for _, r := range o.Publishes() {
				if string(r.P.Payload) == q.Payload {
					add("qos2.duplicate_after_crash", fmt.Sprintf("QoS 2 PUBLISH id %d of %q (PUBREC received at command %d, PUBREL not sent) is delivered again when retransmitted after a crash at %d", q.PID, h.IDs[q.C], q.Open.To, k))
				}
			}
			obs["qos2_ids_checked"]++
		}
		c.Close()
		o.Close()
	}
	return fs, obs, nil
}

func gen(rng *rand.Rand, n int) History {
	ids := [][]string{{"pub", "sub1", "bus2"}, {"alice", "sub:carol", "u-bob"}, {"p", "s", "q"}}[rng.Intn(3)]
	h := History{IDs: ids, V: []byte{[]byte{4, 5}[rng.Intn(2)], []byte{4, 5}[rng.Intn(2)], 5}, InflightExpiry: rng.Intn(2) == 0}
	filters := []string{"t/a", "t/+", "t/#", "$share/g/t/a", "x"}
	online := make([]bool, 3)
	pid := uint16(60000) // far away from the identifiers the scripted client assigns itself
	open := map[int][]uint16{}
	h.Steps = append(h.Steps, Step{Kind: "connect", C: 0}, Step{Kind: "connect", C: 1}, Step{Kind: "connect", C: 2})
	online[0], online[1], online[2] = true, true, true
	for len(h.Steps) < n {
		c := rng.Intn(3)
		switch x := rng.Intn(100); {
		case x < 8:
			if online[c] {
				h.Steps = append(h.Steps, Step{Kind: "disconnect", C: c})
				online[c] = false
			} else {
				h.Steps = append(h.Steps, Step{Kind: "connect", C: c})
				online[c] = true
			}
		case x < 30:
			if online[c] {
				f := filters[rng.Intn(len(filters))]
				if h.V[c] != 5 && strings.HasPrefix(f, "$share") {
					f = "t/a"
				}
				st := Step{Kind: "sub", C: c, Filter: f, QoS: byte(rng.Intn(3))}
				if h.V[c] == 5 {
					st.NL, st.RAP, st.RH, st.SubID = rng.Intn(2) == 0 && !strings.HasPrefix(f, "$share"), rng.Intn(2) == 0, byte(rng.Intn(3)), uint32(rng.Intn(4))
				}
				h.Steps = append(h.Steps, st)
			}
		case x < 40:
			if online[c] {
				h.Steps = append(h.Steps, Step{Kind: "unsub", C: c, Filter: filters[rng.Intn(len(filters))]})
			}
		case x < 70:
			if online[c] {
				h.Steps = append(h.Steps, Step{Kind: "pub", C: c, Topic: []string{"t/a", "t/b", "x"}[rng.Intn(3)], QoS: byte(1 + rng.Intn(2))})
			}
		case x < 85:
			if online[c] {
				h.Steps = append(h.Steps, Step{Kind: "ack", C: c})
			}
		case x < 93:
			if online[c] {
				pid++
				h.Steps = append(h.Steps, Step{Kind: "q2open", C: c, PID: pid})
				open[c] = append(open[c], pid)
			}
		default:
			if online[c] && len(open[c]) > 0 {
				h.Steps = append(h.Steps, Step{Kind: "q2close", C: c, PID: open[c][0]})
				open[c] = open[c][1:]
			}
		}
	}
	return h
}

// directed is a fixed history around one name collision: a client holds the shared subscription $share/g/t/a
// and the plain subscription t/a at the same time and drops them one at a time (the durable store must key
// subscriptions by their full name).
func directed() History {
	h := History{IDs: []string{"pub", "sub1", "s"}, V: []byte{4, 5, 5}}
	sub := func(c int, f string, q byte) Step { return Step{Kind: "sub", C: c, Filter: f, QoS: q, RAP: true} }
	h.Steps = []Step{{Kind: "connect", C: 0}, {Kind: "connect", C: 1}, {Kind: "connect", C: 2},
		sub(2, "$share/g/t/a", 1), sub(2, "t/a", 2), {Kind: "pub", C: 0, Topic: "t/a", QoS: 1},
		{Kind: "unsub", C: 2, Filter: "$share/g/t/a"}, {Kind: "ack", C: 2},
		sub(2, "$share/g/t/a", 0), sub(1, "$share/g/t/a", 1), {Kind: "unsub", C: 2, Filter: "t/a"},
		{Kind: "pub", C: 0, Topic: "t/a", QoS: 2}, {Kind: "disconnect", C: 2}, {Kind: "connect", C: 2},
		sub(2, "t/a", 1), {Kind: "unsub", C: 2, Filter: "$share/g/t/a"}, {Kind: "unsub", C: 1, Filter: "$share/g/t/a"},
		{Kind: "pub", C: 0, Topic: "t/a", QoS: 1}, {Kind: "ack", C: 2}}
	return h
}

// replayInBatches is a fixed history: five messages are in flight (delivered, unacknowledged) when the subscriber's
// connection ends; it comes back declaring Receive Maximum 2, so the broker replays them in three batches and - with
// inflight_expiry set - rewrites each replayed entry in the store. Whatever the crash point, all five come again.
func replayInBatches() History {
	h := History{IDs: []string{"pub", "sub1", "s"}, V: []byte{4, 4, 5}, InflightExpiry: true}
	h.Steps = []Step{{Kind: "connect", C: 0}, {Kind: "connect", C: 2}, {Kind: "sub", C: 2, Filter: "t/#", QoS: 1}}
	for i := 0; i < 5; i++ {
		h.Steps = append(h.Steps, Step{Kind: "pub", C: 0, Topic: "t/a", QoS: byte(1 + i%2)})
	}
	h.Steps = append(h.Steps, Step{Kind: "disconnect", C: 2}, Step{Kind: "connect", C: 2, RM: 2}, Step{Kind: "ack", C: 2},
		Step{Kind: "disconnect", C: 2}, Step{Kind: "connect", C: 2, RM: 3}, Step{Kind: "ack", C: 2}, Step{Kind: "ack", C: 2})
	return h
}

// longConnection: a session whose last connection lasted longer than its expiry interval survives a crash like
// any other: the interval counts from the end of the connection (here: the crash), not from its beginning.
// Real time: expiry 2 s, connected for 2.6 s, reconnect right after the restart.
func longConnection(r *monitor.Run) {
	env, err := redisx.NewEnv()
	if err != nil {
		r.Inconclusive(err.Error())
		return
	}
	defer env.Close()
	b, err := redisBroker(env.Srv.Addr(), nil)
	if err != nil {
		r.Inconclusive(err.Error())
		return
	}
	e := uint32(2)
	mk := func() *mqttx.Packet {
		return &mqttx.Packet{ClientID: "long", CleanStart: false, Props: &mqttx.Props{SessionExpiry: &e}}
	}
	c, err := wire.Dial("long", b.Addr, mqttx.V5)
	if err != nil {
		r.Inconclusive(err.Error())
		b.Stop(step)
		return
	}
	if _, err := c.Connect(mk(), step); err != nil {
		r.Inconclusive(err.Error())
		b.Stop(step)
		return
	}
	_, _ = c.Subscribe([]mqttx.Sub{{Filter: "long/#", QoS: 1}}, 0, step)
	time.Sleep(2600 * time.Millisecond)
	state := env.Srv.Snapshot() // the broker dies here
	go func() { c.Close(); b.Stop(step) }()
	srv2, err := fakeredis.Start()
	if err != nil {
		r.Inconclusive(err.Error())
		return
	}
	defer srv2.Close()
	srv2.Restore(state)
	t0 := time.Now()
	b2, err := redisBroker(srv2.Addr(), nil)
	if err != nil {
		r.Violation("startup.error", "broker does not start on the store of a broker that died with a connected client: "+err.Error(), nil)
		return
	}
	defer b2.Stop(step)
	c2, err := wire.Dial("long2", b2.Addr, mqttx.V5)
	if err != nil {
		r.Inconclusive(err.Error())
		return
	}
	defer c2.Close()
	ack, err := c2.Connect(mk(), step)
	r.Eval(1)
	r.Count("long_connection_restarts", 1)
	if time.Since(t0) > 1200*time.Millisecond {
		r.Inconclusive("longConnection: restart and reconnect took too long")
		return
	}
	if err != nil || ack.Code != 0 || !ack.SessionPresent {
		r.Violation("session.expired_at_restart:connected_longer_than_expiry", fmt.Sprintf("session with expiry 2 s whose connection had lasted 2.6 s when the broker died: reconnect right after the restart gets %v %v, want session present", ack, err), nil)
		return
	}
	r.Nontrivial("long-connection")
}

// Run is the entry point.
func Run(r *monitor.Run) {
	r.Level = "fault_enumeration"
	var lc sync.WaitGroup
	lc.Add(1)
	go func() { defer lc.Done(); longConnection(r) }()
	defer lc.Wait()
	nh := r.Pick(5, 120)
	rng := r.Rand("histories")
	for hi := 0; hi < nh; hi++ {
		h := gen(rng, r.Pick(30, 45))
		if hi == 0 {
			h = directed()
		}
		if hi == 1 {
			h = replayInBatches()
		}
		tr, notes, err := execute(&h)
		if err != nil {
			r.Inconclusive(fmt.Sprintf("history %d: %v", hi, err))
			continue
		}
		for _, n := range notes {
			r.Inconclusive(fmt.Sprintf("history %d: %s", hi, n))
		}
		n := len(tr.journal)
		r.Count("journal_commands", int64(n))
		r.Count("histories", 1)
		var ks []int
		if r.Quick() && hi > 1 {
			// stratified sample: step boundaries and points inside steps
			set := map[int]bool{0: true, n: true}
			for len(set) < min(40, n+1) {
				set[rng.Intn(n+1)] = true
			}
			for k := range set {
				ks = append(ks, k)
			}
			sort.Ints(ks)
		} else {
			for k := 0; k <= n; k++ {
				ks = append(ks, k)
			}
		}
		hs := make([]string, len(h.Steps))
		for i, s := range h.Steps {
			hs[i] = fmt.Sprintf("%s@%d", s.String(), tr.stepEnd[i])
		}
		r.Parallel(len(ks), 12, func(i int) {
			k := ks[i]
			fs, obs, err := checkPrefix(tr, k)
			r.Eval(1)
			if err != nil {
				r.Inconclusive(fmt.Sprintf("history %d prefix %d: %v", hi, k, err))
				return
			}
			for _, f := range fs {
				r.Violation(f.Sig, f.What, map[string]any{"history": h, "steps_with_journal_position": hs, "crash_after_commands": k})
			}
			nt := false
			for kk, v := range obs {
				r.Count(kk, int64(v))
				if v > 0 {
					nt = true
				}
			}
			r.Count("crash_points", 1)
			if nt {
				r.Nontrivial(fmt.Sprintf("h%d|k%d", hi, k))
			}
		})
		if hi == 0 {
			r.Sample(map[string]any{"client_ids": h.IDs, "steps_with_journal_position": hs[:min(len(hs), 14)], "journal_commands": n})
		}
	}
	if !r.Quick() {
		r.SetExhaustive(false)
	}
}

// Replay re-checks one crash point of a stored history.
func Replay(r *monitor.Run, detail []byte) {
	var d struct {
		History History
		K       int `json:"crash_after_commands"`
	}
	if err := json.Unmarshal(detail, &d); err != nil {
		fmt.Println("replay:", err)
		return
	}
	tr, _, err := execute(&d.History)
	if err != nil {
		fmt.Println("replay: harness:", err)
		return
	}
	k := d.K
	if k > len(tr.journal) {
		k = len(tr.journal)
	}
	fs, _, err := checkPrefix(tr, k)
	fmt.Println("replay:", err)
	for _, f := range fs {
		r.Violation(f.Sig, f.What, nil)
	}
}
