// Package c12: message expiry is honoured and the remaining lifetime is
// forwarded (DESIGN.md §5 C12). Real seconds with margins.
package c12

import (
	"encoding/json"
	"fmt"
	"math"
	"math/rand"
	"strings"
	"time"

	"github.com/DrmagicE/gmqtt"
	"github.com/DrmagicE/gmqtt/config"

	"verif/harness/broker"
	"verif/harness/monitor"
	"verif/harness/mqttx"
	"verif/harness/wire"
)

// Case is one expiry scenario.
type Case struct {
	Pub    string // v5 | v5none | v3 | api | apinone
	E      uint32 // publisher's Message Expiry Interval (s), 0 = none
	C      uint32 // configured message_expiry (s), 0 = unlimited
	SubV   byte   // 4 | 5
	Mode   string // online | offline | slow
	WaitMs int    // intended waiting time
	QoS    byte
	IE     bool `json:",omitempty"` // mqtt.inflight_expiry left at its default (30 s) instead of 0
}

const margin = 400 * time.Millisecond
const step = 10 * time.Second

type finding struct{ Sig, What string }

func (c Case) lifetime() time.Duration {
	l := uint32(0)
	switch {
	case c.E != 0 && c.C != 0:
		l = c.E
		if c.C < l {
			l = c.C
		}
	case c.E != 0:
		l = c.E
	default:
		l = c.C
	}
	if l == 0 {
		return time.Duration(math.MaxInt64)
	}
	return time.Duration(l) * time.Second
}

func runCase(c Case, idx int) (fs []finding, incon string, obs map[string]int, rerr error) {
	obs = map[string]int{}
	add := func(sig, what string) { fs = append(fs, finding{sig, what}) }
	b, err := broker.Start(broker.Options{Cfg: func(cf *config.Config) {
		cf.MQTT.MessageExpiry = time.Duration(c.C) * time.Second
		cf.MQTT.InflightExpiry = 0
		if c.IE {
			cf.MQTT.InflightExpiry = 30 * time.Second
		}
	}})
	if err != nil {
		return nil, "", nil, err
	}
	defer b.Stop(step)
	subV := mqttx.Version(c.SubV)
	connectSub := func(autoAck bool) (*wire.Client, time.Duration, error) {
		s, err := wire.Dial("sub", b.Addr, subV)
		if err != nil {
			return nil, 0, err
		}
		s.AutoAck = autoAck
		p := &mqttx.Packet{ClientID: "sub", CleanStart: false}
		if c.SubV == 5 {
			e := uint32(3600)
			p.Props = &mqttx.Props{SessionExpiry: &e}
			if c.Mode == "slow" {
				rm := uint16(1)
				p.Props.ReceiveMax = &rm
			}
		}
		t0 := broker.Now()
		ack, err := s.Connect(p, step)
		if err != nil || ack.Code != 0 {
			return nil, 0, fmt.Errorf("subscriber connect: %v %v", ack, err)
		}
		return s, t0, nil
	}
	s, _, err := connectSub(c.Mode != "slow")
	if err != nil {
		return nil, "", nil, err
	}
	defer func() { s.Close() }()
	if _, err := s.Subscribe([]mqttx.Sub{{Filter: "e/#", QoS: 2}}, 0, step); err != nil {
		return nil, "", nil, err
	}
	// publisher
	var pc *wire.Client
	if c.Pub == "v5" || c.Pub == "v5none" || c.Pub == "v3" {
		pv := mqttx.V5
		if c.Pub == "v3" {
			pv = mqttx.V311
		}
		pc, err = wire.Dial("pub", b.Addr, pv)
		if err != nil {
			return nil, "", nil, err
		}
		defer pc.Close()
		if _, err := pc.Connect(&mqttx.Packet{ClientID: "pub", CleanStart: true}, step); err != nil {
			return nil, "", nil, err
		}
	}
	payload := fmt.Sprintf("exp-%d", idx)
	publish := func(pl string, e uint32) (tSent, tAcked time.Duration, err error) {
		tSent = broker.Now()
		if pc == nil {
			b.Srv.Publisher().Publish(&gmqtt.Message{Topic: "e/t", Payload: []byte(pl), QoS: c.QoS, MessageExpiry: e})
			return tSent, broker.Now(), nil
		}
		p := &mqttx.Packet{Topic: "e/t", QoS: c.QoS, Payload: []byte(pl)}
		if e != 0 && pc.V == mqttx.V5 {
			p.Props = &mqttx.Props{MessageExpiry: &e}
		}
		if _, err = pc.Publish(p, step); err != nil {
			return
		}
		if c.QoS == 0 {
			err = pc.Ping(step)
		}
		return tSent, broker.Now(), err
	}
	hasE := c.E != 0 && (c.Pub == "v5" || c.Pub == "api")
	e := uint32(0)
	if hasE {
		e = c.E
	}
	L := Case{E: e, C: c.C}.lifetime()
	wait := time.Duration(c.WaitMs) * time.Millisecond
	var tSent, tAcked, tReadLo, tRecv time.Duration
	received := func(cl *wire.Client) *wire.Rec {
		for _, r := range cl.Publishes() {
			if string(r.P.Payload) == payload && !r.P.Dup {
				rr := r
				return &rr
			}
		}
		return nil
	}
	sentinel := func(cl *wire.Client) bool {
		b.Srv.Publisher().Publish(&gmqtt.Message{Topic: "e/sentinel", Payload: []byte("sentinel"), QoS: 1})
		return cl.WaitPayload("sentinel", step) == nil
	}
	from := b.Log.Len()
	switch c.Mode {
	case "online", "idle":
		// "idle": the subscriber's delivery goroutine has been blocked on an empty queue for a while
		// when the message arrives (waiting time measured from before the block would be negative)
		if c.Mode == "idle" {
			time.Sleep(wait)
		}
		if tSent, tAcked, err = publish(payload, e); err != nil {
			return nil, "", nil, err
		}
		tReadLo = tSent
	case "offline":
		lf := b.Log.Len()
		s.Disconnect(0, nil)
		if _, ok := b.Log.Wait(lf, func(ev broker.Event) bool { return ev.Kind == "OnClosed" && ev.Client == "sub" }, step); !ok {
			return nil, "subscriber close not observed", obs, nil
		}
		if tSent, tAcked, err = publish(payload, e); err != nil {
			return nil, "", nil, err
		}
		time.Sleep(time.Until(time.Now().Add(tAcked + wait - broker.Now())))
		var t0 time.Duration
		s, t0, err = connectSub(true)
		if err != nil {
			return nil, "", nil, err
		}
		tReadLo = t0
	case "slow":
		// first message occupies the single in-flight slot; its ack is withheld
		if _, _, err = publish("blocker", 0); err != nil {
			return nil, "", nil, err
		}
		if err := s.WaitPayload("blocker", step); err != nil {
			return nil, "", nil, err
		}
		if tSent, tAcked, err = publish(payload, e); err != nil {
			return nil, "", nil, err
		}
		time.Sleep(time.Until(time.Now().Add(tAcked + wait - broker.Now())))
		var blk *mqttx.Packet
		for _, r := range s.Publishes() {
			if string(r.P.Payload) == "blocker" {
				blk = r.P
			}
		}
		tReadLo = broker.Now()
		// from now on everything is acknowledged at once (before the slot is freed: the test message may arrive
		// right behind the acknowledgement of the blocker, and an unacknowledged test message would block the sentinel)
		s.SetAutoAck(true)
		switch blk.QoS {
		case 1:
			_ = s.Send(&mqttx.Packet{Type: mqttx.PUBACK, PacketID: blk.PacketID})
		case 2:
			_ = s.Send(&mqttx.Packet{Type: mqttx.PUBREC, PacketID: blk.PacketID})
			if _, err := s.WaitType(mqttx.PUBREL, blk.PacketID, step); err == nil {
				tReadLo = broker.Now() - 1 // the slot is freed by PUBCOMP
				_ = s.Send(&mqttx.Packet{Type: mqttx.PUBCOMP, PacketID: blk.PacketID})
			}
		}
	}
	if !sentinel(s) {
		add("sentinel.missing", "subscriber never received the sentinel published after the test message")
		return fs, "", obs, nil
	}
	r := received(s)
	if r != nil {
		tRecv = r.T
	} else {
		tRecv = broker.Now()
	}
	wLo, wHi := tReadLo-tAcked, tRecv-tSent
	if c.Mode == "online" || c.Mode == "idle" {
		wLo = 0
	}
	if wLo < 0 {
		wLo = 0
	}
	kind := fmt.Sprintf("pub=%s:sub=v%d:mode=%s", c.Pub, c.SubV, c.Mode)
	mustDeliver := wHi < L-margin
	mustDrop := L != time.Duration(math.MaxInt64) && wLo > L+margin
	if !mustDeliver && !mustDrop {
		return nil, fmt.Sprintf("waiting time [%v,%v] too close to the lifetime %v", wLo, wHi, L), obs, nil
	}
	droppedExpired := false
	for _, ev := range b.Log.Events()[from:] {
		if ev.Kind == "OnMsgDropped" && ev.Payload == payload {
			if strings.Contains(ev.Err, "expired") {
				droppedExpired = true
			} else {
				add("dropped.other_reason", "message dropped: "+ev.Err)
			}
		}
	}
	if mustDrop {
		obs["expired_cases"]++
		if r != nil {
			add("expired.delivered:"+kind, fmt.Sprintf("message with lifetime %v delivered after waiting at least %v", L, wLo))
		}
		if !droppedExpired {
			add("expired.not_reported:"+kind, fmt.Sprintf("message with lifetime %v that waited at least %v was not reported through OnMsgDropped as expired", L, wLo))
		}
		return fs, "", obs, nil
	}
	obs["live_cases"]++
	if r == nil {
		add("live.not_delivered:"+kind, fmt.Sprintf("message with lifetime %v waited at most %v but was not delivered (dropped as expired: %v)", L, wHi, droppedExpired))
		return fs, "", obs, nil
	}
	if droppedExpired {
		add("live.reported_expired:"+kind, "message delivered and also reported as expired")
	}
	var got *uint32
	if r.P.Props != nil {
		got = r.P.Props.MessageExpiry
	}
	switch {
	case c.SubV != 5:
		// v3 subscribers get no properties at all (the codec would have rejected them)
	case !hasE:
		if got != nil {
			add("property.invented:"+kind, fmt.Sprintf("publisher set no Message Expiry Interval, subscriber received %d", *got))
		}
	default:
		lo := int64(e) - int64(math.Ceil(wHi.Seconds()))
		hi := int64(e) - int64(math.Floor(wLo.Seconds()))
		if lo < 1 {
			lo = 1
		}
		obs["forwarded_expiry_checked"]++
		if got == nil {
			add(fmt.Sprintf("property.absent:%s:waited_lt_1s=%v", kind, wHi < time.Second), fmt.Sprintf("message published with expiry %d s that waited [%v,%v] arrived without Message Expiry Interval", e, wLo, wHi))
		} else if int64(*got) < lo || int64(*got) > hi {
			rel := "less"
			if int64(*got) > hi {
				rel = "more"
			}
			add(fmt.Sprintf("property.value:%s:%s_than_remaining", kind, rel), fmt.Sprintf("message published with expiry %d s waited [%v,%v]: forwarded interval %d, remaining lifetime is in [%d,%d]", e, wLo, wHi, *got, lo, hi))
		}
	}
	return fs, "", obs, nil
}

func allCases(rng *rand.Rand, quick bool) []Case {
	var cs []Case
	for _, pub := range []string{"v5", "v5none", "v3", "api", "apinone"} {
		es := []uint32{0}
		if pub == "v5" || pub == "api" {
			es = []uint32{1, 2, 3, 10}
		}
		for _, e := range es {
			for _, cc := range []uint32{0, 1, 2, 7200} {
				for _, sv := range []byte{4, 5} {
					for _, mode := range []string{"online", "idle", "offline", "slow"} {
						if mode == "slow" && sv != 5 {
							continue
						}
						l := Case{E: e, C: cc}.lifetime()
						var waits []int
						switch {
						case mode == "online":
							waits = []int{0}
						case mode == "idle":
							waits = []int{1300, 2600}
						case l > 5*time.Second:
							// 4.6 s: longer than 2^32 ns, a waiting time kept in 32 bits of nanoseconds has wrapped
							waits = []int{600, 1700, 4600}
						default:
							ms := int(l / time.Millisecond)
							waits = []int{ms + 900}
							if ms >= 2000 {
								waits = append(waits, ms-1100)
							}
							if ms >= 3000 {
								waits = append(waits, 1200)
							}
						}
						for _, w := range waits {
							q := byte(1 + rng.Intn(2))
							if mode == "online" || mode == "idle" || mode == "offline" {
								q = byte(rng.Intn(3)) // QoS 0 messages are queued for an offline session as well (queue_qos0_messages)
							}
							cs = append(cs, Case{Pub: pub, E: e, C: cc, SubV: sv, Mode: mode, WaitMs: w, QoS: q, IE: len(cs)%2 == 1})
						}
					}
				}
			}
		}
	}
	if quick {
		rng.Shuffle(len(cs), func(i, j int) { cs[i], cs[j] = cs[j], cs[i] })
		seen := map[string]bool{}
		var keep, rest []Case
		for _, c := range cs {
			k := fmt.Sprintf("%s|%s|%d|%v|%v|%v|%v", c.Pub, c.Mode, c.SubV, c.C == 0, time.Duration(c.WaitMs)*time.Millisecond > c.lifetime(), c.WaitMs > 4300 && c.E >= 10, c.QoS == 0 && c.Mode == "offline" && c.E >= 3) + fmt.Sprint(c.IE && c.Mode != "online")
			if !seen[k] {
				seen[k] = true
				keep = append(keep, c)
			} else {
				rest = append(rest, c)
			}
		}
		if len(keep) > 140 {
			keep = keep[:140]
		}
		return keep
	}
	return cs
}

// Run is the entry point.
func Run(r *monitor.Run) {
	cs := allCases(r.Rand("cases"), r.Quick())
	r.InconBudget = 0.1
	r.Parallel(len(cs), 32, func(i int) {
		c := cs[i]
		fs, incon, obs, err := runCase(c, i)
		if len(fs) > 0 {
			// wall-clock dependent verdicts must recur
			again := 0
			for k := 0; k < 2; k++ {
				if fs2, _, _, _ := runCase(c, i+100000*(k+1)); len(fs2) > 0 {
					again++
				}
			}
			if again == 0 {
				fs, incon = nil, "verdict did not recur"
			}
		}
		r.Eval(1)
		if err != nil {
			r.Inconclusive(fmt.Sprintf("case %d %v: %v", i, c, err))
			return
		}
		if incon != "" {
			r.Inconclusive(fmt.Sprintf("case %d %v: %s", i, c, incon))
			return
		}
		for _, f := range fs {
			r.Violation(f.Sig, f.What, map[string]any{"case": c})
		}
		for k, v := range obs {
			r.Count(k, int64(v))
		}
		r.Count("mode_"+c.Mode, 1)
		r.Nontrivial(monitor.J(c))
		if i == 0 {
			r.Sample(c)
		}
	})
}

// Replay re-runs one case.
func Replay(r *monitor.Run, detail []byte) {
	var d struct{ Case Case }
	if err := json.Unmarshal(detail, &d); err != nil {
		fmt.Println("replay:", err)
		return
	}
	fs, incon, _, err := runCase(d.Case, 1)
	fmt.Println("replay:", incon, err)
	for _, f := range fs {
		r.Violation(f.Sig, f.What, nil)
	}
}
