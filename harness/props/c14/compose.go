package c14

import (
	"context"
	"fmt"
	"reflect"
	"strings"
	"sync"
	"time"

	"github.com/DrmagicE/gmqtt/config"
	"github.com/DrmagicE/gmqtt/pkg/packets"
	"github.com/DrmagicE/gmqtt/server"

	"verif/harness/broker"
	"verif/harness/monitor"
	"verif/harness/mqttx"
	"verif/harness/wire"
)

// trace of wrapper invocations: "enter A OnSubscribe", "core OnSubscribe", "leave A OnSubscribe"
type traceLog struct {
	mu sync.Mutex
	ev []string
}

func (t *traceLog) add(s string) {
	t.mu.Lock()
	t.ev = append(t.ev, s)
	t.mu.Unlock()
}
func (t *traceLog) snapshot() []string {
	t.mu.Lock()
	defer t.mu.Unlock()
	return append([]string(nil), t.ev...)
}

var (
	curTrace   *traceLog // composition scenarios run sequentially
	curTraceMu sync.Mutex
	regOnce    sync.Once
)

type recPlugin struct {
	name    string
	tr      *traceLog
	loaded  int
	unloads int
}

func (p *recPlugin) Load(s server.Server) error { p.loaded++; p.tr.add("load " + p.name); return nil }
func (p *recPlugin) Unload() error              { p.unloads++; p.tr.add("unload " + p.name); return nil }
func (p *recPlugin) Name() string               { return p.name }

// HookWrapper fills EVERY field of server.HookWrapper by reflection, so a hook kind
// added to the structure later is wrapped (and then demanded by the oracle) automatically.
func (p *recPlugin) HookWrapper() server.HookWrapper {
	var hw server.HookWrapper
	v := reflect.ValueOf(&hw).Elem()
	for i := 0; i < v.NumField(); i++ {
		f := v.Field(i)
		kind := strings.TrimSuffix(v.Type().Field(i).Name, "Wrapper")
		wt := f.Type() // func(Hook) Hook
		if wt.Kind() != reflect.Func || wt.NumIn() != 1 || wt.NumOut() != 1 {
			continue
		}
		ht := wt.In(0)
		name, tr := p.name, p.tr
		f.Set(reflect.MakeFunc(wt, func(args []reflect.Value) []reflect.Value {
			next := args[0]
			h := reflect.MakeFunc(ht, func(in []reflect.Value) []reflect.Value {
				tr.add("enter " + name + " " + kind)
				out := next.Call(in)
				tr.add("leave " + name + " " + kind)
				return out
			})
			return []reflect.Value{h}
		}))
	}
	return hw
}

func registerPlugins() {
	regOnce.Do(func() {
		for _, n := range []string{"verifA", "verifB", "verifC"} {
			n := n
			server.RegisterPlugin(n, func(cfg config.Config) (server.Plugin, error) {
				curTraceMu.Lock()
				defer curTraceMu.Unlock()
				return &recPlugin{name: n, tr: curTrace}, nil
			})
		}
	})
}

// coreHooks records the innermost (core) invocation of every hook kind.
func coreHooks(tr *traceLog) server.Hooks {
	var h server.Hooks
	v := reflect.ValueOf(&h).Elem()
	for i := 0; i < v.NumField(); i++ {
		f := v.Field(i)
		ft := f.Type()
		if ft.Kind() != reflect.Func {
			continue
		}
		kind := v.Type().Field(i).Name
		f.Set(reflect.MakeFunc(ft, func(in []reflect.Value) []reflect.Value {
			tr.add("core " + kind)
			out := make([]reflect.Value, ft.NumOut())
			for k := range out {
				out[k] = reflect.Zero(ft.Out(k))
			}
			// hooks whose zero result means "refuse" need a positive answer
			switch kind {
			case "OnAccept":
				out[0] = reflect.ValueOf(true)
			case "OnEnhancedAuth":
				out[0] = reflect.ValueOf(&server.EnhancedAuthResponse{})
			case "OnReAuth":
				out[0] = reflect.ValueOf(&server.AuthResponse{})
			}
			return out
		}))
	}
	return h
}

// composeSession drives one scripted session that triggers every hook kind once or more.
func composeSession(b *broker.Broker) error {
	// basic auth, connected, session created, subscribe/d, msg arrived, delivered, unsubscribe/d, closed, will
	c, err := wire.Dial("c1", b.Addr, mqttx.V311)
	if err != nil {
		return err
	}
	if _, err := c.Connect(&mqttx.Packet{ClientID: "c1", CleanStart: false, WillFlag: true, WillTopic: "w/c1", WillPayload: []byte("will")}, step); err != nil {
		return err
	}
	if _, err := c.Subscribe([]mqttx.Sub{{Filter: "t/#", QoS: 1}}, 0, step); err != nil {
		return err
	}
	if _, err := c.Publish(&mqttx.Packet{Topic: "t/1", QoS: 1, Payload: []byte("hello")}, step); err != nil {
		return err
	}
	if err := c.WaitPayload("hello", step); err != nil {
		return err
	}
	if _, err := c.Unsubscribe([]string{"t/#"}, step); err != nil {
		return err
	}
	from := b.Log.Len()
	_ = from
	c.Close() // abrupt: will is published, session kept (v3 non-clean)
	time.Sleep(100 * time.Millisecond)
	// session resumed
	c2, err := wire.Dial("c1b", b.Addr, mqttx.V311)
	if err != nil {
		return err
	}
	if ack, err := c2.Connect(&mqttx.Packet{ClientID: "c1", CleanStart: false}, step); err != nil || !ack.SessionPresent {
		return fmt.Errorf("resume failed: %v %v", ack, err)
	}
	c2.Disconnect(0, nil)
	time.Sleep(50 * time.Millisecond)
	// enhanced auth + re-auth + message dropped (too large for the client) + session terminated
	c3, err := wire.Dial("c3", b.Addr, mqttx.V5)
	if err != nil {
		return err
	}
	m := "meth"
	mp := uint32(60)
	if ack, err := c3.Connect(&mqttx.Packet{ClientID: "c3", CleanStart: true, Props: &mqttx.Props{AuthMethod: &m, MaxPacketSize: &mp}}, step); err != nil || ack.Code != 0 {
		return fmt.Errorf("enhanced auth connect: %v %v", ack, err)
	}
	if _, err := c3.Subscribe([]mqttx.Sub{{Filter: "big", QoS: 0}}, 0, step); err != nil {
		return err
	}
	b.Publish("big", strings.Repeat("x", 200), 0, false) // dropped: exceeds the client's maximum packet size
	// (the queue is read in order: once the small message behind it has arrived, the large one has been looked at)
	b.Publish("big", "after-big", 0, false)
	_ = c3.WaitPayload("after-big", step)
	// re-authentication with the method of CONNECT and data of its own
	_ = c3.Send(&mqttx.Packet{Type: mqttx.AUTH, Code: 0x19, Props: &mqttx.Props{AuthMethod: &m, AuthData: []byte("reauth-data"), HasAuthData: true}})
	_, _ = c3.WaitType(mqttx.AUTH, 0, 2*time.Second)
	c3.Close()
	time.Sleep(100 * time.Millisecond)
	b.Srv.ClientService().TerminateSession("c1")
	time.Sleep(50 * time.Millisecond)
	return nil
}

func permutations() [][]string {
	a := []string{"verifA", "verifB", "verifC"}
	return [][]string{{a[0], a[1], a[2]}, {a[0], a[2], a[1]}, {a[1], a[0], a[2]}, {a[1], a[2], a[0]}, {a[2], a[0], a[1]}, {a[2], a[1], a[0]}}
}

// checkNesting validates the trace against the configured order.
func checkNesting(r *monitor.Run, order []string, tr []string) {
	short := map[string]string{}
	for _, n := range order {
		short[n] = n
	}
	// per hook kind: sequence of events must be repetitions of
	// enter o0, enter o1, enter o2, core, leave o2, leave o1, leave o0
	byKind := map[string][]string{}
	var kinds []string
	for _, e := range tr {
		p := strings.Fields(e)
		var kind, ev string
		switch p[0] {
		case "enter", "leave":
			kind, ev = p[2], p[0]+" "+p[1]
		case "core":
			kind, ev = p[1], "core"
		default:
			continue
		}
		if _, ok := byKind[kind]; !ok {
			kinds = append(kinds, kind)
		}
		byKind[kind] = append(byKind[kind], ev)
	}
	var unit []string
	for _, n := range order {
		unit = append(unit, "enter "+n)
	}
	unit = append(unit, "core")
	for i := len(order) - 1; i >= 0; i-- {
		unit = append(unit, "leave "+order[i])
	}
	hw := reflect.TypeOf(server.HookWrapper{})
	for i := 0; i < hw.NumField(); i++ {
		kind := strings.TrimSuffix(hw.Field(i).Name, "Wrapper")
		evs := byKind[kind]
		r.Eval(1)
		if len(evs) == 0 {
			r.Violation("compose.never_fired:"+kind, fmt.Sprintf("hook kind %s: neither the core hook nor any wrapper ran during a session that triggers it (order %v)", kind, order), map[string]any{"order": order})
			continue
		}
		r.Count("hook_events_"+kind, int64(len(evs)))
		// concurrent events of the same kind (OnDelivered / OnMsgDropped on different connections) could interleave;
		// the scripted session is sequential, so a plain repetition is demanded
		ok := len(evs)%len(unit) == 0
		for j := 0; ok && j < len(evs); j++ {
			if evs[j] != unit[j%len(unit)] {
				ok = false
			}
		}
		if !ok {
			missing := ""
			for _, n := range order {
				found := false
				for _, e := range evs {
					if e == "enter "+n {
						found = true
					}
				}
				if !found {
					missing = "wrapper_not_installed"
				}
			}
			if missing == "" {
				missing = "wrong_nesting"
			}
			r.Violation(fmt.Sprintf("compose.%s:%s", missing, kind), fmt.Sprintf("hook kind %s with plugin_order %v: observed %v, want repetitions of %v", kind, order, evs, unit), map[string]any{"order": order, "events": evs})
		} else {
			r.Nontrivial(fmt.Sprintf("%v|%s|%d", order, kind, len(evs)))
		}
	}
	// load / unload exactly once each
	for _, n := range order {
		l, u := 0, 0
		for _, e := range tr {
			if e == "load "+n {
				l++
			}
			if e == "unload "+n {
				u++
			}
		}
		if l != 1 || u != 1 {
			r.Violation("compose.load_unload", fmt.Sprintf("plugin %s loaded %d times, unloaded %d times", n, l, u), nil)
		}
	}
}

// RunComposition is part (b).
func RunComposition(r *monitor.Run) {
	registerPlugins()
	rounds := r.Pick(1, 5)
	for round := 0; round < rounds; round++ {
		for _, order := range permutations() {
			tr := &traceLog{}
			curTraceMu.Lock()
			curTrace = tr
			curTraceMu.Unlock()
			b, err := broker.Start(broker.Options{NoRecord: true, Hooks: coreHooks(tr), Cfg: func(c *config.Config) {
				c.PluginOrder = order
			}})
			if err != nil {
				r.Inconclusive("composition broker: " + err.Error())
				continue
			}
			if err := composeSession(b); err != nil {
				r.Inconclusive("composition session: " + err.Error())
			}
			if err := b.Stop(step); err != nil {
				r.Inconclusive("composition stop: " + err.Error())
			}
			checkNesting(r, order, tr.snapshot())
			r.Count("plugin_orders_run", 1)
			if round == 0 && order[0] == "verifB" && order[1] == "verifC" {
				t := tr.snapshot()
				r.Sample(map[string]any{"plugin_order": order, "trace_prefix": t[:min(24, len(t))]})
			}
		}
	}
	_ = context.Background
	_ = packets.Version5
}

// RedisCfg (set by the registration code) switches a configuration to the redis back end on a private fake redis.
var RedisCfg func(c *config.Config) (func(), error)

// RunRestored is part (c): the wrappers are also in effect for sessions the broker restores from a persistent
// store at start-up (nobody has connected to them yet). A message dropped for such a session goes through every
// plugin's OnMsgDropped wrapper, first plugin outermost, exactly once.
func RunRestored(r *monitor.Run) {
	if RedisCfg == nil {
		return
	}
	registerPlugins()
	order := []string{"verifB", "verifA", "verifC"}
	var addr string
	var closeRedis func()
	start := func(tr *traceLog) (*broker.Broker, error) {
		curTraceMu.Lock()
		curTrace = tr
		curTraceMu.Unlock()
		return broker.Start(broker.Options{NoRecord: true, Hooks: coreHooks(tr), Cfg: func(c *config.Config) {
			c.PluginOrder = order
			c.MQTT.MaxQueuedMsg = 2
			if addr == "" {
				cl, err := RedisCfg(c)
				if err != nil {
					return
				}
				closeRedis, addr = cl, c.Persistence.Redis.Addr
			} else {
				c.Persistence.Type = config.PersistenceTypeRedis
				c.Persistence.Redis.Addr = addr
			}
		}})
	}
	b1, err := start(&traceLog{})
	if err != nil || addr == "" {
		r.Inconclusive(fmt.Sprintf("restored-session broker: %v", err))
		return
	}
	defer closeRedis()
	c, err := wire.Dial("sleeper", b1.Addr, mqttx.V5)
	if err != nil {
		r.Inconclusive(err.Error())
		return
	}
	e := uint32(3600)
	_, _ = c.Connect(&mqttx.Packet{ClientID: "sleeper", CleanStart: true, Props: &mqttx.Props{SessionExpiry: &e}}, step)
	if _, err := c.Subscribe([]mqttx.Sub{{Filter: "alarm/#", QoS: 1}}, 0, step); err != nil {
		r.Inconclusive(err.Error())
		return
	}
	c.Disconnect(0, nil)
	time.Sleep(50 * time.Millisecond)
	_ = b1.Stop(step)
	tr := &traceLog{}
	b2, err := start(tr)
	if err != nil {
		r.Inconclusive("restart on the same store: " + err.Error())
		return
	}
	for i := 0; i < 4; i++ {
		b2.Publish("alarm/x", fmt.Sprintf("m%d", i), 1, false) // the queue holds 2: two drops
	}
	time.Sleep(50 * time.Millisecond)
	_ = b2.Stop(step)
	r.Eval(1)
	r.Count("restored_session_drops_checked", 1)
	var seq []string
	for _, ev := range tr.snapshot() {
		if strings.HasSuffix(ev, " OnMsgDropped") {
			seq = append(seq, ev)
		}
	}
	want := []string{"enter verifB OnMsgDropped", "enter verifA OnMsgDropped", "enter verifC OnMsgDropped", "core OnMsgDropped", "leave verifC OnMsgDropped", "leave verifA OnMsgDropped", "leave verifB OnMsgDropped"}
	drops := 0
	for _, ev := range seq {
		if ev == "core OnMsgDropped" {
			drops++
		}
	}
	ok := drops > 0 && len(seq) == drops*len(want)
	for i := 0; ok && i < len(seq); i++ {
		ok = seq[i] == want[i%len(want)]
	}
	if !ok {
		r.Violation("compose.restored_session:OnMsgDropped", fmt.Sprintf("messages dropped for a session restored at start-up: OnMsgDropped trace %v, want %d x %v", seq, max(drops, 1), want), nil)
		return
	}
	r.Nontrivial("restored-session-drops")
}

// RedisCfgFault is RedisCfg plus arm(cmd, key): redis refuses the next such command with an error reply.
var RedisCfgFault func(c *config.Config) (cleanup func(), arm func(cmd, key string), err error)

// RunStoreFault is part (d): a session that ends is one event, also when the durable store refuses one of the
// clean-up commands at that moment: OnSessionTerminated fires exactly once (plugins such as the federation learn
// about the end of a session from nothing else), OnClosed fired before it.
func RunStoreFault(r *monitor.Run) {
	if RedisCfgFault == nil {
		return
	}
	var cleanup func()
	var arm func(cmd, key string)
	b, err := broker.Start(broker.Options{Cfg: func(c *config.Config) { cleanup, arm, _ = RedisCfgFault(c) }})
	if err != nil || arm == nil {
		r.Inconclusive(fmt.Sprintf("store-fault broker: %v", err))
		return
	}
	defer func() { b.Stop(step); cleanup() }()
	for i, key := range []string{"session:", "queue:", "sub:", "unack:"} {
		for _, end := range []string{"disconnect", "terminate"} {
			id := fmt.Sprintf("sf%d%s", i, end)
			c, err := wire.Dial(id, b.Addr, mqttx.V311)
			if err != nil {
				r.Inconclusive(err.Error())
				return
			}
			if _, err := c.Connect(&mqttx.Packet{ClientID: id, CleanStart: true}, step); err != nil {
				r.Inconclusive(err.Error())
				return
			}
			if _, err := c.Subscribe([]mqttx.Sub{{Filter: "sf/" + id, QoS: 1}}, 0, step); err != nil {
				r.Inconclusive(err.Error())
				return
			}
			from := b.Log.Len()
			arm("DEL", key+id)
			if end == "disconnect" {
				c.Disconnect(0, nil)
			} else {
				b.Srv.ClientService().TerminateSession(id)
			}
			b.Log.Wait(from, func(e broker.Event) bool { return e.Kind == "OnClosed" && e.Client == id }, step)
			// the end of the session follows the end of the connection at once; give it a generous moment
			b.Log.Wait(from, func(e broker.Event) bool { return e.Kind == "OnSessionTerminated" && e.Client == id }, 3*time.Second)
			time.Sleep(30 * time.Millisecond)
			c.Close()
			n := 0
			for _, e := range b.Log.Events()[from:] {
				if e.Kind == "OnSessionTerminated" && e.Client == id {
					n++
				}
			}
			r.Eval(1)
			gone := len(subsOf(b, id)) == 0
			if gone && n != 1 {
				r.Violation(fmt.Sprintf("store_fault.session_terminated_count:got=%d:end=%s:refused=DEL%s", n, end, key), fmt.Sprintf("the session of %s ended (its subscriptions are gone) while redis refused DEL %s%s: OnSessionTerminated fired %d times, want 1", id, key, id, n), nil)
			}
			r.Count("sessions_ended_while_the_store_refused_a_command", 1)
			r.Nontrivial("store-fault|" + key + end)
		}
	}
}

// RunLifecycleCounts is part (e): every session that is created ends exactly once, and says so exactly once - also when
// the end of the old session and the creation of the new one happen inside one CONNECT (take-over of a connected
// client whose session does not outlive its connection).
func RunLifecycleCounts(r *monitor.Run) {
	b, err := broker.Start(broker.Options{})
	if err != nil {
		r.Inconclusive(err.Error())
		return
	}
	defer b.Stop(step)
	n := 0
	for _, v := range []mqttx.Version{mqttx.V311, mqttx.V5} {
		for _, firstExpiry := range []uint32{0, 3600} {
			for _, secondClean := range []bool{true, false} {
				n++
				id := fmt.Sprintf("life-%d", n)
				mk := func(clean bool, expiry uint32) *mqttx.Packet {
					p := &mqttx.Packet{ClientID: id, CleanStart: clean}
					if v == mqttx.V5 {
						p.Props = &mqttx.Props{SessionExpiry: &expiry}
					} else if expiry == 0 {
						p.CleanStart = true
					}
					return p
				}
				from := b.Log.Len()
				c1, err := wire.Dial(id, b.Addr, v)
				if err != nil {
					r.Inconclusive(err.Error())
					return
				}
				if _, err := c1.Connect(mk(true, firstExpiry), step); err != nil {
					r.Inconclusive(err.Error())
					return
				}
				c2, err := wire.Dial(id, b.Addr, v)
				if err != nil {
					r.Inconclusive(err.Error())
					return
				}
				if _, err := c2.Connect(mk(secondClean, 0), step); err != nil { // take-over
					r.Inconclusive(err.Error())
					return
				}
				c1.WaitEOF(step)
				lf := b.Log.Len()
				c2.Disconnect(0, nil)
				b.Log.Wait(lf, func(e broker.Event) bool { return e.Kind == "OnSessionTerminated" && e.Client == id }, step)
				time.Sleep(30 * time.Millisecond)
				c1.Close()
				created, resumed, terminated := 0, 0, 0
				for _, e := range b.Log.Events()[from:] {
					if e.Client != id {
						continue
					}
					switch e.Kind {
					case "OnSessionCreated":
						created++
					case "OnSessionResumed":
						resumed++
					case "OnSessionTerminated":
						terminated++
					}
				}
				r.Eval(1)
				// the second connection's session has expiry 0 (v3: clean session unless it resumed): it is over by now
				if terminated != created {
					r.Violation(fmt.Sprintf("lifecycle.terminated_vs_created:created=%d:terminated=%d:v=%d:first_expiry_0=%v:second_clean=%v", created, terminated, v, firstExpiry == 0, secondClean),
						fmt.Sprintf("client id %s: %d sessions were created (and %d resumptions), all of them are over, OnSessionTerminated fired %d times", id, created, resumed, terminated), nil)
				}
				r.Count("session_lifecycles_counted", 1)
				r.Nontrivial("lifecycle|" + id)
			}
		}
	}
}

// Run is the entry point.
func Run(r *monitor.Run) {
	RunLifecycleCounts(r)
	RunRepeatedRefusals(r)
	RunEnforcement(r)
	RunComposition(r)
	RunRestored(r)
	RunStoreFault(r)
}
