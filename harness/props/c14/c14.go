// Package c14: hook decisions are enforced; plugin wrappers compose in
// configured order (DESIGN.md §5 C14).
package c14

import (
	"context"
	"errors"
	"fmt"
	"strings"
	"time"

	"github.com/DrmagicE/gmqtt"
	"github.com/DrmagicE/gmqtt/config"
	"github.com/DrmagicE/gmqtt/persistence/subscription"
	"github.com/DrmagicE/gmqtt/pkg/codes"
	"github.com/DrmagicE/gmqtt/server"

	"verif/harness/broker"
	"verif/harness/monitor"
	"verif/harness/mqttx"
	"verif/harness/wire"
)

const step = 10 * time.Second

// Case is one enforcement case.
type Case struct {
	Kind    string // auth | subscribe | arrived | will
	V       byte
	Verdict string
	Code    byte `json:",omitempty"`
	QoS     byte `json:",omitempty"`
	Retain  bool `json:",omitempty"`
	Variant int  `json:",omitempty"`
}

type cx struct {
	c   Case
	fs  []finding
	obs map[string]int
}
type finding struct{ Sig, What string }

func (x *cx) add(sig, what string) { x.fs = append(x.fs, finding{sig, what}) }

func mkErr(code byte) error {
	if code == 0 {
		return errors.New("plain error from hook")
	}
	return codes.NewError(code)
}

func subsOf(b *broker.Broker, client string) []string {
	var out []string
	b.Srv.SubscriptionService().Iterate(func(c string, s *gmqtt.Subscription) bool {
		out = append(out, fmt.Sprintf("%s:%s:q%d", c, s.GetFullTopicName(), s.QoS))
		return true
	}, subscription.IterationOptions{Type: subscription.TypeAll, ClientID: client})
	return out
}

func observer(b *broker.Broker, filter string) (*wire.Client, error) {
	o, err := wire.Dial("obs", b.Addr, mqttx.V5)
	if err != nil {
		return nil, err
	}
	if _, err := o.Connect(&mqttx.Packet{ClientID: "observer", CleanStart: true}, step); err != nil {
		return nil, err
	}
	if _, err := o.Subscribe([]mqttx.Sub{{Filter: filter, QoS: 2, RAP: true}}, 0, step); err != nil {
		return nil, err
	}
	return o, nil
}

// ---- authentication -------------------------------------------------------------

func (x *cx) auth() error {
	c := x.c
	enhanced := c.Verdict == "enhanced_reject"
	// Variant 2/3: the hook hands out one error value for every rejection, as a plugin with a package-level
	// error variable does, and a v3.1.1 client is rejected first
	shared := c.Variant >= 2
	sharedErr := mkErr(c.Code)
	verdict := func() error {
		if shared {
			return sharedErr
		}
		return mkErr(c.Code)
	}
	hooks := server.Hooks{
		OnBasicAuth: func(ctx context.Context, cl server.Client, req *server.ConnectRequest) error {
			if id := string(req.Connect.ClientID); id == "victim" || id == "victim-v3" {
				return verdict()
			}
			return nil
		},
		OnEnhancedAuth: func(ctx context.Context, cl server.Client, req *server.ConnectRequest) (*server.EnhancedAuthResponse, error) {
			if string(req.Connect.ClientID) == "victim" {
				return nil, verdict()
			}
			return &server.EnhancedAuthResponse{}, nil
		},
	}
	b, err := broker.Start(broker.Options{Hooks: hooks})
	if err != nil {
		return err
	}
	defer b.Stop(step)
	obs, err := observer(b, "#")
	if err != nil {
		return err
	}
	defer obs.Close()
	if shared {
		if c3, err := wire.Dial("victim-v3", b.Addr, mqttx.V311); err == nil {
			_, _ = c3.Connect(&mqttx.Packet{ClientID: "victim-v3", CleanStart: true}, step)
			c3.WaitEOF(2 * time.Second)
			c3.Close()
			x.obs["shared_error_value_rejections"]++
		}
	}
	cl, err := wire.Dial("victim", b.Addr, mqttx.Version(c.V))
	if err != nil {
		return err
	}
	defer cl.Close()
	p := &mqttx.Packet{ClientID: "victim", CleanStart: c.Variant%2 == 0, WillFlag: true, WillTopic: "will/victim", WillPayload: []byte("will-of-rejected"), WillQoS: 1, WillRetain: true}
	if c.V == 5 {
		e := uint32(100)
		p.Props = &mqttx.Props{SessionExpiry: &e}
		if enhanced {
			m := "method"
			if c.Variant == 1 {
				m = "" // an Authentication Method of length 0 is still an Authentication Method
			}
			p.Props.AuthMethod = &m
		}
	}
	ack, err := cl.Connect(p, step)
	if err != nil && c.V != 5 && cl.DecodeErr != nil && strings.Contains(cl.DecodeErr.Error(), "CONNACK return code") {
		// gmqtt answers v3 clients with the v5 value 0x87: not a v3 return code, but a failing CONNACK all the same
		// (the repository's unit tests assert this value); the statement only demands "failing"
		x.obs["v3_connack_with_out_of_spec_return_code"]++
		ack, err = &mqttx.Packet{Type: mqttx.CONNACK, Code: 0x87}, nil
	}
	if err != nil {
		x.add("auth.no_connack", fmt.Sprintf("rejected CONNECT got no CONNACK: %v", err))
		return nil
	}
	failing := (c.V == 5 && ack.Code >= 0x80) || (c.V != 5 && ack.Code >= 1)
	if !failing {
		x.add(fmt.Sprintf("auth.connack_success:v=%d", c.V), fmt.Sprintf("CONNECT rejected by the auth hook (code 0x%02x) answered with CONNACK code 0x%02x", c.Code, ack.Code))
	}
	if c.V == 5 && c.Code >= 0x80 && ack.Code != c.Code {
		x.add("auth.connack_code", fmt.Sprintf("hook rejected with 0x%02x, CONNACK carries 0x%02x", c.Code, ack.Code))
	}
	// packets after the failed CONNECT must have no effect
	_ = cl.Send(&mqttx.Packet{Type: mqttx.SUBSCRIBE, PacketID: 3, Subs: []mqttx.Sub{{Filter: "x/#", QoS: 1}}})
	_ = cl.Send(&mqttx.Packet{Type: mqttx.PUBLISH, Topic: "x/after", Retain: true, Payload: []byte("after-reject")})
	cl.WaitEOF(2 * time.Second)
	cl.Close()
	time.Sleep(50 * time.Millisecond)
	if s, _ := b.Srv.ClientService().GetSession("victim"); s != nil {
		x.add("auth.session_left", "a session exists for the rejected client")
	}
	if cli := b.Srv.ClientService().GetClient("victim"); cli != nil {
		x.add("auth.client_left", "the rejected client is listed as connected")
	}
	if ss := subsOf(b, "victim"); len(ss) > 0 {
		x.add("auth.subscription_left", fmt.Sprintf("subscriptions of the rejected client: %v", ss))
	}
	for _, t := range []string{"will/victim", "x/after"} {
		if m := b.Srv.RetainedService().GetRetainedMessage(t); m != nil {
			x.add("auth.retained_left", "retained message on "+t+" after a rejected CONNECT")
		}
	}
	for _, r := range obs.Publishes() {
		x.add("auth.message_leaked", "observer received "+r.P.String())
	}
	for _, e := range b.Log.Events() {
		if (e.Kind == "OnSessionCreated" || e.Kind == "OnConnected" || e.Kind == "OnWillPublish") && e.Client == "victim" {
			x.add("auth.hook_fired:"+e.Kind, e.Kind+" fired for the rejected client")
		}
	}
	x.obs["auth_rejections"]++
	return nil
}

// ---- subscribe ----------------------------------------------------------------------

func (x *cx) subscribe() error {
	c := x.c
	hooks := server.Hooks{OnSubscribe: func(ctx context.Context, cl server.Client, req *server.SubscribeRequest) error {
		switch c.Verdict {
		case "reject_all":
			return mkErr(c.Code)
		case "reject_one":
			req.Reject("t/two", mkErr(c.Code))
		case "downgrade":
			req.GrantQoS("t/two", c.QoS)
		case "downgrade_and_reject":
			req.GrantQoS("t/one", c.QoS)
			req.Reject("t/three", mkErr(c.Code))
		}
		return nil
	}}
	b, err := broker.Start(broker.Options{Hooks: hooks})
	if err != nil {
		return err
	}
	defer b.Stop(step)
	cl, err := wire.Dial("s", b.Addr, mqttx.Version(c.V))
	if err != nil {
		return err
	}
	defer cl.Close()
	if _, err := cl.Connect(&mqttx.Packet{ClientID: "s", CleanStart: true}, step); err != nil {
		return err
	}
	filters := []string{"t/one", "t/two", "t/three"}
	var subs []mqttx.Sub
	for _, f := range filters {
		subs = append(subs, mqttx.Sub{Filter: f, QoS: 2})
	}
	sa, err := cl.Subscribe(subs, 0, step)
	if err != nil {
		x.add("subscribe.no_suback", err.Error())
		return nil
	}
	// expected grant per filter: -1 = rejected
	want := map[string]int{"t/one": 2, "t/two": 2, "t/three": 2}
	switch c.Verdict {
	case "reject_all":
		want = map[string]int{"t/one": -1, "t/two": -1, "t/three": -1}
	case "reject_one":
		want["t/two"] = -1
	case "downgrade":
		want["t/two"] = int(c.QoS)
	case "downgrade_and_reject":
		want["t/one"], want["t/three"] = int(c.QoS), -1
	}
	if len(sa.Codes) != 3 {
		x.add("subscribe.suback_len", fmt.Sprintf("SUBACK has %d codes", len(sa.Codes)))
		return nil
	}
	stored := map[string]int{}
	for _, s := range subsOf(b, "s") {
		parts := strings.Split(s, ":")
		var q int
		fmt.Sscanf(parts[2], "q%d", &q)
		stored[parts[1]] = q
	}
	for i, f := range filters {
		code := sa.Codes[i]
		w := want[f]
		if w < 0 {
			if code < 0x80 {
				x.add(fmt.Sprintf("subscribe.suback_grants_rejected:%s:v=%d", c.Verdict, c.V), fmt.Sprintf("filter %s rejected by OnSubscribe but SUBACK code is 0x%02x", f, code))
			} else if c.V == 5 && c.Code >= 0x80 && code != c.Code {
				x.add("subscribe.suback_code", fmt.Sprintf("filter %s rejected with 0x%02x, SUBACK carries 0x%02x", f, c.Code, code))
			}
			if _, ok := stored[f]; ok {
				x.add(fmt.Sprintf("subscribe.rejected_installed:%s", c.Verdict), fmt.Sprintf("filter %s was rejected but is installed in the subscription store", f))
			}
		} else {
			if int(code) != w {
				x.add(fmt.Sprintf("subscribe.suback_qos:%s", c.Verdict), fmt.Sprintf("filter %s: SUBACK grants %d, hook decided %d", f, code, w))
			}
			if q, ok := stored[f]; !ok || q != w {
				x.add(fmt.Sprintf("subscribe.store_qos:%s", c.Verdict), fmt.Sprintf("filter %s stored with QoS %d (present=%v), hook decided %d", f, q, ok, w))
			}
		}
	}
	// deliveries follow the decision
	for _, f := range filters {
		b.Publish(f, "m-"+f, 2, false)
	}
	b.Publish("t/one", "end", 0, false) // t/one is never rejected except by reject_all
	if want["t/one"] >= 0 {
		if err := cl.WaitPayload("end", step); err != nil {
			x.add("subscribe.delivery_missing", "accepted subscription t/one receives nothing")
			return nil
		}
	} else {
		time.Sleep(100 * time.Millisecond)
	}
	got := map[string]int{}
	for _, r := range cl.Publishes() {
		if string(r.P.Payload) != "end" {
			got[r.P.Topic] = int(r.P.QoS)
			x.obs["deliveries_checked"]++
		}
	}
	for _, f := range filters {
		q, ok := got[f]
		switch {
		case want[f] < 0 && ok:
			x.add("subscribe.rejected_delivers", fmt.Sprintf("rejected filter %s still receives messages", f))
		case want[f] >= 0 && !ok:
			x.add("subscribe.granted_silent", fmt.Sprintf("granted filter %s receives nothing", f))
		case want[f] >= 0 && q != want[f]:
			x.add("subscribe.delivery_qos", fmt.Sprintf("filter %s granted QoS %d delivers QoS %d", f, want[f], q))
		}
	}
	x.obs["subscribe_verdicts"]++
	return nil
}

// ---- message arrived --------------------------------------------------------------------

func (x *cx) arrived() error {
	c := x.c
	hooks := server.Hooks{OnMsgArrived: func(ctx context.Context, cl server.Client, req *server.MsgArrivedRequest) error {
		if req.Message == nil || !strings.HasPrefix(req.Message.Topic, "in/") {
			return nil
		}
		switch c.Verdict {
		case "reject":
			return mkErr(c.Code)
		case "drop":
			req.Drop()
		case "rewrite":
			req.Message.Topic = "out/rewritten"
			req.Message.Payload = []byte("rewritten-payload")
			req.Message.QoS = c.QoS
			req.Message.Retained = !c.Retain
			req.IterationOptions.TopicName = "out/rewritten"
		case "replace":
			req.Message = &gmqtt.Message{Topic: "out/rewritten", Payload: []byte("rewritten-payload"), QoS: c.QoS, Retained: !c.Retain}
			req.IterationOptions.TopicName = "out/rewritten"
		}
		return nil
	}}
	b, err := broker.Start(broker.Options{Hooks: hooks})
	if err != nil {
		return err
	}
	defer b.Stop(step)
	obs, err := observer(b, "#")
	if err != nil {
		return err
	}
	defer obs.Close()
	// an older retained value that a rejected/dropped publish must not change
	b.Srv.RetainedService().AddOrReplace(&gmqtt.Message{Topic: "in/topic", Payload: []byte("old-retained"), QoS: 1, Retained: true})
	p, err := wire.Dial("p", b.Addr, mqttx.Version(c.V))
	if err != nil {
		return err
	}
	defer p.Close()
	if _, err := p.Connect(&mqttx.Packet{ClientID: "p", CleanStart: true}, step); err != nil {
		return err
	}
	payload := "new-value"
	if c.Variant == 1 {
		payload = "" // a retained clear
	}
	pkt := &mqttx.Packet{Topic: "in/topic", QoS: c.QoS, Retain: c.Retain, Payload: []byte(payload)}
	if c.Verdict == "rewrite" || c.Verdict == "replace" {
		pkt.QoS = 2
	}
	ack, err := p.Publish(pkt, step)
	if err != nil {
		x.add("arrived.no_ack", fmt.Sprintf("publish decided by OnMsgArrived (%s) got no ack: %v", c.Verdict, err))
		return nil
	}
	if c.Verdict == "reject" && c.V == 5 && pkt.QoS > 0 {
		wantCode := c.Code
		if wantCode == 0 {
			wantCode = 0x80
		}
		if ack.Code != wantCode {
			x.add("arrived.ack_code", fmt.Sprintf("hook rejected with 0x%02x, ack carries 0x%02x", wantCode, ack.Code))
		}
	}
	if err := p.Ping(step); err != nil {
		return err
	}
	// the exchange decided by the hook is over (a v5 PUBREC >= 0x80 ends it without PUBREL): the client re-uses the
	// packet identifier for a message the hook does not object to; that one is an event of its own
	followUp := (c.Verdict == "reject" || c.Verdict == "drop") && pkt.QoS > 0
	if followUp {
		fromEv := b.Log.Len()
		ack2, err := p.Publish(&mqttx.Packet{Topic: "ok/topic", QoS: pkt.QoS, PacketID: pkt.PacketID, Payload: []byte("after-verdict")}, step)
		if err != nil {
			x.add(fmt.Sprintf("arrived.followup_no_ack:first=%s:qos=%d", c.Verdict, pkt.QoS), fmt.Sprintf("publish re-using packet id %d after the %s exchange got no ack: %v", pkt.PacketID, c.Verdict, err))
			return nil
		}
		if c.V == 5 && ack2.Code != 0 {
			x.add(fmt.Sprintf("arrived.followup_ack_code:first=%s:qos=%d:code=0x%02x", c.Verdict, pkt.QoS, ack2.Code), fmt.Sprintf("a message with a matching subscriber that no hook objects to is acknowledged with 0x%02x (packet id %d re-used after a %s exchange)", ack2.Code, pkt.PacketID, c.Verdict))
		}
		if err := p.Ping(step); err != nil {
			return err
		}
		n := 0
		for _, e := range b.Log.Events()[fromEv:] {
			if e.Kind == "OnMsgArrived" && e.Payload == "after-verdict" {
				n++
			}
		}
		if n != 1 {
			x.add(fmt.Sprintf("arrived.followup_hook_count:got=%d:first=%s:qos=%d", n, c.Verdict, pkt.QoS), fmt.Sprintf("OnMsgArrived fired %d times for a new PUBLISH that re-uses packet id %d after the %s exchange ended", n, pkt.PacketID, c.Verdict))
		}
		x.obs["arrived_followups"]++
	}
	// barrier towards the observer
	b.Publish("sentinel", "sentinel", 1, false)
	if err := obs.WaitPayload("sentinel", step); err != nil {
		return err
	}
	var seen []*mqttx.Packet
	after := 0
	for _, r := range obs.Publishes() {
		if string(r.P.Payload) == "after-verdict" {
			after++
			continue
		}
		if string(r.P.Payload) != "sentinel" {
			seen = append(seen, r.P)
		}
	}
	if followUp && after != 1 {
		x.add(fmt.Sprintf("arrived.followup_delivery:got=%d:first=%s:qos=%d", after, c.Verdict, pkt.QoS), fmt.Sprintf("the message that re-uses packet id %d after the %s exchange was delivered %d times, want 1", pkt.PacketID, c.Verdict, after))
	}
	ret := func(t string) string {
		m := b.Srv.RetainedService().GetRetainedMessage(t)
		if m == nil {
			return "<none>"
		}
		return fmt.Sprintf("%s/q%d", m.Payload, m.QoS)
	}
	switch c.Verdict {
	case "reject", "drop":
		for _, q := range seen {
			x.add("arrived."+c.Verdict+"_delivered", fmt.Sprintf("message %s by OnMsgArrived was delivered: %s", c.Verdict, q.String()))
		}
		if got := ret("in/topic"); got != "old-retained/q1" {
			x.add(fmt.Sprintf("arrived.%s_changed_retained:clear=%v", c.Verdict, c.Variant == 1), fmt.Sprintf("retained message of in/topic is %q after a %s publish (retain=%v), must stay old-retained", got, c.Verdict, c.Retain))
		}
	case "rewrite", "replace":
		if len(seen) != 1 {
			x.add("arrived.rewrite_copies", fmt.Sprintf("observer received %d messages, want the one rewritten message", len(seen)))
			break
		}
		q := seen[0]
		if q.Topic != "out/rewritten" || string(q.Payload) != "rewritten-payload" || q.QoS != c.QoS || q.Retain != !c.Retain {
			x.add("arrived.rewrite_not_applied:"+c.Verdict, fmt.Sprintf("subscribers see %s, hook rewrote to topic out/rewritten payload rewritten-payload qos %d retain %v", q.String(), c.QoS, !c.Retain))
		}
		wantOut, wantIn := "<none>", "old-retained/q1"
		if !c.Retain { // rewritten message is retained
			wantOut = fmt.Sprintf("rewritten-payload/q%d", c.QoS)
		}
		if got := ret("out/rewritten"); got != wantOut {
			x.add(fmt.Sprintf("arrived.rewrite_retained_store:%s:rewritten_retain=%v", c.Verdict, !c.Retain), fmt.Sprintf("retained store holds %q for out/rewritten, want %q", got, wantOut))
		}
		if got := ret("in/topic"); got != wantIn {
			x.add(fmt.Sprintf("arrived.rewrite_original_retained:%s:orig_retain=%v", c.Verdict, c.Retain), fmt.Sprintf("retained store holds %q for the original topic in/topic, want %q (only the rewritten message counts)", got, wantIn))
		}
	}
	x.obs["arrived_verdicts"]++
	return nil
}

// ---- will --------------------------------------------------------------------------------------

func (x *cx) will() error {
	c := x.c
	hooks := server.Hooks{OnWillPublish: func(ctx context.Context, clientID string, req *server.WillMsgRequest) {
		switch c.Verdict {
		case "edit":
			req.Message.Payload = []byte("edited-will")
			req.Message.Topic = "will/edited"
			req.IterationOptions.TopicName = "will/edited"
		case "replace":
			req.Message = &gmqtt.Message{Topic: "will/replaced", Payload: []byte("replaced-will"), QoS: 1}
			req.IterationOptions.TopicName = "will/replaced"
		case "drop":
			req.Drop()
		}
	}}
	b, err := broker.Start(broker.Options{Hooks: hooks})
	if err != nil {
		return err
	}
	defer b.Stop(step)
	obs, err := observer(b, "will/#")
	if err != nil {
		return err
	}
	defer obs.Close()
	w, err := wire.Dial("w", b.Addr, mqttx.Version(c.V))
	if err != nil {
		return err
	}
	if _, err := w.Connect(&mqttx.Packet{ClientID: "w", CleanStart: true, WillFlag: true, WillTopic: "will/original", WillPayload: []byte("original-will"), WillQoS: 1}, step); err != nil {
		return err
	}
	from := b.Log.Len()
	w.Close()
	if _, ok := b.Log.Wait(from, func(e broker.Event) bool { return e.Kind == "OnSessionTerminated" && e.Client == "w" }, step); !ok {
		return errors.New("session of the will owner not terminated")
	}
	b.Publish("will/sentinel", "sentinel", 1, false)
	if err := obs.WaitPayload("sentinel", step); err != nil {
		return err
	}
	var seen []string
	for _, r := range obs.Publishes() {
		if string(r.P.Payload) != "sentinel" {
			seen = append(seen, r.P.Topic+"="+string(r.P.Payload))
		}
	}
	want := map[string]string{"none": "will/original=original-will", "edit": "will/edited=edited-will", "replace": "will/replaced=replaced-will", "drop": ""}[c.Verdict]
	got := strings.Join(seen, ",")
	if got != want {
		x.add("will.verdict_ignored:"+c.Verdict, fmt.Sprintf("OnWillPublish decided %q, subscribers received %q", want, got))
	}
	published := 0
	for _, e := range b.Log.Events() {
		if e.Kind == "OnWillPublished" {
			published++
		}
	}
	if c.Verdict == "drop" && published != 0 {
		x.add("will.published_hook_after_drop", "OnWillPublished fired although the will was dropped")
	}
	x.obs["will_verdicts"]++
	return nil
}

func runCase(c Case) (fs []finding, obs map[string]int, err error) {
	x := &cx{c: c, obs: map[string]int{}}
	switch c.Kind {
	case "auth":
		err = x.auth()
	case "subscribe":
		err = x.subscribe()
	case "arrived":
		err = x.arrived()
	case "will":
		err = x.will()
	}
	return x.fs, x.obs, err
}

func allCases() []Case {
	var cs []Case
	for _, v := range []byte{3, 4, 5} {
		for _, code := range []byte{0, 0x86, 0x87, 0x80, 0x8c} {
			for variant := 0; variant < 4; variant++ {
				if variant >= 2 && v != 5 {
					continue
				}
				cs = append(cs, Case{Kind: "auth", V: v, Verdict: "basic_reject", Code: code, Variant: variant})
			}
			if v == 5 {
				cs = append(cs, Case{Kind: "auth", V: v, Verdict: "enhanced_reject", Code: code}, Case{Kind: "auth", V: v, Verdict: "enhanced_reject", Code: code, Variant: 1})
			}
		}
		for _, code := range []byte{0, 0x80, 0x87, 0x8f} {
			cs = append(cs, Case{Kind: "subscribe", V: v, Verdict: "reject_all", Code: code}, Case{Kind: "subscribe", V: v, Verdict: "reject_one", Code: code})
			for q := byte(0); q < 2; q++ {
				cs = append(cs, Case{Kind: "subscribe", V: v, Verdict: "downgrade_and_reject", Code: code, QoS: q})
			}
		}
		for q := byte(0); q < 2; q++ {
			cs = append(cs, Case{Kind: "subscribe", V: v, Verdict: "downgrade", QoS: q})
		}
		for q := byte(0); q < 3; q++ {
			for _, retain := range []bool{false, true} {
				for variant := 0; variant < 2; variant++ {
					for _, code := range []byte{0, 0x80, 0x87, 0x97} {
						cs = append(cs, Case{Kind: "arrived", V: v, Verdict: "reject", Code: code, QoS: q, Retain: retain, Variant: variant})
					}
					cs = append(cs, Case{Kind: "arrived", V: v, Verdict: "drop", QoS: q, Retain: retain, Variant: variant})
				}
				cs = append(cs, Case{Kind: "arrived", V: v, Verdict: "rewrite", QoS: q, Retain: retain}, Case{Kind: "arrived", V: v, Verdict: "replace", QoS: q, Retain: retain})
			}
		}
		for _, vd := range []string{"none", "edit", "replace", "drop"} {
			cs = append(cs, Case{Kind: "will", V: v, Verdict: vd})
		}
	}
	return cs
}

// RunEnforcement is part (a).
func RunEnforcement(r *monitor.Run) {
	cs := allCases()
	if r.Quick() {
		// quick: every (kind, verdict) with a rotating choice of the other parameters
		seen := map[string]int{}
		var keep []Case
		for _, c := range cs {
			k := fmt.Sprintf("%s|%s|%d|%v|%v", c.Kind, c.Verdict, c.V, c.Kind == "auth" && c.Variant >= 2 && c.Code > 0x80 && c.Code != 0x87, c.Verdict == "enhanced_reject" && c.Variant == 1)
			lim := 3
			if c.Kind == "arrived" && (c.Verdict == "reject" || c.Verdict == "drop") {
				// every QoS and every reason code once (retain / variant rotate)
				k += fmt.Sprintf("|q%d|c%d", c.QoS, c.Code)
				lim = 1
				if (int(c.QoS)+int(c.Code))%2 == 1 && !(c.Retain && c.Variant == 1) {
					continue // odd ones take the last (retain, variant) combination, even ones the first
				}
			}
			if seen[k] < lim {
				keep = append(keep, c)
			}
			seen[k]++
		}
		cs = keep
	}
	r.Parallel(len(cs), 16, func(i int) {
		c := cs[i]
		fs, obs, err := runCase(c)
		r.Eval(1)
		if err != nil {
			r.Inconclusive(fmt.Sprintf("case %v: %v", c, err))
			return
		}
		for _, f := range fs {
			r.Violation(f.Sig, f.What, map[string]any{"case": c})
		}
		for k, v := range obs {
			r.Count(k, int64(v))
		}
		r.Nontrivial(monitor.J(c))
		if i == 0 {
			r.Sample(c)
		}
	})
	_ = config.Overlap
}
