package c14

import (
	"context"
	"fmt"
	"strings"

	"github.com/DrmagicE/gmqtt/config"
	"github.com/DrmagicE/gmqtt/server"

	"verif/harness/broker"
	"verif/harness/monitor"
	"verif/harness/mqttx"
	"verif/harness/wire"
)

// RunRepeatedRefusals: each refusal by OnMsgArrived ends one exchange and is an event of its own: the n-th refused
// publication is answered like the first, however many came before on the connection, and a publication nobody objects to
// is afterwards accepted and delivered. A publisher that sends strictly one publication at a time (server_receive_maximum
// 3, 3x3+2 refusals per QoS) never has more than one unacknowledged publication: it is never disconnected.
func RunRepeatedRefusals(r *monitor.Run) {
	for _, v := range []mqttx.Version{mqttx.V311, mqttx.V5} {
		for _, code := range []byte{0x80, 0x87, 0x97} {
			func() {
				tag := fmt.Sprintf("v=%d:code=0x%02x", v, code)
				hooks := server.Hooks{OnMsgArrived: func(ctx context.Context, cl server.Client, req *server.MsgArrivedRequest) error {
					if req.Message != nil && strings.HasPrefix(req.Message.Topic, "in/") {
						return mkErr(code)
					}
					return nil
				}}
				b, err := broker.Start(broker.Options{Hooks: hooks, Cfg: func(c *config.Config) { c.MQTT.ReceiveMax = 3 }})
				if err != nil {
					r.Inconclusive(err.Error())
					return
				}
				defer b.Stop(step)
				obs, err := observer(b, "ok/#")
				if err != nil {
					r.Inconclusive(err.Error())
					return
				}
				defer obs.Close()
				p, err := wire.Dial("rp", b.Addr, v)
				if err != nil {
					r.Inconclusive(err.Error())
					return
				}
				defer p.Close()
				if _, err := p.Connect(&mqttx.Packet{ClientID: "rp", CleanStart: true}, step); err != nil {
					r.Inconclusive(err.Error())
					return
				}
				r.Eval(1)
				n := 0
				for _, q := range []byte{2, 1, 2} {
					for i := 0; i < 11; i++ {
						n++
						ack, err := p.Publish(&mqttx.Packet{Topic: "in/t", QoS: q, Payload: []byte(fmt.Sprintf("refused-%d", n))}, step)
						if err != nil {
							r.Violation(fmt.Sprintf("arrived.refusal_%s:%s:qos=%d", ifEOF(p), tag, q), fmt.Sprintf("refused publication number %d on the connection (QoS %d, one at a time, server_receive_maximum 3) was not answered: %v; control packets: %v", n, q, err, p.Ctl()), nil)
							return
						}
						if v == mqttx.V5 && ack.Code != code {
							r.Violation(fmt.Sprintf("arrived.refusal_code_changed:%s:qos=%d", tag, q), fmt.Sprintf("refused publication number %d answered with 0x%02x, the hook said 0x%02x", n, ack.Code, code), nil)
							return
						}
					}
				}
				for _, q := range []byte{1, 2} {
					pl := fmt.Sprintf("accepted-%d", q)
					ack, err := p.Publish(&mqttx.Packet{Topic: "ok/t", QoS: q, Payload: []byte(pl)}, step)
					if err != nil {
						r.Violation(fmt.Sprintf("arrived.after_refusals_%s:%s:qos=%d", ifEOF(p), tag, q), fmt.Sprintf("after %d refused publications a publication nobody objects to was not acknowledged: %v; control packets: %v", n, err, p.Ctl()), nil)
						return
					}
					if v == mqttx.V5 && ack.Code != 0 {
						r.Violation(fmt.Sprintf("arrived.after_refusals_code:%s:qos=%d", tag, q), fmt.Sprintf("after %d refused publications a publication with a subscriber was acknowledged with 0x%02x", n, ack.Code), nil)
					}
					if err := obs.WaitPayload(pl, step); err != nil {
						r.Violation(fmt.Sprintf("arrived.after_refusals_lost:%s:qos=%d", tag, q), fmt.Sprintf("after %d refused publications an acknowledged publication did not reach its subscriber: %v", n, err), nil)
					}
				}
				k := 0
				for _, e := range b.Log.Events() {
					if e.Kind == "OnMsgArrived" && strings.HasPrefix(e.Payload, "refused-") {
						k++
					}
				}
				if k != n {
					r.Violation(fmt.Sprintf("arrived.refusal_hook_count:%s", tag), fmt.Sprintf("%d publications were refused one by one, OnMsgArrived fired %d times for them", n, k), nil)
				}
				r.Count("repeated_refusals", int64(n))
				r.Nontrivial("refusals|" + tag)
			}()
		}
	}
}

func ifEOF(c *wire.Client) string {
	if eof, _, _ := c.EOF(); eof {
		return "disconnected"
	}
	return "unanswered"
}
