package c20

import (
	"fmt"
	"time"

	"github.com/DrmagicE/gmqtt/config"
	"github.com/DrmagicE/gmqtt/server"

	"verif/harness/broker"
	"verif/harness/monitor"
	"verif/harness/mqttx"
	"verif/harness/wire"
)

// RedisCfgFault (set by the registration code) switches a configuration to the redis back end on a private fake
// redis and returns arm(cmd, key): redis refuses the next such command with an error reply.
var RedisCfgFault func(c *config.Config) (cleanup func(), arm func(cmd, key string), err error)

func sessionGauges(r *monitor.Run, b *broker.Broker, what, kind string, wantActive, wantInactive, wantCreated, wantTerminated uint64) {
	var g server.GlobalStats
	// the counters are booked by the goroutine of the connection right after the events the caller waited for
	for i := 0; i < 100; i++ {
		g = b.Srv.StatsManager().GetGlobalStats()
		cs := g.ConnectionStats
		if cs.ActiveCurrent == wantActive && cs.InactiveCurrent == wantInactive && cs.SessionCreatedTotal == wantCreated && cs.SessionTerminated.Expired+cs.SessionTerminated.Normal+cs.SessionTerminated.TakenOver == wantTerminated {
			return
		}
		time.Sleep(10 * time.Millisecond)
	}
	cs := g.ConnectionStats
	term := cs.SessionTerminated.Expired + cs.SessionTerminated.Normal + cs.SessionTerminated.TakenOver
	if cs.ActiveCurrent != wantActive || cs.InactiveCurrent != wantInactive {
		r.Violation("directed.session_gauges:"+kind, fmt.Sprintf("%s: ActiveCurrent=%d InactiveCurrent=%d, there are %d online and %d offline sessions", what, cs.ActiveCurrent, cs.InactiveCurrent, wantActive, wantInactive), map[string]any{"stats": cs})
	}
	if cs.SessionCreatedTotal != wantCreated || term != wantTerminated {
		r.Violation("directed.session_counters:"+kind, fmt.Sprintf("%s: SessionCreatedTotal=%d SessionTerminated(sum)=%d, %d sessions were created and %d have ended", what, cs.SessionCreatedTotal, term, wantCreated, wantTerminated), map[string]any{"stats": cs})
	}
}

// directedSessions: session gauges and counters across two rarely taken paths.
//
//	expired_unswept: a session whose expiry interval has passed is replaced by a reconnect with Clean Start 0
//	                 before the broker's 20 s sweep has seen it;
//	store_fault:     a session is terminated while redis refuses the DEL of its queue.
func directedSessions(r *monitor.Run) {
	step := 10 * time.Second
	connect := func(b *broker.Broker, id string, clean bool, expiry uint32) (*wire.Client, *mqttx.Packet, error) {
		c, err := wire.Dial(id, b.Addr, mqttx.V5)
		if err != nil {
			return nil, nil, err
		}
		p := &mqttx.Packet{ClientID: id, CleanStart: clean}
		if expiry != 0 {
			p.Props = &mqttx.Props{SessionExpiry: &expiry}
		}
		ack, err := c.Connect(p, step)
		return c, ack, err
	}
	closeAndWait := func(b *broker.Broker, c *wire.Client, id string) bool {
		from := b.Log.Len()
		c.Disconnect(0, nil)
		_, ok := b.Log.Wait(from, func(e broker.Event) bool { return e.Kind == "OnClosed" && e.Client == id }, step)
		return ok
	}
	// ---- expired, not yet swept
	func() {
		b, err := broker.Start(broker.Options{})
		if err != nil {
			r.Inconclusive(err.Error())
			return
		}
		defer b.Stop(step)
		c, _, err := connect(b, "gone", true, 1)
		if err != nil {
			r.Inconclusive(err.Error())
			return
		}
		if _, err := c.Subscribe([]mqttx.Sub{{Filter: "d/#", QoS: 1}}, 0, step); err != nil {
			r.Inconclusive(err.Error())
			return
		}
		if !closeAndWait(b, c, "gone") {
			r.Inconclusive("close not observed")
			return
		}
		r.Eval(1)
		sessionGauges(r, b, "after the client went offline", "expired_unswept:offline", 0, 1, 1, 0)
		time.Sleep(1700 * time.Millisecond) // expiry 1 s has passed (a sleep only lasts longer), no sweep before 20 s
		c2, ack, err := connect(b, "gone", false, 1)
		if err != nil {
			r.Inconclusive(err.Error())
			return
		}
		defer c2.Close()
		if ack.SessionPresent {
			r.Inconclusive("session present after its expiry (C05's business)")
			return
		}
		_ = c2.Ping(step)
		sessionGauges(r, b, "after the expired session was replaced by a reconnect with Clean Start 0", "expired_unswept:replaced", 1, 0, 2, 1)
		r.Nontrivial("directed|expired_unswept")
		r.Count("directed_session_scenarios", 1)
	}()
	// ---- a session that still holds messages ends: its queue is gone, so is its share of the global gauges
	for _, how := range []string{"terminate", "clean_reconnect", "expiry_sweep"} {
		func() {
			b, err := broker.Start(broker.Options{})
			if err != nil {
				r.Inconclusive(err.Error())
				return
			}
			defer b.Stop(step)
			expiry := uint32(3600)
			if how == "expiry_sweep" {
				expiry = 1
			}
			c, _, err := connect(b, "holder", true, expiry)
			if err != nil {
				r.Inconclusive(err.Error())
				return
			}
			c.SetAutoAck(false)
			if _, err := c.Subscribe([]mqttx.Sub{{Filter: "held/#", QoS: 1}}, 0, step); err != nil {
				r.Inconclusive(err.Error())
				return
			}
			// one message in flight (delivered, never acknowledged), three more queued while the client is away
			b.Publish("held/x", "in-flight", 1, false)
			if err := c.WaitPayload("in-flight", step); err != nil {
				r.Inconclusive(err.Error())
				return
			}
			from := b.Log.Len()
			c.Close()
			if _, ok := b.Log.Wait(from, func(e broker.Event) bool { return e.Kind == "OnClosed" && e.Client == "holder" }, step); !ok {
				r.Inconclusive("close not observed")
				return
			}
			for i := 0; i < 3; i++ {
				b.Publish("held/x", fmt.Sprintf("queued-%d", i), 1, false)
			}
			r.Eval(1)
			g := b.Srv.StatsManager().GetGlobalStats().MessageStats
			if g.QueuedCurrent != 4 || g.InflightCurrent != 1 {
				r.Violation("directed.queue_gauges:before_session_end", fmt.Sprintf("an offline session holds 4 messages, 1 of them in flight: global QueuedCurrent=%d InflightCurrent=%d", g.QueuedCurrent, g.InflightCurrent), nil)
				return
			}
			from = b.Log.Len()
			switch how {
			case "terminate":
				b.Srv.ClientService().TerminateSession("holder")
			case "clean_reconnect":
				c2, _, err := connect(b, "holder", true, 0)
				if err != nil {
					r.Inconclusive(err.Error())
					return
				}
				defer c2.Close()
			case "expiry_sweep":
				time.Sleep(1700 * time.Millisecond)
				server.VerifSessionExpireCheck(b.Srv)
			}
			if _, ok := b.Log.Wait(from, func(e broker.Event) bool { return e.Kind == "OnSessionTerminated" && e.Client == "holder" }, step); !ok {
				r.Inconclusive("session end not observed (" + how + ")")
				return
			}
			time.Sleep(30 * time.Millisecond)
			g = b.Srv.StatsManager().GetGlobalStats().MessageStats
			if g.QueuedCurrent != 0 || g.InflightCurrent != 0 {
				r.Violation("directed.queue_gauges_after_session_end:how="+how, fmt.Sprintf("the only session that held messages has ended (%s), no queue exists any more: global QueuedCurrent=%d InflightCurrent=%d", how, g.QueuedCurrent, g.InflightCurrent), nil)
				return
			}
			r.Nontrivial("directed|held|" + how)
			r.Count("directed_session_scenarios", 1)
		}()
	}
	// ---- store fault at the end of a session
	if RedisCfgFault == nil {
		return
	}
	for _, end := range []string{"terminate", "clean_reconnect"} {
		func() {
			var cleanup func()
			var arm func(cmd, key string)
			b, err := broker.Start(broker.Options{Cfg: func(c *config.Config) { cleanup, arm, _ = RedisCfgFault(c) }})
			if err != nil || arm == nil {
				r.Inconclusive(fmt.Sprintf("store-fault broker: %v", err))
				return
			}
			defer func() { b.Stop(step); cleanup() }()
			c, _, err := connect(b, "sfa", true, 3600)
			if err != nil {
				r.Inconclusive(err.Error())
				return
			}
			if !closeAndWait(b, c, "sfa") {
				r.Inconclusive("close not observed")
				return
			}
			r.Eval(1)
			sessionGauges(r, b, "after the client went offline", "store_fault:offline", 0, 1, 1, 0)
			arm("DEL", "queue:sfa")
			kind := "store_fault:" + end
			if end == "terminate" {
				b.Srv.ClientService().TerminateSession("sfa")
				sessionGauges(r, b, "after TerminateSession while redis refused the DEL of the queue", kind, 0, 0, 1, 1)
			}
			c2, ack, err := connect(b, "sfa", true, 3600)
			if err != nil || ack.Code != 0 {
				// a broker may refuse the connection after a store error; then there is one session less to count
				if end == "clean_reconnect" {
					sessionGauges(r, b, "after a Clean Start reconnect that ended the old session while redis refused the DEL of the queue (connection refused)", kind, 0, 0, 1, 1)
				}
				r.Count("directed_store_fault_connection_refused", 1)
				r.Nontrivial("directed|" + kind)
				return
			}
			defer c2.Close()
			_ = c2.Ping(step)
			sessionGauges(r, b, "after the old session ended while redis refused the DEL of its queue and a new one was created", kind+":new_session", 1, 0, 2, 1)
			if cs, ok := b.Srv.StatsManager().GetClientStats("sfa"); ok {
				if n := cs.PacketStats.ReceivedTotal.Connect; n != 1 {
					r.Violation("directed.client_epoch:"+kind, fmt.Sprintf("the new session of sfa has seen one CONNECT, its statistics say %d (the statistics of the ended session were not discarded)", n), nil)
				}
			}
			r.Nontrivial("directed|" + kind)
			r.Count("directed_session_scenarios", 1)
		}()
	}
}
