// Package c20: statistics are conserved - counters equal what actually
// happened (DESIGN.md §5 C20).
package c20

import (
	"context"
	"encoding/json"
	"fmt"
	"math/rand"
	"reflect"
	"strings"
	"sync"
	"sync/atomic"
	"time"

	"github.com/DrmagicE/gmqtt"
	"github.com/DrmagicE/gmqtt/config"
	"github.com/DrmagicE/gmqtt/pkg/packets"
	"github.com/DrmagicE/gmqtt/server"

	"verif/harness/broker"
	"verif/harness/props/restored"
	"verif/harness/monitor"
	"verif/harness/mqttx"
	"verif/harness/wire"
	"verif/harness/yield"
)

const step = 10 * time.Second

var dbg = false

// Scenario parameters.
type Scenario struct {
	Seed      int64
	Clients   int
	Traffic   int
	Drops     []string // queue_full | oversize | expired
	Churn     int
	Terminate bool // includes session terminations (per-client comparison restricted)
}

type cl struct {
	id         string
	v          mqttx.Version
	conns      []*wire.Client // all connections of this client id (statistics epoch = session)
	cur        *wire.Client
	online     bool
	epoch0     int // index into conns where the current statistics epoch starts
	killed     bool
	subs       map[string]byte
	maxPkt     uint32
	authMethod bool // v5: connects with an Authentication Method and re-authenticates now and then
}

type world struct {
	sc  *Scenario
	b   *broker.Broker
	rng *rand.Rand
	cs  []*cl
	fs  []finding
	obs map[string]int
	// ground truth for connection statistics
	connected, disconnected, created       uint64
	termNormal, termTakenOver, termExpired uint64
	dropped                                map[string]map[string][3]uint64 // client -> reason -> per QoS
	expectQueued, expectInflight           map[string]uint64
	syncN                                  int
	// hold: while set, the broker's write loop for client holdID blocks inside the OnDelivered hook
	holdMu      sync.Mutex
	holdID      string
	holdCh      chan struct{}
	holdEntered chan struct{}
}

func (w *world) onDelivered(id string) {
	w.holdMu.Lock()
	ch, ent := w.holdCh, w.holdEntered
	match := w.holdID == id && id != ""
	if match {
		w.holdID = "" // only the first delivery is held back
	}
	w.holdMu.Unlock()
	if match {
		close(ent)
		<-ch
	}
}

type finding struct {
	Sig, What string
	Diag      []string
}

func (w *world) add(sig, what string) { w.fs = append(w.fs, finding{Sig: sig, What: what}) }

func (w *world) connect(c *cl, clean bool) error {
	conn, err := wire.Dial(c.id, w.b.Addr, c.v)
	if err != nil {
		return err
	}
	p := &mqttx.Packet{ClientID: c.id, CleanStart: clean, KeepAlive: 0}
	if c.v == mqttx.V5 {
		e := uint32(3600)
		p.Props = &mqttx.Props{SessionExpiry: &e}
		if c.authMethod {
			m := "m"
			p.Props.AuthMethod = &m
		}
		if c.maxPkt != 0 {
			mp := c.maxPkt
			p.Props.MaxPacketSize = &mp
		}
	}
	ack, err := conn.Connect(p, step)
	if err != nil {
		return err
	}
	if ack.Code != 0 {
		return fmt.Errorf("connack %d", ack.Code)
	}
	w.connected++
	if !ack.SessionPresent {
		w.created++
		// a new session is a new statistics epoch
		c.epoch0 = len(c.conns)
		c.subs = map[string]byte{}
	}
	c.conns = append(c.conns, conn)
	c.cur = conn
	c.online = true
	return nil
}

func (w *world) waitClosed(id string, from int) bool {
	_, ok := w.b.Log.Wait(from, func(e broker.Event) bool { return e.Kind == "OnClosed" && e.Client == id }, step)
	return ok
}

// settle: everything routed to c so far has been written to its socket and its acks have been processed.
func (w *world) settle(c *cl) {
	if !c.online || !c.cur.AutoAck {
		return
	}
	w.syncN++
	pl := fmt.Sprintf("sync-%d", w.syncN)
	if _, ok := c.subs["sync/"+c.id]; !ok {
		if _, err := c.cur.Subscribe([]mqttx.Sub{{Filter: "sync/" + c.id, QoS: 1}}, 0, step); err != nil {
			w.add("harness.sync_subscribe", err.Error())
			return
		}
		c.subs["sync/"+c.id] = 1
	}
	w.b.Publish("sync/"+c.id, pl, 1, false)
	if err := c.cur.WaitPayload(pl, step); err != nil {
		w.add("harness.sync", c.id+": "+err.Error())
	}
	_ = c.cur.Ping(step)
	// every QoS 2 exchange the client's reader has begun (PUBREC written) is complete (PUBCOMP written) before the
	// caller goes on - a PUBCOMP written after a DISCONNECT would be exchanged on the wire but not read by the broker
	for i := 0; i < 400; i++ {
		rec, comp := 0, 0
		for _, r := range c.cur.Log() {
			if r.Dir == "out" && r.P != nil {
				switch r.P.Type {
				case mqttx.PUBREC:
					rec++
				case mqttx.PUBCOMP:
					comp++
				}
			}
		}
		if rec == comp {
			break
		}
		time.Sleep(5 * time.Millisecond)
		_ = c.cur.Ping(step)
	}
}

func (w *world) gracefulDisconnect(c *cl) {
	w.settle(c)
	_ = c.cur.Ping(step)
	from := w.b.Log.Len()
	c.cur.Disconnect(0, nil)
	c.online = false
	if !w.waitClosed(c.id, from) {
		w.add("harness.close_not_observed", "OnClosed missing for "+c.id)
	}
	w.disconnected++
}

// traffic: random subscribe / publish / ping / unsubscribe among online clients, fully acknowledged.
func (w *world) traffic(n int) {
	topics := []string{"a/1", "a/2", "b/1"}
	filters := []string{"a/#", "a/1", "+/1", "b/#"}
	for i := 0; i < n; i++ {
		var on []*cl
		for _, c := range w.cs[:w.sc.Clients] { // victims of the drop cases do not take part
			if c.online {
				on = append(on, c)
			}
		}
		if len(on) == 0 {
			return
		}
		c := on[w.rng.Intn(len(on))]
		switch x := w.rng.Intn(10); {
		case x < 3:
			f := filters[w.rng.Intn(len(filters))]
			q := byte(w.rng.Intn(3))
			if _, err := c.cur.Subscribe([]mqttx.Sub{{Filter: f, QoS: q}}, 0, step); err != nil {
				w.add("harness.subscribe", err.Error())
				return
			}
			c.subs[f] = q
		case x < 4:
			f := filters[w.rng.Intn(len(filters))]
			if _, err := c.cur.Unsubscribe([]string{f}, step); err != nil {
				w.add("harness.unsubscribe", err.Error())
				return
			}
			delete(c.subs, f)
		case x < 9:
			q := byte(w.rng.Intn(3))
			pl := make([]byte, w.rng.Intn(300))
			topic := topics[w.rng.Intn(len(topics))]
			if w.rng.Intn(10) == 0 {
				// a packet whose remaining length sits on (or right next to) a boundary of the variable byte integer: the
				// byte counters follow the real size of the packet there as everywhere (the copies that go out to
				// subscribers differ from the packet that came in by a few bytes, hence the offsets)
				rl := []int{127, 128, 16383, 16384, 16385}[w.rng.Intn(5)] + []int{0, 0, 0, -1, -2, -3, 1, 2, 3}[w.rng.Intn(9)]
				pl = make([]byte, payloadForRemainingLength(rl, topic, q, c.cur.V))
				w.obs["publishes_at_length_field_boundaries"]++
			}
			if _, err := c.cur.Publish(&mqttx.Packet{Topic: topic, QoS: q, Payload: pl, Retain: w.rng.Intn(8) == 0}, step); err != nil {
				w.add("harness.publish", err.Error())
				return
			}
			if q == 0 {
				// no acknowledgement tells when the broker has handled a QoS 0 PUBLISH: a PINGREQ behind it does
				// (otherwise its copies could reach a subscriber after that subscriber's own barrier)
				_ = c.cur.Ping(step)
			}
			w.obs["publishes"]++
		default:
			if c.authMethod {
				m := "m"
				_ = c.cur.Send(&mqttx.Packet{Type: mqttx.AUTH, Code: 0x19, Props: &mqttx.Props{AuthMethod: &m, AuthData: []byte("m"), HasAuthData: true}})
				if _, err := c.cur.WaitType(mqttx.AUTH, 0, step); err != nil {
					w.add("harness.reauth", err.Error())
					return
				}
				w.obs["auth_packets"] += 2
			} else {
				_ = c.cur.Ping(step)
			}
		}
	}
}

func (w *world) addDrop(client, reason string, qos byte, n uint64) {
	if w.dropped[client] == nil {
		w.dropped[client] = map[string][3]uint64{}
	}
	a := w.dropped[client][reason]
	a[qos] += n
	w.dropped[client][reason] = a
}

// dropCase builds a dedicated victim client for one kind of drop with an exactly known outcome.
func (w *world) dropCase(kind string, idx int) {
	id := fmt.Sprintf("victim-%s-%d", kind, idx)
	c := &cl{id: id, v: mqttx.V5, subs: map[string]byte{}}
	if kind == "oversize" {
		c.maxPkt = 80
	}
	w.cs = append(w.cs, c)
	if err := w.connect(c, true); err != nil {
		w.add("harness.connect", err.Error())
		return
	}
	topic := "drop/" + id
	q := byte(1 + w.rng.Intn(2))
	if _, err := c.cur.Subscribe([]mqttx.Sub{{Filter: topic, QoS: 2}}, 0, step); err != nil {
		w.add("harness.subscribe", err.Error())
		return
	}
	switch kind {
	case "oversize":
		// online, 3 messages larger than the client's maximum packet size, 2 small ones
		for i := 0; i < 3; i++ {
			w.b.Publish(topic, strings.Repeat("o", 200), q, false)
		}
		w.b.Publish(topic, "small", q, false)
		w.b.Publish(topic, "end", q, false)
		if err := c.cur.WaitPayload("end", step); err != nil {
			w.add("harness.oversize_end", err.Error())
		}
		w.addDrop(id, "oversize", q, 3)
	case "queue_full":
		// offline with a queue of 50: 53 QoS>0 messages -> 3 dropped as queue full; 50 stay queued
		w.gracefulDisconnect(c)
		for i := 0; i < 53; i++ {
			w.b.Publish(topic, fmt.Sprintf("q%d", i), q, false)
		}
		w.addDrop(id, "queue_full", q, 3)
		w.expectQueued[id] = 50
		if w.rng.Intn(2) == 0 {
			// come back without acknowledging: 50 queued of which max_inflight = 5 in flight
			conn, err := wire.Dial(id, w.b.Addr, c.v)
			if err != nil {
				return
			}
			conn.AutoAck = false
			e := uint32(3600)
			if ack, err := conn.Connect(&mqttx.Packet{ClientID: id, CleanStart: false, Props: &mqttx.Props{SessionExpiry: &e}}, step); err != nil || !ack.SessionPresent {
				w.add("harness.resume", fmt.Sprintf("%v %v", ack, err))
				return
			}
			w.connected++
			c.conns = append(c.conns, conn)
			c.cur, c.online = conn, true
			deadline := time.Now().Add(step)
			for len(conn.Publishes()) < 5 && time.Now().Before(deadline) {
				time.Sleep(2 * time.Millisecond)
			}
			w.expectInflight[id] = 5
			// acknowledgements that refer to nothing: a PUBACK / PUBCOMP with an unknown packet identifier, and a
			// repeated acknowledgement. The queue keeps its contents, so do the gauges.
			_ = conn.Send(&mqttx.Packet{Type: mqttx.PUBACK, PacketID: 61001})
			_ = conn.Send(&mqttx.Packet{Type: mqttx.PUBCOMP, PacketID: 61002})
			w.obs["stray_acks"] += 2
			if pubs := conn.Publishes(); len(pubs) >= 5 {
				first := pubs[0].P
				ackIt := func() {
					if first.QoS == 1 {
						_ = conn.Send(&mqttx.Packet{Type: mqttx.PUBACK, PacketID: first.PacketID})
					} else {
						_ = conn.Send(&mqttx.Packet{Type: mqttx.PUBREC, PacketID: first.PacketID})
						if _, err := conn.WaitType(mqttx.PUBREL, first.PacketID, step); err != nil {
							w.add("harness.pubrel", err.Error())
						}
						_ = conn.Send(&mqttx.Packet{Type: mqttx.PUBCOMP, PacketID: first.PacketID})
					}
				}
				ackIt()
				deadline := time.Now().Add(step)
				for len(conn.Publishes()) < 6 && time.Now().Before(deadline) {
					time.Sleep(2 * time.Millisecond)
				}
				// the same acknowledgement once more: its packet identifier is no longer in the queue
				if first.QoS == 1 {
					_ = conn.Send(&mqttx.Packet{Type: mqttx.PUBACK, PacketID: first.PacketID})
				} else {
					_ = conn.Send(&mqttx.Packet{Type: mqttx.PUBCOMP, PacketID: first.PacketID})
				}
				w.obs["repeated_acks"]++
				w.expectQueued[id] = 49
			}
			if err := conn.Ping(step); err != nil {
				w.add("harness.ping_after_stray_acks", err.Error())
			}
		}
	case "backlog":
		// The write loop is busy (held inside the OnDelivered hook, as it would be by a blocking socket write) with
		// more packets queued behind it when the broker ends the connection with a DISCONNECT: whichever way the
		// write loop drains its channel afterwards, what the client finally received is what was counted.
		w.holdMu.Lock()
		w.holdID, w.holdCh, w.holdEntered = id, make(chan struct{}), make(chan struct{})
		ch, ent := w.holdCh, w.holdEntered
		w.holdMu.Unlock()
		w.b.Publish(topic, "held", 0, false)
		select {
		case <-ent:
		case <-time.After(step):
			close(ch)
			w.add("harness.hold", "the write loop never reached OnDelivered")
			return
		}
		for i := 0; i < 4; i++ {
			w.b.Publish(topic, fmt.Sprintf("behind-%d", i), 0, false)
		}
		time.Sleep(10 * time.Millisecond)
		from := w.b.Log.Len()
		_ = c.cur.SendRaw([]byte{0xC1, 0x00}, nil) // PINGREQ with a reserved flag set: malformed
		time.Sleep(30 * time.Millisecond)
		close(ch)
		if !c.cur.WaitEOF(step) {
			w.add("harness.backlog_eof", "the broker did not close the connection after a malformed packet")
		}
		if !w.waitClosed(id, from) {
			w.add("harness.close_not_observed", "OnClosed missing for "+id)
		}
		w.disconnected++
		c.online = false
		c.killed = true
		for _, p := range c.cur.Ctl() {
			if p.Type == mqttx.DISCONNECT {
				w.obs["backlogged_disconnects_received"]++
			}
		}
	case "expired":
		// offline, message expiry 1 s: 4 messages expire in the queue and are dropped when the queue is read
		w.gracefulDisconnect(c)
		for i := 0; i < 4; i++ {
			w.b.Publish(topic, fmt.Sprintf("e%d", i), q, false)
		}
		time.Sleep(2200 * time.Millisecond)
		if err := w.connect(c, false); err != nil {
			w.add("harness.reconnect", err.Error())
			return
		}
		w.b.Publish(topic, "end", q, false)
		if err := c.cur.WaitPayload("end", step); err != nil {
			w.add("harness.expired_end", err.Error())
		}
		w.addDrop(id, "expired", q, 4)
	}
	w.obs["drop_cases_"+kind]++
}

func (w *world) churn(n int) {
	for i := 0; i < n; i++ {
		c := w.cs[w.rng.Intn(w.sc.Clients)]
		switch x := w.rng.Intn(10); {
		case x < 4:
			if c.online {
				w.gracefulDisconnect(c)
			} else if err := w.connect(c, false); err != nil {
				w.add("harness.reconnect", err.Error())
				return
			}
		case x < 6 && c.online:
			// take-over: the old connection is closed by the broker
			w.settle(c)
			old := c.cur
			from := w.b.Log.Len()
			if err := w.connect(c, false); err != nil {
				w.add("harness.takeover", err.Error())
				return
			}
			old.WaitEOF(step)
			if !w.waitClosed(c.id, from) {
				w.add("harness.close_not_observed", "take-over of "+c.id)
			}
			w.disconnected++
			c.killed = true // the displaced connection may have been sent packets it never read
			w.obs["takeovers"]++
		case x < 8 && w.sc.Terminate:
			w.settle(c)
			from := w.b.Log.Len()
			was := c.online
			had := len(c.conns) > 0 && (c.online || w.sessionExists(c.id))
			w.b.Srv.ClientService().TerminateSession(c.id)
			if had {
				w.b.Log.Wait(from, func(e broker.Event) bool { return e.Kind == "OnSessionTerminated" && e.Client == c.id }, step)
				w.termNormal++
			}
			if was {
				c.cur.WaitEOF(step)
				w.waitClosed(c.id, from)
				w.disconnected++
				c.online = false
				// a connection the broker closes may have been sent packets that never reached the client (the close can
				// overtake them): for the global counters, too, what the clients saw is a lower bound from now on
				c.killed = true
			}
			c.epoch0 = len(c.conns)
			c.subs = map[string]byte{}
			w.obs["terminations"]++
		case x < 9 && w.sc.Terminate && !c.online && c.v == mqttx.V5: // (a v3 clean-session connection would make the session non-persistent)
			// clean start over an offline session: taken-over termination
			had := w.sessionExists(c.id)
			if err := w.connect(c, true); err != nil {
				w.add("harness.cleanstart", err.Error())
				return
			}
			if had {
				w.termTakenOver++
			}
		}
	}
}

func (w *world) sessionExists(id string) bool {
	s, _ := w.b.Srv.ClientService().GetSession(id)
	return s != nil
}

type counts struct {
	pktIn, pktOut   map[string]uint64 // by type name: broker received / broker sent
	byteIn, byteOut map[string]uint64
	msgIn, msgOut   [3]uint64
}

func truth(conns []*wire.Client) counts {
	c := counts{pktIn: map[string]uint64{}, pktOut: map[string]uint64{}, byteIn: map[string]uint64{}, byteOut: map[string]uint64{}}
	for _, conn := range conns {
		for _, r := range conn.Log() {
			if r.P == nil {
				continue
			}
			n := mqttx.TypeName(r.P.Type)
			if r.Dir == "out" { // sent by the client = received by the broker
				c.pktIn[n]++
				c.pktIn["TOTAL"]++
				c.byteIn[n] += uint64(r.Size)
				c.byteIn["TOTAL"] += uint64(r.Size)
				if r.P.Type == mqttx.PUBLISH {
					c.msgIn[r.P.QoS]++
				}
			} else {
				c.pktOut[n]++
				c.pktOut["TOTAL"]++
				c.byteOut[n] += uint64(r.Size)
				c.byteOut["TOTAL"] += uint64(r.Size)
				if r.P.Type == mqttx.PUBLISH {
					c.msgOut[r.P.QoS]++
				}
			}
		}
	}
	return c
}

var typeNames = []string{"AUTH", "CONNECT", "CONNACK", "DISCONNECT", "PINGREQ", "PINGRESP", "PUBACK", "PUBCOMP", "PUBLISH", "PUBREC", "PUBREL", "SUBACK", "SUBSCRIBE", "UNSUBACK", "UNSUBSCRIBE", "TOTAL"}

func fieldOf(pb server.PacketBytes, name string) uint64 {
	m := map[string]uint64{"AUTH": pb.Auth, "CONNECT": pb.Connect, "CONNACK": pb.Connack, "DISCONNECT": pb.Disconnect, "PINGREQ": pb.Pingreq, "PINGRESP": pb.Pingresp,
		"PUBACK": pb.Puback, "PUBCOMP": pb.Pubcomp, "PUBLISH": pb.Publish, "PUBREC": pb.Pubrec, "PUBREL": pb.Pubrel, "SUBACK": pb.Suback, "SUBSCRIBE": pb.Subscribe,
		"UNSUBACK": pb.Unsuback, "UNSUBSCRIBE": pb.Unsubscribe, "TOTAL": pb.Total}
	return m[name]
}

func (w *world) comparePackets(who string, ps server.PacketStats, t counts, killed bool) {
	cmp := func(field, typ string, got, want uint64) {
		if got == want || (killed && strings.HasSuffix(field, "Sent") && got >= want) {
			return
		}
		// an acknowledgement the scripted client wrote (its reader answers PUBLISH / PUBREL by itself) just before the
		// broker closed that connection may never have been read by the broker: for killed connections what the
		// clients wrote is an upper bound for these packet types
		if killed && strings.HasSuffix(field, "Received") && got <= want && (typ == "PUBACK" || typ == "PUBREC" || typ == "PUBCOMP" || typ == "TOTAL") {
			return
		}
		w.add(fmt.Sprintf("packets.%s:%s", field, typ), fmt.Sprintf("%s: %s[%s] = %d, exchanged on the wire: %d", who, field, typ, got, want))
	}
	for _, n := range typeNames {
		cmp("ReceivedTotal", n, fieldOf(ps.ReceivedTotal, n), t.pktIn[n])
		cmp("BytesReceived", n, fieldOf(ps.BytesReceived, n), t.byteIn[n])
		cmp("SentTotal", n, fieldOf(ps.SentTotal, n), t.pktOut[n])
		cmp("BytesSent", n, fieldOf(ps.BytesSent, n), t.byteOut[n])
	}
}

func dropField(d server.DroppedTotal, reason string) uint64 {
	switch reason {
	case "oversize":
		return d.ExceedsMaxPacketSize
	case "queue_full":
		return d.QueueFull
	case "expired":
		return d.Expired
	case "inflight_expired":
		return d.InflightExpired
	}
	return d.Internal
}

func (w *world) compareMessages(who string, ms server.MessageStats, t counts, drops map[string][3]uint64, killed bool) {
	qs := []server.MessageQosStats{ms.Qos0, ms.Qos1, ms.Qos2}
	for q := 0; q < 3; q++ {
		if qs[q].ReceivedTotal != t.msgIn[q] {
			w.add(fmt.Sprintf("messages.received:qos=%d:%s", q, scope(who)), fmt.Sprintf("%s: Qos%d.ReceivedTotal = %d, PUBLISH packets received from it: %d", who, q, qs[q].ReceivedTotal, t.msgIn[q]))
		}
		if qs[q].SentTotal != t.msgOut[q] && !(killed && qs[q].SentTotal >= t.msgOut[q]) {
			w.add(fmt.Sprintf("messages.sent:qos=%d:%s", q, scope(who)), fmt.Sprintf("%s: Qos%d.SentTotal = %d, PUBLISH packets written to it: %d", who, q, qs[q].SentTotal, t.msgOut[q]))
		}
		for _, reason := range []string{"oversize", "queue_full", "expired", "inflight_expired", "internal"} {
			want := drops[reason][q]
			if got := dropField(qs[q].DroppedTotal, reason); got != want {
				w.add(fmt.Sprintf("messages.dropped:%s:qos=%d:%s", reason, q, scope(who)), fmt.Sprintf("%s: Qos%d dropped(%s) = %d, actually dropped: %d", who, q, reason, got, want))
			}
		}
	}
}

func scope(who string) string {
	if who == "global" {
		return "global"
	}
	return "client"
}

func (w *world) quiesce() server.GlobalStats {
	for _, c := range w.cs {
		w.settle(c)
	}
	var prev server.GlobalStats
	for i := 0; i < 200; i++ {
		time.Sleep(10 * time.Millisecond)
		cur := w.b.Srv.StatsManager().GetGlobalStats()
		if i > 0 && reflect.DeepEqual(cur, prev) {
			return cur
		}
		prev = cur
	}
	return prev
}

// Run one scenario.
func runScenario(sc *Scenario) (fs []finding, obs map[string]int, rerr error) {
	w := &world{sc: sc, rng: rand.New(rand.NewSource(sc.Seed)), obs: map[string]int{}, dropped: map[string]map[string][3]uint64{}, expectQueued: map[string]uint64{}, expectInflight: map[string]uint64{}}
	b, err := broker.Start(broker.Options{Hooks: server.Hooks{
		// accept enhanced authentication and re-authentication so that AUTH packets can be exchanged
		OnEnhancedAuth: func(ctx context.Context, c server.Client, req *server.ConnectRequest) (*server.EnhancedAuthResponse, error) {
			return &server.EnhancedAuthResponse{}, nil
		},
		OnReAuth: func(ctx context.Context, c server.Client, a *packets.Auth) (*server.AuthResponse, error) {
			return &server.AuthResponse{AuthData: []byte("ok")}, nil
		},
		OnDelivered: func(ctx context.Context, c server.Client, m *gmqtt.Message) {
			w.onDelivered(c.ClientOptions().ClientID)
		},
	}, Cfg: func(c *config.Config) {
		c.MQTT.MaxQueuedMsg = 1000
		c.MQTT.MaxInflight = 5
		for _, d := range sc.Drops {
			if d == "queue_full" {
				c.MQTT.MaxQueuedMsg = 50 // regular clients are always online and acknowledge at once: they never have 50 unacknowledged messages
			}
		}
		c.MQTT.MessageExpiry = time.Second
		for _, d := range sc.Drops {
			if d == "expired" {
				return
			}
		}
		c.MQTT.MessageExpiry = 0
	}})
	if err != nil {
		return nil, nil, err
	}
	defer b.Stop(step)
	w.b = b
	// gauge poller: a value >= 2^63 at any time is a wrap below zero
	var wraps sync.Map
	stop := make(chan struct{})
	var samples int64
	var pwg sync.WaitGroup
	pwg.Add(1)
	go func() {
		defer pwg.Done()
		for {
			select {
			case <-stop:
				return
			default:
			}
			g := b.Srv.StatsManager().GetGlobalStats()
			atomic.AddInt64(&samples, 1)
			for name, v := range map[string]uint64{"ActiveCurrent": g.ConnectionStats.ActiveCurrent, "InactiveCurrent": g.ConnectionStats.InactiveCurrent,
				"InflightCurrent": g.MessageStats.InflightCurrent, "QueuedCurrent": g.MessageStats.QueuedCurrent, "SubscriptionsCurrent": g.SubscriptionStats.SubscriptionsCurrent} {
				if v >= 1<<63 {
					wraps.Store(name, v)
				}
			}
			time.Sleep(100 * time.Microsecond)
		}
	}()
	for i := 0; i < sc.Clients; i++ {
		c := &cl{id: fmt.Sprintf("c%d", i), v: []mqttx.Version{mqttx.V311, mqttx.V5}[w.rng.Intn(2)], subs: map[string]byte{}}
		c.authMethod = c.v == mqttx.V5 && w.rng.Intn(2) == 0
		w.cs = append(w.cs, c)
		if err := w.connect(c, false); err != nil {
			close(stop)
			return nil, nil, err
		}
	}
	// v3 non-clean sessions use the configured expiry (2h): persistent as well
	w.traffic(sc.Traffic)
	for i, d := range sc.Drops {
		w.dropCase(d, i)
	}
	w.churn(sc.Churn)
	// nobody of the regular clients is offline while messages flow (their queues would need a model of their own)
	for _, c := range w.cs[:sc.Clients] {
		if !c.online {
			if err := w.connect(c, false); err != nil {
				w.add("harness.reconnect", err.Error())
			}
		}
	}
	w.traffic(sc.Traffic / 2)
	g := w.quiesce()
	close(stop)
	pwg.Wait()
	w.obs["gauge_samples"] = int(atomic.LoadInt64(&samples))
	wraps.Range(func(k, v any) bool {
		w.add("gauge.wrapped:"+k.(string), fmt.Sprintf("gauge %s was observed at %d (wrapped below zero)", k, v))
		return true
	})
	if len(w.fs) > 0 {
		for _, f := range w.fs {
			if strings.HasPrefix(f.Sig, "harness.") {
				return w.fs, w.obs, fmt.Errorf("%s: %s", f.Sig, f.What)
			}
		}
	}
	// per client
	var all []*wire.Client
	var sumP server.PacketStats
	var sumQueued, sumInflight uint64
	sumMsg := [3][2]uint64{}
	anyKilled := false
	for _, c := range w.cs {
		all = append(all, c.conns...)
		if c.killed {
			anyKilled = true
		}
		cs, ok := b.Srv.StatsManager().GetClientStats(c.id)
		if !ok {
			if w.sessionExists(c.id) {
				w.add("client_stats.missing", "no statistics for client "+c.id+" although its session exists")
			}
			continue
		}
		t := truth(c.conns[c.epoch0:])
		w.comparePackets(c.id, cs.PacketStats, t, c.killed)
		w.compareMessages(c.id, cs.MessageStats, t, w.dropped[c.id], c.killed)
		if cs.MessageStats.QueuedCurrent != w.expectQueued[c.id] {
			w.add("gauge.queued:client", fmt.Sprintf("%s: QueuedCurrent = %d, session queue holds %d", c.id, cs.MessageStats.QueuedCurrent, w.expectQueued[c.id]))
		}
		if cs.MessageStats.InflightCurrent != w.expectInflight[c.id] {
			w.add("gauge.inflight:client", fmt.Sprintf("%s: InflightCurrent = %d, unacknowledged in-flight messages: %d", c.id, cs.MessageStats.InflightCurrent, w.expectInflight[c.id]))
		}
		sumQueued += cs.MessageStats.QueuedCurrent
		sumInflight += cs.MessageStats.InflightCurrent
		for q, m := range []server.MessageQosStats{cs.MessageStats.Qos0, cs.MessageStats.Qos1, cs.MessageStats.Qos2} {
			sumMsg[q][0] += m.ReceivedTotal
			sumMsg[q][1] += m.SentTotal
		}
		sumP.ReceivedTotal.Total += cs.PacketStats.ReceivedTotal.Total
		sumP.SentTotal.Total += cs.PacketStats.SentTotal.Total
		sumP.BytesReceived.Total += cs.PacketStats.BytesReceived.Total
		sumP.BytesSent.Total += cs.PacketStats.BytesSent.Total
		w.obs["clients_compared"]++
	}
	// global = ground truth over everything
	tg := truth(all)
	gd := map[string][3]uint64{}
	for _, m := range w.dropped {
		for reason, a := range m {
			x := gd[reason]
			for q := 0; q < 3; q++ {
				x[q] += a[q]
			}
			gd[reason] = x
		}
	}
	w.comparePackets("global", g.PacketStats, tg, anyKilled)
	w.compareMessages("global", g.MessageStats, tg, gd, anyKilled)
	var eq, ei uint64
	for _, v := range w.expectQueued {
		eq += v
	}
	for _, v := range w.expectInflight {
		ei += v
	}
	if g.MessageStats.QueuedCurrent != eq {
		w.add("gauge.queued:global", fmt.Sprintf("global QueuedCurrent = %d, queues hold %d", g.MessageStats.QueuedCurrent, eq))
	}
	if g.MessageStats.InflightCurrent != ei {
		w.add("gauge.inflight:global", fmt.Sprintf("global InflightCurrent = %d, in-flight messages: %d", g.MessageStats.InflightCurrent, ei))
	}
	// global = sum of per-client (only meaningful when no statistics epoch was discarded)
	if !sc.Terminate {
		if sumP.ReceivedTotal.Total != g.PacketStats.ReceivedTotal.Total || sumP.SentTotal.Total != g.PacketStats.SentTotal.Total ||
			sumP.BytesReceived.Total != g.PacketStats.BytesReceived.Total || sumP.BytesSent.Total != g.PacketStats.BytesSent.Total {
			w.add("sum.packets", fmt.Sprintf("global packet totals %d/%d/%d/%d differ from the sum of the per-client totals %d/%d/%d/%d",
				g.PacketStats.ReceivedTotal.Total, g.PacketStats.SentTotal.Total, g.PacketStats.BytesReceived.Total, g.PacketStats.BytesSent.Total,
				sumP.ReceivedTotal.Total, sumP.SentTotal.Total, sumP.BytesReceived.Total, sumP.BytesSent.Total))
		}
		for q, m := range []server.MessageQosStats{g.MessageStats.Qos0, g.MessageStats.Qos1, g.MessageStats.Qos2} {
			if m.ReceivedTotal != sumMsg[q][0] || m.SentTotal != sumMsg[q][1] {
				w.add(fmt.Sprintf("sum.messages:qos=%d", q), fmt.Sprintf("global Qos%d received/sent %d/%d, sum over clients %d/%d", q, m.ReceivedTotal, m.SentTotal, sumMsg[q][0], sumMsg[q][1]))
			}
		}
		if g.MessageStats.QueuedCurrent != sumQueued || g.MessageStats.InflightCurrent != sumInflight {
			w.add("sum.gauges", fmt.Sprintf("global queued/inflight %d/%d, sum over clients %d/%d", g.MessageStats.QueuedCurrent, g.MessageStats.InflightCurrent, sumQueued, sumInflight))
		}
	}
	if dbg {
		for _, e := range b.Log.Events() {
			if e.Kind == "OnMsgDropped" {
				fmt.Println("DROP", e.Client, e.QoS, len(e.Payload), e.Err)
			}
			if e.Kind == "OnSessionTerminated" || e.Kind == "OnSessionCreated" || e.Kind == "OnSessionResumed" || e.Kind == "OnClosed" {
				fmt.Println(e.Seq, e.Kind, e.Client, e.Extra, e.Err)
			}
		}
	}
	// connection and session statistics
	var online, offline uint64
	for _, c := range w.cs {
		if c.online {
			online++
		} else if w.sessionExists(c.id) {
			offline++
		}
	}
	cs := g.ConnectionStats
	chk := func(name string, got, want uint64) {
		if got != want {
			w.add("connections."+name, fmt.Sprintf("%s = %d, ground truth %d", name, got, want))
		}
	}
	chk("ConnectedTotal", cs.ConnectedTotal, w.connected)
	chk("DisconnectedTotal", cs.DisconnectedTotal, w.disconnected)
	chk("SessionCreatedTotal", cs.SessionCreatedTotal, w.created)
	chk("SessionTerminated.Normal", cs.SessionTerminated.Normal, w.termNormal)
	chk("SessionTerminated.TakenOver", cs.SessionTerminated.TakenOver, w.termTakenOver)
	chk("SessionTerminated.Expired", cs.SessionTerminated.Expired, w.termExpired)
	chk("ActiveCurrent", cs.ActiveCurrent, online)
	chk("InactiveCurrent", cs.InactiveCurrent, offline)
	if len(w.fs) > 0 {
		// witness: the tail of every connection's packet log
		var diag []string
		for _, c := range w.cs {
			for ci, conn := range c.conns {
				lg := conn.Log()
				if len(lg) > 14 {
					lg = lg[len(lg)-14:]
				}
				line := fmt.Sprintf("%s conn %d (killed=%v epoch0=%d):", c.id, ci, c.killed, c.epoch0)
				for _, r := range lg {
					if r.P != nil {
						line += fmt.Sprintf(" %s:%s(%d)", r.Dir, mqttx.TypeName(r.P.Type), r.P.PacketID)
					}
				}
				diag = append(diag, line)
			}
		}
		for i := range w.fs {
			w.fs[i].Diag = diag
		}
	}
	for _, c := range w.cs {
		for _, conn := range c.conns {
			conn.Close()
		}
	}
	return w.fs, w.obs, nil
}

// Run is the entry point.
func Run(r *monitor.Run) {
	// widen the hand-over points of the broker (between unregistering a connection and booking it in the
	// statistics, ...) so that the gauge poller gets to see the intermediate states
	yield.Enable(r.Seed, true)
	n := r.Pick(40, 1200)
	rng := r.Rand("scenarios")
	scs := make([]Scenario, n)
	for i := range scs {
		sc := Scenario{Seed: rng.Int63(), Clients: 2 + rng.Intn(4), Traffic: 10 + rng.Intn(r.Pick(40, 120)), Churn: rng.Intn(12), Terminate: rng.Intn(3) == 0}
		for _, d := range []string{"queue_full", "oversize", "expired", "backlog"} {
			p := 3
			if d == "expired" {
				p = 8 // costs 2 s of real time
			}
			if rng.Intn(p) == 0 {
				sc.Drops = append(sc.Drops, d)
			}
		}
		scs[i] = sc
	}
	// sessions restored from the durable store at start-up: what is dropped for them is counted, too
	var rwg sync.WaitGroup
	for vi, variant := range restored.Variants {
		for k := 0; k < r.Pick(2, 6); k++ {
			rwg.Add(1)
			go func(variant restored.Variant, vi, k int) {
				defer rwg.Done()
				v := []byte{5, 4}[(vi+k)%2]
				api := k%2 == 0
				res, err := restored.Run(variant, v, api, 1+(k/2)%3)
				r.Eval(1)
				if err != nil {
					r.Inconclusive(fmt.Sprintf("restored %s: %v", variant, err))
					return
				}
				sigs, whats := res.Conservation()
				for i := range sigs {
					r.Violation(sigs[i], whats[i], map[string]any{"result": res})
				}
				// a broker that panics or stops answering here is C15's finding; for C20 nothing could be counted
				if ls, lw := res.Liveness(); len(ls) > 0 {
					r.Violation("restored.unusable:"+ls[0], lw[0], map[string]any{"result": res})
				}
				r.Count("restored_session_scenarios", 1)
				r.Count("stored_messages_in_no_gauge_right_after_a_restart_observed_only", int64(res.GaugeGapAtStart()))
				r.Count("restored_session_drops_counted", int64(res.Client.MessageStats.Qos1.GetDroppedTotal()))
				r.Nontrivial(fmt.Sprintf("restored|%s|%d|%v|%d", variant, v, api, k))
			}(variant, vi, k)
		}
	}
	defer rwg.Wait()
	rwg.Add(1)
	go func() { defer rwg.Done(); directedSessions(r) }()
	r.Parallel(n, 16, func(i int) {
		sc := &scs[i]
		fs, obs, err := runScenario(sc)
		r.Eval(1)
		if err != nil {
			r.Inconclusive(fmt.Sprintf("scenario %d: %v", i, err))
			return
		}
		if len(fs) > 0 {
			// A scenario is a deterministic script; what the clients saw of the last packets around the end of a
			// connection is not (TCP may lose what is written into a closing connection). A counter that disagrees
			// with the wire log is reported if the same disagreement shows again when the scenario is executed
			// again (twice); gauges that wrapped are reported at once.
			again := map[string]bool{}
			for k := 0; k < 2; k++ {
				if fs2, _, err2 := runScenario(sc); err2 == nil {
					for _, f := range fs2 {
						again[f.Sig] = true
					}
				}
			}
			var keep []finding
			for _, f := range fs {
				if again[f.Sig] || strings.HasPrefix(f.Sig, "gauge.wrapped") {
					keep = append(keep, f)
				} else {
					r.Count("disagreements_that_did_not_recur", 1)
				}
			}
			fs = keep
		}
		for _, f := range fs {
			r.Violation(f.Sig, f.What, map[string]any{"scenario": sc, "index": i, "diag": f.Diag})
		}
		for k, v := range obs {
			r.Count(k, int64(v))
		}
		r.Nontrivial(monitor.J(sc))
		if i == 0 {
			r.Sample(sc)
		}
	})
}

// Replay re-runs one scenario.
func Replay(r *monitor.Run, detail []byte) {
	dbg = true
	var d struct{ Scenario Scenario }
	if err := json.Unmarshal(detail, &d); err != nil {
		fmt.Println("replay:", err)
		return
	}
	fs, _, err := runScenario(&d.Scenario)
	if err != nil {
		fmt.Println("replay: harness:", err)
	}
	for _, f := range fs {
		r.Violation(f.Sig, f.What, nil)
	}
}

// payloadForRemainingLength returns the payload length that gives a PUBLISH on topic with QoS q the remaining length rl.
func payloadForRemainingLength(rl int, topic string, q byte, v mqttx.Version) int {
	n := rl
	for i := 0; i < 8; i++ {
		if n < 0 {
			return 0
		}
		size := mqttx.Size(&mqttx.Packet{Type: mqttx.PUBLISH, Topic: topic, QoS: q, PacketID: 1, Payload: make([]byte, n)}, v)
		got := size - 2
		if got > 127 {
			got = size - 3
		}
		if got > 16383 {
			got = size - 4
		}
		if got == rl {
			return n
		}
		n -= got - rl
	}
	if n < 0 {
		return 0
	}
	return n
}
