package c19

import (
	"context"
	"sync"
	"sync/atomic"

	"github.com/DrmagicE/gmqtt/config"
	"github.com/DrmagicE/gmqtt/server"
)

// A second plugin with a basic-auth wrapper of its own, which lets every CONNECT through to the next one: with it in the
// plugin list, before or after auth, the auth plugin's verdict is still the broker's verdict.
const gateName = "c19gate"

var (
	gateOnce    sync.Once
	gateCalls   int64
	brokerCount int64
)

type gatePlugin struct{}

func (gatePlugin) Load(server.Server) error { return nil }
func (gatePlugin) Unload() error            { return nil }
func (gatePlugin) Name() string             { return gateName }
func (gatePlugin) HookWrapper() server.HookWrapper {
	return server.HookWrapper{OnBasicAuthWrapper: func(next server.OnBasicAuth) server.OnBasicAuth {
		return func(ctx context.Context, client server.Client, req *server.ConnectRequest) error {
			atomic.AddInt64(&gateCalls, 1)
			return next(ctx, client, req)
		}
	}}
}

func registerGate() {
	gateOnce.Do(func() {
		server.RegisterPlugin(gateName, func(cfg config.Config) (server.Plugin, error) { return gatePlugin{}, nil })
	})
}

// pluginOrder: every second broker of the run gets the gate plugin, alternately before and after auth.
func pluginOrder(authName string) []string {
	registerGate()
	switch atomic.AddInt64(&brokerCount, 1) % 4 {
	case 1:
		return []string{gateName, authName}
	case 3:
		return []string{authName, gateName}
	}
	return []string{authName}
}
