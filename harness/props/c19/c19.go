// Package c19: no broker state is reachable without passing authentication
// (DESIGN.md §5 C19).
package c19

import (
	"sync"
	"context"
	"crypto/md5"
	"crypto/sha256"
	"encoding/hex"
	"fmt"
	"math/rand"
	"os"
	"path/filepath"
	"sort"
	"strings"
	"sync/atomic"
	"time"

	"golang.org/x/crypto/bcrypt"

	"github.com/DrmagicE/gmqtt"
	"github.com/DrmagicE/gmqtt/config"
	"github.com/DrmagicE/gmqtt/persistence/subscription"
	"github.com/DrmagicE/gmqtt/plugin/auth"

	"verif/harness/broker"
	"verif/harness/monitor"
	"verif/harness/mqttx"
	"verif/harness/wire"
)

const step = 10 * time.Second

var dirSeq int64

func scratch() string {
	d := filepath.Join(monitor.Root(), "out", "C19", fmt.Sprintf("tmp-%d-%d", os.Getpid(), atomic.AddInt64(&dirSeq, 1)))
	_ = os.MkdirAll(d, 0o755)
	return d
}

// hashOf computes the stored form of a password independently of the plugin.
func hashOf(kind, pw string) string {
	switch kind {
	case auth.Plain:
		return pw
	case auth.MD5:
		s := md5.Sum([]byte(pw))
		return hex.EncodeToString(s[:])
	case auth.SHA256:
		s := sha256.Sum256([]byte(pw))
		return hex.EncodeToString(s[:])
	case auth.Bcrypt:
		b, _ := bcrypt.GenerateFromPassword([]byte(pw), bcrypt.MinCost)
		return string(b)
	}
	panic("hash kind")
}

func writeFile(path, kind string, accounts map[string]string) error {
	var sb strings.Builder
	for u, pw := range accounts {
		fmt.Fprintf(&sb, "- username: %q\n  password: %q\n", u, hashOf(kind, pw))
	}
	if len(accounts) == 0 {
		sb.WriteString("[]\n")
	}
	return os.WriteFile(path, []byte(sb.String()), 0o644)
}

func startBroker(kind, pwFile, configDir string, ws bool) (*broker.Broker, *auth.Auth, error) {
	b, err := broker.Start(broker.Options{WS: ws, Cfg: func(c *config.Config) {
		c.PluginOrder = pluginOrder(auth.Name)
		c.Plugins[auth.Name] = &auth.Config{PasswordFile: pwFile, Hash: kind}
		c.ConfigDir = configDir
	}})
	if err != nil {
		return nil, nil, err
	}
	for _, p := range b.Srv.Plugins() {
		if a, ok := p.(*auth.Auth); ok {
			return b, a, nil
		}
	}
	b.Stop(step)
	return nil, nil, fmt.Errorf("auth plugin not loaded")
}

// Attempt is one CONNECT of the matrix.
type Attempt struct {
	V           byte
	HasUser     bool
	HasPass     bool
	User        string
	Pass        string `json:"-"`
	PassDesc    string
	Method      bool // v5 AuthMethod present
	MethodEmpty bool `json:",omitempty"` // ... with a zero-length value
	AuthData    bool
	Will        bool
	Clean       bool
	WS          bool
}

func (a Attempt) sigPart() string {
	m := fmt.Sprint(a.Method)
	if a.Method && a.MethodEmpty {
		m = "empty"
	}
	return fmt.Sprintf("v=%d:user=%v:pass=%v:%s:method=%s", a.V, a.HasUser, a.HasPass, a.PassDesc, m)
}

func tryConnect(b *broker.Broker, at Attempt, id string) (accepted bool, err error) {
	var c *wire.Client
	if at.WS {
		ws, err := wire.DialWS(b.WSAddr)
		if err != nil {
			return false, err
		}
		c = wire.New(id, ws, mqttx.Version(at.V))
	} else {
		c, err = wire.Dial(id, b.Addr, mqttx.Version(at.V))
		if err != nil {
			return false, err
		}
	}
	defer c.Close()
	p := &mqttx.Packet{ClientID: id, CleanStart: at.Clean, HasUsername: at.HasUser, HasPassword: at.HasPass}
	if at.HasUser {
		p.Username = at.User
	}
	if at.HasPass {
		p.Password = []byte(at.Pass)
	}
	if at.Will {
		p.WillFlag, p.WillTopic, p.WillPayload = true, "w/"+id, []byte("will")
	}
	if at.V == 5 && at.Method {
		m := "SCRAM-SHA-1"
		if at.MethodEmpty {
			m = ""
		}
		p.Props = &mqttx.Props{AuthMethod: &m}
		if at.AuthData {
			p.Props.AuthData, p.Props.HasAuthData = []byte("data"), true
		}
	}
	ack, err := c.Connect(p, step)
	if err != nil {
		if c.DecodeErr != nil && strings.Contains(c.DecodeErr.Error(), "CONNACK return code") {
			return false, nil // failing CONNACK with an out-of-spec v3 code (see C14)
		}
		if err == wire.ErrClosed {
			return false, nil // closed without CONNACK: not accepted
		}
		return false, err
	}
	if ack.Code != 0 {
		return false, nil
	}
	// accepted: it must really be a working session
	if c.Ping(step) != nil {
		return false, fmt.Errorf("CONNACK 0 but the connection is dead")
	}
	c.Disconnect(0, nil)
	return true, nil
}

func matrix(rng *rand.Rand, accounts map[string]string, kind string, n int, ws bool) []Attempt {
	users := []string{}
	for u := range accounts {
		users = append(users, u)
	}
	sort.Strings(users) // map order must not influence the seeded case list
	var out []Attempt
	for i := 0; i < n; i++ {
		at := Attempt{V: []byte{3, 4, 5, 5}[rng.Intn(4)], HasUser: rng.Intn(8) != 0, HasPass: rng.Intn(8) != 0, Will: rng.Intn(3) == 0, Clean: rng.Intn(2) == 0, WS: ws && rng.Intn(4) == 0}
		if at.V != 5 && !at.HasUser {
			at.HasPass = false // v3: password flag requires the user name flag
		}
		u := users[rng.Intn(len(users))]
		pw := accounts[u]
		other := accounts[users[(rng.Intn(len(users)))]]
		switch x := rng.Intn(12); {
		case x < 4:
			at.User, at.Pass, at.PassDesc = u, pw, "correct"
		case x == 4:
			at.User, at.Pass, at.PassDesc = u, strings.ToUpper(pw), "case"
			if strings.ToUpper(pw) == pw {
				at.Pass = strings.ToLower(pw)
			}
		case x == 5:
			at.User, at.Pass, at.PassDesc = u, pw+"\x00", "trailing_byte"
		case x == 6:
			at.User, at.PassDesc = u, "prefix"
			if len(pw) > 0 {
				at.Pass = pw[:len(pw)-1]
			}
		case x == 7:
			at.User, at.Pass, at.PassDesc = u, other, "other_users_password"
		case x == 8:
			at.User, at.Pass, at.PassDesc = u, hashOf(kind, pw), "stored_hash_itself"
		case x == 9:
			at.User, at.Pass, at.PassDesc = u, "", "empty"
		case x == 10:
			at.User, at.Pass, at.PassDesc = u, strings.Repeat("p", 65535), "maximal"
		default:
			at.User, at.Pass, at.PassDesc = []string{"Alice", u + " ", u[:len(u)-1], "", strings.Repeat("u", 65535), "nobody"}[rng.Intn(6)], pw, "unknown_user"
		}
		if at.V == 5 && rng.Intn(5) == 0 {
			at.Method, at.AuthData = true, rng.Intn(2) == 0
			at.MethodEmpty = rng.Intn(2) == 0
		}
		out = append(out, at)
	}
	return out
}

// expected verdict from the model: the user exists and the presented password verifies against the
// stored hash under the configured algorithm (computed independently). For bcrypt that is the
// algorithm's own relation: its key is NUL-terminated, so e.g. "" and "\x00" verify against the same hash.
func expected(accounts map[string]string, kind string, at Attempt) bool {
	if !at.HasUser {
		return false
	}
	pw, ok := accounts[at.User]
	if !ok {
		return false
	}
	got := ""
	if at.HasPass {
		got = at.Pass
	}
	if kind == auth.Bcrypt {
		return bcrypt.CompareHashAndPassword([]byte(hashOf(kind, pw)), []byte(got)) == nil
	}
	return hashOf(kind, got) == hashOf(kind, pw)
}

func checkAttempt(r *monitor.Run, b *broker.Broker, accounts map[string]string, kind string, at Attempt, id string, ctx string) {
	want := expected(accounts, kind, at)
	got, err := tryConnect(b, at, id)
	r.Eval(1)
	if err != nil {
		r.Inconclusive(fmt.Sprintf("connect attempt %+v: %v", at, err))
		return
	}
	r.Count("connect_attempts", 1)
	if want {
		r.Count("connect_expected_accept", 1)
	}
	if at.Method {
		// the broker has no enhanced-auth hook: refusing is legitimate, accepting without valid credentials is not
		if got && !want {
			r.Violation("auth.bypass_with_auth_method:hash="+kind, fmt.Sprintf("CONNECT with an Authentication Method and invalid credentials (%s) was accepted", at.sigPart()), map[string]any{"attempt": at, "context": ctx})
		}
		return
	}
	if got != want {
		kindS := "rejected_valid"
		if got {
			kindS = "accepted_invalid"
		}
		r.Violation(fmt.Sprintf("auth.%s:hash=%s:%s", kindS, kind, at.sigPart()), fmt.Sprintf("%s: CONNECT %s accepted=%v, stored accounts demand %v", ctx, at.sigPart(), got, want), map[string]any{"attempt": at, "context": ctx})
	}
	r.Nontrivial(fmt.Sprintf("%s|%s|%s|%v", kind, at.sigPart(), at.User, want))
}

// ---- part 1+2: matrix and account histories with restarts -------------------------------

func histories(r *monitor.Run, kind string, idx int, rng *rand.Rand, nAttempts, nOps int) {
	dir := scratch()
	defer os.RemoveAll(dir)
	pwFile := filepath.Join(dir, "pw.yml")
	accounts := map[string]string{"alice": "Secret-1", "bob": "other pass", "sub:carol": ""}
	if err := writeFile(pwFile, kind, accounts); err != nil {
		r.Inconclusive(err.Error())
		return
	}
	// an account whose stored value is not a hash of the configured algorithm (password file kept from another
	// configuration): nothing verifies against it, whatever the verification routine reports
	legacy := kind != auth.Plain
	if legacy {
		f, err := os.OpenFile(pwFile, os.O_APPEND|os.O_WRONLY, 0o600)
		if err == nil {
			stored := hashOf(auth.MD5, "legacy-pw")
			if kind == auth.MD5 {
				stored = "$2a$04$not.a.valid.bcrypt.hash"
			}
			fmt.Fprintf(f, "- username: %q\n  password: %q\n", "legacy", stored)
			f.Close()
		}
	}
	b, a, err := startBroker(kind, pwFile, "", true)
	if err != nil {
		r.Violation("startup.preloaded_file:hash="+kind, "broker does not start on a password file written with independently computed hashes: "+err.Error(), nil)
		return
	}
	defer func() { b.Stop(step) }()
	seq := 0
	if legacy {
		for i, pw := range []string{"legacy-pw", "", "x", hashOf(auth.MD5, "legacy-pw"), "$2a$04$not.a.valid.bcrypt.hash"} {
			seq++
			checkAttempt(r, b, accounts, kind, Attempt{V: []byte{4, 5}[i%2], HasUser: true, HasPass: true, User: "legacy", Pass: pw, PassDesc: "foreign_stored_hash", Clean: true}, fmt.Sprintf("h%d-%d", idx, seq), "account whose stored value is not a hash of the configured algorithm")
		}
		r.Count("foreign_hash_attempts", 5)
	}
	former := map[string]string{} // deleted accounts or replaced passwords: user -> credential that once was valid
	formerAttempts := func(ctx string) {
		users := make([]string, 0, len(former))
		for u := range former {
			users = append(users, u)
		}
		sort.Strings(users)
		for _, u := range users {
			if cur, ok := accounts[u]; ok && expected(map[string]string{u: cur}, kind, Attempt{HasUser: true, HasPass: true, User: u, Pass: former[u]}) {
				continue // the old credential happens to verify against the current one
			}
			seq++
			checkAttempt(r, b, accounts, kind, Attempt{V: []byte{4, 5}[seq%2], HasUser: true, HasPass: true, User: u, Pass: former[u], PassDesc: "formerly_valid", Clean: true}, fmt.Sprintf("h%d-%d", idx, seq), ctx)
		}
	}
	attempts := func(n int, ctx string) {
		for _, at := range matrix(rng, accounts, kind, n, true) {
			seq++
			checkAttempt(r, b, accounts, kind, at, fmt.Sprintf("h%d-%d", idx, seq), ctx)
		}
	}
	attempts(nAttempts, "file loaded at start-up")
	for op := 0; op < nOps; op++ {
		u := []string{"alice", "bob", "dave", "sub:carol", "erin"}[rng.Intn(5)]
		switch x := rng.Intn(10); {
		case x < 5:
			pw := fmt.Sprintf("pw-%d-%d", idx, op)
			if rng.Intn(6) == 0 {
				pw = ""
			}
			if _, err := a.Update(context.Background(), &auth.UpdateAccountRequest{Username: u, Password: pw}); err != nil {
				r.Violation("account.update_error", "Update failed: "+err.Error(), nil)
				return
			}
			if old, had := accounts[u]; had && old != pw {
				former[u] = old
			}
			accounts[u] = pw
			r.Count("account_updates", 1)
			// takes effect for the next CONNECT
			seq++
			checkAttempt(r, b, accounts, kind, Attempt{V: 5, HasUser: true, HasPass: true, User: u, Pass: pw, PassDesc: "correct", Clean: true}, fmt.Sprintf("h%d-%d", idx, seq), "right after Update")
		case x < 8:
			old, had := accounts[u]
			if _, err := a.Delete(context.Background(), &auth.DeleteAccountRequest{Username: u}); err != nil {
				r.Violation("account.delete_error", "Delete failed: "+err.Error(), nil)
				return
			}
			delete(accounts, u)
			if had {
				former[u] = old
			}
			r.Count("account_deletes", 1)
			if had {
				seq++
				checkAttempt(r, b, accounts, kind, Attempt{V: 4, HasUser: true, HasPass: true, User: u, Pass: old, PassDesc: "correct_before_delete", Clean: true}, fmt.Sprintf("h%d-%d", idx, seq), "right after Delete")
			}
		default:
			// restart on the same file: what is loaded must be the model
			if err := b.Stop(step); err != nil {
				r.Inconclusive("stop: " + err.Error())
			}
			b, a, err = startBroker(kind, pwFile, "", true)
			if err != nil {
				r.Violation("restart.load_failed:hash="+kind, "restarted broker cannot load the password file the plugin wrote: "+err.Error(), nil)
				return
			}
			r.Count("restarts", 1)
			if len(accounts) > 0 {
				attempts(6, "after restart on the same password file")
			}
			formerAttempts("formerly valid credentials after a restart on the same password file")
		}
		if len(accounts) == 0 {
			accounts["alice"] = "again"
			_, _ = a.Update(context.Background(), &auth.UpdateAccountRequest{Username: "alice", Password: "again"})
		}
	}
	// List/Get agree with the model
	lr, err := a.List(context.Background(), &auth.ListAccountsRequest{PageSize: 100, Page: 1})
	if err == nil {
		want := len(accounts)
		if legacy {
			want++
		}
		if int(lr.TotalCount) != want {
			r.Violation("account.list_count", fmt.Sprintf("List reports %d accounts, model has %d", lr.TotalCount, want), nil)
		}
	}
	attempts(nAttempts/2, "after the account history")
	// one more restart: nothing that was deleted or replaced comes back
	if err := b.Stop(step); err == nil {
		if b, a, err = startBroker(kind, pwFile, "", true); err == nil {
			formerAttempts("formerly valid credentials after the final restart")
		} else {
			r.Violation("restart.load_failed:hash="+kind, "restarted broker cannot load the password file the plugin wrote: "+err.Error(), nil)
		}
	}
}

// concurrentAdmins: several administrators change accounts at the same time (each call touches another user, so the
// outcome does not depend on their order). What the broker enforces afterwards, and what a restarted broker loads
// from the password file, is exactly the result of all the calls.
func concurrentAdmins(r *monitor.Run, kind string, idx int) {
	dir := scratch()
	defer os.RemoveAll(dir)
	pwFile := filepath.Join(dir, "pw.yml")
	accounts := map[string]string{"root": "root-pw"}
	if err := writeFile(pwFile, kind, accounts); err != nil {
		r.Inconclusive(err.Error())
		return
	}
	b, a, err := startBroker(kind, pwFile, "", false)
	if err != nil {
		r.Inconclusive(err.Error())
		return
	}
	defer func() { b.Stop(step) }()
	former := map[string][]string{}
	seq := 0
	rounds := r.Pick(12, 60)
	const nUsers = 16 // callers in flight at once
	for round := 0; round < rounds; round++ {
		var wg sync.WaitGroup
		errs := make(chan error, 2*nUsers)
		next := map[string]string{}
		for k, v := range accounts {
			next[k] = v
		}
		for w := 0; w < nUsers; w++ {
			u := fmt.Sprintf("user%d", w)
			pw := fmt.Sprintf("pw-%d-%d-%d", idx, round, w)
			if w == round%nUsers && round > 0 {
				// this one is deleted in this round (it exists since an earlier round)
				if old, ok := accounts[u]; ok {
					former[u] = append(former[u], old)
				}
				delete(next, u)
				wg.Add(1)
				go func() {
					defer wg.Done()
					if _, err := a.Delete(context.Background(), &auth.DeleteAccountRequest{Username: u}); err != nil {
						errs <- err
					}
				}()
				continue
			}
			if old, ok := accounts[u]; ok {
				former[u] = append(former[u], old)
			}
			next[u] = pw
			wg.Add(1)
			go func() {
				defer wg.Done()
				if _, err := a.Update(context.Background(), &auth.UpdateAccountRequest{Username: u, Password: pw}); err != nil {
					errs <- err
				}
			}()
		}
		wg.Wait()
		select {
		case err := <-errs:
			r.Violation("account.concurrent_call_error", "a concurrent account call failed: "+err.Error(), nil)
			return
		default:
		}
		accounts = next
		r.Count("concurrent_account_call_rounds", 1)
		if round%2 != 1 && round != rounds-1 {
			continue
		}
		// restart on the file the plugin wrote
		if err := b.Stop(step); err != nil {
			r.Inconclusive("stop: " + err.Error())
			return
		}
		b, a, err = startBroker(kind, pwFile, "", false)
		if err != nil {
			r.Violation("restart.load_failed:hash="+kind, "restarted broker cannot load the password file written under concurrent account calls: "+err.Error(), nil)
			return
		}
		r.Count("restarts", 1)
		r.Eval(1)
		users := make([]string, 0, nUsers+1)
		for w := 0; w < nUsers; w++ {
			users = append(users, fmt.Sprintf("user%d", w))
		}
		for _, u := range append(users, "root") {
			if pw, ok := accounts[u]; ok {
				seq++
				checkAttempt(r, b, accounts, kind, Attempt{V: 4, HasUser: true, HasPass: true, User: u, Pass: pw, PassDesc: "correct_after_concurrent_calls", Clean: true}, fmt.Sprintf("ca%d-%d", idx, seq), "after concurrent account calls and a restart")
			}
			if f := former[u]; len(f) > 0 {
				seq++
				checkAttempt(r, b, accounts, kind, Attempt{V: 5, HasUser: true, HasPass: true, User: u, Pass: f[len(f)-1], PassDesc: "formerly_valid_concurrent", Clean: true}, fmt.Sprintf("ca%d-%d", idx, seq), "credential replaced or deleted by a concurrent account call, after a restart")
			}
		}
	}
	r.Nontrivial(fmt.Sprintf("concurrent-admins|%s|%d", kind, idx))
}

// relativePath: password_file relative to config_dir; changes must be what a restarted broker loads.
func relativePath(r *monitor.Run) {
	dir := scratch()
	defer os.RemoveAll(dir)
	kind := auth.SHA256
	accounts := map[string]string{"alice": "Secret-1"}
	if err := writeFile(filepath.Join(dir, "rel-pw.yml"), kind, accounts); err != nil {
		r.Inconclusive(err.Error())
		return
	}
	b, a, err := startBroker(kind, "rel-pw.yml", dir, false)
	if err != nil {
		r.Inconclusive("relative path start: " + err.Error())
		return
	}
	_, uerr := a.Update(context.Background(), &auth.UpdateAccountRequest{Username: "zoe", Password: "zoe-pw"})
	b.Stop(step)
	// the plugin may have written into the working directory: clean that up whatever happens
	defer os.Remove("rel-pw.yml")
	r.Eval(1)
	if uerr != nil {
		r.Violation("relative_path.update_error", "Update with a relative password_file failed: "+uerr.Error(), nil)
		return
	}
	accounts["zoe"] = "zoe-pw"
	b2, _, err := startBroker(kind, "rel-pw.yml", dir, false)
	if err != nil {
		r.Violation("relative_path.restart", err.Error(), nil)
		return
	}
	defer b2.Stop(step)
	got, err := tryConnect(b2, Attempt{V: 5, HasUser: true, HasPass: true, User: "zoe", Pass: "zoe-pw", Clean: true}, "rel-1")
	if err != nil {
		r.Inconclusive(err.Error())
		return
	}
	if !got {
		r.Violation("relative_path.account_not_reloaded", "account created through the API with password_file relative to config_dir is not what a restarted broker loads (the plugin saves relative to the working directory)", nil)
	}
	r.Nontrivial("relative_path")
}

// ---- part 3: unauthenticated traffic -------------------------------------------------------

type snapshot struct {
	sessions int
	subs     uint64
	retained int
	clients  int
}

func snap(b *broker.Broker) snapshot {
	var s snapshot
	_ = b.Srv.ClientService().IterateSession(func(*gmqtt.Session) bool { s.sessions++; return true })
	s.subs = b.Srv.SubscriptionService().GetStats().SubscriptionsCurrent
	b.Srv.RetainedService().Iterate(func(*gmqtt.Message) bool { s.retained++; return true })
	return s
}

func preAuth(r *monitor.Run, kind string, rng *rand.Rand, n int) {
	dir := scratch()
	defer os.RemoveAll(dir)
	pwFile := filepath.Join(dir, "pw.yml")
	accounts := map[string]string{"alice": "Secret-1"}
	_ = writeFile(pwFile, kind, accounts)
	b, _, err := startBroker(kind, pwFile, "", true)
	if err != nil {
		r.Inconclusive(err.Error())
		return
	}
	defer b.Stop(step)
	obs, err := wire.Dial("obs", b.Addr, mqttx.V5)
	if err != nil {
		r.Inconclusive(err.Error())
		return
	}
	defer obs.Close()
	if ack, err := obs.Connect(&mqttx.Packet{ClientID: "observer", CleanStart: true, HasUsername: true, HasPassword: true, Username: "alice", Password: []byte("Secret-1")}, step); err != nil || ack.Code != 0 {
		r.Inconclusive(fmt.Sprintf("observer connect: %v %v", ack, err))
		return
	}
	if _, err := obs.Subscribe([]mqttx.Sub{{Filter: "#", QoS: 1}}, 0, step); err != nil {
		r.Inconclusive(err.Error())
		return
	}
	base := snap(b)
	for i := 0; i < n; i++ {
		v := []mqttx.Version{mqttx.V311, mqttx.V5}[rng.Intn(2)]
		ws := rng.Intn(3) == 0
		mode := []string{"before_connect", "after_rejected_connect", "good_credentials_after_rejection"}[rng.Intn(3)]
		id := fmt.Sprintf("intruder-%d", i)
		var c *wire.Client
		if ws {
			w, err := wire.DialWS(b.WSAddr)
			if err != nil {
				r.Inconclusive(err.Error())
				continue
			}
			c = wire.New(id, w, v)
		} else {
			c, err = wire.Dial(id, b.Addr, v)
			if err != nil {
				r.Inconclusive(err.Error())
				continue
			}
		}
		bad := &mqttx.Packet{Type: mqttx.CONNECT, ProtoName: "MQTT", Level: byte(v), ClientID: id, CleanStart: false, HasUsername: true, HasPassword: true, Username: "alice", Password: []byte("wrong"),
			WillFlag: true, WillTopic: "leak/will", WillPayload: []byte("leak"), WillRetain: true}
		if v == mqttx.V5 {
			e := uint32(1000)
			bad.Props = &mqttx.Props{SessionExpiry: &e}
		}
		if mode != "before_connect" {
			_ = c.Send(bad)
		}
		var pkts []*mqttx.Packet
		for k := 0; k < 1+rng.Intn(12); k++ {
			switch rng.Intn(7) {
			case 0:
				pkts = append(pkts, &mqttx.Packet{Type: mqttx.SUBSCRIBE, PacketID: uint16(k + 1), Subs: []mqttx.Sub{{Filter: "#", QoS: 1}}})
			case 1:
				pkts = append(pkts, &mqttx.Packet{Type: mqttx.PUBLISH, Topic: "leak/retained", Retain: true, QoS: byte(rng.Intn(2)), PacketID: uint16(k + 1), Payload: []byte("leak")})
			case 2:
				pkts = append(pkts, &mqttx.Packet{Type: mqttx.UNSUBSCRIBE, PacketID: uint16(k + 1), Filters: []string{"#"}})
			case 3:
				pkts = append(pkts, &mqttx.Packet{Type: mqttx.PINGREQ})
			case 4:
				if v == mqttx.V5 {
					m := "x"
					pkts = append(pkts, &mqttx.Packet{Type: mqttx.AUTH, Code: 0x18, Props: &mqttx.Props{AuthMethod: &m}})
				}
			case 5:
				pkts = append(pkts, &mqttx.Packet{Type: mqttx.PUBLISH, Topic: "leak/live", Payload: []byte("leak")})
			case 6:
				pkts = append(pkts, &mqttx.Packet{Type: mqttx.DISCONNECT})
			}
		}
		if mode == "good_credentials_after_rejection" {
			good := *bad
			good.Password = []byte("Secret-1")
			pkts = append(pkts, &good, &mqttx.Packet{Type: mqttx.SUBSCRIBE, PacketID: 99, Subs: []mqttx.Sub{{Filter: "#", QoS: 1}}},
				&mqttx.Packet{Type: mqttx.PUBLISH, Topic: "leak/after", Retain: true, Payload: []byte("leak")})
		}
		for _, p := range pkts {
			if c.Send(p) != nil {
				break
			}
		}
		c.WaitEOF(300 * time.Millisecond)
		c.Close()
		r.Eval(1)
		r.Count("preauth_scripts", 1)
		r.Count("preauth_packets", int64(len(pkts)))
		r.Nontrivial(fmt.Sprintf("preauth|%s|%d|%v|%d", mode, v, ws, len(pkts)))
		// the unauthenticated peer must never see a success CONNACK or any answer to its requests
		for _, rec := range c.In() {
			p := rec.P
			if (p.Type == mqttx.CONNACK && p.Code == 0) || p.Type == mqttx.SUBACK || p.Type == mqttx.PUBACK || p.Type == mqttx.UNSUBACK || p.Type == mqttx.PINGRESP || p.Type == mqttx.PUBLISH {
				r.Violation(fmt.Sprintf("preauth.answered:%s:%s", mode, mqttx.TypeName(p.Type)), fmt.Sprintf("unauthenticated connection (%s) received %s", mode, p.String()), map[string]any{"mode": mode, "ws": ws, "version": v})
			}
		}
	}
	// barrier, then nothing may have leaked
	b.Publish("sentinel", "sentinel", 1, false)
	if err := obs.WaitPayload("sentinel", step); err != nil {
		r.Inconclusive("observer sentinel: " + err.Error())
		return
	}
	time.Sleep(100 * time.Millisecond)
	for _, rec := range obs.Publishes() {
		if string(rec.P.Payload) != "sentinel" {
			r.Violation("preauth.message_delivered", "an authenticated observer received a message published without authentication: "+rec.P.String(), nil)
		}
	}
	after := snap(b)
	if after != base {
		r.Violation("preauth.state_changed", fmt.Sprintf("broker state changed by unauthenticated traffic: before %+v after %+v", base, after), nil)
	}
	var subs []string
	b.Srv.SubscriptionService().Iterate(func(c string, s *gmqtt.Subscription) bool {
		if strings.HasPrefix(c, "intruder") {
			subs = append(subs, c+":"+s.TopicFilter)
		}
		return true
	}, subscription.IterationOptions{Type: subscription.TypeAll})
	if len(subs) > 0 {
		r.Violation("preauth.subscription", fmt.Sprintf("subscriptions installed without authentication: %v", subs), nil)
	}
}

// Run is the entry point.
func Run(r *monitor.Run) {
	kinds := []string{auth.Plain, auth.MD5, auth.SHA256, auth.Bcrypt}
	nh := r.Pick(1, 30)
	type job struct {
		kind string
		i    int
	}
	var jobs []job
	for _, k := range kinds {
		for i := 0; i < nh; i++ {
			jobs = append(jobs, job{k, i})
		}
	}
	r.Parallel(len(jobs), 8, func(j int) {
		jb := jobs[j]
		rng := r.Rand(fmt.Sprintf("hist-%s-%d", jb.kind, jb.i))
		histories(r, jb.kind, j, rng, r.Pick(60, 140), r.Pick(10, 16))
	})
	for i, k := range kinds {
		preAuth(r, k, r.Rand("preauth-"+k), r.Pick(12, 250))
		_ = i
	}
	relativePath(r)
	r.Count("basic_auth_calls_through_a_second_plugin", atomic.LoadInt64(&gateCalls))
	for i, k := range kinds {
		lastAccountDeleted(r, k, 1+i%2)
	}
	r.Parallel(r.Pick(2, 8), 4, func(i int) { concurrentAdmins(r, []string{auth.Plain, auth.SHA256}[i%2], i) })
	r.Sample(map[string]any{"example_attempt": Attempt{V: 5, HasUser: true, HasPass: true, User: "alice", PassDesc: "trailing_byte", Clean: true}})
}
