package c19

import (
	"context"
	"fmt"
	"os"
	"path/filepath"

	"github.com/DrmagicE/gmqtt/plugin/auth"

	"verif/harness/monitor"
)

// lastAccountDeleted: the password file follows the accounts down to none. One or two accounts are deleted through the
// administration API until none is left; from then on the broker refuses their credentials, and so does a broker started
// again on the file the plugin wrote (an empty account list is a state like any other, it must reach the file).
func lastAccountDeleted(r *monitor.Run, kind string, n int) {
	dir := scratch()
	defer os.RemoveAll(dir)
	pwFile := filepath.Join(dir, "pw.yml")
	accounts := map[string]string{}
	for i := 0; i < n; i++ {
		accounts[fmt.Sprintf("solo%d", i)] = fmt.Sprintf("pw-%d", i)
	}
	if err := writeFile(pwFile, kind, accounts); err != nil {
		r.Inconclusive(err.Error())
		return
	}
	b, a, err := startBroker(kind, pwFile, "", false)
	if err != nil {
		r.Inconclusive("last account: " + err.Error())
		return
	}
	defer func() { b.Stop(step) }()
	tag := fmt.Sprintf("hash=%s:accounts=%d", kind, n)
	r.Eval(1)
	try := func(stage string, wantAccepted bool) bool {
		for u, pw := range accounts {
			for _, v := range []byte{4, 5} {
				ok, err := tryConnect(b, Attempt{V: v, HasUser: true, HasPass: true, User: u, Pass: pw, Clean: true}, fmt.Sprintf("last-%s-%d", u, v))
				if err != nil {
					r.Inconclusive(fmt.Sprintf("last account (%s): %v", stage, err))
					return false
				}
				if ok != wantAccepted {
					r.Violation(fmt.Sprintf("last_account.%s:accepted=%v:%s", stage, ok, tag), fmt.Sprintf("%s: CONNECT v%d as %s with its password: accepted=%v, want %v", stage, v, u, ok, wantAccepted), nil)
					return false
				}
			}
		}
		return true
	}
	if !try("before", true) {
		return
	}
	for u := range accounts {
		if _, err := a.Delete(context.Background(), &auth.DeleteAccountRequest{Username: u}); err != nil {
			r.Violation("last_account.delete_failed:"+tag, fmt.Sprintf("Delete(%s): %v", u, err), nil)
			return
		}
	}
	if !try("after_delete", false) {
		return
	}
	if err := b.Stop(step); err != nil {
		r.Inconclusive("last account: stop: " + err.Error())
		return
	}
	b, a, err = startBroker(kind, pwFile, "", false)
	if err != nil {
		r.Violation("last_account.restart_failed:"+tag, "a broker started on the password file left after the last account was deleted does not start: "+err.Error(), nil)
		return
	}
	if lr, err := a.List(context.Background(), &auth.ListAccountsRequest{PageSize: 100, Page: 1}); err == nil && lr.TotalCount != 0 {
		r.Violation("last_account.listed_after_restart:"+tag, fmt.Sprintf("every account was deleted; the restarted broker lists %d accounts", lr.TotalCount), nil)
	}
	if !try("after_restart", false) {
		return
	}
	r.Count("password_files_emptied_through_the_api", 1)
	r.Nontrivial("last|" + tag)
}
