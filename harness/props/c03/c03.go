// Package c03: outbound QoS 1/2 - at-least-once across reconnects, unique
// packet identifiers, bounded in-flight window (DESIGN.md §5 C03).
package c03

import (
	"encoding/json"
	"fmt"
	"math/rand"
	"sync"
	"sync/atomic"
	"time"

	"github.com/DrmagicE/gmqtt"
	"github.com/DrmagicE/gmqtt/config"

	"verif/harness/broker"
	"verif/harness/monitor"
	"verif/harness/mqttx"
	"verif/harness/wire"
)

// AckPlan says how the subscriber treats the first transmission of message k.
type AckPlan struct {
	Mode  string // now | later | never | reconly | error
	Later int    `json:",omitempty"` // ack after that many further incoming packets
}

// Cut is a scripted connection cut.
type Cut struct {
	After   int    // after that many incoming PUBLISH/PUBREL packets of the epoch
	Barrier bool   // PINGREQ/PINGRESP before cutting: the broker has certainly processed our acks
	How     string // close | disconnect
}

// Scenario is one generated case.
type Scenario struct {
	V           byte   // 4 | 5
	RecvMax     uint16 // 0 = absent (v5) / not applicable (v3)
	MaxInflight uint16
	Redis       bool
	// LowerRM (v5): every connection after the first declares Receive Maximum 1 although the session has more
	// unacknowledged messages than that from the earlier connection
	LowerRM bool `json:",omitempty"`
	// DupPublisher: the messages come from an MQTT client that sets the DUP flag on every PUBLISH (it re-sends after a
	// lost connection; the broker has never seen these identifiers, so they are new messages). What the publisher's
	// flag says about ITS transmission must not show on the broker's own first transmission to the subscriber.
	DupPublisher bool `json:",omitempty"`
	IE          bool   `json:",omitempty"` // mqtt.inflight_expiry at its default (30 s) instead of 0: replays rewrite the stored deadline
	QoS         []byte // QoS of each published message
	Plans       []AckPlan
	Cuts        []Cut
}

// Generate draws a scenario.
func Generate(rng *rand.Rand, maxMsgs int) Scenario {
	sc := Scenario{V: []byte{4, 5, 5}[rng.Intn(3)], MaxInflight: []uint16{1, 2, 5, 100}[rng.Intn(4)]}
	if sc.V == 5 {
		sc.RecvMax = []uint16{0, 1, 2, 3, 10, 65535}[rng.Intn(6)]
	}
	sc.IE = rng.Intn(2) == 0
	sc.DupPublisher = rng.Intn(3) == 0
	sc.LowerRM = sc.V == 5 && sc.RecvMax != 1 && sc.MaxInflight > 1 && rng.Intn(4) == 0
	n := 3 + rng.Intn(maxMsgs-2)
	for i := 0; i < n; i++ {
		sc.QoS = append(sc.QoS, byte(1+rng.Intn(2)))
		if sc.LowerRM {
			sc.QoS[i] = 1 // one PUBACK frees a slot of the window; keeps the windowed replay easy to follow
		}
		var p AckPlan
		switch x := rng.Intn(100); {
		case x < 45:
			p.Mode = "now"
		case x < 65:
			p.Mode, p.Later = "later", 1+rng.Intn(3)
		case x < 78:
			p.Mode = "never"
		case x < 90:
			p.Mode = "reconly"
		default:
			p.Mode = "error"
		}
		if p.Mode == "reconly" && sc.QoS[i] != 2 {
			p.Mode = "never"
		}
		if p.Mode == "error" && sc.V != 5 {
			p.Mode = "now"
		}
		sc.Plans = append(sc.Plans, p)
	}
	for i := 0; i < rng.Intn(5); i++ {
		sc.Cuts = append(sc.Cuts, Cut{After: 1 + rng.Intn(6), Barrier: rng.Intn(2) == 0, How: []string{"close", "close", "disconnect"}[rng.Intn(3)]})
	}
	return sc
}

type entry struct {
	Payload string
	ID      uint16
	QoS     byte
	Order   int
	State   string // received | recsent | done
	Certain bool   // the broker has certainly processed our last ack for it
	plan    AckPlan
	firstTx bool
	dueIn   int // for "later"
}

type finding struct {
	Sig, What string
	Trace     []string
}

// RedisCfg is set by the registration code.
var RedisCfg func(c *config.Config) (func(), error)

const step = 15 * time.Second

type runner struct {
	// what may still be replayed on this connection (unacknowledged, or acknowledged without certainty that the broker
	// processed the acknowledgement) and what has been replayed already
	replayCandidates map[*entry]bool
	replaySeen       map[*entry]bool
	replayOpen bool // on a resumed connection: no new (DUP=0) message has arrived yet
	sc      *Scenario
	b       *broker.Broker
	c       *wire.Client
	fs      []finding
	obs     map[string]int
	limit   int
	entries map[string]*entry // by payload
	byID    map[uint16]*entry // entries not done (S view)
	order   int
	inPos   int // consumed incoming packets of the current connection
	epochIn int // PUBLISH/PUBREL packets in this epoch
	total   int
	lastK   int
	dead    bool
	conns   []*wire.Client
}

// transcript renders everything sent/received on all connections so far.
func (rn *runner) transcript() []string {
	var out []string
	for i, c := range rn.conns {
		for _, r := range c.Log() {
			d := "<-"
			if r.Dir == "out" {
				d = "->"
			}
			out = append(out, fmt.Sprintf("c%d %s %s", i, d, r.P.String()))
		}
		out = append(out, fmt.Sprintf("c%d closed", i))
	}
	return out
}

func (rn *runner) add(sig, what string) {
	rn.fs = append(rn.fs, finding{sig, what, rn.transcript()})
}

func (rn *runner) connect() (*mqttx.Packet, error) {
	c, err := wire.Dial("sub", rn.b.Addr, mqttx.Version(rn.sc.V))
	if err != nil {
		return nil, err
	}
	c.AutoAck = false
	p := &mqttx.Packet{ClientID: "subscriber", CleanStart: false}
	if rn.sc.V == 5 {
		e := uint32(3600)
		p.Props = &mqttx.Props{SessionExpiry: &e}
		if rn.sc.RecvMax != 0 {
			rm := rn.sc.RecvMax
			p.Props.ReceiveMax = &rm
		}
		if rn.sc.LowerRM && len(rn.conns) > 0 {
			rm := uint16(1)
			p.Props.ReceiveMax = &rm
			rn.limit = 1
			rn.obs["resumes_with_lower_receive_maximum"]++
		}
	}
	ack, err := c.Connect(p, step)
	if err != nil {
		return nil, err
	}
	if ack.Code != 0 {
		return nil, fmt.Errorf("connack %d", ack.Code)
	}
	rn.c = c
	rn.replayOpen = len(rn.conns) > 0
	rn.conns = append(rn.conns, c)
	rn.inPos = rn.after(mqttx.CONNACK)
	rn.epochIn = 0
	return ack, nil
}

// after returns the index following the first incoming packet of type t at or after inPos.
func (rn *runner) after(t byte) int {
	for i, r := range rn.c.In() {
		if r.P.Type == t {
			return i + 1
		}
	}
	return len(rn.c.In())
}

func (rn *runner) outstanding() int {
	n := 0
	for _, e := range rn.byID {
		if e.State != "done" {
			n++
		}
	}
	return n
}

func (rn *runner) sendAck(e *entry, final bool) {
	switch {
	case e.State == "received" && e.QoS == 1:
		_ = rn.c.Send(&mqttx.Packet{Type: mqttx.PUBACK, PacketID: e.ID})
		e.State, e.Certain = "done", false
	case e.State == "received" && e.QoS == 2:
		_ = rn.c.Send(&mqttx.Packet{Type: mqttx.PUBREC, PacketID: e.ID})
		e.State, e.Certain = "recsent", false
	case e.State == "recsent" && final:
		_ = rn.c.Send(&mqttx.Packet{Type: mqttx.PUBCOMP, PacketID: e.ID})
		e.State, e.Certain = "done", false
	}
	if e.State == "done" {
		delete(rn.byID, e.ID)
	}
}

func (rn *runner) sendErr(e *entry) {
	t := byte(mqttx.PUBACK)
	if e.QoS == 2 {
		t = mqttx.PUBREC
	}
	_ = rn.c.Send(&mqttx.Packet{Type: t, PacketID: e.ID, Code: 0x80})
	e.State, e.Certain = "done", false
	delete(rn.byID, e.ID)
}

// barrier makes all acks sent so far certain.
func (rn *runner) barrier() bool {
	if err := rn.c.Ping(step); err != nil {
		rn.add("barrier", "PINGRESP missing: "+err.Error())
		rn.dead = true
		return false
	}
	for _, e := range rn.entries {
		e.Certain = true
	}
	return true
}

// handle processes one incoming PUBLISH / PUBREL outside the resume phase.
func (rn *runner) handle(p *mqttx.Packet) {
	switch p.Type {
	case mqttx.PUBLISH:
		if p.QoS == 0 {
			rn.add("publish.qos0", "subscriber granted QoS 2 received QoS 0 "+p.String())
			return
		}
		pl := string(p.Payload)
		e := rn.entries[pl]
		if e == nil {
			// first transmission
			var k int
			fmt.Sscanf(pl, "m/%d", &k)
			switch {
			case p.Dup && rn.replayOpen:
				// a message whose first transmission we never consumed (it was on its way when we cut) and whose
				// retransmission had to wait for room in this connection's window: still before any new message
				rn.obs["lost_first_transmissions"]++
			case p.Dup:
				rn.add("first_tx.dup", "first transmission with DUP=1: "+p.String())
			default:
				rn.replayOpen = false // the first new message: the replay of the old connection's messages is over
			}
			if p.PacketID == 0 {
				rn.add("id.zero", "PUBLISH with packet id 0: "+p.String())
			}
			if o := rn.byID[p.PacketID]; o != nil {
				rn.add(fmt.Sprintf("id.reuse:holder_state=%s", o.State), fmt.Sprintf("new message %s uses packet id %d which still belongs to unacknowledged %s (%s)", pl, p.PacketID, o.Payload, o.State))
			}
			if k <= rn.lastK {
				rn.add("order", fmt.Sprintf("message %s first arrived after m/%d", pl, rn.lastK))
			}
			rn.lastK = k
			rn.order++
			e = &entry{Payload: pl, ID: p.PacketID, QoS: p.QoS, Order: rn.order, State: "received", firstTx: true}
			if k >= 1 && k <= len(rn.sc.Plans) {
				e.plan = rn.sc.Plans[k-1]
				if p.QoS != rn.sc.QoS[k-1] {
					rn.add("qos", fmt.Sprintf("message %s published with QoS %d arrived with QoS %d", pl, rn.sc.QoS[k-1], p.QoS))
				}
			}
			rn.entries[pl] = e
			rn.byID[p.PacketID] = e
			if n := rn.outstanding(); n > rn.limit {
				rn.add(fmt.Sprintf("window:v=%d:recvmax_gt_maxinflight=%v", rn.sc.V, rn.sc.RecvMax > rn.sc.MaxInflight),
					fmt.Sprintf("%d unacknowledged QoS>0 PUBLISH packets outstanding, limit min(receive maximum %d, max_inflight %d) = %d", n, rn.sc.RecvMax, rn.sc.MaxInflight, rn.limit))
			}
			rn.obs["max_outstanding"] = max(rn.obs["max_outstanding"], rn.outstanding())
			switch e.plan.Mode {
			case "now":
				rn.sendAck(e, true)
			case "later":
				e.dueIn = e.plan.Later
			case "reconly":
				rn.sendAck(e, false)
			case "error":
				rn.sendErr(e)
			}
			return
		}
		// a replay that had to wait for room in this connection's window (or for a slow machine): a message whose
		// acknowledgement the broker may not have processed before the cut comes again, before any new message
		if p.Dup && rn.replayOpen && rn.replayCandidates[e] && !rn.replaySeen[e] && e.State == "done" && p.PacketID == e.ID {
			rn.replaySeen[e] = true
			e.State, e.Certain, e.firstTx = "received", true, false
			rn.byID[e.ID] = e
			rn.obs["late_replays_of_uncertain_acks"]++
			rn.sendAck(e, true)
			return
		}
		// retransmission outside the resume phase
		if !p.Dup {
			rn.add("retx.no_dup", fmt.Sprintf("message %s sent again without DUP (state %s certain=%v)", pl, e.State, e.Certain))
		}
		rn.add("retx.midstream", fmt.Sprintf("message %s retransmitted in the middle of a connection (state %s)", pl, e.State))
	case mqttx.PUBREL:
		e := rn.byID[p.PacketID]
		if e == nil || e.State != "recsent" {
			st := "none"
			if e != nil {
				st = e.State
			}
			rn.add("pubrel.unexpected:state="+st, fmt.Sprintf("PUBREL(%d) although no PUBREC is outstanding for that id", p.PacketID))
			return
		}
		e.Certain = true // the broker has evidently processed our PUBREC
		if e.plan.Mode == "reconly" && e.firstTx {
			return // withhold PUBCOMP
		}
		rn.sendAck(e, true)
	}
}

// tickLater sends acks that became due.
func (rn *runner) tickLater(force bool) {
	for _, e := range rn.entries {
		if e.State == "received" && e.plan.Mode == "later" && e.firstTx {
			e.dueIn--
			if e.dueIn <= 0 || force {
				rn.sendAck(e, true)
			}
		}
	}
}

// resume checks the retransmissions after CONNACK(session present).
func (rn *runner) resume() {
	// expected, in original order
	var exp []*entry
	for _, e := range rn.entries {
		if e.State != "done" || !e.Certain {
			exp = append(exp, e)
		}
	}
	for i := range exp {
		for j := i + 1; j < len(exp); j++ {
			if exp[j].Order < exp[i].Order {
				exp[i], exp[j] = exp[j], exp[i]
			}
		}
	}
	required := 0
	for _, e := range exp {
		if e.State != "done" {
			required++
		}
	}
	seen := map[*entry]bool{}
	rn.replayCandidates = map[*entry]bool{}
	for _, e := range exp {
		rn.replayCandidates[e] = true
	}
	rn.replaySeen = seen
	lastOrder := 0
	got := 0
	var window []*entry // retransmitted on this connection, not yet acknowledged by us
	windowReported := false
	for {
		need := 0
		for _, e := range exp {
			if e.State != "done" && !seen[e] {
				need++
			}
		}
		timeout := 150 * time.Millisecond // quiet period for optional (uncertain) retransmissions
		if need > 0 {
			timeout = step
		}
		optionalLeft := 0
		for _, e := range exp {
			if e.State == "done" && !seen[e] {
				optionalLeft++
			}
		}
		// (only where the window was lowered: those scenarios use QoS 1 throughout, one PUBACK frees a slot)
		if rn.sc.LowerRM && (need > 0 || optionalLeft > 0) && len(window) >= rn.limit && len(window) > 0 && !rn.c.WaitIn(rn.inPos, 30*time.Millisecond) {
			// the window of this connection is full: the rest of the retransmissions can only follow once we
			// acknowledge. Acknowledge the oldest one and go on.
			w := window[0]
			window = window[1:]
			rn.sendAck(w, w.State == "recsent")
			rn.obs["replays_continued_after_ack"]++
			continue
		}
		if !rn.c.WaitIn(rn.inPos, timeout) {
			if need > 0 {
				var miss []string
				for _, e := range exp {
					if e.State != "done" && !seen[e] {
						miss = append(miss, fmt.Sprintf("%s(id %d,%s)", e.Payload, e.ID, e.State))
					}
				}
				rn.add("resume.missing", fmt.Sprintf("after reconnect %d unacknowledged messages were not retransmitted: %v", need, miss))
				rn.dead = true
			}
			break
		}
		p := rn.c.In()[rn.inPos].P
		if p.Type != mqttx.PUBLISH && p.Type != mqttx.PUBREL {
			rn.inPos++
			continue
		}
		var e *entry
		if p.Type == mqttx.PUBLISH {
			e = rn.entries[string(p.Payload)]
			if e == nil && p.Dup {
				// a message whose first transmission we never consumed (it was in flight when we cut):
				// legitimately retransmitted with DUP=1; originally sent after everything we saw
				var k int
				fmt.Sscanf(string(p.Payload), "m/%d", &k)
				if k <= rn.lastK {
					rn.add("order", fmt.Sprintf("message %s first arrived after m/%d", p.Payload, rn.lastK))
				}
				rn.lastK = k
				rn.order++
				if o := rn.byID[p.PacketID]; o != nil {
					rn.add(fmt.Sprintf("id.reuse:holder_state=%s", o.State), fmt.Sprintf("message %s uses packet id %d which still belongs to unacknowledged %s (%s)", p.Payload, p.PacketID, o.Payload, o.State))
				}
				ne := &entry{Payload: string(p.Payload), ID: p.PacketID, QoS: p.QoS, Order: rn.order, State: "received", Certain: true, firstTx: false}
				rn.entries[ne.Payload] = ne
				rn.byID[ne.ID] = ne
				lastOrder = ne.Order
				rn.inPos++
				rn.epochIn++
				got++
				rn.obs["lost_first_transmissions"]++
				continue
			}
			if e == nil {
				// a new message: retransmissions must be complete by now
				if need > 0 {
					rn.add("resume.new_before_retx", fmt.Sprintf("new message %s arrived while %d retransmissions were still due", p.Payload, need))
				}
				break
			}
		} else {
			for _, x := range exp {
				if x.ID == p.PacketID && x.QoS == 2 {
					e = x
				}
			}
			if e == nil {
				rn.add("resume.pubrel_unknown", fmt.Sprintf("PUBREL(%d) for no message awaiting PUBCOMP", p.PacketID))
				rn.inPos++
				continue
			}
		}
		rn.inPos++
		rn.epochIn++
		got++
		inExp := false
		for _, x := range exp {
			if x == e {
				inExp = true
			}
		}
		if !inExp {
			rn.add("resume.acked_resent", fmt.Sprintf("message %s (id %d) was acknowledged behind a barrier but is sent again: %s", e.Payload, e.ID, p.String()))
			continue
		}
		if seen[e] {
			rn.add("resume.twice", fmt.Sprintf("message %s retransmitted twice after one reconnect", e.Payload))
			continue
		}
		seen[e] = true
		window = append(window, e)
		if len(window) > rn.limit && !windowReported {
			windowReported = true
			sig := fmt.Sprintf("window.resume:v=%d", rn.sc.V)
			if rn.sc.LowerRM {
				sig += ":receive_maximum_lowered=true"
			}
			rn.add(sig, fmt.Sprintf("%d unacknowledged PUBLISH packets after resume, limit %d", len(window), rn.limit))
		}
		if e.Order < lastOrder {
			rn.add("resume.order", fmt.Sprintf("retransmission of %s (original position %d) after position %d", e.Payload, e.Order, lastOrder))
		}
		lastOrder = e.Order
		if p.Type == mqttx.PUBLISH {
			if !p.Dup {
				rn.add("resume.dup_flag", fmt.Sprintf("retransmitted %s has DUP=0", e.Payload))
			}
			if p.PacketID != e.ID {
				rn.add("resume.id_changed", fmt.Sprintf("retransmitted %s has id %d, originally %d", e.Payload, p.PacketID, e.ID))
			}
			if p.QoS != e.QoS {
				rn.add("resume.qos_changed", fmt.Sprintf("retransmitted %s has QoS %d, originally %d", e.Payload, p.QoS, e.QoS))
			}
			if e.State == "recsent" && e.Certain {
				rn.add("resume.publish_after_pubrec", fmt.Sprintf("%s retransmitted as PUBLISH although the broker had received our PUBREC (it sent PUBREL before)", e.Payload))
			}
			e.State, e.Certain = "received", true
			rn.byID[e.ID] = e
		} else {
			if e.State == "received" {
				rn.add("resume.pubrel_without_pubrec", fmt.Sprintf("PUBREL(%d) for %s although we never sent PUBREC", e.ID, e.Payload))
			}
			e.State, e.Certain = "recsent", true
			rn.byID[e.ID] = e
		}
		e.firstTx = false
	}
	if got > 0 {
		rn.obs["retransmissions"] += got
		rn.obs["resumes_with_retransmission"]++
	}

	if rn.dead {
		return
	}
	// everything retransmitted is acknowledged now (second chance always acks)
	for _, e := range rn.entries {
		if e.State != "done" && !e.firstTx {
			rn.sendAck(e, e.State == "recsent")
		}
	}
}

func (rn *runner) cut(c Cut) bool {
	if c.Barrier {
		if !rn.barrier() {
			return false
		}
	}
	if c.How == "disconnect" {
		rn.c.Disconnect(0, nil)
	} else {
		rn.c.Close()
	}
	rn.obs["cuts"]++
	if c.Barrier {
		rn.obs["cuts_behind_barrier"]++
	}
	ack, err := rn.connect()
	if err != nil {
		rn.add("reconnect", err.Error())
		rn.fs[len(rn.fs)-1].Trace = append(rn.fs[len(rn.fs)-1].Trace, monitor.GoroutineDump("gmqtt/server")...)
		rn.dead = true
		return false
	}
	if !ack.SessionPresent {
		rn.add("reconnect.session_lost", "CONNACK session present = 0 for a persistent session")
		rn.dead = true
		return false
	}
	rn.resume()
	return !rn.dead
}

// RunScenario executes one scenario.
func RunScenario(sc *Scenario) (fs []finding, obs map[string]int, err error) {
	var cleanup func()
	b, err := broker.Start(broker.Options{Cfg: func(c *config.Config) {
		c.MQTT.MaxInflight = sc.MaxInflight
		c.MQTT.MaxQueuedMsg = 1000
		c.MQTT.MessageExpiry = 0
		c.MQTT.InflightExpiry = 0
		if sc.IE {
			c.MQTT.InflightExpiry = 30 * time.Second // far beyond the length of a scenario; the queue (1000) never fills
		}
		if sc.Redis && RedisCfg != nil {
			if cl, e := RedisCfg(c); e == nil {
				cleanup = cl
			}
		}
	}})
	if err != nil {
		return nil, nil, err
	}
	defer func() {
		b.Stop(10 * time.Second)
		if cleanup != nil {
			cleanup()
		}
	}()
	rn := &runner{sc: sc, b: b, obs: map[string]int{}, entries: map[string]*entry{}, byID: map[uint16]*entry{}}
	rn.limit = int(sc.MaxInflight)
	if sc.V == 5 && sc.RecvMax != 0 && int(sc.RecvMax) < rn.limit {
		rn.limit = int(sc.RecvMax)
	}
	if _, err := rn.connect(); err != nil {
		return nil, nil, err
	}
	if _, err := rn.c.Subscribe([]mqttx.Sub{{Filter: "t", QoS: 2}}, 0, step); err != nil {
		return nil, nil, err
	}
	rn.inPos = rn.after(mqttx.SUBACK)
	var dupPub *wire.Client
	if sc.DupPublisher {
		dupPub, err = wire.Dial("dup-publisher", b.Addr, mqttx.V311)
		if err != nil {
			return nil, nil, err
		}
		defer dupPub.Close()
		if _, err := dupPub.Connect(&mqttx.Packet{ClientID: "dup-publisher", CleanStart: true}, step); err != nil {
			return nil, nil, err
		}
		rn.obs["scenarios_with_dup_flag_publisher"]++
	}
	for i, q := range sc.QoS {
		if dupPub != nil && q > 0 {
			if _, err := dupPub.Publish(&mqttx.Packet{Topic: "t", QoS: q, Dup: true, Payload: []byte(fmt.Sprintf("m/%d", i+1))}, step); err != nil {
				return nil, nil, fmt.Errorf("publisher with DUP flag: %w", err)
			}
			continue
		}
		b.Srv.Publisher().Publish(&gmqtt.Message{Topic: "t", Payload: []byte(fmt.Sprintf("m/%d", i+1)), QoS: q})
	}
	n := len(sc.QoS)
	cuts := append([]Cut{}, sc.Cuts...)
	stalls := 0
	for !rn.dead {
		done := 0
		for _, e := range rn.entries {
			if e.State == "done" {
				done++
			}
		}
		if done == n && len(rn.entries) == n {
			break
		}
		if len(cuts) > 0 && rn.epochIn >= cuts[0].After {
			c := cuts[0]
			cuts = cuts[1:]
			if !rn.cut(c) {
				break
			}
			continue
		}
		// stalled? (window full from our point of view, or everything received)
		if rn.outstanding() >= rn.limit || len(rn.entries) == n {
			rn.tickLater(true)
			if rn.outstanding() >= rn.limit || len(rn.entries) == n {
				// pending PUBRELs may still arrive for PUBRECs we just sent; wait briefly for traffic
				if rn.c.WaitIn(rn.inPos, 100*time.Millisecond) {
					goto consume
				}
				stalls++
				if stalls > 3*n+10 {
					rn.add("stall", "no progress: scenario does not terminate")
					break
				}
				if !rn.cut(Cut{Barrier: stalls%2 == 0, How: "close"}) {
					break
				}
				continue
			}
		}
		if !rn.c.WaitIn(rn.inPos, step) {
			if eof, _, e := rn.c.EOF(); eof {
				rn.add("disconnected", fmt.Sprintf("subscriber disconnected by the broker: %v ctl=%v", e, rn.c.Ctl()))
			} else {
				rn.add("delivery.stalled", fmt.Sprintf("no packet within %v although %d of %d messages are undelivered and the window (%d of %d) has room", step, n-len(rn.entries), n, rn.outstanding(), rn.limit))
			}
			break
		}
	consume:
		p := rn.c.In()[rn.inPos].P
		rn.inPos++
		if p.Type == mqttx.PUBLISH || p.Type == mqttx.PUBREL {
			rn.epochIn++
			rn.total++
			rn.handle(p)
			rn.tickLater(false)
		} else if p.Type == mqttx.DISCONNECT {
			rn.add(fmt.Sprintf("disconnect:code=0x%02x", p.Code), "subscriber received "+p.String())
			break
		}
	}
	if !rn.dead && len(rn.fs) == 0 {
		// M4: everything acknowledged behind a barrier; a final reconnect retransmits nothing
		if rn.barrier() {
			rn.c.Close()
			ack, err := rn.connect()
			if err != nil || !ack.SessionPresent {
				rn.add("final.reconnect", fmt.Sprintf("final reconnect failed: %v %v", ack, err))
			} else {
				if rn.c.WaitIn(rn.inPos, 150*time.Millisecond) {
					rn.add("final.retransmission", "after all messages were acknowledged a reconnect still retransmits "+rn.c.In()[rn.inPos].P.String())
				}
			}
		}
		if len(rn.entries) != n {
			rn.add("at_least_once", fmt.Sprintf("%d of %d messages never arrived", n-len(rn.entries), n))
		}
	}
	rn.c.Close()
	for _, e := range b.Log.Events() {
		if e.Kind == "OnMsgDropped" {
			rn.add("dropped", fmt.Sprintf("message %q dropped: %s", e.Payload, e.Err))
		}
	}
	rn.obs["messages"] = n
	return rn.fs, rn.obs, nil
}

// wrapAround (M5): 70000 messages through a window of 3 while one id is held unacknowledged.
func wrapAround(r *monitor.Run) {
	b, err := broker.Start(broker.Options{Cfg: func(c *config.Config) {
		c.MQTT.MaxInflight = 3
		c.MQTT.MaxQueuedMsg = 140000
		c.MQTT.MessageExpiry = 0
		c.MQTT.InflightExpiry = 0
	}})
	if err != nil {
		r.Inconclusive(err.Error())
		return
	}
	defer b.Stop(20 * time.Second)
	c, err := wire.Dial("wrap", b.Addr, mqttx.V311)
	if err != nil {
		r.Inconclusive(err.Error())
		return
	}
	defer c.Close()
	var held uint32 // id held unacknowledged
	var count, reuse, zero, maxID, heldMax int64
	c.AutoAck = true
	c.OnPublish = func(p *mqttx.Packet) bool {
		n := atomic.AddInt64(&count, 1)
		if p.PacketID == 0 {
			atomic.AddInt64(&zero, 1)
		}
		if int64(p.PacketID) > atomic.LoadInt64(&maxID) {
			atomic.StoreInt64(&maxID, int64(p.PacketID))
		}
		if n == 1 {
			atomic.StoreUint32(&held, uint32(p.PacketID))
			return false // never acknowledge the first message
		}
		if p.PacketID == 65535 && atomic.CompareAndSwapInt64(&heldMax, 0, 1) {
			return false // nor the one that got the largest identifier: the counter has to step over it at the wrap
		}
		if uint32(p.PacketID) == atomic.LoadUint32(&held) || (p.PacketID == 65535 && n > 65536) {
			atomic.AddInt64(&reuse, 1)
		}
		return true
	}
	if _, err := c.Connect(&mqttx.Packet{ClientID: "wrap", CleanStart: true}, step); err != nil {
		r.Inconclusive(err.Error())
		return
	}
	if _, err := c.Subscribe([]mqttx.Sub{{Filter: "w", QoS: 1}}, 0, step); err != nil {
		r.Inconclusive(err.Error())
		return
	}
	const N = 135000 // two trips through the identifier space
	for i := 0; i < N; i++ {
		b.Srv.Publisher().Publish(&gmqtt.Message{Topic: "w", Payload: []byte(fmt.Sprintf("w/%d", i)), QoS: 1})
	}
	deadline := time.Now().Add(120 * time.Second)
	for atomic.LoadInt64(&count) < N && time.Now().Before(deadline) {
		time.Sleep(20 * time.Millisecond)
	}
	r.Eval(1)
	got := atomic.LoadInt64(&count)
	r.Count("wraparound_messages", got)
	r.Count("wraparound_max_id", atomic.LoadInt64(&maxID))
	if got < N {
		r.Violation("wrap.stalled", fmt.Sprintf("only %d of %d messages delivered through a window of 3 with one id held", got, N), nil)
		return
	}
	if atomic.LoadInt64(&reuse) > 0 {
		r.Violation("wrap.id_reuse", fmt.Sprintf("a packet id held unacknowledged (%d or 65535) was reused %d times after the id space wrapped", held, reuse), nil)
	}
	if atomic.LoadInt64(&zero) > 0 {
		r.Violation("wrap.id_zero", "packet id 0 used after wrap-around", nil)
	}
	r.Nontrivial("wraparound")
}

// Run is the entry point.
func Run(r *monitor.Run) {
	// two trips through the packet identifier space, alongside the scenarios
	var wrap sync.WaitGroup
	wrap.Add(1)
	go func() { defer wrap.Done(); wrapAround(r) }()
	defer wrap.Wait()
	retainedAcrossSessions(r)
	replayAtTheSizeLimit(r)
	n := r.Pick(160, 3000)
	rng := r.Rand("scripts")
	scs := make([]Scenario, n)
	for i := range scs {
		scs[i] = Generate(rng, r.Pick(20, 40))
		scs[i].Redis = RedisCfg != nil && i%6 == 5
	}
	r.Parallel(n, 16, func(i int) {
		sc := &scs[i]
		fs, obs, err := RunScenario(sc)
		r.Eval(1)
		if err != nil {
			r.Inconclusive(fmt.Sprintf("scenario %d: %v", i, err))
			return
		}
		for _, f := range fs {
			r.Violation(f.Sig, f.What, map[string]any{"scenario": sc, "index": i, "transcript": f.Trace})
		}
		for k, v := range obs {
			if k == "max_outstanding" {
				r.Max(k, int64(v))
			} else {
				r.Count(k, int64(v))
			}
		}
		if obs["retransmissions"] > 0 {
			r.Nontrivial(monitor.J(sc))
		}
		if sc.Redis {
			r.Count("scenarios_redis", 1)
		}
		if i == 0 {
			r.Sample(sc)
		}
	})
}

// Replay re-runs the scenario stored in a violation file.
func Replay(r *monitor.Run, detail []byte) {
	var d struct{ Scenario Scenario }
	if err := json.Unmarshal(detail, &d); err != nil || len(d.Scenario.QoS) == 0 {
		fmt.Println("replay: no scenario in this file:", err)
		return
	}
	fs, _, err := RunScenario(&d.Scenario)
	if err != nil {
		fmt.Println("replay: harness error:", err)
		return
	}
	for _, f := range fs {
		r.Violation(f.Sig, f.What, map[string]any{"scenario": d.Scenario, "transcript": f.Trace})
	}
}
