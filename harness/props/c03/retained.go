package c03

import (
	"fmt"
	"time"

	"github.com/DrmagicE/gmqtt/config"

	"verif/harness/broker"
	"verif/harness/monitor"
	"verif/harness/mqttx"
	"verif/harness/wire"
)

// retainedAcrossSessions: a retained message that goes to several sessions (each SUBSCRIBE replays it) is, for each of them,
// a message of its own: the packet identifier and the DUP flag one session gives it say nothing about the other's. Two
// persistent sessions with different identifier histories receive the same retained QoS 1 and QoS 2 messages and leave them
// unacknowledged; each reconnect must retransmit them under the identifiers of that session's first transmission with DUP=1,
// a first transmission never carries DUP=1, and after the acknowledgements nothing comes again.
func retainedAcrossSessions(r *monitor.Run) {
	for _, v := range []mqttx.Version{mqttx.V311, mqttx.V5} {
		for _, order := range []string{"a_b_ra_rb", "a_ra_b_rb", "a_b_rb_ra"} {
			for _, redis := range []bool{false, true} {
				if redis && RedisCfg == nil {
					continue
				}
				fs, err := retainedCase(v, order, redis)
				r.Eval(1)
				tag := fmt.Sprintf("v=%d:order=%s:redis=%v", v, order, redis)
				if err != nil {
					r.Inconclusive("retained across sessions " + tag + ": " + err.Error())
					continue
				}
				for _, f := range fs {
					r.Violation(f.Sig, f.What+" ("+tag+")", map[string]any{"order": order, "v": v, "redis": redis})
				}
				r.Count("retained_across_sessions_cases", 1)
				r.Nontrivial("retained:" + tag)
			}
		}
	}
}

type rsess struct {
	id    string
	v     mqttx.Version
	c     *wire.Client
	first map[string]uint16 // payload -> packet id of the first transmission
	addr  string
}

func (s *rsess) connect(auto bool) (*mqttx.Packet, error) {
	c, err := wire.Dial(s.id, s.addr, s.v)
	if err != nil {
		return nil, err
	}
	c.AutoAck = auto
	p := &mqttx.Packet{ClientID: s.id, CleanStart: false}
	if s.v == mqttx.V5 {
		e := uint32(3600)
		p.Props = &mqttx.Props{SessionExpiry: &e}
	}
	ack, err := c.Connect(p, step)
	if err != nil {
		c.Close()
		return nil, err
	}
	s.c = c
	return ack, nil
}

func retainedCase(v mqttx.Version, order string, redis bool) (fs []finding, err error) {
	var cleanup func()
	b, err := broker.Start(broker.Options{Cfg: func(c *config.Config) {
		c.MQTT.MaxInflight = 10
		c.MQTT.MessageExpiry = 0
		if redis {
			if cl, e := RedisCfg(c); e == nil {
				cleanup = cl
			}
		}
	}})
	if err != nil {
		return nil, err
	}
	defer func() {
		b.Stop(10 * time.Second)
		if cleanup != nil {
			cleanup()
		}
	}()
	add := func(sig, what string) { fs = append(fs, finding{Sig: sig, What: what}) }
	pub, err := wire.Dial("rpub", b.Addr, mqttx.V311)
	if err != nil {
		return nil, err
	}
	defer pub.Close()
	if _, err := pub.Connect(&mqttx.Packet{ClientID: "rpub", CleanStart: true}, step); err != nil {
		return nil, err
	}
	retained := map[string]byte{"ret-one": 1, "ret-two": 2}
	for pl, q := range retained {
		if _, err := pub.Publish(&mqttx.Packet{Topic: "rt/" + pl, QoS: q, Retain: true, Payload: []byte(pl)}, step); err != nil {
			return nil, err
		}
	}
	A := &rsess{id: "ret-A", v: v, addr: b.Addr, first: map[string]uint16{}}
	B := &rsess{id: "ret-B", v: v, addr: b.Addr, first: map[string]uint16{}}
	// A has used identifiers before: its retained messages get other identifiers than B's
	if _, err := A.connect(true); err != nil {
		return nil, err
	}
	if _, err := A.c.Subscribe([]mqttx.Sub{{Filter: "live/#", QoS: 1}}, 0, step); err != nil {
		return nil, err
	}
	for i := 0; i < 3; i++ {
		pl := fmt.Sprintf("live-%d", i)
		if _, err := pub.Publish(&mqttx.Packet{Topic: "live/x", QoS: 1, Payload: []byte(pl)}, step); err != nil {
			return nil, err
		}
		if err := A.c.WaitPayload(pl, step); err != nil {
			return nil, fmt.Errorf("live message: %w", err)
		}
	}
	if err := A.c.Ping(step); err != nil {
		return nil, err
	}
	A.c.SetAutoAck(false)
	if _, err := B.connect(false); err != nil {
		return nil, err
	}
	defer func() { A.c.Close(); B.c.Close() }()

	subscribe := func(s *rsess) error {
		from := len(s.c.Publishes())
		if _, err := s.c.Subscribe([]mqttx.Sub{{Filter: "rt/#", QoS: 2}}, 0, step); err != nil {
			return err
		}
		for pl := range retained {
			if err := s.c.WaitPayload(pl, step); err != nil {
				return fmt.Errorf("%s: retained %s after SUBSCRIBE: %w", s.id, pl, err)
			}
		}
		for _, rec := range s.c.Publishes()[from:] {
			pl := string(rec.P.Payload)
			if _, ok := retained[pl]; !ok {
				continue
			}
			if rec.P.Dup {
				add("retained.first_transmission_dup", fmt.Sprintf("%s: the first transmission of retained message %s (id %d) carries DUP=1", s.id, pl, rec.P.PacketID))
			}
			if _, again := s.first[pl]; again {
				add("retained.sent_twice", fmt.Sprintf("%s: retained message %s sent twice for one SUBSCRIBE", s.id, pl))
			}
			s.first[pl] = rec.P.PacketID
		}
		return nil
	}
	// reconnect without acknowledging: the same messages under the same identifiers, DUP=1
	reconnect := func(s *rsess) error {
		s.c.Close()
		ack, err := s.connect(false)
		if err != nil {
			return err
		}
		if !ack.SessionPresent {
			return fmt.Errorf("%s: session present 0", s.id)
		}
		for pl := range retained {
			if err := s.c.WaitPayload(pl, step); err != nil {
				add("retained.not_retransmitted", fmt.Sprintf("%s: unacknowledged retained message %s (first sent as id %d) was not retransmitted after the reconnect; received %v", s.id, pl, s.first[pl], pubsOf(s.c)))
				return nil
			}
		}
		if err := s.c.Ping(step); err != nil {
			return err
		}
		seen := map[string]int{}
		for _, rec := range s.c.Publishes() {
			pl := string(rec.P.Payload)
			if _, ok := retained[pl]; !ok {
				add("retained.foreign_retransmission", fmt.Sprintf("%s: %s arrived after the reconnect", s.id, rec.P.String()))
				continue
			}
			seen[pl]++
			if rec.P.PacketID != s.first[pl] {
				add("retained.retx_id_changed", fmt.Sprintf("%s: retained message %s was first sent as id %d and retransmitted as id %d", s.id, pl, s.first[pl], rec.P.PacketID))
			}
			if !rec.P.Dup {
				add("retained.retx_without_dup", fmt.Sprintf("%s: retransmission of %s (id %d) carries DUP=0", s.id, pl, rec.P.PacketID))
			}
		}
		for pl, n := range seen {
			if n > 1 {
				add("retained.retx_twice", fmt.Sprintf("%s: %s retransmitted %d times on one connection", s.id, pl, n))
			}
		}
		return nil
	}
	steps := map[string][]func() error{
		"a_b_ra_rb": {func() error { return subscribe(A) }, func() error { return subscribe(B) }, func() error { return reconnect(A) }, func() error { return reconnect(B) }},
		"a_ra_b_rb": {func() error { return subscribe(A) }, func() error { return reconnect(A) }, func() error { return subscribe(B) }, func() error { return reconnect(B) }},
		"a_b_rb_ra": {func() error { return subscribe(A) }, func() error { return subscribe(B) }, func() error { return reconnect(B) }, func() error { return reconnect(A) }},
	}[order]
	for _, st := range steps {
		if err := st(); err != nil {
			return fs, err
		}
		if len(fs) > 0 {
			return fs, nil
		}
	}
	for pl := range retained {
		if A.first[pl] == B.first[pl] {
			return fs, fmt.Errorf("both sessions got id %d for %s: the case shows nothing", A.first[pl], pl)
		}
	}
	// acknowledge everything (the retransmissions of one more reconnect are acknowledged automatically), then nothing comes again
	for _, s := range []*rsess{A, B} {
		s.c.Close()
		if _, err := s.connect(true); err != nil {
			return fs, err
		}
		for pl := range retained {
			if err := s.c.WaitPayload(pl, step); err != nil {
				add("retained.not_retransmitted", fmt.Sprintf("%s: unacknowledged retained message %s was not retransmitted after the second reconnect", s.id, pl))
				return fs, nil
			}
		}
		// QoS 2: PUBREL/PUBCOMP complete behind two barriers
		for i := 0; i < 3; i++ {
			if err := s.c.Ping(step); err != nil {
				return fs, err
			}
			time.Sleep(20 * time.Millisecond)
		}
		s.c.Close()
		if _, err := s.connect(true); err != nil {
			return fs, err
		}
		if err := s.c.Ping(step); err != nil {
			return fs, err
		}
		time.Sleep(150 * time.Millisecond)
		if err := s.c.Ping(step); err != nil {
			return fs, err
		}
		for _, rec := range s.c.Publishes() {
			add("retained.retransmitted_after_ack", fmt.Sprintf("%s: after every message was acknowledged a reconnect still brings %s", s.id, rec.P.String()))
		}
	}
	return fs, nil
}

func pubsOf(c *wire.Client) []string {
	var out []string
	for _, r := range c.Publishes() {
		out = append(out, r.P.String())
	}
	return out
}

// replayAtTheSizeLimit: an unacknowledged message whose PUBLISH packet is exactly as large as the Maximum Packet Size the
// client declares (on the first and on the resuming connection) is retransmitted like any other; one byte less likewise.
// When the resuming connection declares one byte less, only the smaller one comes again and the other is reported dropped.
func replayAtTheSizeLimit(r *monitor.Run) {
	for _, shrink := range []bool{false, true} {
		for _, q := range []byte{1, 2} {
			fs, err := sizeLimitCase(q, shrink)
			r.Eval(1)
			tag := fmt.Sprintf("qos=%d:shrink=%v", q, shrink)
			if err != nil {
				r.Inconclusive("replay at the size limit " + tag + ": " + err.Error())
				continue
			}
			for _, f := range fs {
				r.Violation(f.Sig+":"+tag, f.What, map[string]any{"qos": q, "shrink": shrink})
			}
			r.Count("replay_at_size_limit_cases", 1)
			r.Nontrivial("sizelimit:" + tag)
		}
	}
}

func sizeLimitCase(q byte, shrink bool) (fs []finding, err error) {
	b, err := broker.Start(broker.Options{Cfg: func(c *config.Config) {
		c.MQTT.MaxInflight = 10
		c.MQTT.MessageExpiry = 0
	}})
	if err != nil {
		return nil, err
	}
	defer b.Stop(10 * time.Second)
	add := func(sig, what string) { fs = append(fs, finding{Sig: sig, What: what}) }
	const M = 100
	connect := func(m uint32) (*wire.Client, *mqttx.Packet, error) {
		c, err := wire.Dial("szl", b.Addr, mqttx.V5)
		if err != nil {
			return nil, nil, err
		}
		c.AutoAck = false
		e := uint32(3600)
		ack, err := c.Connect(&mqttx.Packet{ClientID: "szl", CleanStart: false, Props: &mqttx.Props{SessionExpiry: &e, MaxPacketSize: &m}}, step)
		if err != nil {
			c.Close()
			return nil, nil, err
		}
		return c, ack, nil
	}
	c, _, err := connect(M)
	if err != nil {
		return nil, err
	}
	defer func() { c.Close() }()
	if _, err := c.Subscribe([]mqttx.Sub{{Filter: "szl/#", QoS: 2}}, 0, step); err != nil {
		return nil, err
	}
	pub, err := wire.Dial("szl-pub", b.Addr, mqttx.V311)
	if err != nil {
		return nil, err
	}
	defer pub.Close()
	if _, err := pub.Connect(&mqttx.Packet{ClientID: "szl-pub", CleanStart: true}, step); err != nil {
		return nil, err
	}
	sizeOf := func(pl int) int {
		return mqttx.Size(&mqttx.Packet{Type: mqttx.PUBLISH, Topic: "szl/t", QoS: q, PacketID: 1, Payload: make([]byte, pl)}, mqttx.V5)
	}
	payload := func(total int, mark byte) []byte {
		pl := total - sizeOf(0)
		p := make([]byte, pl)
		for i := range p {
			p[i] = mark
		}
		return p
	}
	msgs := map[string][]byte{"exact": payload(M, 'E'), "below": payload(M-1, 'B')}
	first := map[string]uint16{}
	for name, p := range msgs {
		if _, err := pub.Publish(&mqttx.Packet{Topic: "szl/t", QoS: q, Payload: p}, step); err != nil {
			return nil, err
		}
		if err := c.WaitPayload(string(p), step); err != nil {
			return nil, fmt.Errorf("first transmission of %s (%d bytes, limit %d): %w", name, sizeOf(len(p)), M, err)
		}
	}
	for _, rec := range c.Publishes() {
		for name, p := range msgs {
			if string(rec.P.Payload) == string(p) {
				first[name] = rec.P.PacketID
				if rec.Size != sizeOf(len(p)) {
					return nil, fmt.Errorf("%s arrived with %d bytes, computed %d", name, rec.Size, sizeOf(len(p)))
				}
			}
		}
	}
	c.Close()
	m2 := uint32(M)
	if shrink {
		m2 = M - 1
	}
	from := b.Log.Len()
	c, ack, err := connect(m2)
	if err != nil {
		return nil, err
	}
	if !ack.SessionPresent {
		return nil, fmt.Errorf("session present 0")
	}
	want := map[string]bool{"below": true, "exact": !shrink}
	for name, p := range msgs {
		if !want[name] {
			continue
		}
		if err := c.WaitPayload(string(p), step); err != nil {
			dropped := ""
			for _, e := range b.Log.Events()[from:] {
				if e.Kind == "OnMsgDropped" && e.Client == "szl" {
					dropped += " dropped(" + e.Err + ")"
				}
			}
			add("sizelimit.not_retransmitted:"+name, fmt.Sprintf("the unacknowledged message of %d bytes (first sent as id %d) was not retransmitted to the resumed session declaring Maximum Packet Size %d; received %v;%s", sizeOf(len(p)), first[name], m2, pubsOf(c), dropped))
			return fs, nil
		}
	}
	if err := c.Ping(step); err != nil {
		return fs, err
	}
	for _, rec := range c.Publishes() {
		if uint32(rec.Size) > m2 {
			add("sizelimit.oversize_retransmission", fmt.Sprintf("a retransmission of %d bytes reached a connection whose Maximum Packet Size is %d", rec.Size, m2))
		}
		for name, p := range msgs {
			if string(rec.P.Payload) == string(p) {
				if rec.P.PacketID != first[name] {
					add("sizelimit.retx_id_changed", fmt.Sprintf("%s first sent as id %d, retransmitted as id %d", name, first[name], rec.P.PacketID))
				}
				if !rec.P.Dup {
					add("sizelimit.retx_without_dup", fmt.Sprintf("retransmission of %s (id %d) carries DUP=0", name, rec.P.PacketID))
				}
			}
		}
	}
	if shrink {
		n := 0
		for _, e := range b.Log.Events()[from:] {
			if e.Kind == "OnMsgDropped" && e.Client == "szl" {
				n++
			}
		}
		if n != 1 {
			add("sizelimit.drop_not_reported", fmt.Sprintf("the message of %d bytes cannot be sent to a connection with Maximum Packet Size %d: %d drops reported, expected 1", M, m2, n))
		}
	}
	return fs, nil
}
