// Package c05: session lifecycle - resume iff it should, and one connection
// per client id (DESIGN.md §5 C05).
package c05

import (
	"encoding/json"
	"fmt"
	"math/rand"
	"sort"
	"sync"
	"time"

	"github.com/DrmagicE/gmqtt"
	"github.com/DrmagicE/gmqtt/config"
	"github.com/DrmagicE/gmqtt/persistence/subscription"
	"github.com/DrmagicE/gmqtt/server"

	"verif/harness/broker"
	"verif/harness/monitor"
	"verif/harness/mqttx"
	"verif/harness/wire"
	"verif/harness/yield"
)

const step = 10 * time.Second
const margin = 400 * time.Millisecond

type finding struct{ Sig, What string }

// ---- (a) resume decision ----------------------------------------------------------

// RCase is one lifecycle history for one client id.
type RCase struct {
	V          byte
	CfgExpiry  uint32 // configured session_expiry in seconds (2 or 7200)
	ReqExpiry  int64  // v5 requested expiry; -1 = absent; v3: 0 = clean session, 1 = non-clean
	ConnectFor int    // ms the first connection stays up
	End        string // disconnect | disconnect_new_expiry | disconnect_refused_expiry | close
	NewExpiry  uint32 // for disconnect_new_expiry
	OfflineMs  int    // ms offline before reconnecting
	Terminate  bool   // TerminateSession while offline
	CleanStart bool   // reconnect with clean start
	Takeover   bool   // reconnect while the first connection is still up (OfflineMs ignored)
	// Sweep: a third period. The second connection stays up until the expiry deadline of the FIRST offline
	// period has passed, the broker's periodic expiry sweep runs, and the client disconnects and reconnects.
	Sweep bool `json:",omitempty"`
	// Restart: the broker runs on the durable (redis) store and is stopped and started again on the same store while
	// the client is offline. What the session was told last (CONNECT or DISCONNECT) is what the new process applies.
	// Only decided where "from the end of the connection" and "from the restart" give the same answer.
	Restart bool `json:",omitempty"`
	// RefuseQueueDel: the broker runs on redis and, at the moment the session is ended (Terminate, or the end of an
	// expiry-0 session), redis refuses the DEL of the session's queue. The session has ended all the same.
	RefuseQueueDel bool `json:",omitempty"`
}

// RedisCfgFault is RedisCfg plus arm(cmd, key): redis refuses the next such command with an error reply.
var RedisCfgFault func(c *config.Config) (cleanup func(), arm func(cmd, key string), err error)

// RedisCfg (set by the registration code) switches a configuration to the redis back end on a private fake redis.
var RedisCfg func(c *config.Config) (func(), error)

// effective expiry (seconds) after the first connection ended; -1 = never expires in the test's time scale
func (c RCase) effExpiry() int64 {
	var e int64
	if c.V != 5 {
		if c.ReqExpiry == 0 {
			return 0
		}
		return int64(c.CfgExpiry)
	}
	e = c.ReqExpiry
	if e < 0 {
		e = 0
	}
	if e > int64(c.CfgExpiry) {
		e = int64(c.CfgExpiry)
	}
	if c.End == "disconnect_new_expiry" {
		// the value a DISCONNECT brings replaces the requested one; the configured maximum holds for it as well
		e = int64(c.NewExpiry)
		if e > int64(c.CfgExpiry) {
			e = int64(c.CfgExpiry)
		}
	}
	return e
}

func subsOf(b *broker.Broker, id string) []string {
	var out []string
	b.Srv.SubscriptionService().Iterate(func(c string, s *gmqtt.Subscription) bool {
		out = append(out, s.GetFullTopicName())
		return true
	}, subscription.IterationOptions{Type: subscription.TypeAll, ClientID: id})
	sort.Strings(out)
	return out
}

func runResume(c RCase, idx int) (fs []finding, incon string, rerr error) {
	add := func(sig, what string) { fs = append(fs, finding{sig, what}) }
	var redisAddr string
	var closeRedis func()
	var arm func(cmd, key string)
	startBroker := func() (*broker.Broker, error) {
		return broker.Start(broker.Options{Cfg: func(cf *config.Config) {
			cf.MQTT.SessionExpiry = time.Duration(c.CfgExpiry) * time.Second
			cf.MQTT.MessageExpiry = 0
			if !c.Restart && !c.RefuseQueueDel {
				return
			}
			if redisAddr == "" {
				if c.RefuseQueueDel {
					if cl, a, err := RedisCfgFault(cf); err == nil {
						closeRedis, redisAddr, arm = cl, cf.Persistence.Redis.Addr, a
					}
				} else if cl, err := RedisCfg(cf); err == nil {
					closeRedis, redisAddr = cl, cf.Persistence.Redis.Addr
				}
			} else {
				cf.Persistence.Type = config.PersistenceTypeRedis
				cf.Persistence.Redis.Addr = redisAddr
			}
		}})
	}
	if (c.Restart && RedisCfg == nil) || (c.RefuseQueueDel && RedisCfgFault == nil) {
		return nil, "", fmt.Errorf("no redis back end registered")
	}
	b, err := startBroker()
	if err != nil {
		return nil, "", err
	}
	defer func() {
		b.Stop(step)
		if closeRedis != nil {
			closeRedis()
		}
	}()
	var tRestart time.Duration
	id := fmt.Sprintf("r%d", idx)
	v := mqttx.Version(c.V)
	mk := func(clean bool) *mqttx.Packet {
		p := &mqttx.Packet{ClientID: id, CleanStart: clean}
		if c.V == 5 {
			if c.ReqExpiry >= 0 {
				e := uint32(c.ReqExpiry)
				p.Props = &mqttx.Props{SessionExpiry: &e}
			}
		} else {
			p.CleanStart = clean || c.ReqExpiry == 0
		}
		return p
	}
	c1, err := wire.Dial(id, b.Addr, v)
	if err != nil {
		return nil, "", err
	}
	defer c1.Close()
	ack, err := c1.Connect(mk(false), step)
	if err != nil || ack.Code != 0 {
		return nil, "", fmt.Errorf("first connect: %v %v", ack, err)
	}
	if ack.SessionPresent {
		add("first_connect.session_present", "CONNACK session present = 1 on a broker that never saw the client id")
	}
	if c.V == 5 {
		want := c.ReqExpiry
		if want < 0 {
			want = 0
		}
		if want > int64(c.CfgExpiry) {
			want = int64(c.CfgExpiry)
		}
		got := int64(-1)
		if ack.Props != nil && ack.Props.SessionExpiry != nil {
			got = int64(*ack.Props.SessionExpiry)
		}
		// an absent property means "the value the client asked for"
		if got != want && !(got == -1 && want == maxI(c.ReqExpiry, 0)) {
			add("connack.session_expiry", fmt.Sprintf("CONNACK Session Expiry Interval %d, min(requested %d, configured %d) = %d", got, c.ReqExpiry, c.CfgExpiry, want))
		}
	}
	if _, err := c1.Subscribe([]mqttx.Sub{{Filter: "r/" + id, QoS: 1}, {Filter: "r/other/#", QoS: 2}}, 0, step); err != nil {
		return nil, "", err
	}
	time.Sleep(time.Duration(c.ConnectFor) * time.Millisecond)
	var tEnd time.Duration
	E := c.effExpiry()
	if !c.Takeover {
		from := b.Log.Len()
		if c.RefuseQueueDel && arm != nil && E == 0 {
			arm("DEL", "queue:"+id) // the session ends with this connection
		}
		switch c.End {
		case "disconnect":
			c1.Disconnect(0, nil)
		case "disconnect_new_expiry":
			ne := c.NewExpiry
			c1.Disconnect(0, &mqttx.Props{SessionExpiry: &ne})
		case "disconnect_refused_expiry":
			// MQTT 5 3.14.2.2.2: a session that was given expiry 0 at CONNECT must not be given another one at DISCONNECT;
			// the broker refuses the packet (protocol error) and the session ends with the connection, as CONNECT said
			ne := c.NewExpiry
			c1.Disconnect(0, &mqttx.Props{SessionExpiry: &ne})
		case "close":
			c1.Close()
		}
		ev, ok := b.Log.Wait(from, func(e broker.Event) bool { return e.Kind == "OnClosed" && e.Client == id }, step)
		if !ok {
			return nil, "OnClosed not observed", nil
		}
		tEnd = ev.T
		// a message published while the client is offline
		if E != 0 {
			b.Publish("r/"+id, "while-offline", 1, false)
		}
		if c.Terminate {
			if c.RefuseQueueDel && arm != nil && E != 0 {
				arm("DEL", "queue:"+id)
			}
			b.Srv.ClientService().TerminateSession(id)
		}
		base := tEnd
		if c.Restart {
			if err := b.Stop(step); err != nil {
				return nil, "", fmt.Errorf("stop before the restart: %w", err)
			}
			b, err = startBroker()
			if err != nil {
				add("restart.failed", "the broker does not start on the store its predecessor left: "+err.Error())
				return fs, "", nil
			}
			tRestart = broker.Now()
			if E > 0 && int64(c.OfflineMs) > E*1000 {
				base = tRestart // "expired" must hold counted from the restart as well
			}
		}
		time.Sleep(time.Until(time.Now().Add(base + time.Duration(c.OfflineMs)*time.Millisecond - broker.Now())))
	}
	tRe := broker.Now()
	c2, err := wire.Dial(id+"b", b.Addr, v)
	if err != nil {
		return nil, "", err
	}
	defer c2.Close()
	ack2, err := c2.Connect(mk(c.CleanStart), step)
	if err != nil || ack2.Code != 0 {
		add("reconnect.failed", fmt.Sprintf("reconnect: %v %v", ack2, err))
		return fs, "", nil
	}
	tReDone := broker.Now()
	// model
	exists := true
	why := ""
	switch {
	case c.Takeover:
		// session of an online client: exists unless its expiry is 0 (it ends with the displaced connection)
		if E == 0 {
			exists, why = false, "expiry 0 ends the session with the connection"
		}
	case E == 0:
		exists, why = false, "expiry 0"
	case c.Terminate:
		exists, why = false, "terminated"
	default:
		offLo, offHi := tRe-tEnd, tReDone-tEnd
		if c.Restart {
			offLo = tRe - tRestart // a restarted broker may count from its start
		}
		exp := time.Duration(E) * time.Second
		switch {
		case offLo > exp+margin:
			exists, why = false, "expired"
		case offHi < exp-margin:
		default:
			return nil, fmt.Sprintf("offline time [%v,%v] too close to the expiry %v", offLo, offHi, exp), nil
		}
	}
	cleanEff := c.CleanStart || (c.V != 5 && c.ReqExpiry == 0)
	wantSP := exists && !cleanEff
	kind := fmt.Sprintf("v=%d:end=%s:takeover=%v:connected_longer_than_expiry=%v", c.V, c.End, c.Takeover, E > 0 && int64(c.ConnectFor) > E*1000)
	if c.Restart {
		kind += ":restart=true"
	}
	if c.RefuseQueueDel {
		kind += ":queue_del_refused=true"
	}
	if ack2.SessionPresent != wantSP {
		add(fmt.Sprintf("resume.session_present:got=%v:want=%v:%s", ack2.SessionPresent, wantSP, kind),
			fmt.Sprintf("CONNACK session present = %v, want %v (effective expiry %d s, connected %d ms, offline %d ms, terminate=%v, clean=%v%s)", ack2.SessionPresent, wantSP, E, c.ConnectFor, c.OfflineMs, c.Terminate, cleanEff, ifs(why != "", "; session ended: "+why, "")))
		return fs, "", nil
	}
	// contents of the session
	subs := subsOf(b, id)
	b.Publish("r/sentinel/"+id, "sentinel", 1, false)
	if _, err := c2.Subscribe([]mqttx.Sub{{Filter: "r/sentinel/" + id, QoS: 1}}, 0, step); err != nil {
		return nil, "", err
	}
	b.Publish("r/sentinel/"+id, "sentinel2", 1, false)
	if err := c2.WaitPayload("sentinel2", step); err != nil {
		add("resume.sentinel", err.Error())
		return fs, "", nil
	}
	gotOffline := false
	for _, r := range c2.Publishes() {
		if string(r.P.Payload) == "while-offline" {
			gotOffline = true
		}
	}
	if wantSP {
		wantSubs := []string{"r/" + id, "r/other/#"}
		sort.Strings(wantSubs)
		if fmt.Sprint(subs) != fmt.Sprint(wantSubs) {
			add("resume.subscriptions_lost:"+kind, fmt.Sprintf("resumed session has subscriptions %v", subs))
		}
		if !c.Takeover && !gotOffline {
			add("resume.queued_message_lost:"+kind, "the QoS 1 message published while the client was offline was not delivered after resume")
		}
	} else {
		if len(subs) != 0 {
			add("fresh.subscriptions_survive:"+kind, fmt.Sprintf("session present = 0 but subscriptions %v are still installed", subs))
		}
		if gotOffline {
			add("fresh.queued_message_survives:"+kind, "session present = 0 but a message queued for the old session was delivered")
		}
	}
	if !c.Sweep {
		return fs, "", nil
	}
	// ---- third period: the session of a connected client is not subject to any earlier deadline
	if !c.Takeover && !c.Terminate && E > 0 && E <= 3 {
		time.Sleep(time.Until(time.Now().Add(tEnd + time.Duration(E)*time.Second + margin - broker.Now())))
	}
	server.VerifSessionExpireCheck(b.Srv)
	if eof, _, _ := c2.EOF(); eof {
		add("sweep.connection_closed:"+kind, "the expiry sweep closed the connection of an online client")
		return fs, "", nil
	}
	has := false
	for _, f := range subsOf(b, id) {
		if f == "r/sentinel/"+id {
			has = true
		}
	}
	if !has {
		add("sweep.online_session_destroyed:"+kind, fmt.Sprintf("after the expiry sweep the connected client's subscriptions are %v (first offline period ended %v ago, expiry %d s)", subsOf(b, id), broker.Now()-tEnd, E))
		return fs, "", nil
	}
	b.Publish("r/sentinel/"+id, "after-sweep", 1, false)
	if err := c2.WaitPayload("after-sweep", step); err != nil {
		add("sweep.online_delivery_stopped:"+kind, "a connected client no longer receives messages after the expiry sweep: "+err.Error())
		return fs, "", nil
	}
	// expiry of the second connection's session: the CONNECT value again (no DISCONNECT override this time)
	E2 := RCase{V: c.V, CfgExpiry: c.CfgExpiry, ReqExpiry: c.ReqExpiry}.effExpiry()
	if c.V != 5 && c.CleanStart {
		E2 = 0 // the second connection was a v3 clean session: it ends with its connection
	}
	from := b.Log.Len()
	c2.Disconnect(0, nil)
	if _, ok := b.Log.Wait(from, func(e broker.Event) bool { return e.Kind == "OnClosed" && e.Client == id }, step); !ok {
		return fs, "OnClosed of the second connection not observed", nil
	}
	if E2 != 0 {
		b.Publish("r/sentinel/"+id, "offline-2", 1, false)
	}
	server.VerifSessionExpireCheck(b.Srv) // the new deadline lies in the future
	c3, err := wire.Dial(id+"c", b.Addr, v)
	if err != nil {
		return nil, "", err
	}
	defer c3.Close()
	t3 := broker.Now()
	ack3, err := c3.Connect(mk(false), step)
	if err != nil || ack3.Code != 0 {
		add("reconnect3.failed", fmt.Sprintf("third connect: %v %v", ack3, err))
		return fs, "", nil
	}
	if E2 != 0 && broker.Now()-t3 > time.Duration(E2)*time.Second-margin {
		return fs, "third connect took too long", nil
	}
	want3 := E2 != 0 && !(c.V != 5 && c.ReqExpiry == 0)
	if ack3.SessionPresent != want3 {
		add(fmt.Sprintf("sweep.resume_after:got=%v:want=%v:%s", ack3.SessionPresent, want3, kind), fmt.Sprintf("third CONNECT right after the second connection ended: session present %v, want %v (expiry %d s)", ack3.SessionPresent, want3, E2))
		return fs, "", nil
	}
	if want3 {
		if err := c3.WaitPayload("offline-2", step); err != nil {
			add("sweep.queued_message_lost:"+kind, "message queued during the second offline period not delivered on resume")
		}
	}
	return fs, "", nil
}

func maxI(a, b int64) int64 {
	if a > b {
		return a
	}
	return b
}
func ifs(c bool, a, b string) string {
	if c {
		return a
	}
	return b
}

func resumeCases(rng *rand.Rand, n int) []RCase {
	// directed: the corners of "updatable at DISCONNECT" are always there, whatever the seed draws
	cs := []RCase{
		{V: 5, CfgExpiry: 7200, ReqExpiry: 3600, End: "disconnect_new_expiry", NewExpiry: 0, OfflineMs: 100},              // expiry 0 at DISCONNECT ends the session
		{V: 5, CfgExpiry: 7200, ReqExpiry: 3600, End: "disconnect_new_expiry", NewExpiry: 0, OfflineMs: 100, Sweep: true}, //
		{V: 5, CfgExpiry: 7200, ReqExpiry: 1, End: "disconnect_new_expiry", NewExpiry: 3, OfflineMs: 1900},                // raised: still there after the CONNECT value
		{V: 5, CfgExpiry: 7200, ReqExpiry: 3600, End: "disconnect_new_expiry", NewExpiry: 1, OfflineMs: 1900},             // lowered: gone before the CONNECT value
		{V: 5, CfgExpiry: 7200, ReqExpiry: 0, End: "disconnect_refused_expiry", NewExpiry: 30, OfflineMs: 100},             // refused DISCONNECT: the session ends as CONNECT said
		{V: 5, CfgExpiry: 7200, ReqExpiry: -1, End: "disconnect_refused_expiry", NewExpiry: 3600, OfflineMs: 100},          //
		{V: 5, CfgExpiry: 2, ReqExpiry: 1, End: "disconnect_new_expiry", NewExpiry: 3600, OfflineMs: 2900},                // raised beyond the configured maximum: capped
		{V: 5, CfgExpiry: 2, ReqExpiry: 1, End: "disconnect_new_expiry", NewExpiry: 3600, OfflineMs: 1100},                // ... but raised (1 -> 2 s)
		{V: 5, CfgExpiry: 2, ReqExpiry: 3600, End: "disconnect", OfflineMs: 2900},                                         // capped by the configuration
		{V: 5, CfgExpiry: 7200, ReqExpiry: 3600, End: "disconnect", OfflineMs: 100, Sweep: true},
	}
	if RedisCfg != nil {
		cs = append(cs,
			RCase{V: 5, CfgExpiry: 7200, ReqExpiry: 1, End: "disconnect_new_expiry", NewExpiry: 3, OfflineMs: 1900, Restart: true},    // raised at DISCONNECT, restart
			RCase{V: 5, CfgExpiry: 7200, ReqExpiry: 3600, End: "disconnect_new_expiry", NewExpiry: 1, OfflineMs: 1900, Restart: true}, // lowered at DISCONNECT, restart
			RCase{V: 5, CfgExpiry: 7200, ReqExpiry: 3600, End: "disconnect_new_expiry", NewExpiry: 0, OfflineMs: 100, Restart: true},  // ended at DISCONNECT, restart
			RCase{V: 5, CfgExpiry: 2, ReqExpiry: 3600, End: "close", OfflineMs: 2900, Restart: true},                                  // capped, restart
			RCase{V: 4, CfgExpiry: 7200, ReqExpiry: 1, End: "close", OfflineMs: 300, Restart: true, Sweep: true},
		)
	}
	if RedisCfgFault != nil {
		cs = append(cs,
			RCase{V: 5, CfgExpiry: 7200, ReqExpiry: 3600, End: "close", Terminate: true, OfflineMs: 100, RefuseQueueDel: true},
			RCase{V: 4, CfgExpiry: 7200, ReqExpiry: 1, End: "disconnect", Terminate: true, OfflineMs: 100, RefuseQueueDel: true},
			RCase{V: 5, CfgExpiry: 7200, ReqExpiry: 0, End: "disconnect", OfflineMs: 100, RefuseQueueDel: true},
			RCase{V: 4, CfgExpiry: 7200, ReqExpiry: 0, End: "close", OfflineMs: 100, RefuseQueueDel: true, Sweep: true},
		)
	}
	for len(cs) < n {
		c := RCase{V: []byte{4, 5, 5, 3}[rng.Intn(4)], CfgExpiry: []uint32{2, 7200}[rng.Intn(2)], End: []string{"disconnect", "close", "disconnect_new_expiry"}[rng.Intn(3)]}
		if c.V == 5 {
			c.ReqExpiry = []int64{-1, 0, 1, 2, 3, 3600, 0xFFFFFFFF}[rng.Intn(7)]
		} else {
			c.ReqExpiry = 1 // non-clean session
			if rng.Intn(4) == 0 {
				c.ReqExpiry = 0 // clean session
			}
			if c.End == "disconnect_new_expiry" {
				c.End = "disconnect"
			}
		}
		if c.End == "disconnect_new_expiry" {
			c.End = "disconnect"
			base := c.effExpiry() // what CONNECT gave the session
			c.End = "disconnect_new_expiry"
			if base == 0 {
				c.End = "disconnect" // a session with expiry 0 must not be given a non-zero one at DISCONNECT
				if c.CfgExpiry > 2 && rng.Intn(2) == 0 {
					c.End = "disconnect_refused_expiry" // ... and when a client tries, the session still ends with the connection
					c.NewExpiry = []uint32{1, 30, 3600}[rng.Intn(3)]
				}
			} else {
				c.NewExpiry = []uint32{0, 1, 2, 3, 3600, 0xFFFFFFFF}[rng.Intn(6)]
			}
		}
		E := c.effExpiry()
		c.ConnectFor = []int{0, 0, 300}[rng.Intn(3)]
		if E > 0 && E <= 3 && rng.Intn(2) == 0 {
			c.ConnectFor = int(E)*1000 + 900 // connected longer than the expiry interval
		}
		switch x := rng.Intn(10); {
		case x < 2:
			c.Takeover = true
			if c.End == "disconnect_new_expiry" || c.End == "disconnect_refused_expiry" {
				c.End = "disconnect" // no DISCONNECT is sent when the second connection takes over: nothing changes the expiry
			}
		case x < 3:
			c.Terminate = true
			c.OfflineMs = 100
		default:
			if E > 0 && E <= 3 {
				c.OfflineMs = []int{int(E)*1000 - 900, int(E)*1000 + 900, 100}[rng.Intn(3)]
			} else {
				c.OfflineMs = []int{100, 1200}[rng.Intn(2)]
			}
		}
		c.CleanStart = rng.Intn(5) == 0
		c.Sweep = rng.Intn(2) == 0
		c.Restart = RedisCfg != nil && !c.Takeover && rng.Intn(4) == 0
		cs = append(cs, c)
	}
	return cs
}

// ---- (b) one connection per client id ------------------------------------------------------

// Storm is one round of simultaneous CONNECTs with one client id.
type Storm struct {
	K      int
	State  string // new | offline | online
	V      []byte
	Clean  []bool
	Expiry uint32
}

type hookIdx struct {
	mu  sync.Mutex
	ord []string
}

func runStorm(st Storm, idx int) (fs []finding, obs map[string]int, rerr error) {
	obs = map[string]int{}
	add := func(sig, what string) { fs = append(fs, finding{sig, what}) }
	b, err := broker.Start(broker.Options{})
	if err != nil {
		return nil, nil, err
	}
	defer b.Stop(step)
	id := "storm"
	mk := func(v byte, clean bool) *mqttx.Packet {
		p := &mqttx.Packet{ClientID: id, CleanStart: clean}
		if v == 5 {
			e := st.Expiry
			p.Props = &mqttx.Props{SessionExpiry: &e}
		}
		return p
	}
	var first *wire.Client
	if st.State != "new" {
		first, err = wire.Dial("first", b.Addr, mqttx.V5)
		if err != nil {
			return nil, nil, err
		}
		defer first.Close()
		e := uint32(3600)
		if _, err := first.Connect(&mqttx.Packet{ClientID: id, CleanStart: true, Props: &mqttx.Props{SessionExpiry: &e}}, step); err != nil {
			return nil, nil, err
		}
		if _, err := first.Subscribe([]mqttx.Sub{{Filter: "storm/t", QoS: 1}}, 0, step); err != nil {
			return nil, nil, err
		}
		if st.State == "offline" {
			from := b.Log.Len()
			first.Disconnect(0, nil)
			b.Log.Wait(from, func(e broker.Event) bool { return e.Kind == "OnClosed" && e.Client == id }, step)
		}
	}
	type res struct {
		c   *wire.Client
		ack *mqttx.Packet
		err error
		t   time.Duration
	}
	results := make([]res, st.K)
	start := make(chan struct{})
	var wg sync.WaitGroup
	for i := 0; i < st.K; i++ {
		wg.Add(1)
		go func(i int) {
			defer wg.Done()
			c, err := wire.Dial(fmt.Sprintf("k%d", i), b.Addr, mqttx.Version(st.V[i]))
			if err != nil {
				results[i] = res{err: err}
				return
			}
			<-start
			ack, err := c.Connect(mk(st.V[i], st.Clean[i]), step)
			results[i] = res{c: c, ack: ack, err: err, t: broker.Now()}
		}(i)
	}
	time.Sleep(5 * time.Millisecond)
	close(start)
	wg.Wait()
	defer func() {
		for _, r := range results {
			if r.c != nil {
				r.c.Close()
			}
		}
	}()
	acked := 0
	for i, r := range results {
		switch {
		case r.err == wire.ErrTimeout:
			add("storm.no_answer", fmt.Sprintf("contender %d of %d got neither CONNACK nor a closed connection within %v (state %s)", i, st.K, step, st.State))
			return fs, obs, nil
		case r.err != nil && r.c == nil:
			return nil, nil, r.err
		case r.err == nil && r.ack.Code == 0:
			acked++
		}
	}
	obs["contenders"] = st.K
	obs["contenders_acknowledged"] = acked
	// quiescence: every socket either answers PINGREQ or is at EOF
	time.Sleep(20 * time.Millisecond)
	alive := []int{}
	all := append([]*wire.Client{}, first)
	for _, r := range results {
		all = append(all, r.c)
	}
	for i, c := range all {
		if c == nil {
			continue
		}
		if i == 0 && st.State == "offline" {
			continue
		}
		if i > 0 && (results[i-1].err != nil || results[i-1].ack.Code != 0) {
			continue
		}
		// a displaced socket is at EOF (Ping fails at once), the survivor answers in milliseconds; the generous
		// bound only matters on a starved machine, where a short one would turn slowness into a verdict
		if c.Ping(step) == nil {
			alive = append(alive, i)
		} else if !c.WaitEOF(step) {
			add("storm.zombie_socket", fmt.Sprintf("socket %d neither answers PINGREQ nor was closed by the broker", i))
		}
	}
	if len(alive) != 1 {
		add(fmt.Sprintf("storm.attached_connections:n=%d:state=%s", len(alive), st.State), fmt.Sprintf("%d network connections answer PINGREQ for one client id after %d simultaneous CONNECTs (sockets %v)", len(alive), st.K, alive))
	}
	// hook order: at most one connection attached at every moment
	open := map[any]bool{}
	for _, e := range b.Log.Events() {
		if e.Client != id {
			continue
		}
		switch e.Kind {
		case "OnSessionCreated", "OnSessionResumed":
			if len(open) > 0 {
				add("storm.hook_overlap", fmt.Sprintf("%s of a new connection fired while %d older connection(s) of the client id had not been closed (OnClosed)", e.Kind, len(open)))
			}
			open[e.Ptr] = true
		case "OnClosed":
			delete(open, e.Ptr)
		}
	}
	if len(alive) == 1 {
		surv := all[alive[0]]
		if cl := b.Srv.ClientService().GetClient(id); cl == nil {
			add("storm.no_registered_client", "ClientService.GetClient returns nil although a connection is attached")
		} else if cl.Connection().RemoteAddr().String() != surv.LocalAddr() {
			add("storm.registered_client_mismatch", fmt.Sprintf("ClientService.GetClient is %s, the surviving socket is %s", cl.Connection().RemoteAddr(), surv.LocalAddr()))
		}
		if _, err := surv.Subscribe([]mqttx.Sub{{Filter: "storm/t", QoS: 1}}, 0, step); err != nil {
			add("storm.survivor_subscribe", err.Error())
			return fs, obs, nil
		}
		marks := make([]int, len(all))
		for i, c := range all {
			if c != nil {
				marks[i] = len(c.In())
			}
		}
		b.Publish("storm/t", "after-storm", 1, false)
		if err := surv.WaitPayload("after-storm", step); err != nil {
			add("storm.survivor_delivery", "the surviving connection does not receive messages")
		}
		time.Sleep(20 * time.Millisecond)
		for i, c := range all {
			if c == nil || i == alive[0] {
				continue
			}
			for _, r := range c.In()[marks[i]:] {
				if r.P.Type == mqttx.PUBLISH {
					add("storm.delivered_to_displaced", fmt.Sprintf("displaced socket %d received %s", i, r.P.String()))
				}
			}
			// nothing after DISCONNECT
			seenDisc := false
			for _, r := range c.In() {
				if seenDisc {
					add("storm.packet_after_disconnect", fmt.Sprintf("displaced socket %d received %s after DISCONNECT", i, r.P.String()))
				}
				if r.P.Type == mqttx.DISCONNECT {
					seenDisc = true
					if r.P.Code != 0x8e {
						add(fmt.Sprintf("storm.disconnect_code:0x%02x", r.P.Code), "displaced connection got DISCONNECT with another reason than 0x8E")
					}
				}
			}
		}
	}
	return fs, obs, nil
}

func storms(rng *rand.Rand, n int) []Storm {
	out := make([]Storm, n)
	for i := range out {
		k := 2 + rng.Intn(5)
		st := Storm{K: k, State: []string{"new", "offline", "online"}[rng.Intn(3)], Expiry: []uint32{0, 3600}[rng.Intn(2)]}
		for j := 0; j < k; j++ {
			st.V = append(st.V, []byte{4, 5}[rng.Intn(2)])
			st.Clean = append(st.Clean, rng.Intn(4) == 0)
		}
		out[i] = st
	}
	return out
}

// stuckConsumer: take-over of a connection whose peer stopped reading (deterministic schedule of the setError deadlock).
func stuckConsumer(r *monitor.Run) {
	b, err := broker.Start(broker.Options{})
	if err != nil {
		r.Inconclusive(err.Error())
		return
	}
	defer b.Stop(step)
	e := uint32(100)
	raw, err := wire.DialRaw(b.Addr)
	if err != nil {
		r.Inconclusive(err.Error())
		return
	}
	defer raw.Close()
	pk, _ := mqttx.Encode(&mqttx.Packet{Type: mqttx.CONNECT, ProtoName: "MQTT", Level: 5, ClientID: "stuck", CleanStart: true, Props: &mqttx.Props{SessionExpiry: &e}}, mqttx.V5)
	sub, _ := mqttx.Encode(&mqttx.Packet{Type: mqttx.SUBSCRIBE, PacketID: 1, Subs: []mqttx.Sub{{Filter: "stuck/t", QoS: 0}}}, mqttx.V5)
	_, _ = raw.Write(append(pk, sub...))
	time.Sleep(200 * time.Millisecond)
	big := make([]byte, 60000)
	for i := 0; i < 400; i++ {
		b.Srv.Publisher().Publish(&gmqtt.Message{Topic: "stuck/t", Payload: big})
	}
	time.Sleep(200 * time.Millisecond)
	c2, err := wire.Dial("new", b.Addr, mqttx.V5)
	if err != nil {
		r.Inconclusive(err.Error())
		return
	}
	defer c2.Close()
	_, err = c2.Connect(&mqttx.Packet{ClientID: "stuck", CleanStart: false, Props: &mqttx.Props{SessionExpiry: &e}}, step)
	r.Eval(1)
	r.Count("stuck_consumer_takeovers", 1)
	if err != nil {
		r.Violation("takeover.stuck_consumer_no_connack", fmt.Sprintf("take-over of a connection whose peer stopped reading gets no CONNACK within %v: %v", step, err), map[string]any{"goroutines": monitor.GoroutineDump("gmqtt/server")})
	}
	r.Nontrivial("stuck-consumer")
}

// realSweep lives through the broker's own 20 s expiry ticker (no forced sweep): a session whose first offline
// period would have expired at about T0+19 s, but which was resumed at T0+17.5 s, is still there at T0+21 s.
func realSweep(r *monitor.Run) {
	t0 := time.Now()
	b, err := broker.Start(broker.Options{})
	if err != nil {
		r.Inconclusive(err.Error())
		return
	}
	defer b.Stop(step)
	e := uint32(2)
	mk := func() *mqttx.Packet {
		return &mqttx.Packet{ClientID: "tick", CleanStart: false, Props: &mqttx.Props{SessionExpiry: &e}}
	}
	c1, err := wire.Dial("tick", b.Addr, mqttx.V5)
	if err != nil {
		r.Inconclusive(err.Error())
		return
	}
	defer c1.Close()
	if _, err := c1.Connect(mk(), step); err != nil {
		r.Inconclusive(err.Error())
		return
	}
	if _, err := c1.Subscribe([]mqttx.Sub{{Filter: "tick/#", QoS: 1}}, 0, step); err != nil {
		r.Inconclusive(err.Error())
		return
	}
	time.Sleep(time.Until(t0.Add(17 * time.Second)))
	from := b.Log.Len()
	c1.Disconnect(0, nil)
	if _, ok := b.Log.Wait(from, func(ev broker.Event) bool { return ev.Kind == "OnClosed" && ev.Client == "tick" }, step); !ok {
		r.Inconclusive("realSweep: OnClosed not observed")
		return
	}
	time.Sleep(500 * time.Millisecond)
	c2, err := wire.Dial("tickb", b.Addr, mqttx.V5)
	if err != nil {
		r.Inconclusive(err.Error())
		return
	}
	defer c2.Close()
	ack, err := c2.Connect(mk(), step)
	r.Eval(1)
	if err != nil || !ack.SessionPresent {
		if time.Since(t0) > 18500*time.Millisecond {
			r.Inconclusive("realSweep: reconnect came too late")
			return
		}
		r.Violation("ticker.resume", fmt.Sprintf("reconnect 0.5 s after disconnect with expiry 2 s: %v %v", ack, err), nil)
		return
	}
	time.Sleep(time.Until(t0.Add(21 * time.Second)))
	r.Count("real_ticker_periods_lived_through", 1)
	if subs := subsOf(b, "tick"); len(subs) != 1 {
		r.Violation("ticker.online_session_destroyed", fmt.Sprintf("after the broker's own expiry sweep the connected client's subscriptions are %v", subs), nil)
		return
	}
	b.Publish("tick/x", "after-tick", 1, false)
	if err := c2.WaitPayload("after-tick", step); err != nil {
		r.Violation("ticker.online_delivery_stopped", err.Error(), nil)
	}
	r.Nontrivial("real-ticker")
}

// Run is the entry point.
func Run(r *monitor.Run) {
	yield.Enable(r.Seed, true)
	var tick sync.WaitGroup
	if !r.Quick() {
		tick.Add(1)
		go func() { defer tick.Done(); realSweep(r) }()
	}
	defer tick.Wait()
	// (a)
	rcs := resumeCases(r.Rand("resume"), r.Pick(64, 700))
	r.InconBudget = 0.1
	r.Parallel(len(rcs), 32, func(i int) {
		c := rcs[i]
		fs, incon, err := runResume(c, i)
		if len(fs) > 0 {
			again := 0
			for k := 0; k < 2; k++ {
				if fs2, _, _ := runResume(c, i+100000*(k+1)); len(fs2) > 0 {
					again++
				}
			}
			if again == 0 {
				fs, incon = nil, "verdict did not recur"
			}
		}
		r.Eval(1)
		if err != nil {
			r.Inconclusive(fmt.Sprintf("resume case %d %+v: %v", i, c, err))
			return
		}
		if incon != "" {
			r.Inconclusive(fmt.Sprintf("resume case %d: %s", i, incon))
			return
		}
		for _, f := range fs {
			r.Violation(f.Sig, f.What, map[string]any{"resume_case": c})
		}
		r.Count("resume_cases", 1)
		if c.RefuseQueueDel {
			r.Count("resume_cases_with_refused_queue_clean_up", 1)
		}
		if c.Restart {
			r.Count("resume_cases_with_broker_restart_on_redis", 1)
		}
		r.Nontrivial("resume|" + monitor.J(c))
		if i == 0 {
			r.Sample(map[string]any{"resume_case": c})
		}
	})
	// (b)
	sts := storms(r.Rand("storms"), r.Pick(150, 4000))
	r.Parallel(len(sts), 8, func(i int) {
		st := sts[i]
		fs, obs, err := runStorm(st, i)
		r.Eval(1)
		if err != nil {
			r.Inconclusive(fmt.Sprintf("storm %d: %v", i, err))
			return
		}
		for _, f := range fs {
			r.Violation(f.Sig, f.What, map[string]any{"storm": st})
		}
		r.Count("storms", 1)
		r.Count("storm_contenders", int64(obs["contenders"]))
		r.Count("storm_contenders_acknowledged", int64(obs["contenders_acknowledged"]))
		if obs["contenders_acknowledged"] >= 2 {
			r.Count("storms_with_several_acknowledged", 1)
		}
		r.Nontrivial(fmt.Sprintf("storm|%d|%s", i, monitor.J(st)))
		if i == 0 {
			r.Sample(map[string]any{"storm": st})
		}
	})
	stuckConsumer(r)
	for site, n := range yield.Hits() {
		r.Count("yield_"+site, n)
	}
	if !yield.Available {
		r.Count("yield_hooks_not_compiled_in", 1)
	}
	_ = server.Overlap
}

// Replay re-runs a stored case.
func Replay(r *monitor.Run, detail []byte) {
	var d struct {
		ResumeCase *RCase `json:"resume_case"`
		Storm      *Storm `json:"storm"`
	}
	if err := json.Unmarshal(detail, &d); err != nil {
		fmt.Println("replay:", err)
		return
	}
	if d.ResumeCase != nil {
		fs, incon, err := runResume(*d.ResumeCase, 1)
		fmt.Println("replay:", incon, err)
		for _, f := range fs {
			r.Violation(f.Sig, f.What, nil)
		}
	}
	if d.Storm != nil {
		for k := 0; k < 20; k++ {
			fs, _, _ := runStorm(*d.Storm, k)
			for _, f := range fs {
				r.Violation(f.Sig, f.What, nil)
			}
		}
	}
}
