// Package c04: inbound QoS 2 is exactly-once; every QoS>0 packet gets its
// matching ack (DESIGN.md §5 C04).
package c04

import (
	"fmt"
	"math/rand"
	"sync"
	"time"

	"github.com/DrmagicE/gmqtt/config"

	"verif/harness/broker"
	"verif/harness/monitor"
	"verif/harness/mqttx"
	"verif/harness/wire"
)

// Op is one scripted step of the publisher.
type Op struct {
	Kind  string // pub2 | dup2 | rel | pub1 | reconnect | cutpub2 | faultpub2 | faultrel (redis scenarios only)
	ID    uint16 `json:",omitempty"`
	Clean bool   `json:",omitempty"`
}

// Scenario is one generated case.
type Scenario struct {
	V          byte // 4 or 5
	Persistent bool // v3: clean session 0; v5: session expiry 3600
	Redis      bool
	Faults     bool // redis only: some store writes of the publisher's unack hash are refused by redis
	Ops        []Op
}

func (o Op) String() string {
	switch o.Kind {
	case "reconnect":
		return fmt.Sprintf("reconnect(clean=%v)", o.Clean)
	}
	return fmt.Sprintf("%s(%d)", o.Kind, o.ID)
}

// Generate draws a history over ids {1,2,3}.
func Generate(rng *rand.Rand, maxOps int) Scenario {
	sc := Scenario{V: []byte{4, 5}[rng.Intn(2)], Persistent: rng.Intn(4) != 0}
	n := 3 + rng.Intn(maxOps)
	U := map[uint16]bool{}
	freshConn := true
	dupDone := map[uint16]bool{}
	curP := sc.Persistent
	for i := 0; i < n; i++ {
		id := uint16(1 + rng.Intn(3))
		x := rng.Intn(100)
		switch {
		case x < 30:
			if U[id] {
				// a new PUBLISH with an id still awaiting PUBREL is a retransmission by definition
				if sc.V == 5 && (!freshConn || dupDone[id]) {
					sc.Ops = append(sc.Ops, Op{Kind: "rel", ID: id})
					delete(U, id)
					break
				}
				sc.Ops = append(sc.Ops, Op{Kind: "dup2", ID: id})
				dupDone[id] = true
				break
			}
			sc.Ops = append(sc.Ops, Op{Kind: "pub2", ID: id})
			U[id] = true
			freshConn = false
		case x < 50:
			if U[id] && (sc.V != 5 || (freshConn && !dupDone[id])) {
				sc.Ops = append(sc.Ops, Op{Kind: "dup2", ID: id})
				dupDone[id] = true
			} else {
				sc.Ops = append(sc.Ops, Op{Kind: "rel", ID: id})
				delete(U, id)
				freshConn = false
			}
		case x < 68:
			sc.Ops = append(sc.Ops, Op{Kind: "rel", ID: id})
			delete(U, id)
			freshConn = false
		case x < 80:
			if !U[id] { // QoS 1 with an id not in use by a QoS 2 exchange
				sc.Ops = append(sc.Ops, Op{Kind: "pub1", ID: id})
				freshConn = false
			}
		case x < 88:
			if !U[id] && curP {
				sc.Ops = append(sc.Ops, Op{Kind: "cutpub2", ID: id})
				U[id] = true
				freshConn = true
				dupDone = map[uint16]bool{id: true}
			}
		default:
			clean := rng.Intn(4) == 0
			sc.Ops = append(sc.Ops, Op{Kind: "reconnect", Clean: clean})
			if clean || !curP {
				U = map[uint16]bool{}
			}
			if sc.V != 5 {
				curP = sc.Persistent && !clean
			}
			freshConn = true
			dupDone = map[uint16]bool{}
		}
	}
	return sc
}

// GenerateFaults draws a history for the redis back end in which redis refuses single writes of the publisher's
// unack hash: a refused HSET (PUBLISH not acknowledged, connection given up, retransmission after a resume) and a
// refused HDEL (PUBREL not answered, retransmitted after a resume). Exactly-once must survive both.
func GenerateFaults(rng *rand.Rand, maxOps int) Scenario {
	sc := Scenario{V: []byte{4, 5}[rng.Intn(2)], Persistent: true, Redis: true, Faults: true}
	n := 3 + rng.Intn(maxOps)
	U := map[uint16]bool{}
	for i := 0; i < n; i++ {
		id := uint16(1 + rng.Intn(3))
		switch x := rng.Intn(100); {
		case x < 25:
			if !U[id] {
				sc.Ops = append(sc.Ops, Op{Kind: "faultpub2", ID: id})
				U[id] = true
			} else {
				sc.Ops = append(sc.Ops, Op{Kind: "faultrel", ID: id})
				delete(U, id)
			}
		case x < 45:
			if !U[id] {
				sc.Ops = append(sc.Ops, Op{Kind: "pub2", ID: id})
				U[id] = true
			} else {
				sc.Ops = append(sc.Ops, Op{Kind: "faultrel", ID: id})
				delete(U, id)
			}
		case x < 70:
			sc.Ops = append(sc.Ops, Op{Kind: "rel", ID: id})
			delete(U, id)
		case x < 85:
			if !U[id] {
				sc.Ops = append(sc.Ops, Op{Kind: "pub1", ID: id})
			}
		default:
			sc.Ops = append(sc.Ops, Op{Kind: "reconnect"})
		}
	}
	return sc
}

type finding struct {
	Sig, What string
}

const step = 20 * time.Second

// RedisCfg lets the redis variant supply its own broker configuration.
var RedisCfg func(c *config.Config) (cleanup func(), err error)

// RedisCfgFault is RedisCfg plus arm(cmd, key): redis refuses the next such command with an error reply.
var RedisCfgFault func(c *config.Config) (cleanup func(), arm func(cmd, key string), err error)

// RunScenario executes one scenario.
func RunScenario(sc *Scenario, idx int) (fs []finding, obs map[string]int, err error) {
	obs = map[string]int{}
	add := func(sig, what string) { fs = append(fs, finding{sig, what}) }
	var cleanup func()
	var arm func(cmd, key string)
	b, err := broker.Start(broker.Options{Cfg: func(c *config.Config) {
		c.MQTT.MessageExpiry = 0
		if sc.Redis && sc.Faults && RedisCfgFault != nil {
			cl, a, e := RedisCfgFault(c)
			if e == nil {
				cleanup, arm = cl, a
			}
		} else if sc.Redis && RedisCfg != nil {
			cl, e := RedisCfg(c)
			if e == nil {
				cleanup = cl
			}
		}
	}})
	if err != nil {
		return nil, nil, err
	}
	defer func() {
		b.Stop(10 * time.Second)
		if cleanup != nil {
			cleanup()
		}
	}()
	obsC, err := wire.Dial("obs", b.Addr, mqttx.V5)
	if err != nil {
		return nil, nil, err
	}
	defer obsC.Close()
	if _, err := obsC.Connect(&mqttx.Packet{ClientID: "observer", CleanStart: true}, step); err != nil {
		return nil, nil, err
	}
	if _, err := obsC.Subscribe([]mqttx.Sub{{Filter: "#", QoS: 2}}, 0, step); err != nil {
		return nil, nil, err
	}

	v := mqttx.Version(sc.V)
	connect := func(clean bool) (*wire.Client, *mqttx.Packet, error) {
		c, err := wire.Dial("pub", b.Addr, v)
		if err != nil {
			return nil, nil, err
		}
		p := &mqttx.Packet{ClientID: "publisher"}
		if sc.V == 5 {
			p.CleanStart = clean
			if sc.Persistent {
				e := uint32(3600)
				p.Props = &mqttx.Props{SessionExpiry: &e}
			}
		} else {
			// v3: the clean-session flag both starts clean and makes the session non-persistent
			p.CleanStart = clean || !sc.Persistent
		}
		ack, err := c.Connect(p, step)
		if err != nil {
			return nil, nil, fmt.Errorf("connect: %w", err)
		}
		if ack.Code != 0 {
			return nil, nil, fmt.Errorf("connack code %d", ack.Code)
		}
		return c, ack, nil
	}

	// isolation: a second publisher uses the same ids on its own session concurrently
	isoDone := make(chan int, 1)
	stopIso := make(chan struct{})
	go func() {
		n := 0
		c, err := wire.Dial("iso", b.Addr, mqttx.V311)
		if err != nil {
			isoDone <- 0
			return
		}
		defer c.Close()
		if _, err := c.Connect(&mqttx.Packet{ClientID: "iso-publisher", CleanStart: true}, step); err != nil {
			isoDone <- 0
			return
		}
		for {
			select {
			case <-stopIso:
				isoDone <- n
				return
			default:
			}
			id := uint16(1 + n%3)
			if _, err := c.Publish(&mqttx.Packet{Topic: "iso", QoS: 2, PacketID: id, Payload: []byte(fmt.Sprintf("iso/%d", n))}, step); err != nil {
				isoDone <- -1
				return
			}
			n++
			time.Sleep(time.Millisecond)
		}
	}()

	// fresh broker: no session exists, so clean start 0 still starts empty and keeps a v3 session persistent
	c, _, err := connect(false)
	if err != nil {
		return nil, nil, err
	}
	curPersistent := sc.Persistent // v3: a clean-session connection makes the session non-persistent
	U := map[uint16]bool{}
	outstanding := map[uint16]string{} // payload of the PUBLISH awaiting PUBREL, per id
	expected := map[string]int{}       // payload -> deliveries the model demands
	seq := 0
	type want struct {
		t  byte
		id uint16
	}
	var wants []want
	flush := func() bool {
		// barrier, then the acks must have arrived exactly in request order
		if err := c.Ping(step); err != nil {
			add("barrier.ping", fmt.Sprintf("PINGRESP missing after %d requests: %v (ctl=%v)", len(wants), err, c.Ctl()))
			return false
		}
		ctl := c.Ctl()
		var acks []*mqttx.Packet
		for _, p := range ctl {
			switch p.Type {
			case mqttx.PUBACK, mqttx.PUBREC, mqttx.PUBCOMP:
				acks = append(acks, p)
			case mqttx.DISCONNECT:
				add(fmt.Sprintf("disconnect:code=0x%02x", p.Code), "publisher received "+p.String())
				return false
			}
		}
		for i, w := range wants {
			if i >= len(acks) {
				add(fmt.Sprintf("ack.missing:type=%s", mqttx.TypeName(w.t)), fmt.Sprintf("request %d/%d: no %s(id %d); acks seen: %v", i, len(wants), mqttx.TypeName(w.t), w.id, acks))
				return false
			}
			a := acks[i]
			if a.Type != w.t || a.PacketID != w.id {
				add(fmt.Sprintf("ack.mismatch:want=%s:got=%s", mqttx.TypeName(w.t), mqttx.TypeName(a.Type)), fmt.Sprintf("request %d: want %s(id %d), got %s", i, mqttx.TypeName(w.t), w.id, a.String()))
				return false
			}
			if a.Code >= 0x80 {
				add(fmt.Sprintf("ack.error_code:code=0x%02x", a.Code), "ack "+a.String())
			}
			obs["acks_checked"]++
		}
		if len(acks) > len(wants) {
			add("ack.extra", fmt.Sprintf("%d acks for %d requests: extra %s", len(acks), len(wants), acks[len(wants)].String()))
			return false
		}
		// consume them
		for range acks {
			_, _ = c.WaitCtl(func(p *mqttx.Packet) bool {
				return p.Type == mqttx.PUBACK || p.Type == mqttx.PUBREC || p.Type == mqttx.PUBCOMP
			}, time.Second)
		}
		wants = wants[:0]
		return true
	}
	for _, o := range sc.Ops {
		switch o.Kind {
		case "pub2":
			seq++
			pl := fmt.Sprintf("m/%d", seq)
			if err := c.Send(&mqttx.Packet{Type: mqttx.PUBLISH, Topic: "t", QoS: 2, PacketID: o.ID, Payload: []byte(pl)}); err != nil {
				return fs, obs, err
			}
			wants = append(wants, want{mqttx.PUBREC, o.ID})
			if !U[o.ID] {
				expected[pl]++
				U[o.ID] = true
				outstanding[o.ID] = pl
			}
		case "dup2":
			pl := outstanding[o.ID]
			if err := c.Send(&mqttx.Packet{Type: mqttx.PUBLISH, Topic: "t", QoS: 2, Dup: true, PacketID: o.ID, Payload: []byte(pl)}); err != nil {
				return fs, obs, err
			}
			wants = append(wants, want{mqttx.PUBREC, o.ID})
			obs["retransmissions"]++
		case "rel":
			if err := c.Send(&mqttx.Packet{Type: mqttx.PUBREL, PacketID: o.ID}); err != nil {
				return fs, obs, err
			}
			wants = append(wants, want{mqttx.PUBCOMP, o.ID})
			if U[o.ID] {
				obs["completed_exchanges"]++
			} else {
				obs["pubrel_unknown_id"]++
			}
			delete(U, o.ID)
			delete(outstanding, o.ID)
		case "pub1":
			seq++
			pl := fmt.Sprintf("m/%d", seq)
			if err := c.Send(&mqttx.Packet{Type: mqttx.PUBLISH, Topic: "t", QoS: 1, PacketID: o.ID, Payload: []byte(pl)}); err != nil {
				return fs, obs, err
			}
			wants = append(wants, want{mqttx.PUBACK, o.ID})
			expected[pl]++
		case "cutpub2":
			if !flush() {
				return fs, obs, nil
			}
			seq++
			pl := fmt.Sprintf("m/%d", seq)
			_ = c.Send(&mqttx.Packet{Type: mqttx.PUBLISH, Topic: "t", QoS: 2, PacketID: o.ID, Payload: []byte(pl)})
			c.Close() // the broker may or may not have processed it
			var cerr error
			c, _, cerr = connect(false)
			if cerr != nil {
				return fs, obs, cerr
			}
			// retransmit: whatever happened before, the message must be delivered exactly once in total
			if err := c.Send(&mqttx.Packet{Type: mqttx.PUBLISH, Topic: "t", QoS: 2, Dup: true, PacketID: o.ID, Payload: []byte(pl)}); err != nil {
				return fs, obs, err
			}
			wants = append(wants, want{mqttx.PUBREC, o.ID})
			expected[pl] = 1
			U[o.ID] = true
			outstanding[o.ID] = pl
			obs["cut_between_publish_and_ack"]++
		case "faultpub2", "faultrel":
			if arm == nil {
				return fs, obs, fmt.Errorf("fault scenario without a fault-capable redis")
			}
			if !flush() {
				return fs, obs, nil
			}
			var first, again *mqttx.Packet
			var ackT byte
			if o.Kind == "faultpub2" {
				seq++
				pl := fmt.Sprintf("m/%d", seq)
				first = &mqttx.Packet{Type: mqttx.PUBLISH, Topic: "t", QoS: 2, PacketID: o.ID, Payload: []byte(pl)}
				again = &mqttx.Packet{Type: mqttx.PUBLISH, Topic: "t", QoS: 2, Dup: true, PacketID: o.ID, Payload: []byte(pl)}
				ackT = mqttx.PUBREC
				arm("HSET", "unack:publisher")
				expected[pl] = 1
				U[o.ID] = true
				outstanding[o.ID] = pl
			} else {
				first = &mqttx.Packet{Type: mqttx.PUBREL, PacketID: o.ID}
				again = &mqttx.Packet{Type: mqttx.PUBREL, PacketID: o.ID}
				ackT = mqttx.PUBCOMP
				arm("HDEL", "unack:publisher")
				delete(U, o.ID)
				delete(outstanding, o.ID)
			}
			_ = c.Send(first)
			// the store write is refused: a broker may give the connection up (gmqtt does) or answer anyway;
			// the client waits for whichever comes first and then does what MQTT tells it to do: resume and retransmit
			if a, err := c.WaitType(ackT, o.ID, step); err == nil && a != nil {
				obs["fault_answered_anyway"]++
				break
			} else if err == wire.ErrTimeout {
				return fs, obs, fmt.Errorf("neither an acknowledgement nor the end of the connection within %v of a refused store write", step)
			}
			obs["fault_"+o.Kind+"_connection_given_up"]++
			c.Close()
			var cerr error
			var ack *mqttx.Packet
			c, ack, cerr = connect(false)
			if cerr != nil {
				return fs, obs, cerr
			}
			if !ack.SessionPresent {
				add("session_present:got=false:want=true", "session not resumed after a refused store write")
				return fs, obs, nil
			}
			if err := c.Send(again); err != nil {
				return fs, obs, err
			}
			wants = append(wants, want{ackT, o.ID})
		case "reconnect":
			if !flush() {
				return fs, obs, nil
			}
			c.Close()
			var cerr error
			var ack *mqttx.Packet
			c, ack, cerr = connect(o.Clean)
			if cerr != nil {
				return fs, obs, cerr
			}
			resumed := curPersistent && !o.Clean
			if sc.V != 5 {
				curPersistent = sc.Persistent && !o.Clean
			}
			if ack.SessionPresent != resumed {
				// session lifecycle is C05's business; here it invalidates the model of U
				add(fmt.Sprintf("session_present:got=%v:want=%v", ack.SessionPresent, resumed), "CONNACK session present unexpected")
				return fs, obs, nil
			}
			if !resumed {
				U = map[uint16]bool{}
				outstanding = map[uint16]string{}
			} else if len(U) > 0 {
				obs["resumed_with_open_exchanges"]++
			}
		}
	}
	if !flush() {
		return fs, obs, nil
	}
	// sentinel through the same connection: everything before it has been routed
	sid := uint16(77)
	if _, err := c.Publish(&mqttx.Packet{Topic: "t", QoS: 1, PacketID: sid, Payload: []byte("sentinel")}, step); err != nil {
		add("sentinel.ack", err.Error())
		return fs, obs, nil
	}
	if err := obsC.WaitPayload("sentinel", 30*time.Second); err != nil {
		add("sentinel.delivery", "observer never received the sentinel: "+err.Error())
		return fs, obs, nil
	}
	close(stopIso)
	isoN := <-isoDone
	if isoN < 0 {
		add("isolation.publisher_failed", "the concurrent publisher on another session lost an acknowledgement")
	}
	// give the last iso message the time to arrive, bounded
	deadline := time.Now().Add(10 * time.Second)
	for isoN > 0 && time.Now().Before(deadline) {
		if obsC.WaitPayload(fmt.Sprintf("iso/%d", isoN-1), 50*time.Millisecond) == nil {
			break
		}
	}
	c.Close()
	got := map[string]int{}
	for _, r := range obsC.Publishes() {
		got[string(r.P.Payload)]++
	}
	delete(got, "sentinel")
	for pl, n := range expected {
		g := got[pl]
		delete(got, pl)
		if g != n {
			kind := "duplicate"
			if g < n {
				kind = "lost"
			}
			add(fmt.Sprintf("delivery.%s:v=%d:persistent=%v", kind, sc.V, sc.Persistent), fmt.Sprintf("message %s delivered %d times, exactly-once demands %d", pl, g, n))
		}
		obs["messages_checked"]++
	}
	for i := 0; i < isoN; i++ {
		pl := fmt.Sprintf("iso/%d", i)
		if got[pl] != 1 {
			add("isolation.delivery", fmt.Sprintf("message %s of the other session delivered %d times", pl, got[pl]))
		}
		delete(got, pl)
	}
	for pl, n := range got {
		if len(pl) > 4 && pl[:4] == "iso/" {
			continue // published after the stop signal was observed
		}
		add("delivery.unknown", fmt.Sprintf("observer received %d x %q which was never published", n, pl))
	}
	obs["iso_messages"] = isoN
	return
}

// Run is the entry point.
func Run(r *monitor.Run) {
	n := r.Pick(600, 20000)
	rng := r.Rand("histories")
	scs := make([]Scenario, n)
	for i := range scs {
		scs[i] = Generate(rng, r.Pick(25, 40))
		scs[i].Redis = RedisCfg != nil && i%5 == 4
	}
	if RedisCfgFault != nil {
		frng := r.Rand("faults")
		for i := 0; i < r.Pick(60, 1500); i++ {
			scs = append(scs, GenerateFaults(frng, r.Pick(12, 25)))
		}
	}
	// exhaustive short histories over one id (thorough): all sequences of {pub2,dup2,rel,reconnect(false),reconnect(true)} up to length 6, v4 persistent
	if !r.Quick() {
		alpha := []Op{{Kind: "pub2", ID: 1}, {Kind: "dup2", ID: 1}, {Kind: "rel", ID: 1}, {Kind: "reconnect"}, {Kind: "reconnect", Clean: true}}
		var cur []Op
		var rec func(d int, inU, curP bool)
		rec = func(d int, inU, curP bool) {
			if d > 0 {
				scs = append(scs, Scenario{V: 4, Persistent: true, Ops: append([]Op{}, cur...)})
			}
			if d == 6 {
				return
			}
			for _, o := range alpha {
				if o.Kind == "dup2" && !inU {
					continue
				}
				if o.Kind == "pub2" && inU {
					continue // that is dup2
				}
				nu, np := inU, curP
				switch {
				case o.Kind == "pub2":
					nu = true
				case o.Kind == "rel":
					nu = false
				case o.Kind == "reconnect" && o.Clean:
					nu, np = false, false // v3: a clean-session connection ends the old session and is itself non-persistent
				case o.Kind == "reconnect":
					if !curP {
						nu = false
					}
					np = true
				}
				cur = append(cur, o)
				rec(d+1, nu, np)
				cur = cur[:len(cur)-1]
			}
		}
		rec(0, false, true)
	}
	var mu sync.Mutex
	_ = mu
	r.Parallel(len(scs), 16, func(i int) {
		sc := &scs[i]
		fs, obs, err := RunScenario(sc, i)
		r.Eval(1)
		if err != nil {
			r.Inconclusive(fmt.Sprintf("scenario %d: %v", i, err))
			return
		}
		for _, f := range fs {
			hs := make([]string, len(sc.Ops))
			for k, o := range sc.Ops {
				hs[k] = o.String()
			}
			r.Violation(f.Sig, f.What, map[string]any{"scenario": sc, "history_text": hs, "index": i})
		}
		for k, v := range obs {
			r.Count(k, int64(v))
		}
		if obs["retransmissions"]+obs["cut_between_publish_and_ack"]+obs["fault_faultpub2_connection_given_up"]+obs["fault_faultrel_connection_given_up"] > 0 {
			r.Nontrivial(monitor.J(sc))
		}
		if sc.Redis {
			r.Count("scenarios_redis_unack_store", 1)
		}
		if i == 0 {
			r.Sample(sc)
		}
	})
}
