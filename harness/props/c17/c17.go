//go:build verif

// Package c17: federation routing - forwarded to exactly the nodes that need it,
// delivered once (DESIGN.md §5 C17).
package c17

import (
	"bytes"
	"encoding/json"
	"fmt"
	"math/rand"
	"sort"
	"strings"
	"sync/atomic"
	"time"

	"github.com/DrmagicE/gmqtt/config"

	"verif/harness/broker"
	"verif/harness/fed"
	"verif/harness/monitor"
	"verif/harness/mqttx"
	"verif/harness/refmodel"
	"verif/harness/wire"
)

const step = 10 * time.Second
const settle = 15 * time.Second

// SubSpec is one subscription of a client on a node.
type SubSpec struct {
	Node   int
	Client int // client index on that node
	Filter string
	Share  string
	QoS    byte
}

// PubSpec is one publication.
type PubSpec struct {
	Node   int
	Topic  string
	QoS    byte
	Retain bool
	Clear  bool // retained with empty payload
	Will   bool `json:",omitempty"` // published as the will of a client of that node whose connection breaks
}

// Scenario is one generated distribution + publishes.
type Scenario struct {
	Subs []SubSpec
	Pubs []PubSpec
	// Bounce: after the subscriptions are in place node [0] alone sees node [1] fail and rejoin (new session,
	// full resynchronisation) - routing afterwards must be what it was
	Bounce [][2]int `json:",omitempty"`
}

var scenarioSeq int64

type finding struct{ Sig, What string }

func gen(rng *rand.Rand, npub int) Scenario {
	var sc Scenario
	topics := []string{"a/b", "a/c", "b", "$s/x", "a"}
	filters := []string{"a/b", "a/+", "a/#", "#", "+", "b", "$s/#", "$s/+"}
	for n := 0; n < 3; n++ {
		if rng.Intn(6) == 0 {
			continue // a node without any subscription
		}
		for c := 0; c < 1+rng.Intn(2); c++ {
			for k := 0; k < 1+rng.Intn(3); k++ {
				s := SubSpec{Node: n, Client: c, Filter: filters[rng.Intn(len(filters))], QoS: byte(rng.Intn(3))}
				if rng.Intn(4) == 0 {
					s.Share = []string{"g1", "g2"}[rng.Intn(2)]
				}
				sc.Subs = append(sc.Subs, s)
			}
		}
	}
	for i := 0; i < npub; i++ {
		p := PubSpec{Node: rng.Intn(3), Topic: topics[rng.Intn(len(topics))], QoS: byte(rng.Intn(3))}
		switch x := rng.Intn(10); {
		case x < 2:
			p.Retain = true
		case x < 3:
			p.Retain, p.Clear = true, true
		}
		p.Will = !p.Clear && rng.Intn(5) == 0
		sc.Pubs = append(sc.Pubs, p)
	}
	if rng.Intn(3) == 0 {
		for k := 0; k < 1+rng.Intn(2); k++ {
			a := rng.Intn(3)
			sc.Bounce = append(sc.Bounce, [2]int{a, (a + 1 + rng.Intn(2)) % 3})
		}
	}
	return sc
}

type cl struct {
	c     *wire.Client
	node  int
	idx   int
	plain map[string]byte // filter -> qos
	share map[string]byte // "group|filter" -> qos
}

func subID(node, client int, share, filter string, filters []string) uint32 {
	fi := 0
	for i, f := range filters {
		if f == filter {
			fi = i
		}
	}
	g := 0
	if share == "g1" {
		g = 1
	} else if share == "g2" {
		g = 2
	}
	return uint32(10000*(node+1) + 1000*(client+1) + 100*g + fi + 1)
}

// triple is three federated nodes that are reused for many scenarios.
type triple struct {
	nodes []*fed.Node
	names []string
}

func newTriple() (*triple, error) {
	id := atomic.AddInt64(&scenarioSeq, 1)
	t := &triple{names: []string{fmt.Sprintf("c17n%dA", id), fmt.Sprintf("c17n%dB", id), fmt.Sprintf("c17n%dC", id)}, nodes: make([]*fed.Node, 3)}
	var err error
	t.nodes[0], err = fed.Start(t.names[0], nil, false, nil)
	if err != nil {
		return nil, err
	}
	for i := 1; i < 3; i++ {
		t.nodes[i], err = fed.Start(t.names[i], []string{t.nodes[0].Gossip}, false, nil)
		if err != nil {
			t.stop()
			return nil, err
		}
	}
	if !t.stable() {
		t.stop()
		return nil, fmt.Errorf("federation of 3 nodes not established")
	}
	return t, nil
}

func (t *triple) stop() {
	for _, n := range t.nodes {
		if n != nil {
			n.Stop()
		}
	}
}

func (t *triple) stable() bool {
	for i := range t.nodes {
		for j := range t.nodes {
			if i != j && !fed.WaitView(t.nodes[i], t.nodes[j], settle) {
				return false
			}
		}
	}
	return true
}

func run(t *triple, sc *Scenario) (fs []finding, obs map[string]int, rerr error) {
	obs = map[string]int{}
	add := func(sig, what string) { fs = append(fs, finding{sig, what}) }
	nodes, names := t.nodes, t.names
	stable := t.stable
	// start from empty retained stores and converged (empty) views
	for _, n := range nodes {
		n.B.Srv.RetainedService().ClearAll()
	}
	if !stable() {
		return nil, nil, fmt.Errorf("views not stable before the scenario")
	}
	var filters []string
	seenF := map[string]bool{}
	for _, s := range sc.Subs {
		if !seenF[s.Filter] {
			seenF[s.Filter] = true
			filters = append(filters, s.Filter)
		}
	}
	clients := map[string]*cl{}
	var order []*cl
	get := func(node, idx int) (*cl, error) {
		k := fmt.Sprintf("%d/%d", node, idx)
		if c, ok := clients[k]; ok {
			return c, nil
		}
		w, err := wire.Dial(k, nodes[node].B.Addr, mqttx.V5)
		if err != nil {
			return nil, err
		}
		if _, err := w.Connect(&mqttx.Packet{ClientID: "cl-" + k, CleanStart: true}, step); err != nil {
			return nil, err
		}
		if _, err := w.Subscribe([]mqttx.Sub{{Filter: "sent/all", QoS: 1}}, 1, step); err != nil {
			return nil, err
		}
		c := &cl{c: w, node: node, idx: idx, plain: map[string]byte{}, share: map[string]byte{}}
		clients[k] = c
		order = append(order, c)
		return c, nil
	}
	defer func() {
		for _, c := range clients {
			c.c.Close()
		}
	}()
	for _, s := range sc.Subs {
		c, err := get(s.Node, s.Client)
		if err != nil {
			return nil, nil, err
		}
		full := s.Filter
		if s.Share != "" {
			full = "$share/" + s.Share + "/" + s.Filter
		}
		if _, err := c.c.Subscribe([]mqttx.Sub{{Filter: full, QoS: s.QoS}}, subID(s.Node, s.Client, s.Share, s.Filter, filters), step); err != nil {
			return nil, nil, err
		}
		if s.Share != "" {
			c.share[s.Share+"|"+s.Filter] = s.QoS
		} else {
			c.plain[s.Filter] = s.QoS
		}
	}
	// every node has a sentinel subscriber (a node without subscriptions still gets one client for the barrier)
	for n := 0; n < 3; n++ {
		if _, err := get(n, 9); err != nil {
			return nil, nil, err
		}
	}
	for _, bn := range sc.Bounce {
		if !stable() {
			break
		}
		if nodes[bn[0]].F.VerifBouncePeer(names[bn[1]]) {
			obs["one_sided_bounces"]++
		}
	}
	if !stable() {
		add(fmt.Sprintf("views.not_converged:after_bounce=%v", len(sc.Bounce) > 0), "federation views did not converge after the subscriptions were made")
		return fs, obs, nil
	}
	pubs := make([]*wire.Client, 3)
	for n := 0; n < 3; n++ {
		p, err := wire.Dial("pub", nodes[n].B.Addr, mqttx.V5)
		if err != nil {
			return nil, nil, err
		}
		defer p.Close()
		if _, err := p.Connect(&mqttx.Packet{ClientID: fmt.Sprintf("pub-%d", n), CleanStart: true}, step); err != nil {
			return nil, nil, err
		}
		pubs[n] = p
	}
	base := make([]int, 3)
	for n := range nodes {
		base[n] = len(fed.AppliedBy(names[n], ""))
	}
	retainedModel := map[string]string{}
	retainedSeen := map[string]int{}
	payloads := make([]string, len(sc.Pubs))
	for i, p := range sc.Pubs {
		pl := fmt.Sprintf("p%d", i)
		if p.Clear {
			pl = ""
		}
		payloads[i] = pl
		if p.Will {
			// a will is published like any other message
			wid := fmt.Sprintf("willer-%d-%d", p.Node, i)
			w, err := wire.Dial(wid, nodes[p.Node].B.Addr, mqttx.V311)
			if err != nil {
				return nil, nil, err
			}
			if _, err := w.Connect(&mqttx.Packet{ClientID: wid, CleanStart: true, WillFlag: true, WillTopic: p.Topic, WillQoS: p.QoS, WillRetain: p.Retain, WillPayload: []byte(pl)}, step); err != nil {
				return nil, nil, err
			}
			from := nodes[p.Node].B.Log.Len()
			w.Close()
			if _, ok := nodes[p.Node].B.Log.Wait(from, func(e broker.Event) bool { return e.Kind == "OnWillPublish" && e.Client == wid }, step); !ok {
				return nil, nil, fmt.Errorf("will of %s not published", wid)
			}
			obs["publications_as_will_message"]++
		} else {
			if _, err := pubs[p.Node].Publish(&mqttx.Packet{Topic: p.Topic, QoS: p.QoS, Retain: p.Retain, Payload: []byte(pl)}, step); err != nil {
				return nil, nil, err
			}
			if p.QoS == 0 {
				_ = pubs[p.Node].Ping(step)
			}
		}
		if p.Retain {
			if p.Clear {
				delete(retainedModel, p.Topic)
			} else {
				retainedModel[p.Topic] = pl
			}
			// logical barrier: retained publishes of different nodes on one topic would otherwise race
			// (the federation has no ordering between nodes): wait until every other node has applied this event
			dl := time.Now().Add(settle)
			for n := range nodes {
				if n == p.Node {
					continue
				}
				for {
					cnt := 0
					for _, e := range fed.AppliedBy(names[n], names[p.Node])[0:] {
						if e.Kind == "msg" && e.Topic == p.Topic && e.Payload == pl && e.Retained {
							cnt++
						}
					}
					if cnt > retainedSeen[fmt.Sprintf("%d|%d|%s|%s", n, p.Node, p.Topic, pl)] {
						retainedSeen[fmt.Sprintf("%d|%d|%s|%s", n, p.Node, p.Topic, pl)] = cnt
						// the trace hook fires right before the event is applied: give the store update the time to happen
						for k := 0; k < 500; k++ {
							m := nodes[n].B.Srv.RetainedService().GetRetainedMessage(p.Topic)
							if (p.Clear && m == nil) || (!p.Clear && m != nil && string(m.Payload) == pl) {
								break
							}
							time.Sleep(time.Millisecond)
						}
						if p.Clear {
							time.Sleep(5 * time.Millisecond)
						}
						break
					}
					if time.Now().After(dl) {
						add("retained.not_forwarded", fmt.Sprintf("node %d did not apply the retained publish %q on topic %s of node %d within %v", n, pl, p.Topic, p.Node, settle))
						break
					}
					time.Sleep(2 * time.Millisecond)
				}
			}
		}
	}
	// sentinel from every node: per-peer streams are FIFO
	for n := 0; n < 3; n++ {
		if _, err := pubs[n].Publish(&mqttx.Packet{Topic: "sent/all", QoS: 1, Payload: []byte(fmt.Sprintf("sentinel-%d", n))}, step); err != nil {
			return nil, nil, err
		}
	}
	for _, c := range order {
		for n := 0; n < 3; n++ {
			if err := c.c.WaitPayload(fmt.Sprintf("sentinel-%d", n), settle); err != nil {
				add("sentinel.missing", fmt.Sprintf("client %d on node %d never received the sentinel of node %d", c.idx, c.node, n))
				return fs, obs, nil
			}
		}
	}
	time.Sleep(50 * time.Millisecond)
	// ---- forwarding decisions (applied message events at each node)
	hasPlain := func(node int, topic string) bool {
		for _, c := range order {
			if c.node != node {
				continue
			}
			for f := range c.plain {
				if refmodel.Match(topic, f) {
					return true
				}
			}
		}
		return false
	}
	hasAny := func(node int, topic string) bool {
		if hasPlain(node, topic) {
			return true
		}
		for _, c := range order {
			if c.node != node {
				continue
			}
			for k := range c.share {
				if refmodel.Match(topic, strings.SplitN(k, "|", 2)[1]) {
					return true
				}
			}
		}
		return false
	}
	for n := range nodes {
		evs := fed.AppliedBy(names[n], "")[base[n]:]
		count := map[string]int{}
		for _, e := range evs {
			if e.Kind != "msg" || e.Topic == "sent/all" {
				continue
			}
			count[e.Payload+"@"+e.Topic]++
			// never back to the origin, never re-forwarded: the emitting node must be the node where it was published
			for i, p := range sc.Pubs {
				if payloads[i] == e.Payload && p.Topic == e.Topic && e.Payload != "" {
					if names[p.Node] == names[n] {
						add("forward.back_to_origin", fmt.Sprintf("message %s came back to its origin node", e.Payload))
					}
					if e.From != names[p.Node] {
						add("forward.reforwarded", fmt.Sprintf("message %s published on %s was forwarded to %s by %s", e.Payload, names[p.Node], names[n], e.From))
					}
				}
			}
		}
		for i, p := range sc.Pubs {
			if p.Node == n || p.Clear {
				continue
			}
			got := count[payloads[i]+"@"+p.Topic]
			obs["forward_decisions_checked"]++
			switch {
			case got > 1:
				add("forward.twice", fmt.Sprintf("message %s forwarded %d times to node %d", payloads[i], got, n))
			case p.Retain && got != 1:
				add("forward.retained_not_broadcast", fmt.Sprintf("retained message %s (topic %s) not forwarded to node %d", payloads[i], p.Topic, n))
			case !p.Retain && hasPlain(n, p.Topic) && got != 1:
				add("forward.missing", fmt.Sprintf("message %s (topic %s) not forwarded to node %d which has a matching non-shared subscription", payloads[i], p.Topic, n))
			case !p.Retain && !hasAny(n, p.Topic) && got != 0:
				add("forward.unneeded", fmt.Sprintf("message %s (topic %s) forwarded to node %d which has no matching subscription", payloads[i], p.Topic, n))
			}
		}
	}
	// ---- deliveries to MQTT subscribers
	type rcv struct {
		c   *cl
		ids []uint32
		qos byte
	}
	got := map[string][]rcv{}
	for _, c := range order {
		for _, r := range c.c.Publishes() {
			if r.P.Topic == "sent/all" {
				continue
			}
			var ids []uint32
			if r.P.Props != nil {
				ids = r.P.Props.SubscriptionIDs
			}
			got[string(r.P.Payload)+"@"+r.P.Topic] = append(got[string(r.P.Payload)+"@"+r.P.Topic], rcv{c, ids, r.P.QoS})
		}
	}
	min := func(a, b byte) byte {
		if a < b {
			return a
		}
		return b
	}
	for i, p := range sc.Pubs {
		if p.Clear {
			continue
		}
		rs := got[payloads[i]+"@"+p.Topic]
		// non-shared: every client with a matching plain subscription gets exactly one copy (onlyonce mode)
		for _, c := range order {
			var maxQ byte
			match := false
			for f, q := range c.plain {
				if refmodel.Match(p.Topic, f) {
					match = true
					if q > maxQ {
						maxQ = q
					}
				}
			}
			n := 0
			var q byte
			for _, r := range rs {
				if r.c != c {
					continue
				}
				plainCopy := false
				for _, id := range r.ids {
					if (id/100)%10 == 0 {
						plainCopy = true
					}
				}
				if plainCopy {
					n++
					q = r.qos
				}
			}
			obs["subscriber_deliveries_checked"]++
			want := 0
			if match {
				want = 1
			}
			if n != want {
				where := "remote"
				if c.node == p.Node {
					where = "local"
				}
				add(fmt.Sprintf("delivery.plain:got=%d:want=%d:%s", n, want, where), fmt.Sprintf("client %d on node %d received %d non-shared copies of %s (topic %s, published on node %d), want %d", c.idx, c.node, n, payloads[i], p.Topic, p.Node, want))
			} else if match && q != min(p.QoS, maxQ) {
				add("delivery.qos", fmt.Sprintf("client %d on node %d received %s with QoS %d, want %d", c.idx, c.node, payloads[i], q, min(p.QoS, maxQ)))
			}
		}
		// shared: per (group, filter) spanning the federation exactly one member in total
		groups := map[string][]*cl{}
		for _, c := range order {
			for k := range c.share {
				if refmodel.Match(p.Topic, strings.SplitN(k, "|", 2)[1]) {
					groups[k] = append(groups[k], c)
				}
			}
		}
		for k, members := range groups {
			parts := strings.SplitN(k, "|", 2)
			n := 0
			for _, r := range rs {
				for _, id := range r.ids {
					if id == subID(r.c.node, r.c.idx, parts[0], parts[1], filters) {
						n++
					}
				}
			}
			nodesOf := map[int]bool{}
			for _, m := range members {
				nodesOf[m.node] = true
			}
			obs["group_deliveries_checked"]++
			if len(nodesOf) > 1 {
				obs["group_deliveries_spanning_nodes"]++
			}
			if n != 1 {
				// what the known mechanisms need in order to manifest is part of the signature, so that another
				// cause of the same symptom is still reported:
				//  several copies of a non-retained message: some other node that holds a member of the group also has
				//  is sent the message for another reason as well (rother); no copy: the message matches several groups (multi)
				disc := ""
				switch {
				case n == 0:
					disc = fmt.Sprintf(":multi=%v", len(groups) > 1)
				case !p.Retain:
					// rother: a node other than the origin that holds a member of this group is sent the message for
					// another reason as well (a matching non-shared subscription or a member of another matching group)
					rother := false
					for nd := range nodesOf {
						if nd == p.Node {
							continue
						}
						if hasPlain(nd, p.Topic) {
							rother = true
						}
						for k2, ms2 := range groups {
							if k2 == k {
								continue
							}
							for _, m2 := range ms2 {
								if m2.node == nd {
									rother = true
								}
							}
						}
					}
					disc = fmt.Sprintf(":rother=%v", rother)
				}
				add(fmt.Sprintf("group.copies:got=%d:spanning=%v:retained=%v%s", n, len(nodesOf) > 1, p.Retain, disc), fmt.Sprintf("message %s (topic %s, node %d) matched $share/%s/%s with %d members on %d nodes: %d members received it, want exactly 1", payloads[i], p.Topic, p.Node, parts[0], parts[1], len(members), len(nodesOf), n))
			}
		}
	}
	// retained store of every node
	for n := range nodes {
		gotR := map[string]string{}
		for t := range retainedModel {
			gotR[t] = ""
		}
		for _, p := range sc.Pubs {
			if p.Retain {
				if m := nodes[n].B.Srv.RetainedService().GetRetainedMessage(p.Topic); m != nil {
					gotR[p.Topic] = string(m.Payload)
				} else {
					delete(gotR, p.Topic)
				}
			}
		}
		for t, pl := range retainedModel {
			if g, ok := gotR[t]; !ok || g != pl {
				add("retained.not_updated", fmt.Sprintf("node %d holds %q for retained topic %s, the last retained publish in the federation was %q", n, g, t, pl))
			}
		}
		for t, g := range gotR {
			if _, ok := retainedModel[t]; !ok {
				cleared := "cleared_elsewhere"
				add("retained.not_cleared:"+cleared, fmt.Sprintf("node %d still holds %q for topic %s although the retained message was cleared (empty retained publish) in the federation", n, g, t))
			}
		}
		obs["retained_stores_checked"]++
	}
	return fs, obs, nil
}

// Run is the entry point.
// directedWill: a share group with one member on node 0 and one on node 1, a non-shared subscriber on node 0, and
// publications on node 0 that alternate between ordinary PUBLISH packets and will messages, so that the
// group's turn falls on the local and on the remote member for both kinds.
func directedWill() Scenario {
	sc := Scenario{Subs: []SubSpec{
		{Node: 0, Client: 0, Filter: "a/b", Share: "g1", QoS: 1},
		{Node: 1, Client: 0, Filter: "a/b", Share: "g1", QoS: 1},
		{Node: 0, Client: 1, Filter: "a/b", QoS: 1},
		{Node: 2, Client: 0, Filter: "b", QoS: 0},
	}}
	for i := 0; i < 9; i++ {
		sc.Pubs = append(sc.Pubs, PubSpec{Node: 0, Topic: "a/b", QoS: byte(i % 3), Will: i%3 != 0})
	}
	for i := 0; i < 4; i++ {
		sc.Pubs = append(sc.Pubs, PubSpec{Node: 1, Topic: "a/b", QoS: 1, Will: i%2 == 0})
	}
	return sc
}

// RedisCfgFault (set by the registration code) switches a configuration to the redis back end on a private fake
// redis and returns arm(cmd, key): redis refuses the next such command with an error reply.
var RedisCfgFault func(c *config.Config) (cleanup func(), arm func(cmd, key string), err error)

// storeFailsWhileSessionEnds: node B keeps its sessions in redis. The only subscriber of a topic on B ends its
// session (clean-session DISCONNECT, TerminateSession, take-over with clean start) at a moment when redis refuses
// one of the clean-up commands. The subscription is gone all the same - so, once things had every chance to
// propagate, node A no longer counts B among the nodes that need the topic and forwards nothing to it.
func storeFailsWhileSessionEnds(r *monitor.Run) {
	if RedisCfgFault == nil {
		return
	}
	id := atomic.AddInt64(&scenarioSeq, 1)
	a, err := fed.Start(fmt.Sprintf("c17f%dA", id), nil, false, nil)
	if err != nil {
		r.Inconclusive("store-fault pair: " + err.Error())
		return
	}
	defer a.Stop()
	var cleanup func()
	var arm func(cmd, key string)
	b, err := fed.Start(fmt.Sprintf("c17f%dB", id), []string{a.Gossip}, false, func(c *config.Config) {
		cleanup, arm, _ = RedisCfgFault(c)
	})
	if err != nil || arm == nil {
		r.Inconclusive(fmt.Sprintf("store-fault pair: %v", err))
		return
	}
	defer func() { b.Stop(); cleanup() }()
	if !fed.WaitView(a, b, settle) || !fed.WaitView(b, a, settle) {
		r.Inconclusive("store-fault pair: federation not established")
		return
	}
	pub, err := wire.Dial("sf-pub", a.B.Addr, mqttx.V5)
	if err != nil {
		r.Inconclusive(err.Error())
		return
	}
	defer pub.Close()
	if _, err := pub.Connect(&mqttx.Packet{ClientID: "sf-pub", CleanStart: true}, step); err != nil {
		r.Inconclusive(err.Error())
		return
	}
	type variant struct{ end, cmd, keyPrefix string }
	vs := []variant{{"disconnect", "DEL", "session:"}, {"disconnect", "DEL", "queue:"}, {"terminate", "DEL", "session:"}, {"takeover_clean", "DEL", "session:"}, {"disconnect", "DEL", "sub:"}}
	for vi, v := range vs[:r.Pick(3, 5)] {
		cid := fmt.Sprintf("sf-gone-%d", vi)
		topic := fmt.Sprintf("sf/%d/t", vi)
		sub, err := wire.Dial(cid, b.B.Addr, mqttx.V311)
		if err != nil {
			r.Inconclusive(err.Error())
			return
		}
		if _, err := sub.Connect(&mqttx.Packet{ClientID: cid, CleanStart: true}, step); err != nil {
			r.Inconclusive(err.Error())
			return
		}
		filter := topic
		if vi%2 == 1 {
			filter = "$share/sfg/" + topic
		}
		if _, err := sub.Subscribe([]mqttx.Sub{{Filter: filter, QoS: 1}}, 0, step); err != nil {
			r.Inconclusive(err.Error())
			return
		}
		r.Eval(1)
		if !fed.WaitView(a, b, settle) {
			r.Violation("store_fault.view_before", fmt.Sprintf("A's view of B %v never became B's subscriptions %v", a.F.VerifFedView(b.Name), fed.ActualTopics(b)), nil)
			return
		}
		if _, err := pub.Publish(&mqttx.Packet{Topic: topic, QoS: 1, Payload: []byte("before-" + cid)}, step); err != nil {
			r.Inconclusive(err.Error())
			return
		}
		if err := sub.WaitPayload("before-"+cid, step); err != nil {
			r.Violation("store_fault.delivery_before", "the remote subscriber did not get the message published on the other node: "+err.Error(), nil)
			return
		}
		from := b.B.Log.Len()
		arm(v.cmd, v.keyPrefix+cid)
		switch v.end {
		case "disconnect":
			sub.Disconnect(0, nil)
		case "terminate":
			b.B.Srv.ClientService().TerminateSession(cid)
		case "takeover_clean":
			sub2, err := wire.Dial(cid, b.B.Addr, mqttx.V311)
			if err == nil {
				_, _ = sub2.Connect(&mqttx.Packet{ClientID: cid, CleanStart: true}, step)
				defer sub2.Close()
			}
		}
		if _, ok := b.B.Log.Wait(from, func(e broker.Event) bool { return e.Kind == "OnClosed" && e.Client == cid }, step); !ok {
			r.Inconclusive("store-fault: end of the connection not observed")
			return
		}
		sub.Close()
		r.Count("sessions_ended_while_the_store_refused_a_command", 1)
		// ground truth: nobody on B is subscribed to the topic any more
		stillThere := true
		for dl := time.Now().Add(3 * time.Second); stillThere && time.Now().Before(dl); time.Sleep(5 * time.Millisecond) {
			stillThere = false
			for _, tpc := range fed.ActualTopics(b) {
				if strings.HasSuffix(tpc, "|"+topic) {
					stillThere = true
				}
			}
		}
		if stillThere {
			// the subscription survived the failed clean-up: then forwarding is still right; nothing to decide here
			r.Count("store_fault_subscription_survived", 1)
			continue
		}
		kind := fmt.Sprintf("end=%s:refused=%s%s:shared=%v", v.end, v.cmd, v.keyPrefix, vi%2 == 1)
		if !fed.WaitView(a, b, settle) {
			r.Violation("store_fault.stale_view:"+kind, fmt.Sprintf("the last subscriber of %s on node B is gone (subscription store of B: %v) but, %v later, B still announces %v and A still believes B needs %v", topic, fed.ActualTopics(b), settle, b.F.VerifLocalTopics(), a.F.VerifFedView(b.Name)), nil)
		}
		before := len(fed.AppliedBy(b.Name, a.Name))
		if _, err := pub.Publish(&mqttx.Packet{Topic: topic, QoS: 1, Payload: []byte("after-" + cid)}, step); err != nil {
			r.Inconclusive(err.Error())
			return
		}
		// barrier: a message B does need, sent after it on the same stream
		bar, err := wire.Dial("sf-bar", b.B.Addr, mqttx.V311)
		if err != nil {
			r.Inconclusive(err.Error())
			return
		}
		_, _ = bar.Connect(&mqttx.Packet{ClientID: "sf-bar", CleanStart: true}, step)
		if _, err := bar.Subscribe([]mqttx.Sub{{Filter: "sf/barrier", QoS: 1}}, 0, step); err != nil {
			r.Inconclusive(err.Error())
			return
		}
		if !fed.WaitView(a, b, settle) && !stillThere {
			// already reported above; the barrier below still works through the stale entry
		}
		_, _ = pub.Publish(&mqttx.Packet{Topic: "sf/barrier", QoS: 1, Payload: []byte(fmt.Sprintf("barrier-%d", vi))}, step)
		if err := bar.WaitPayload(fmt.Sprintf("barrier-%d", vi), step); err != nil {
			r.Inconclusive("store-fault: barrier message not delivered: " + err.Error())
			bar.Close()
			return
		}
		bar.Disconnect(0, nil)
		for _, ev := range fed.AppliedBy(b.Name, a.Name)[before:] {
			if ev.Kind == "msg" && ev.Payload == "after-"+cid {
				r.Violation("store_fault.forwarded_to_node_without_subscription:"+kind, fmt.Sprintf("message %q on %s was forwarded to node B, which has no matching subscription (its last subscriber's session ended while the store refused %s %s%s)", ev.Payload, topic, v.cmd, v.keyPrefix, cid), nil)
			}
		}
		r.Nontrivial("store-fault|" + kind)
	}
}

// sessionReplaced: the only subscriber of a topic on node B has a stored session; it goes offline and the same client id
// comes back with Clean Start 1 (or its session is terminated through the API) and does not subscribe again. The old
// session - and with it the node's need for the topic - is gone: A forgets it and forwards nothing.
func sessionReplaced(r *monitor.Run) {
	id := atomic.AddInt64(&scenarioSeq, 1)
	a, err := fed.Start(fmt.Sprintf("c17r%dA", id), nil, false, nil)
	if err != nil {
		r.Inconclusive("pair: " + err.Error())
		return
	}
	defer a.Stop()
	b, err := fed.Start(fmt.Sprintf("c17r%dB", id), []string{a.Gossip}, false, nil)
	if err != nil {
		r.Inconclusive("pair: " + err.Error())
		return
	}
	defer b.Stop()
	if !fed.WaitView(a, b, settle) || !fed.WaitView(b, a, settle) {
		r.Inconclusive("pair: federation not established")
		return
	}
	pub, err := wire.Dial("sr-pub", a.B.Addr, mqttx.V5)
	if err != nil {
		r.Inconclusive(err.Error())
		return
	}
	defer pub.Close()
	if _, err := pub.Connect(&mqttx.Packet{ClientID: "sr-pub", CleanStart: true}, step); err != nil {
		r.Inconclusive(err.Error())
		return
	}
	for vi, how := range []string{"clean_start_online", "clean_start_offline", "terminate_offline"} {
		cid := fmt.Sprintf("sr-client-%d", vi)
		topic := fmt.Sprintf("sr/%d/t", vi)
		exp := uint32(3600)
		connect := func(clean bool) (*wire.Client, error) {
			c, err := wire.Dial(cid, b.B.Addr, mqttx.V5)
			if err != nil {
				return nil, err
			}
			_, err = c.Connect(&mqttx.Packet{ClientID: cid, CleanStart: clean, Props: &mqttx.Props{SessionExpiry: &exp}}, step)
			return c, err
		}
		c1, err := connect(true)
		if err != nil {
			r.Inconclusive(err.Error())
			return
		}
		if _, err := c1.Subscribe([]mqttx.Sub{{Filter: topic, QoS: 1}, {Filter: "$share/srg/" + topic + "/s", QoS: 1}}, 0, step); err != nil {
			r.Inconclusive(err.Error())
			return
		}
		r.Eval(1)
		if !fed.WaitView(a, b, settle) {
			r.Violation("session_replaced.view_before", fmt.Sprintf("A's view of B %v never became B's subscriptions %v", a.F.VerifFedView(b.Name), fed.ActualTopics(b)), nil)
			return
		}
		if how != "clean_start_online" {
			from := b.B.Log.Len()
			c1.Disconnect(0, nil)
			b.B.Log.Wait(from, func(e broker.Event) bool { return e.Kind == "OnClosed" && e.Client == cid }, step)
		}
		var c2 *wire.Client
		if how == "terminate_offline" {
			b.B.Srv.ClientService().TerminateSession(cid)
		} else {
			if c2, err = connect(true); err != nil {
				r.Inconclusive(err.Error())
				return
			}
			defer c2.Close()
		}
		c1.Close()
		if !fed.WaitView(a, b, settle) {
			r.Violation("session_replaced.stale_view:how="+how, fmt.Sprintf("the stored session of the only subscriber of %s on node B was ended (%s), its subscriptions are gone (B's subscription store: %v), but %v later B still announces %v and A believes B needs %v", topic, how, fed.ActualTopics(b), settle, b.F.VerifLocalTopics(), a.F.VerifFedView(b.Name)), nil)
			continue
		}
		before := len(fed.AppliedBy(b.Name, a.Name))
		_, _ = pub.Publish(&mqttx.Packet{Topic: topic, QoS: 1, Payload: []byte("after-" + cid)}, step)
		_, _ = pub.Publish(&mqttx.Packet{Topic: topic + "/s", QoS: 1, Payload: []byte("after-s-" + cid)}, step)
		time.Sleep(200 * time.Millisecond)
		for _, ev := range fed.AppliedBy(b.Name, a.Name)[before:] {
			if ev.Kind == "msg" && strings.HasPrefix(ev.Payload, "after-") {
				r.Violation("session_replaced.forwarded_to_node_without_subscription:how="+how, fmt.Sprintf("message %q was forwarded to node B, which has no matching subscription any more", ev.Payload), nil)
			}
		}
		r.Count("stored_sessions_replaced_without_resubscribing", 1)
		r.Nontrivial("session-replaced|" + how)
	}
}

// awkwardMessages: a message is forwarded "exactly as a local subscriber would receive it" whatever it carries:
// Correlation Data is binary data (not necessarily UTF-8), and a payload may have several megabytes. Each awkward message
// is followed by an ordinary one, which shows whether the link between the nodes survived.
func awkwardMessages(r *monitor.Run) {
	for _, kind := range []string{"binary_correlation_data", "payload_5MiB"} {
		func() {
			id := atomic.AddInt64(&scenarioSeq, 1)
			a, err := fed.Start(fmt.Sprintf("c17w%dA", id), nil, false, nil)
			if err != nil {
				r.Inconclusive("pair: " + err.Error())
				return
			}
			defer a.Stop()
			b, err := fed.Start(fmt.Sprintf("c17w%dB", id), []string{a.Gossip}, false, nil)
			if err != nil {
				r.Inconclusive("pair: " + err.Error())
				return
			}
			defer b.Stop()
			sub, err := wire.Dial("aw-sub", b.B.Addr, mqttx.V5)
			if err != nil {
				r.Inconclusive(err.Error())
				return
			}
			defer sub.Close()
			_, _ = sub.Connect(&mqttx.Packet{ClientID: "aw-sub", CleanStart: true}, step)
			if _, err := sub.Subscribe([]mqttx.Sub{{Filter: "aw/#", QoS: 1}}, 0, step); err != nil {
				r.Inconclusive(err.Error())
				return
			}
			if !fed.WaitView(a, b, settle) {
				r.Inconclusive("awkward: views not stable")
				return
			}
			pub, err := wire.Dial("aw-pub", a.B.Addr, mqttx.V5)
			if err != nil {
				r.Inconclusive(err.Error())
				return
			}
			defer pub.Close()
			_, _ = pub.Connect(&mqttx.Packet{ClientID: "aw-pub", CleanStart: true}, step)
			r.Eval(1)
			first := &mqttx.Packet{Topic: "aw/t", QoS: 1, Payload: []byte("awkward")}
			switch kind {
			case "binary_correlation_data":
				first.Props = &mqttx.Props{CorrelationData: []byte{0xff, 0xfe, 0x00, 0x80}, HasCorrelationData: true}
			case "payload_5MiB":
				first.Payload = append([]byte("awkward"), bytes.Repeat([]byte{'x'}, 5<<20)...)
			}
			if _, err := pub.Publish(first, 30*time.Second); err != nil {
				r.Inconclusive("awkward publish: " + err.Error())
				return
			}
			if _, err := pub.Publish(&mqttx.Packet{Topic: "aw/t", QoS: 1, Payload: []byte("ordinary-after")}, step); err != nil {
				r.Inconclusive(err.Error())
				return
			}
			gotFirst, gotAfter := false, false
			if err := sub.WaitPayload("ordinary-after", settle); err == nil {
				gotAfter = true
			}
			for _, rec := range sub.Publishes() {
				if bytes.HasPrefix(rec.P.Payload, []byte("awkward")) && len(rec.P.Payload) == len(first.Payload) {
					gotFirst = true
					if kind == "binary_correlation_data" && (rec.P.Props == nil || !bytes.Equal(rec.P.Props.CorrelationData, first.Props.CorrelationData)) {
						r.Violation("awkward.altered:"+kind, fmt.Sprintf("the remote subscriber received the message with Correlation Data %x, published %x", rec.P.Props, first.Props.CorrelationData), nil)
					}
				}
			}
			if !gotFirst || !gotAfter {
				r.Violation(fmt.Sprintf("awkward.not_forwarded:%s:first=%v:following=%v", kind, gotFirst, gotAfter), fmt.Sprintf("a message with %s published on node A for a subscriber on node B: delivered=%v; the ordinary message published after it: delivered=%v (within %v)", kind, gotFirst, gotAfter, settle), nil)
				return
			}
			r.Count("awkward_messages_forwarded", 1)
			r.Nontrivial("awkward|" + kind)
		}()
	}
}

func Run(r *monitor.Run) {
	awkwardMessages(r)
	storeFailsWhileSessionEnds(r)
	sessionReplaced(r)
	n := r.Pick(16, 400)
	rng := r.Rand("scenarios")
	scs := make([]Scenario, n)
	for i := range scs {
		scs[i] = gen(rng, r.Pick(20, 30))
	}
	scs[0] = directedWill()
	r.InconBudget = 0.1
	var next int64 = -1
	r.Parallel(4, 4, func(w int) {
		t, err := newTriple()
		if err != nil {
			r.Inconclusive("triple: " + err.Error())
			return
		}
		defer t.stop()
		for {
			i := int(atomic.AddInt64(&next, 1))
			if i >= n {
				return
			}
			sc := &scs[i]
			fs, obs, err := run(t, sc)
			r.Eval(1)
			if err != nil {
				r.Inconclusive(fmt.Sprintf("scenario %d: %v", i, err))
				t.stop()
				if t, err = newTriple(); err != nil {
					r.Inconclusive("triple: " + err.Error())
					return
				}
				continue
			}
			// de-duplicate findings of one scenario by signature (keep the first witness)
			seen := map[string]bool{}
			for _, f := range fs {
				if seen[f.Sig] {
					continue
				}
				seen[f.Sig] = true
				r.Violation(f.Sig, f.What, map[string]any{"scenario": sc})
			}
			for k, v := range obs {
				r.Count(k, int64(v))
			}
			r.Nontrivial(monitor.J(sc))
			if i == 0 {
				r.Sample(sc)
			}
		}
	})
	_ = sort.Strings
}

// Replay re-runs one scenario.
func Replay(r *monitor.Run, detail []byte) {
	var d struct{ Scenario Scenario }
	if err := json.Unmarshal(detail, &d); err != nil {
		fmt.Println("replay:", err)
		return
	}
	t, err := newTriple()
	if err != nil {
		fmt.Println("replay:", err)
		return
	}
	defer t.stop()
	fs, _, err := run(t, &d.Scenario)
	fmt.Println("replay:", err)
	for _, f := range fs {
		r.Violation(f.Sig, f.What, nil)
	}
}
