// Package c13: limits negotiated at CONNECT hold in both directions for every
// valid configuration (DESIGN.md §5 C13).
package c13

import (
	"bytes"
	"encoding/json"
	"fmt"
	"github.com/DrmagicE/gmqtt/pkg/packets"
	"strings"
	"sync"
	"time"

	"github.com/DrmagicE/gmqtt"
	"github.com/DrmagicE/gmqtt/config"

	"verif/harness/broker"
	"verif/harness/monitor"
	"verif/harness/mqttx"
	"verif/harness/wire"
)

// Cfg is one validator-accepted configuration.
type Cfg struct {
	ReceiveMax    uint16
	TopicAliasMax uint16
	MaxPacketSize uint32
	MaxInflight   uint16
}

// Case = configuration + script + client-declared maxima.
type Case struct {
	Cfg    Cfg
	Script string
	M      uint32 // client Maximum Packet Size (0 = absent)
	A      uint16 // client Topic Alias Maximum
}

type ctx struct {
	b   *broker.Broker
	c   Case
	id  string
	fs  []finding
	obs map[string]int
	firstV3 bool // outbound_resume: the session is created by an MQTT 3.1.1 connection
	adv struct {
		T, R uint16
		P    uint32
	} // advertised in CONNACK
}

type finding struct{ Sig, What string }

func (x *ctx) add(sig, what string) { x.fs = append(x.fs, finding{sig, what}) }

const step = 10 * time.Second

func (x *ctx) connect(name string, props *mqttx.Props) (*wire.Client, *mqttx.Packet, error) {
	return x.connectCS(name, props, true)
}

func (x *ctx) connectCS(name string, props *mqttx.Props, clean bool) (*wire.Client, *mqttx.Packet, error) {
	c, err := wire.Dial(name, x.b.Addr, mqttx.V5)
	if err != nil {
		return nil, nil, err
	}
	ack, err := c.Connect(&mqttx.Packet{ClientID: name, CleanStart: clean, Props: props}, step)
	if err != nil {
		c.Close()
		return nil, nil, err
	}
	if ack.Code != 0 {
		c.Close()
		return nil, nil, fmt.Errorf("connack 0x%02x", ack.Code)
	}
	if ack.Props != nil {
		if ack.Props.TopicAliasMax != nil {
			x.adv.T = *ack.Props.TopicAliasMax
		} else {
			x.adv.T = 0
		}
		x.adv.R = 65535
		if ack.Props.ReceiveMax != nil {
			x.adv.R = *ack.Props.ReceiveMax
		}
		x.adv.P = 0
		if ack.Props.MaxPacketSize != nil {
			x.adv.P = *ack.Props.MaxPacketSize
		}
	}
	return c, ack, nil
}

// alive: the connection still answers PINGREQ.
func alive(c *wire.Client) bool { return c.Ping(step) == nil }

// expectDisconnect waits for the connection to be closed and returns the DISCONNECT reason code (-1 if none was received).
func expectDisconnect(c *wire.Client) (code int, closed bool) {
	closed = c.WaitEOF(step)
	code = -1
	for _, p := range c.Ctl() {
		if p.Type == mqttx.DISCONNECT {
			code = int(p.Code)
		}
	}
	if code == -1 {
		_, _, rerr := c.EOF()
		lastReadErr = fmt.Sprint(rerr)
	}
	return
}

var lastReadErr string // diagnostic only

func (x *ctx) observer() (*wire.Client, error) {
	o, _, err := x.connect(x.id+"-obs", nil)
	if err != nil {
		return nil, err
	}
	if _, err := o.Subscribe([]mqttx.Sub{{Filter: "in/" + x.id + "/#", QoS: 2}}, 0, step); err != nil {
		return nil, err
	}
	return o, nil
}

// ---- inbound scripts ---------------------------------------------------------

func (x *ctx) inAlias() error {
	obs, err := x.observer()
	if err != nil {
		return err
	}
	defer obs.Close()
	c, _, err := x.connect(x.id, nil)
	if err != nil {
		return err
	}
	defer c.Close()
	T := x.adv.T
	if T != x.c.Cfg.TopicAliasMax {
		x.add("connack.topic_alias_max", fmt.Sprintf("CONNACK advertises Topic Alias Maximum %d, configured %d", T, x.c.Cfg.TopicAliasMax))
	}
	if T == 0 {
		return nil
	}
	aliases := map[uint16]bool{1: true, T: true, (T + 1) / 2: true}
	if T >= 3 {
		aliases[T-1] = true
	}
	n := 0
	send := func(alias uint16, topic string, withTopic bool, tag string) bool {
		n++
		payload := fmt.Sprintf("%s|%s", topic, tag)
		p := &mqttx.Packet{Topic: "", QoS: 1, Payload: []byte(payload), Props: &mqttx.Props{TopicAlias: &alias}}
		if withTopic {
			p.Topic = topic
		}
		ack, err := c.Publish(p, step)
		if err != nil {
			code, _ := expectDisconnect(c)
			x.add(fmt.Sprintf("inbound.alias_rejected:alias_eq_max=%v:code=0x%02x", alias == T, code&0xff),
				fmt.Sprintf("client using alias %d (advertised maximum %d, %s) lost its connection: %v, DISCONNECT code %d", alias, T, tag, err, code))
			return false
		}
		if ack.Code >= 0x80 {
			x.add("inbound.alias_ack_error", fmt.Sprintf("alias %d: PUBACK 0x%02x", alias, ack.Code))
		}
		if err := obs.WaitPayload(payload, step); err != nil {
			x.add("inbound.alias_not_forwarded", fmt.Sprintf("message sent with alias %d (%s) never reached the observer", alias, tag))
			return false
		}
		for _, r := range obs.Publishes() {
			if string(r.P.Payload) == payload && r.P.Topic != topic {
				x.add("inbound.alias_wrong_topic", fmt.Sprintf("message sent through alias %d for topic %q arrived on %q", alias, topic, r.P.Topic))
			}
		}
		x.obs["inbound_alias_publishes"]++
		return true
	}
	for a := range aliases {
		if a == 0 {
			continue
		}
		t1 := fmt.Sprintf("in/%s/a%d/one", x.id, a)
		t2 := fmt.Sprintf("in/%s/a%d/two", x.id, a)
		if !send(a, t1, true, "bind") || !send(a, t1, false, "reuse") || !send(a, t2, true, "rebind") || !send(a, t2, false, "reuse2") {
			return nil
		}
	}
	if !alive(c) {
		x.add("inbound.alias_dead", "client that stayed within Topic Alias Maximum no longer answers PINGREQ")
	}
	return nil
}

func (x *ctx) inAliasOver() error {
	obs, err := x.observer()
	if err != nil {
		return err
	}
	defer obs.Close()
	for _, which := range []string{"over", "zero", "unbound"} {
		c, _, err := x.connect(x.id+which, nil)
		if err != nil {
			return err
		}
		T := x.adv.T
		var alias uint16
		topic := "in/" + x.id + "/" + which
		switch which {
		case "over":
			if T == 65535 {
				c.Close()
				continue
			}
			alias = T + 1
		case "zero":
			alias = 0
		case "unbound":
			if T == 0 {
				c.Close()
				continue
			}
			alias, topic = 1, "" // alias never bound on this connection
		}
		_ = c.Send(&mqttx.Packet{Type: mqttx.PUBLISH, Topic: topic, QoS: 1, PacketID: 9, Payload: []byte("bad-" + which), Props: &mqttx.Props{TopicAlias: &alias}})
		code, closed := expectDisconnect(c)
		c.Close()
		x.obs["inbound_alias_violations_sent"]++
		if !closed {
			x.add("inbound.alias_over_accepted:"+which, fmt.Sprintf("PUBLISH with invalid topic alias %d (maximum %d) did not end the connection", alias, T))
			continue
		}
		okCodes := map[int]bool{0x94: true}
		if which == "zero" {
			okCodes[0x82], okCodes[0x81] = true, true // alias 0 is a protocol error / malformed packet by the spec
		}
		if which == "unbound" {
			okCodes[0x82] = true
		}
		if !okCodes[code] {
			x.add(fmt.Sprintf("inbound.alias_over_code:%s:code=%d", which, code), fmt.Sprintf("invalid topic alias %d (%s, maximum %d) answered with DISCONNECT code %d, want 0x94 (read error: %s)", alias, which, T, code, lastReadErr))
		}
	}
	time.Sleep(30 * time.Millisecond)
	for _, r := range obs.Publishes() {
		if strings.HasPrefix(string(r.P.Payload), "bad-") {
			x.add("inbound.alias_over_forwarded", fmt.Sprintf("a PUBLISH with an invalid topic alias was forwarded: %s", r.P.String()))
		}
	}
	return nil
}

func (x *ctx) inRecvMax() error {
	c, _, err := x.connect(x.id, nil)
	if err != nil {
		return err
	}
	defer c.Close()
	R := x.adv.R
	if R != x.c.Cfg.ReceiveMax {
		x.add("connack.receive_max", fmt.Sprintf("CONNACK advertises Receive Maximum %d, configured %d", R, x.c.Cfg.ReceiveMax))
	}
	n := int(R)
	if n > 120 {
		n = 120
	}
	topic := "in/" + x.id + "/q2"
	open := func(from, to int) bool {
		for i := from; i < to; i++ {
			id := uint16(i + 1)
			_ = c.Send(&mqttx.Packet{Type: mqttx.PUBLISH, Topic: topic, QoS: 2, PacketID: id, Payload: []byte("x")})
			if _, err := c.WaitType(mqttx.PUBREC, id, step); err != nil {
				code, _ := expectDisconnect(c)
				x.add(fmt.Sprintf("inbound.recvmax_rejected:code=0x%02x", code&0xff), fmt.Sprintf("client with %d of %d allowed QoS 2 exchanges open lost its connection (DISCONNECT code %d)", i+1, R, code))
				return false
			}
		}
		return true
	}
	closeAll := func(to int) bool {
		for i := 0; i < to; i++ {
			id := uint16(i + 1)
			_ = c.Send(&mqttx.Packet{Type: mqttx.PUBREL, PacketID: id})
			if _, err := c.WaitType(mqttx.PUBCOMP, id, step); err != nil {
				x.add("inbound.pubcomp_missing", err.Error())
				return false
			}
		}
		return true
	}
	// two full cycles: the quota must be restored exactly
	for cycle := 0; cycle < 2; cycle++ {
		if !open(0, n) {
			return nil
		}
		if !alive(c) {
			x.add("inbound.recvmax_dead", "client within Receive Maximum no longer answers PINGREQ")
			return nil
		}
		// interleave some QoS 1 publishes: they are acknowledged at once and must not consume quota permanently...
		// (only when there is room: with n == R the window is full)
		if !closeAll(n) {
			return nil
		}
		for i := 0; i < 3; i++ {
			if _, err := c.Publish(&mqttx.Packet{Topic: topic, QoS: 1, Payload: []byte("q1")}, step); err != nil {
				code, _ := expectDisconnect(c)
				x.add(fmt.Sprintf("inbound.recvmax_rejected_qos1:code=0x%02x", code&0xff), fmt.Sprintf("QoS 1 publish with no other exchange open rejected (cycle %d, R=%d): %v", cycle, R, err))
				return nil
			}
		}
		x.obs["inbound_quota_cycles"]++
	}
	// exceed: R+1 open exchanges
	if int(R) <= 120 {
		if !open(0, n) {
			return nil
		}
		_ = c.Send(&mqttx.Packet{Type: mqttx.PUBLISH, Topic: topic, QoS: 2, PacketID: uint16(n + 1), Payload: []byte("x")})
		code, closed := expectDisconnect(c)
		x.obs["inbound_recvmax_violations_sent"]++
		if !closed {
			x.add("inbound.recvmax_over_accepted", fmt.Sprintf("%d QoS 2 exchanges open with Receive Maximum %d and the connection survives", n+1, R))
		} else if code != 0x93 {
			x.add(fmt.Sprintf("inbound.recvmax_over_code:code=%d", code), fmt.Sprintf("exceeding Receive Maximum %d answered with DISCONNECT code %d, want 0x93 (read error: %s)", R, code, lastReadErr))
		}
	}
	return nil
}

func (x *ctx) inSize() error {
	obs, err := x.observer()
	if err != nil {
		return err
	}
	defer obs.Close()
	c, _, err := x.connect(x.id, nil)
	if err != nil {
		return err
	}
	defer c.Close()
	P := x.adv.P
	if P != x.c.Cfg.MaxPacketSize {
		x.add("connack.max_packet_size", fmt.Sprintf("CONNACK advertises Maximum Packet Size %d, configured %d", P, x.c.Cfg.MaxPacketSize))
	}
	topic := "in/" + x.id + "/s"
	mk := func(total int, tag string) *mqttx.Packet {
		p := &mqttx.Packet{Type: mqttx.PUBLISH, Topic: topic, QoS: 1, PacketID: c.NextID(), Payload: []byte(tag)}
		base := mqttx.Size(p, mqttx.V5)
		pad := total - base
		if pad < 0 {
			return nil
		}
		p.Payload = append(p.Payload, []byte(strings.Repeat("z", pad))...)
		for mqttx.Size(p, mqttx.V5) > total && len(p.Payload) > len(tag) { // length-field growth
			p.Payload = p.Payload[:len(p.Payload)-1]
		}
		if mqttx.Size(p, mqttx.V5) != total {
			return nil
		}
		return p
	}
	sizes := []int{}
	if P <= 4096 {
		sizes = []int{int(P) - 1, int(P)}
	} else {
		sizes = []int{1000, 70000, 300000}
	}
	for _, sz := range sizes {
		tag := fmt.Sprintf("ok%d|", sz)
		p := mk(sz, tag)
		if p == nil {
			continue
		}
		_ = c.Send(p)
		if _, err := c.WaitType(mqttx.PUBACK, p.PacketID, step); err != nil {
			code, _ := expectDisconnect(c)
			x.add(fmt.Sprintf("inbound.size_rejected:exact=%v:code=0x%02x", sz == int(P), code&0xff), fmt.Sprintf("packet of %d bytes (Maximum Packet Size %d) cost the connection: %v code %d", sz, P, err, code))
			return nil
		}
		if _, err := obs.WaitPublish(0, func(q *mqttx.Packet) bool {
			return strings.HasPrefix(string(q.Payload), tag) && len(q.Payload) == len(p.Payload)
		}, step); err != nil {
			x.add("inbound.size_not_forwarded", fmt.Sprintf("packet of %d bytes acknowledged but not forwarded", sz))
		}
		x.obs["inbound_size_accepted"]++
	}
	if !alive(c) {
		x.add("inbound.size_dead", "client within Maximum Packet Size no longer answers PINGREQ")
		return nil
	}
	if P <= 4096 {
		p := mk(int(P)+1, "over|")
		if p != nil {
			_ = c.Send(p)
			code, closed := expectDisconnect(c)
			x.obs["inbound_size_violations_sent"]++
			if !closed {
				x.add("inbound.size_over_accepted", fmt.Sprintf("packet of %d bytes accepted with Maximum Packet Size %d", P+1, P))
			} else if code != 0x95 {
				x.add(fmt.Sprintf("inbound.size_over_code:code=%d", code), fmt.Sprintf("packet of %d bytes (maximum %d) answered with DISCONNECT code %d, want 0x95", P+1, P, code))
			}
			time.Sleep(20 * time.Millisecond)
			for _, r := range obs.Publishes() {
				if strings.HasPrefix(string(r.P.Payload), "over|") {
					x.add("inbound.size_over_forwarded", "an oversize packet was forwarded")
				}
			}
		}
	}
	return nil
}

// ---- outbound scripts ----------------------------------------------------------

// outbound: the limits are those of the connection that receives. With resume, the session was created by an
// earlier connection that declared other maxima (larger or smaller Maximum Packet Size, the largest Topic Alias
// Maximum, aliases already bound); everything is published while the client is away and delivered to the second
// connection, whose CONNECT alone counts.
func (x *ctx) outbound(resume bool) error {
	M, A := x.c.M, x.c.A
	props := &mqttx.Props{}
	if M != 0 {
		props.MaxPacketSize = &M
	}
	if A != 0 {
		props.TopicAliasMax = &A
	}
	base := "o/" + x.id + "/"
	var s *wire.Client
	var err error
	inflightBig, inflightFrom := "", 0
	if resume && x.firstV3 {
		// the session is created by an MQTT 3.1.1 connection (no limits exist there) and resumed by an MQTT 5 one that
		// declares its maxima: what was queued meanwhile is sized and sent by the rules of the connection it goes to
		first, err := wire.Dial(x.id, x.b.Addr, mqttx.V311)
		if err != nil {
			return err
		}
		if _, err := first.Connect(&mqttx.Packet{ClientID: x.id, CleanStart: false}, step); err != nil {
			first.Close()
			return err
		}
		if _, err := first.Subscribe([]mqttx.Sub{{Filter: base + "#", QoS: 1}}, 0, step); err != nil {
			first.Close()
			return err
		}
		x.b.Srv.Publisher().Publish(&gmqtt.Message{Topic: base + "t1", Payload: []byte("warm-up-end"), QoS: 1})
		if err := first.WaitPayload("warm-up-end", step); err != nil {
			first.Close()
			return fmt.Errorf("warm-up: %w", err)
		}
		if err := first.Ping(step); err != nil {
			return err
		}
		from := x.b.Log.Len()
		first.Disconnect(0, nil)
		if _, ok := x.b.Log.Wait(from, func(e broker.Event) bool { return e.Kind == "OnClosed" && e.Client == x.id }, step); !ok {
			return fmt.Errorf("first connection not closed")
		}
		x.obs["outbound_sessions_created_by_v3_resumed_by_v5"]++
	} else if resume {
		exp := uint32(3600)
		a1 := uint16(65535)
		p1 := &mqttx.Props{SessionExpiry: &exp, TopicAliasMax: &a1}
		m1 := uint32(100000)
		if M == 0 || M == 200 {
			m1 = 56 // the first connection was the restrictive one
		}
		p1.MaxPacketSize = &m1
		first, _, err := x.connect(x.id, p1)
		if err != nil {
			return err
		}
		if _, err := first.Subscribe([]mqttx.Sub{{Filter: base + "#", QoS: 1}}, 0, step); err != nil {
			return err
		}
		// bind a few aliases on the first connection
		for i := 0; i < 3; i++ {
			x.b.Srv.Publisher().Publish(&gmqtt.Message{Topic: fmt.Sprintf("%st%d", base, i+1), Payload: []byte("w"), QoS: 1})
		}
		x.b.Srv.Publisher().Publish(&gmqtt.Message{Topic: base + "t1", Payload: []byte("warm-up-end"), QoS: 1})
		if err := first.WaitPayload("warm-up-end", step); err != nil {
			return fmt.Errorf("warm-up: %w", err)
		}
		if err := first.Ping(step); err != nil {
			return err
		}
		if m1 > 1000 && M != 0 {
			// two messages stay IN FLIGHT on the first connection (delivered, never acknowledged): one that the second
			// connection can take and one that is too large for it under any alias choice. Both belong to the session.
			first.SetAutoAck(false)
			t := base + "t2"
			bigPl := t + "|inflight-big|" + strings.Repeat("z", int(M)+len(t)+20)
			smallPl := t + "|inflight-small"
			x.b.Srv.Publisher().Publish(&gmqtt.Message{Topic: t, Payload: []byte(bigPl), QoS: 1})
			x.b.Srv.Publisher().Publish(&gmqtt.Message{Topic: t, Payload: []byte(smallPl), QoS: 1})
			// (with max_inflight 1 only the first of the two is in flight, the other one waits in the queue)
			if err := first.WaitPayload(bigPl, step); err != nil {
				return fmt.Errorf("in-flight messages: %w", err)
			}
			if x.c.Cfg.MaxInflight > 1 {
				if err := first.WaitPayload(smallPl, step); err != nil {
					return fmt.Errorf("in-flight messages: %w", err)
				}
			}
			inflightBig, inflightFrom = bigPl, x.b.Log.Len()
			x.obs["outbound_inflight_at_resume"] += 2
		}
		from := x.b.Log.Len()
		first.Disconnect(0, nil)
		if _, ok := x.b.Log.Wait(from, func(e broker.Event) bool { return e.Kind == "OnClosed" && e.Client == x.id }, step); !ok {
			return fmt.Errorf("first connection not closed")
		}
		x.obs["outbound_resumed_sessions"]++
	} else {
		s, _, err = x.connect(x.id, props)
		if err != nil {
			return err
		}
		defer s.Close()
		if _, err := s.Subscribe([]mqttx.Sub{{Filter: base + "#", QoS: 1}}, 0, step); err != nil {
			return err
		}
	}
	topics := []string{base + "t1", base + "t2", base + "longer/topic/3", base + "t4", base + "t5"}
	type sent struct {
		payload string
		topic   string
		full    int // wire size with topic, without alias property
	}
	var msgs []sent
	from := x.b.Log.Len()
	mkPayload := func(topic string, target int, i int) (string, int) {
		tag := fmt.Sprintf("%s|%d|", topic, i)
		p := &mqttx.Packet{Type: mqttx.PUBLISH, Topic: topic, QoS: 1, PacketID: 1, Payload: []byte(tag), Props: &mqttx.Props{}}
		sz := mqttx.Size(p, mqttx.V5)
		if target > sz {
			p.Payload = append(p.Payload, []byte(strings.Repeat("y", target-sz))...)
			for mqttx.Size(p, mqttx.V5) > target {
				p.Payload = p.Payload[:len(p.Payload)-1]
			}
		}
		return string(p.Payload), mqttx.Size(p, mqttx.V5)
	}
	i := 0
	pub := func(topic string, target int) {
		i++
		pl, full := mkPayload(topic, target, i)
		msgs = append(msgs, sent{pl, topic, full})
		x.b.Srv.Publisher().Publish(&gmqtt.Message{Topic: topic, Payload: []byte(pl), QoS: 1})
	}
	// alias exercise: cyclic topic sequence (evictions when A < len(topics))
	for r := 0; r < 3; r++ {
		for _, t := range topics {
			pub(t, 0)
		}
	}
	// sizes around the limit, on known (aliased) and fresh topics
	if M != 0 {
		for d := -6; d <= 4; d++ {
			pub(topics[(d+6)%len(topics)], int(M)+d)
			pub(fmt.Sprintf("%sfresh%d", base, d+6), int(M)+d)
		}
		// too large whatever the broker does with the topic (alias-only PUBLISH included)
		for k, extra := range []int{4, 5, 40, 500} {
			t := topics[k%len(topics)]
			pub(t, int(M)+len(t)+extra)
			f := fmt.Sprintf("%sfreshbig%d", base, k)
			pub(f, int(M)+len(f)+extra)
		}
	}
	// sentinel (small, fits) then evaluate
	sentinelTopic := base + "z"
	x.b.Srv.Publisher().Publish(&gmqtt.Message{Topic: sentinelTopic, Payload: []byte("sentinel"), QoS: 1})
	if resume {
		exp := uint32(3600)
		props.SessionExpiry = &exp
		var ack *mqttx.Packet
		s, ack, err = x.connectCS(x.id, props, false)
		if err != nil {
			return err
		}
		defer s.Close()
		if !ack.SessionPresent {
			return fmt.Errorf("session not resumed")
		}
	}
	aliasTable := map[uint16]string{}
	got := map[string]bool{}
	resolve := func(p *mqttx.Packet, size int) string {
		topic := p.Topic
		if p.Props != nil && p.Props.TopicAlias != nil {
			a := *p.Props.TopicAlias
			x.obs["outbound_aliased_packets"]++
			if a == 0 || a > A {
				x.add(fmt.Sprintf("outbound.alias_range:a_zero=%v", A == 0), fmt.Sprintf("PUBLISH with topic alias %d, client Topic Alias Maximum is %d", a, A))
			}
			if p.Topic != "" {
				aliasTable[a] = p.Topic
			} else {
				x.obs["outbound_alias_only_packets"]++
				t, ok := aliasTable[a]
				if !ok {
					x.add("outbound.alias_unbound", fmt.Sprintf("PUBLISH uses alias %d that was never bound on this connection", a))
				}
				topic = t
			}
		} else if p.Topic == "" {
			x.add("outbound.empty_topic", "PUBLISH without topic and without alias")
		}
		return topic
	}
	deadline := time.Now().Add(step)
	seen := 0
	done := false
	for !done && time.Now().Before(deadline) {
		recs := s.Publishes()
		for ; seen < len(recs); seen++ {
			r := recs[seen]
			topic := resolve(r.P, r.Size)
			if M != 0 && uint32(r.Size) > M {
				x.add(fmt.Sprintf("outbound.oversize:excess=%d:aliased=%v", r.Size-int(M), r.P.Props != nil && r.P.Props.TopicAlias != nil), fmt.Sprintf("received a PUBLISH of %d bytes, declared Maximum Packet Size %d", r.Size, M))
			}
			pl := string(r.P.Payload)
			if pl == "sentinel" {
				done = true
				continue
			}
			got[pl] = true
			want := strings.SplitN(pl, "|", 2)[0]
			if topic != want {
				x.add("outbound.alias_wrong_topic", fmt.Sprintf("message for %q resolved to topic %q through its alias", want, topic))
			}
		}
		if eof, _, _ := s.EOF(); eof {
			x.add("outbound.disconnected", fmt.Sprintf("subscriber disconnected while receiving: %v", s.Ctl()))
			return nil
		}
		time.Sleep(2 * time.Millisecond)
	}
	if !done {
		x.add("outbound.sentinel_missing", "the small sentinel after the size series never arrived (connection must stay up)")
	}
	for _, r := range s.In() {
		if M != 0 && uint32(r.Size) > M && r.P.Type != mqttx.PUBLISH {
			x.add("outbound.oversize_control:"+mqttx.TypeName(r.P.Type), fmt.Sprintf("%s of %d bytes exceeds the declared Maximum Packet Size %d", mqttx.TypeName(r.P.Type), r.Size, M))
		}
	}
	dropped := map[string]string{}
	for _, e := range x.b.Log.Events()[from:] {
		if e.Kind == "OnMsgDropped" && e.Client == x.id {
			dropped[e.Payload] = e.Err
		}
	}
	for _, m := range msgs {
		switch {
		case M == 0 || m.full+3 <= int(M):
			if !got[m.payload] {
				x.add("outbound.missing", fmt.Sprintf("message of %d bytes (limit %d) not delivered (dropped: %q)", m.full, M, dropped[m.payload]))
			}
			x.obs["outbound_must_deliver"]++
		case m.full-len(m.topic)+3 > int(M):
			x.obs["outbound_must_drop"]++
			if got[m.payload] {
				break // already reported as oversize above
			}
			if why, ok := dropped[m.payload]; !ok {
				x.add("outbound.drop_not_reported", fmt.Sprintf("message of %d bytes (limit %d) silently discarded", m.full, M))
			} else if !strings.Contains(why, "packet size") {
				x.add("outbound.drop_reason", fmt.Sprintf("oversize message dropped with reason %q", why))
			}
		default:
			x.obs["outbound_either"]++
			if !got[m.payload] {
				if _, ok := dropped[m.payload]; !ok {
					x.add("outbound.drop_not_reported", fmt.Sprintf("message of %d bytes (limit %d) neither delivered nor reported dropped", m.full, M))
				}
			}
		}
	}
	if inflightBig != "" {
		sawSmall := false
		for _, r := range s.Publishes() {
			if strings.HasSuffix(string(r.P.Payload), "|inflight-small") {
				sawSmall = true
			}
		}
		if !sawSmall {
			x.add("outbound.inflight_not_retransmitted", "the unacknowledged (or still queued) message that fits the new connection's Maximum Packet Size did not arrive after the resume")
		}
		if !got[inflightBig] { // an oversize retransmission is reported above
			reported := false
			for _, e := range x.b.Log.Events()[inflightFrom:] {
				if e.Kind == "OnMsgDropped" && e.Client == x.id && e.Payload == inflightBig {
					reported = true
				}
			}
			if !reported {
				x.add("outbound.inflight_drop_not_reported", "the unacknowledged message that is too large for the new connection was neither retransmitted nor reported dropped")
			}
		}
	}
	if !alive(s) {
		x.add("outbound.dead", "connection did not stay up after oversize messages were dropped")
	}
	return nil
}

func runCase(c Case, idx int) (fs []finding, obs map[string]int, err error) {
	if verr := (config.MQTT{MaximumQoS: 2, MaxQueuedMsg: 1000, ReceiveMax: c.Cfg.ReceiveMax, MaxPacketSize: c.Cfg.MaxPacketSize, MaxInflight: c.Cfg.MaxInflight, DeliveryMode: config.OnlyOnce}).Validate(); verr != nil {
		return nil, nil, fmt.Errorf("config not accepted by the validator: %v", verr)
	}
	b, err := broker.Start(broker.Options{Cfg: func(cf *config.Config) {
		cf.MQTT.ReceiveMax = c.Cfg.ReceiveMax
		cf.MQTT.TopicAliasMax = c.Cfg.TopicAliasMax
		cf.MQTT.MaxPacketSize = c.Cfg.MaxPacketSize
		cf.MQTT.MaxInflight = c.Cfg.MaxInflight
		cf.MQTT.MessageExpiry = 0
		if err := cf.MQTT.Validate(); err != nil {
			panic(err)
		}
	}})
	if err != nil {
		return nil, nil, err
	}
	defer b.Stop(10 * time.Second)
	x := &ctx{b: b, c: c, id: fmt.Sprintf("c%d", idx), obs: map[string]int{}}
	switch c.Script {
	case "in_alias":
		err = x.inAlias()
	case "in_alias_over":
		err = x.inAliasOver()
	case "in_recvmax":
		err = x.inRecvMax()
	case "in_size":
		err = x.inSize()
	case "outbound":
		err = x.outbound(false)
	case "outbound_resume":
		err = x.outbound(true)
	case "outbound_resume_v3":
		x.firstV3 = true
		err = x.outbound(true)
	}
	for _, e := range b.Log.Events() {
		if e.Kind == "OnClosed" && (strings.Contains(e.Err, "runtime error") || strings.Contains(e.Err, "index out of range") || strings.Contains(e.Err, "nil pointer")) {
			x.add("broker.panic", fmt.Sprintf("connection of %s ended by a recovered panic: %s", e.Client, e.Err))
		}
	}
	return x.fs, x.obs, err
}

func allCases(r *monitor.Run) []Case {
	var cfgs []Cfg
	for _, rm := range []uint16{1, 2, 5, 100, 65535} {
		for _, ta := range []uint16{0, 1, 5, 10, 65535} {
			for _, mp := range []uint32{64, 300, 268435456} {
				for _, mi := range []uint16{1, 5, 100} {
					cfgs = append(cfgs, Cfg{rm, ta, mp, mi})
				}
			}
		}
	}
	var cs []Case
	ms := []uint32{48, 64, 200, 0}
	as := []uint16{0, 1, 3, 65535}
	for i, cf := range cfgs {
		for _, s := range []string{"in_alias", "in_alias_over", "in_recvmax", "in_size"} {
			cs = append(cs, Case{Cfg: cf, Script: s})
		}
		for k := 0; k < 4; k++ {
			cs = append(cs, Case{Cfg: cf, Script: "outbound", M: ms[(i+k)%4], A: as[(i/4+k)%4]})
		}
		for k := 0; k < 2; k++ {
			cs = append(cs, Case{Cfg: cf, Script: "outbound_resume", M: ms[(i+k)%4], A: as[(i/4+k+1)%4]})
		}
		cs = append(cs, Case{Cfg: cf, Script: "outbound_resume_v3", M: ms[(i+2)%3], A: as[(i/3)%4]})
	}
	if r.Quick() {
		rng := r.Rand("sample")
		rng.Shuffle(len(cs), func(i, j int) { cs[i], cs[j] = cs[j], cs[i] })
		// make sure every script and the extreme values appear
		keep := cs[:110]
		for _, c := range cs[110:] {
			if (c.Cfg.ReceiveMax == 65535 && c.Cfg.TopicAliasMax == 65535 && c.Script == "in_alias") || (c.Script == "outbound" && c.M == 48 && c.A == 65535 && c.Cfg.MaxInflight == 1) || (c.Script == "outbound_resume_v3" && c.Cfg.ReceiveMax == 5 && c.Cfg.MaxPacketSize == 300) {
				keep = append(keep, c)
				if len(keep) > 135 {
					break
				}
			}
		}
		cs = keep
	}
	return cs
}

// Run is the entry point.
// serialAtTheLimit: with server_receive_maximum = 1 a publisher that never has more than one QoS>0 publication
// outstanding (it waits for PUBACK / PUBCOMP before the next PUBLISH) stays within the limit and is never
// disconnected for it, however quickly the next PUBLISH follows the acknowledgement.
func serialAtTheLimit(r *monitor.Run) {
	b, err := broker.Start(broker.Options{Cfg: func(c *config.Config) { c.MQTT.ReceiveMax = 1 }})
	if err != nil {
		r.Inconclusive(err.Error())
		return
	}
	defer b.Stop(step)
	// more publishers than cores: the broker's read and write loops of a connection get descheduled between two steps
	// now and then, which is what a wrongly ordered pair of steps needs to show
	n := r.Pick(1000, 6000)
	var wg sync.WaitGroup
	for w := 0; w < 24; w++ {
		wg.Add(1)
		go func(w int) {
			defer wg.Done()
			c, err := wire.Dial("serial", b.Addr, mqttx.V5)
			if err != nil {
				r.Inconclusive(err.Error())
				return
			}
			defer c.Close()
			if _, err := c.Connect(&mqttx.Packet{ClientID: fmt.Sprintf("serial-%d", w), CleanStart: true}, step); err != nil {
				r.Inconclusive(err.Error())
				return
			}
			for i := 0; i < n; i++ {
				q := byte(1 + (i+w)%2)
				if _, err := c.Publish(&mqttx.Packet{Topic: "serial/t", QoS: q, Payload: []byte("x")}, step); err != nil {
					code := "none"
					for _, p := range c.Ctl() {
						if p.Type == mqttx.DISCONNECT {
							code = fmt.Sprintf("0x%02x", p.Code)
						}
					}
					r.Violation("inbound.quota_false_overrun:disconnect="+code, fmt.Sprintf("a publisher with at most one publication outstanding (server receive maximum 1) was cut off at publication %d (qos %d): %v, DISCONNECT %s", i, q, err, code), nil)
					return
				}
			}
			r.Count("serial_publications_at_receive_maximum_1", int64(n))
		}(w)
	}
	wg.Wait()
	r.Eval(1)
	r.Nontrivial("serial-at-the-limit")
}

// aliasAtLengthBoundaries: a new topic alias adds three bytes of property to a PUBLISH. Where that pushes the property
// length from one byte to two and the remaining length from two bytes to three, the packet grows by five. Messages are
// built so that this happens, for a subscriber whose Maximum Packet Size lies 0..6 bytes above the size without alias:
// whatever the broker decides about the alias, nothing larger than the declared maximum is sent, and a message that
// fits without alias is delivered or reported dropped.
func aliasAtLengthBoundaries(r *monitor.Run) {
	b, err := broker.Start(broker.Options{Cfg: func(c *config.Config) { c.MQTT.MessageExpiry = 0 }})
	if err != nil {
		r.Inconclusive(err.Error())
		return
	}
	defer b.Stop(step)
	for slack := 0; slack <= 6; slack++ {
		for propLen := 124; propLen <= 127; propLen++ {
			topic := fmt.Sprintf("ab/%d/%d", slack, propLen)
			// user property: 1 id + 2+len(k) + 2+len(v) bytes
			k := "k"
			v := strings.Repeat("v", propLen-1-2-len(k)-2)
			mk := func(payload int) *mqttx.Packet {
				return &mqttx.Packet{Type: mqttx.PUBLISH, Topic: topic, QoS: 1, PacketID: 1, Payload: bytes.Repeat([]byte("p"), payload), Props: &mqttx.Props{User: []mqttx.UserProp{{K: k, V: v}}}}
			}
			// remaining length 16383 exactly (two-byte varint at its maximum)
			base := mqttx.Size(mk(0), mqttx.V5)
			pl := 16383 + 3 - base
			if pl < 0 {
				continue
			}
			for mqttx.Size(mk(pl), mqttx.V5) > 16383+3 {
				pl--
			}
			for mqttx.Size(mk(pl), mqttx.V5) < 16383+3 {
				pl++
			}
			size := mqttx.Size(mk(pl), mqttx.V5)
			M := uint32(size + slack)
			A := uint16(4)
			id := fmt.Sprintf("ab-%d-%d", slack, propLen)
			c, err := wire.Dial(id, b.Addr, mqttx.V5)
			if err != nil {
				r.Inconclusive(err.Error())
				return
			}
			if _, err := c.Connect(&mqttx.Packet{ClientID: id, CleanStart: true, Props: &mqttx.Props{MaxPacketSize: &M, TopicAliasMax: &A}}, step); err != nil {
				r.Inconclusive(err.Error())
				c.Close()
				return
			}
			if _, err := c.Subscribe([]mqttx.Sub{{Filter: "ab/#", QoS: 1}}, 0, step); err != nil {
				r.Inconclusive(err.Error())
				c.Close()
				return
			}
			from := b.Log.Len()
			b.Srv.Publisher().Publish(&gmqtt.Message{Topic: topic, Payload: bytes.Repeat([]byte("p"), pl), QoS: 1, UserProperties: []packets.UserProperty{{K: []byte(k), V: []byte(v)}}})
			b.Srv.Publisher().Publish(&gmqtt.Message{Topic: "ab/end", Payload: []byte("end"), QoS: 1})
			err = c.WaitPayload("end", step)
			r.Eval(1)
			got := false
			for _, rec := range c.Publishes() {
				if uint32(rec.Size) > M {
					r.Violation(fmt.Sprintf("outbound.oversize_at_length_boundary:excess=%d:slack=%d:aliased=%v", rec.Size-int(M), slack, rec.P.Props != nil && rec.P.Props.TopicAlias != nil), fmt.Sprintf("a PUBLISH of %d bytes was sent to a client whose Maximum Packet Size is %d (message of %d bytes without alias, property length %d, remaining length 16383: a new alias makes it 5 bytes longer)", rec.Size, M, size, propLen), nil)
				}
				if len(rec.P.Payload) == pl {
					got = true
				}
			}
			if err != nil {
				r.Violation("outbound.dead_at_length_boundary", fmt.Sprintf("the connection did not deliver the small message that followed: %v (ctl %v)", err, c.Ctl()), nil)
			} else if !got {
				dropped := false
				for _, e := range b.Log.Events()[from:] {
					if e.Kind == "OnMsgDropped" && e.Client == id {
						dropped = true
					}
				}
				if !dropped {
					r.Violation("outbound.missing_at_length_boundary", fmt.Sprintf("a message of %d bytes (limit %d) was neither delivered nor reported dropped", size, M), nil)
				}
			}
			c.Close()
			r.Count("outbound_alias_length_boundary_cases", 1)
			r.Nontrivial(id)
		}
	}
}

// subscriptionIdentifiersAtTheLimit: the Subscription Identifier property is added by the broker on the way out (one per matching
// subscription of the receiver), so it belongs to the size of the packet the client is sent but not to the message the publisher
// sent. For identifiers of every varint width, one and two matching subscriptions, with and without outbound aliases, messages
// whose outgoing size (identifiers included, no alias) is M-8..M+1: no packet larger than M arrives, what does not arrive is
// reported dropped, and the connection lives on.
func subscriptionIdentifiersAtTheLimit(r *monitor.Run) {
	b, err := broker.Start(broker.Options{Cfg: func(c *config.Config) { c.MQTT.MessageExpiry = 0 }})
	if err != nil {
		r.Inconclusive(err.Error())
		return
	}
	defer b.Stop(step)
	type variant struct {
		ids   []uint32
		alias uint16
	}
	vs := []variant{
		{[]uint32{5}, 4}, {[]uint32{200}, 4}, {[]uint32{20000}, 4}, {[]uint32{3000000}, 4}, {[]uint32{268435455}, 4},
		{[]uint32{5, 268435455}, 4}, {[]uint32{127, 128}, 4}, {[]uint32{128}, 0}, {[]uint32{16384}, 0}, {[]uint32{2097152}, 4}, {[]uint32{268435455}, 0}, {[]uint32{16384, 16383}, 0},
	}
	for vi, v := range vs {
		const M = uint32(100)
		id := fmt.Sprintf("si-%d", vi)
		c, err := wire.Dial(id, b.Addr, mqttx.V5)
		if err != nil {
			r.Inconclusive(err.Error())
			return
		}
		m := M
		props := &mqttx.Props{MaxPacketSize: &m}
		if v.alias > 0 {
			a := v.alias
			props.TopicAliasMax = &a
		}
		if _, err := c.Connect(&mqttx.Packet{ClientID: id, CleanStart: true, Props: props}, step); err != nil {
			r.Inconclusive(err.Error())
			c.Close()
			return
		}
		filters := []string{"si/" + id + "/#", "si/" + id + "/+"}
		for i, sid := range v.ids {
			if _, err := c.Subscribe([]mqttx.Sub{{Filter: filters[i], QoS: 1}}, sid, step); err != nil {
				r.Inconclusive(err.Error())
				c.Close()
				return
			}
		}
		for slack := -1; slack <= 8; slack++ {
			topic := fmt.Sprintf("si/%s/%d", id, slack+1)
			mk := func(payload int) *mqttx.Packet {
				return &mqttx.Packet{Type: mqttx.PUBLISH, Topic: topic, QoS: 1, PacketID: 1, Payload: bytes.Repeat([]byte("p"), payload), Props: &mqttx.Props{SubscriptionIDs: v.ids}}
			}
			pl := int(M) - slack - mqttx.Size(mk(0), mqttx.V5)
			if pl < 1 {
				continue
			}
			size := mqttx.Size(mk(pl), mqttx.V5)
			from := b.Log.Len()
			seen := len(c.Publishes())
			b.Srv.Publisher().Publish(&gmqtt.Message{Topic: topic, Payload: bytes.Repeat([]byte("p"), pl), QoS: 1})
			b.Srv.Publisher().Publish(&gmqtt.Message{Topic: topic, Payload: []byte(fmt.Sprintf("end%d", slack)), QoS: 1})
			err = c.WaitPayload(fmt.Sprintf("end%d", slack), step)
			r.Eval(1)
			got := false
			for _, rec := range c.Publishes()[seen:] {
				aliased := rec.P.Props != nil && rec.P.Props.TopicAlias != nil
				if uint32(rec.Size) > M {
					r.Violation(fmt.Sprintf("outbound.oversize_with_subscription_identifier:excess=%d:ids=%d:aliased=%v", rec.Size-int(M), len(v.ids), aliased), fmt.Sprintf("a PUBLISH of %d bytes was sent to a client whose Maximum Packet Size is %d (subscription identifiers %v, %d bytes with them and without alias)", rec.Size, M, v.ids, size), nil)
				}
				if len(rec.P.Payload) == pl {
					got = true
					n := 0
					if rec.P.Props != nil {
						n = len(rec.P.Props.SubscriptionIDs)
					}
					if n != len(v.ids) {
						r.Inconclusive(fmt.Sprintf("subscription identifiers: expected %d in the PUBLISH, saw %d", len(v.ids), n))
					}
				}
			}
			if err != nil {
				r.Violation("outbound.dead_with_subscription_identifier", fmt.Sprintf("the connection did not deliver the small message that followed: %v (ctl %v)", err, c.Ctl()), nil)
				break
			}
			dropped := false
			for _, e := range b.Log.Events()[from:] {
				if e.Kind == "OnMsgDropped" && e.Client == id {
					dropped = true
				}
			}
			switch {
			case !got && !dropped:
				r.Violation("outbound.missing_with_subscription_identifier", fmt.Sprintf("a message of %d bytes (limit %d, identifiers %v) was neither delivered nor reported dropped", size, M, v.ids), nil)
			case !got && uint32(size) <= M:
				// not this property's business (a loss is C01's), counted only
				r.Count("outbound_subscription_identifier_dropped_although_fitting", 1)
			}
			r.Count("outbound_subscription_identifier_cases", 1)
			if got {
				r.Count("outbound_subscription_identifier_delivered", 1)
			}
		}
		c.Close()
		r.Nontrivial(id)
	}
}

// lengthFieldBoundaries: the size the broker computes for a message decides whether it is sent; where a length field of the
// packet (remaining length, property length) sits exactly on a boundary of the variable byte integer encoding (127|128,
// 16383|16384) an error of one byte in that computation sends a packet of M+1 bytes or drops one of M bytes. For each such
// length: a subscriber declaring exactly the packet's size receives it, one declaring a byte less never sees a packet above
// its limit and the message is reported dropped.
func lengthFieldBoundaries(r *monitor.Run) {
	b, err := broker.Start(broker.Options{Cfg: func(c *config.Config) { c.MQTT.MessageExpiry = 0 }})
	if err != nil {
		r.Inconclusive(err.Error())
		return
	}
	defer b.Stop(step)
	type shape struct {
		what    string
		rl      int // wanted remaining length (0: do not care)
		propLen int // wanted property length (0: none)
	}
	var shapes []shape
	for _, rl := range []int{126, 127, 128, 129, 16382, 16383, 16384, 16385} {
		shapes = append(shapes, shape{what: fmt.Sprintf("remaining_length_%d", rl), rl: rl})
	}
	for _, pl := range []int{126, 127, 128, 129} {
		shapes = append(shapes, shape{what: fmt.Sprintf("property_length_%d", pl), propLen: pl})
		shapes = append(shapes, shape{what: fmt.Sprintf("property_length_%d_remaining_length_16384", pl), propLen: pl, rl: 16384})
	}
	for si, sh := range shapes {
		topic := fmt.Sprintf("lf/%d", si)
		var user []mqttx.UserProp
		var guser []packets.UserProperty
		if sh.propLen > 0 {
			k := "k"
			v := strings.Repeat("v", sh.propLen-1-2-len(k)-2)
			user = []mqttx.UserProp{{K: k, V: v}}
			guser = []packets.UserProperty{{K: []byte(k), V: []byte(v)}}
		}
		mk := func(payload int) *mqttx.Packet {
			return &mqttx.Packet{Type: mqttx.PUBLISH, Topic: topic, QoS: 1, PacketID: 1, Payload: bytes.Repeat([]byte("p"), payload), Props: &mqttx.Props{User: user}}
		}
		pl := 10
		if sh.rl > 0 {
			// size = 1 + len(varint(rl)) + rl
			hdr := 2
			if sh.rl > 127 {
				hdr = 3
			}
			if sh.rl > 16383 {
				hdr = 4
			}
			pl = sh.rl
			for pl > 0 && mqttx.Size(mk(pl), mqttx.V5) > sh.rl+hdr {
				pl--
			}
			for mqttx.Size(mk(pl), mqttx.V5) < sh.rl+hdr {
				pl++
			}
			if mqttx.Size(mk(pl), mqttx.V5) != sh.rl+hdr {
				r.Inconclusive(fmt.Sprintf("length boundaries: cannot build %s", sh.what))
				continue
			}
		}
		size := mqttx.Size(mk(pl), mqttx.V5)
		for _, d := range []int{0, -1} {
			M := uint32(size + d)
			id := fmt.Sprintf("lf-%d-%d", si, -d)
			c, err := wire.Dial(id, b.Addr, mqttx.V5)
			if err != nil {
				r.Inconclusive(err.Error())
				return
			}
			if _, err := c.Connect(&mqttx.Packet{ClientID: id, CleanStart: true, Props: &mqttx.Props{MaxPacketSize: &M}}, step); err != nil {
				r.Inconclusive(err.Error())
				c.Close()
				return
			}
			if _, err := c.Subscribe([]mqttx.Sub{{Filter: topic, QoS: 1}, {Filter: "lfend/" + id, QoS: 1}}, 0, step); err != nil {
				r.Inconclusive(err.Error())
				c.Close()
				return
			}
			from := b.Log.Len()
			b.Srv.Publisher().Publish(&gmqtt.Message{Topic: topic, Payload: bytes.Repeat([]byte("p"), pl), QoS: 1, UserProperties: guser})
			b.Srv.Publisher().Publish(&gmqtt.Message{Topic: "lfend/" + id, Payload: []byte("end"), QoS: 1})
			err = c.WaitPayload("end", step)
			r.Eval(1)
			got := false
			for _, rec := range c.Publishes() {
				if uint32(rec.Size) > M {
					r.Violation(fmt.Sprintf("outbound.oversize_at_varint_boundary:%s:excess=%d", sh.what, rec.Size-int(M)), fmt.Sprintf("a PUBLISH of %d bytes was sent to a client whose Maximum Packet Size is %d (%s)", rec.Size, M, sh.what), nil)
				}
				if len(rec.P.Payload) == pl && rec.P.Topic == topic {
					got = true
				}
			}
			dropped := false
			for _, e := range b.Log.Events()[from:] {
				if e.Kind == "OnMsgDropped" && e.Client == id {
					dropped = true
				}
			}
			switch {
			case err != nil:
				r.Violation("outbound.dead_at_varint_boundary:"+sh.what, fmt.Sprintf("the connection did not deliver the small message that followed: %v (ctl %v)", err, c.Ctl()), nil)
			case !got && !dropped:
				r.Violation("outbound.missing_at_varint_boundary:"+sh.what, fmt.Sprintf("a message of %d bytes (limit %d) was neither delivered nor reported dropped", size, M), nil)
			case d == 0 && !got:
				// it fits: dropping it is a loss (C01's business), counted here
				r.Count("outbound_varint_boundary_dropped_although_fitting", 1)
			}
			c.Close()
			r.Count("outbound_varint_boundary_cases", 1)
			r.Nontrivial(id)
		}
	}
}

func Run(r *monitor.Run) {
	lengthFieldBoundaries(r)
	subscriptionIdentifiersAtTheLimit(r)
	aliasAtLengthBoundaries(r)
	serialAtTheLimit(r)
	cs := allCases(r)
	r.Parallel(len(cs), 16, func(i int) {
		c := cs[i]
		fs, obs, err := runCase(c, i)
		r.Eval(1)
		if err != nil {
			r.Inconclusive(fmt.Sprintf("case %d %v: %v", i, c, err))
			return
		}
		for _, f := range fs {
			r.Violation(f.Sig, f.What, map[string]any{"case": c})
		}
		for k, v := range obs {
			r.Count(k, int64(v))
		}
		r.Count("script_"+c.Script, 1)
		r.Distinct("configurations", fmt.Sprint(c.Cfg))
		r.Nontrivial(monitor.J(c))
		if i == 0 {
			r.Sample(c)
		}
	})
}

// Replay re-runs one case.
func Replay(r *monitor.Run, detail []byte) {
	var d struct{ Case Case }
	if err := json.Unmarshal(detail, &d); err != nil {
		fmt.Println("replay:", err)
		return
	}
	fs, _, err := runCase(d.Case, 1)
	if err != nil {
		fmt.Println("replay: harness error:", err)
	}
	for _, f := range fs {
		r.Violation(f.Sig, f.What, nil)
	}
}
