// Package c10: session message queue - bounded, FIFO, conserving, documented
// drop priority (DESIGN.md §5 C10). Pure API histories against a validating model.
package c10

import (
	"errors"
	"fmt"
	"math"
	"math/rand"
	"strings"
	"sync"
	"time"

	"github.com/DrmagicE/gmqtt"
	"github.com/DrmagicE/gmqtt/persistence/queue"
	memq "github.com/DrmagicE/gmqtt/persistence/queue/mem"
	"github.com/DrmagicE/gmqtt/pkg/packets"

	"verif/harness/monitor"
)

// Factory creates a queue store under test.
type Factory struct {
	Name string
	New  func(capacity int, inflightExpiry time.Duration, clientID string, def queue.Notifier) (queue.Store, func(), error)
	// Reopen (durable back ends only) builds a new store object over what the back end holds for clientID - what a
	// broker does for every stored session when it starts. The old object is abandoned, as in a crash.
	Reopen func(capacity int, inflightExpiry time.Duration, clientID string, def queue.Notifier) (queue.Store, error)
	// Refuse (durable back ends only): the back end answers the next command of that name with an error reply and
	// does not execute it.
	Refuse func(cmd string)
}

// ExtraFactories: redis back end registers itself here.
var ExtraFactories []Factory

// ---- recording notifier -------------------------------------------------

type dropRec struct {
	Payload  string // "" for pubrel
	PubrelID uint16
	Err      error
}

type recNotifier struct {
	mu    sync.Mutex
	drops []dropRec
	qsum  int
	isum  int
}

func (n *recNotifier) NotifyDropped(e *queue.Elem, err error) {
	n.mu.Lock()
	defer n.mu.Unlock()
	d := dropRec{Err: err}
	switch m := e.MessageWithID.(type) {
	case *queue.Publish:
		d.Payload = string(m.Payload)
	case *queue.Pubrel:
		d.PubrelID = m.PacketID
	}
	n.drops = append(n.drops, d)
}
func (n *recNotifier) NotifyInflightAdded(d int) { n.mu.Lock(); n.isum += d; n.mu.Unlock() }
func (n *recNotifier) NotifyMsgQueueAdded(d int) { n.mu.Lock(); n.qsum += d; n.mu.Unlock() }
func (n *recNotifier) take() []dropRec {
	n.mu.Lock()
	defer n.mu.Unlock()
	d := n.drops
	n.drops = nil
	return d
}

// ---- operations -----------------------------------------------------------

type qop struct {
	Kind    string   // add | read | readinflight | remove | replace | init | close | reopen
	Payload string   `json:",omitempty"`
	QoS     byte     `json:",omitempty"`
	Exp     int      `json:",omitempty"` // -1 expired an hour ago, 0 none, +1 in one hour
	Pad     int      `json:",omitempty"` // payload padding to reach a size
	IDs     []uint16 `json:",omitempty"`
	N       uint     `json:",omitempty"`
	ID      uint16   `json:",omitempty"`
	Clean   bool     `json:",omitempty"`
	Version byte     `json:",omitempty"`
	Limit   uint32   `json:",omitempty"`
}

func (o qop) String() string {
	switch o.Kind {
	case "add":
		return fmt.Sprintf("add(%s,q%d,exp%d,pad%d)", o.Payload, o.QoS, o.Exp, o.Pad)
	case "read":
		return fmt.Sprintf("read(%v)", o.IDs)
	case "readinflight":
		return fmt.Sprintf("readinflight(%d)", o.N)
	case "remove":
		return fmt.Sprintf("remove(%d)", o.ID)
	case "replace":
		return fmt.Sprintf("replace(%d)", o.ID)
	case "init":
		return fmt.Sprintf("init(clean=%v,v%d,limit=%d)", o.Clean, o.Version, o.Limit)
	}
	return o.Kind
}

// ---- model ------------------------------------------------------------------

type ent struct {
	Payload string // unique tag (without padding)
	Full    int    // full payload length
	QoS     byte
	ID      uint16
	Read    bool // handed out (in flight)
	Pubrel  bool
	MsgExp  int  // -1 / 0 / +1
	InflExp bool // in-flight deadline passed
}

type model struct {
	cap      int
	inflExp  int // sign of InflightExpiry
	ents     []*ent
	replayed int // entries replayed in this epoch (drain phase cursor)
	drained  bool
	closed   bool
	inited   bool
	version  byte
	limit    uint32
	ledger   map[string]string // payload tag -> state
}

const topic = "t/q"

func pubSize(e *ent, version byte) uint32 {
	rem := 2 + len(topic) + e.Full
	if e.QoS > 0 {
		rem += 2
	}
	if version == 5 {
		rem++ // empty property length
	}
	switch {
	case rem <= 127:
		return uint32(2 + rem)
	case rem <= 16383:
		return uint32(3 + rem)
	case rem <= 2097151:
		return uint32(4 + rem)
	}
	return uint32(5 + rem)
}

func (m *model) oversize(e *ent) bool { return pubSize(e, m.version) > m.limit }
func (m *model) queued() []*ent {
	var q []*ent
	for _, e := range m.ents {
		if !e.Read {
			q = append(q, e)
		}
	}
	return q
}
func (m *model) inflight() []*ent {
	var q []*ent
	for _, e := range m.ents {
		if e.Read {
			q = append(q, e)
		}
	}
	return q
}
func (m *model) remove(e *ent) {
	for i, x := range m.ents {
		if x == e {
			if i < m.replayed {
				m.replayed--
			}
			m.ents = append(m.ents[:i], m.ents[i+1:]...)
			return
		}
	}
}
func (m *model) phase() string {
	if !m.inited {
		return "uninit"
	}
	if m.closed {
		if m.drained {
			return "closed"
		}
		return "closed_undrained"
	}
	if !m.drained {
		return "draining"
	}
	return "steady"
}
func (m *model) state() string {
	var sb strings.Builder
	for _, e := range m.ents {
		fmt.Fprintf(&sb, "%d%v%v%d%v|", e.QoS, e.Read, e.Pubrel, e.MsgExp, e.InflExp)
	}
	fmt.Fprintf(&sb, "c%d p%s", m.cap, m.phase())
	return sb.String()
}

// ---- runner -------------------------------------------------------------------

type runner struct {
	r    *monitor.Run
	fac  Factory
	base time.Time
	hist []qop
	m    *model
	n    *recNotifier
	st   queue.Store
	dead bool // model and implementation diverged beyond repair: stop this history
	id       string
	ie       time.Duration
	reopened int
	// packet identifiers whose in-flight entry the queue sacrificed: the client may still acknowledge them
	sacrificed []uint16
}

func (rn *runner) viol(kind, what string, extra map[string]any) {
	sig := fmt.Sprintf("%s:store=%s:phase=%s", kind, rn.fac.Name, rn.m.phase())
	hs := make([]string, len(rn.hist))
	for i, o := range rn.hist {
		hs[i] = o.String()
	}
	d := map[string]any{"store": rn.fac.Name, "capacity": rn.m.cap, "inflight_expiry_sign": rn.m.inflExp, "history": rn.hist, "history_text": hs, "model_state": rn.m.state()}
	for k, v := range extra {
		d[k] = v
	}
	rn.r.Violation(sig, what+" (after "+hs[len(hs)-1]+")", d)
}

func (rn *runner) mkElem(o qop) *queue.Elem {
	payload := o.Payload
	if o.Pad > 0 {
		payload += strings.Repeat("x", o.Pad)
	}
	var exp time.Time
	switch o.Exp {
	case -1:
		exp = rn.base.Add(-time.Hour)
	case 1:
		exp = rn.base.Add(time.Hour)
	}
	return &queue.Elem{At: rn.base, Expiry: exp, MessageWithID: &queue.Publish{Message: &gmqtt.Message{
		Topic: topic, Payload: []byte(payload), QoS: o.QoS,
	}}}
}

func tagOf(payload string) string {
	if i := strings.IndexByte(payload, 'x'); i >= 0 {
		return payload[:i]
	}
	return payload
}

func classOf(m *model, e *ent, newcomer *ent) string {
	switch {
	case e == newcomer:
		return "newcomer"
	case e.Read && e.InflExp:
		return "expired_inflight"
	case e.Read:
		return "live_inflight"
	case e.MsgExp < 0:
		return "expired_queued"
	case e.QoS == 0:
		return "queued_qos0"
	case len(m.queued()) > 0 && m.queued()[0] == e:
		return "oldest_queued"
	}
	return "other_queued"
}

func (rn *runner) checkCounters() {
	m, n := rn.m, rn.n
	n.mu.Lock()
	q, i := n.qsum, n.isum
	n.mu.Unlock()
	if q != len(m.ents) {
		rn.viol("counter.queue", fmt.Sprintf("queue counter (sum of NotifyMsgQueueAdded)=%d, true contents=%d", q, len(m.ents)), nil)
		n.mu.Lock()
		n.qsum = len(m.ents) // adopt, keep checking
		n.mu.Unlock()
	}
	if i != len(m.inflight()) {
		rn.viol("counter.inflight", fmt.Sprintf("in-flight counter (sum of NotifyInflightAdded)=%d, true in-flight entries=%d", i, len(m.inflight())), nil)
		n.mu.Lock()
		n.isum = len(m.inflight())
		n.mu.Unlock()
	}
	if len(m.ents) > m.cap {
		rn.viol("bound", fmt.Sprintf("queue length %d exceeds capacity %d", len(m.ents), m.cap), nil)
	}
}

func (rn *runner) setLedger(tag, state string) {
	old := rn.m.ledger[tag]
	// legal transitions
	ok := false
	switch state {
	case "queued":
		ok = old == ""
	case "handed":
		ok = old == "queued"
	case "inflight":
		ok = old == "queued"
	case "acked":
		ok = old == "inflight"
	case "dropped":
		ok = old == "queued" || old == "inflight" || old == ""
	}
	if !ok {
		rn.viol("conservation", fmt.Sprintf("message %s goes from %q to %q", tag, old, state), nil)
	}
	rn.m.ledger[tag] = state
}

func errName(err error) string {
	switch {
	case err == nil:
		return "nil"
	case errors.Is(err, queue.ErrDropExpiredInflight):
		return "expired_inflight"
	case errors.Is(err, queue.ErrDropExpired):
		return "expired"
	case errors.Is(err, queue.ErrDropQueueFull):
		return "queue_full"
	case errors.Is(err, queue.ErrDropExceedsMaxPacketSize):
		return "oversize"
	case errors.Is(err, queue.ErrClosed):
		return "closed"
	}
	return "other"
}

func (rn *runner) findByDrop(d dropRec) *ent {
	for _, e := range rn.m.ents {
		if d.Payload != "" && !e.Pubrel && e.Payload == tagOf(d.Payload) {
			return e
		}
		if d.Payload == "" && e.Pubrel && e.ID == d.PubrelID {
			return e
		}
	}
	return nil
}

func (rn *runner) doAdd(o qop) {
	m := rn.m
	el := rn.mkElem(o)
	ne := &ent{Payload: o.Payload, Full: len(o.Payload) + o.Pad, QoS: o.QoS, MsgExp: o.Exp}
	err := rn.st.Add(el)
	drops := rn.n.take()
	if err != nil {
		rn.viol("add.error", "Add returned "+err.Error(), nil)
	}
	if len(m.ents) < m.cap {
		m.ents = append(m.ents, ne)
		rn.setLedger(ne.Payload, "queued")
		if len(drops) != 0 {
			rn.viol("add.spurious_drop", fmt.Sprintf("Add below capacity reported %d drops (%s %s)", len(drops), tagOf(drops[0].Payload), errName(drops[0].Err)), nil)
			for _, d := range drops { // adopt
				if e := rn.findByDrop(d); e != nil {
					m.remove(e)
					rn.setLedger(e.Payload, "dropped")
				}
			}
		}
		return
	}
	// full: exactly one victim
	if len(drops) != 1 {
		rn.viol("add.full_drop_count", fmt.Sprintf("Add on a full queue reported %d drops, want 1", len(drops)), nil)
		if len(drops) == 0 {
			// silently gone or over capacity: assume the newcomer was stored (bound check will fire)
			m.ents = append(m.ents, ne)
			rn.setLedger(ne.Payload, "queued")
			return
		}
	}
	d := drops[0]
	var victim *ent
	if d.Payload != "" && tagOf(d.Payload) == ne.Payload {
		victim = ne
	} else {
		victim = rn.findByDrop(d)
	}
	if victim == nil {
		rn.viol("add.unknown_victim", fmt.Sprintf("dropped element %q/%d is not in the queue", tagOf(d.Payload), d.PubrelID), nil)
		rn.dead = true
		return
	}
	// allowed class per the documented priority
	var ei, eq, q0 []*ent
	for _, e := range m.ents {
		switch {
		case e.Read && e.InflExp:
			ei = append(ei, e)
		case !e.Read && e.MsgExp < 0:
			eq = append(eq, e)
		case !e.Read && e.QoS == 0:
			q0 = append(q0, e)
		}
	}
	queued := m.queued()
	wantClass, wantReason := "", "queue_full"
	in := func(set []*ent) bool {
		for _, e := range set {
			if e == victim {
				return true
			}
		}
		return false
	}
	ok := false
	switch {
	case len(ei) > 0:
		wantClass, wantReason, ok = "expired_inflight", "expired_inflight", in(ei)
	case len(eq) > 0:
		wantClass, wantReason, ok = "expired_queued", "expired", in(eq)
	case len(q0) > 0:
		wantClass, ok = "queued_qos0", in(q0)
	case ne.QoS == 0 || len(queued) == 0:
		wantClass, ok = "newcomer", victim == ne
	default:
		wantClass, ok = "oldest_queued", victim == queued[0]
	}
	gotClass := classOf(m, victim, ne)
	if !ok {
		frontPubrel := len(m.ents) > 0 && m.ents[0].Pubrel
		rn.viol(fmt.Sprintf("add.drop_priority:want=%s:got=%s:front_pubrel=%v", wantClass, gotClass, frontPubrel),
			fmt.Sprintf("full queue sacrificed a %s entry (%s) although the documented priority demands %s", gotClass, victim.Payload, wantClass),
			map[string]any{"victim": victim, "want_class": wantClass})
	} else if errName(d.Err) != wantReason {
		rn.viol(fmt.Sprintf("add.drop_reason:class=%s:got=%s:want=%s", wantClass, errName(d.Err), wantReason),
			fmt.Sprintf("victim class %s reported with reason %s", wantClass, errName(d.Err)), nil)
	}
	// adopt the observed outcome
	if victim == ne {
		rn.setLedger(ne.Payload, "dropped")
		return
	}
	if victim.ID != 0 {
		rn.sacrificed = append(rn.sacrificed, victim.ID)
	}
	m.remove(victim)
	if !victim.Pubrel {
		rn.setLedger(victim.Payload, "dropped")
	}
	m.ents = append(m.ents, ne)
	rn.setLedger(ne.Payload, "queued")
}

func (rn *runner) doRead(o qop) {
	m := rn.m
	type res struct {
		el  []*queue.Elem
		err error
	}
	ch := make(chan res, 1)
	go func() {
		defer func() {
			if p := recover(); p != nil {
				ch <- res{nil, fmt.Errorf("panic: %v", p)}
			}
		}()
		el, err := rn.st.Read(o.IDs)
		ch <- res{el, err}
	}()
	var rs res
	select {
	case rs = <-ch:
	case <-time.After(20 * time.Second):
		rn.viol("read.blocked", "Read blocks although unread messages exist (20 s watchdog)", nil)
		rn.dead = true
		_ = rn.st.Close()
		return
	}
	drops := rn.n.take()
	if m.closed {
		if !errors.Is(rs.err, queue.ErrClosed) {
			rn.viol("read.closed", fmt.Sprintf("Read on a closed queue returned err=%v, %d elems; want ErrClosed", rs.err, len(rs.el)), nil)
		}
		return
	}
	if rs.err != nil {
		rn.viol("read.error", "Read returned "+rs.err.Error(), nil)
		rn.dead = true
		return
	}
	ri, k := 0, 0
	dropped := map[int]bool{}
	consumed := 0
	for _, e := range m.queued() {
		if ri < len(rs.el) {
			p, isPub := rs.el[ri].MessageWithID.(*queue.Publish)
			if isPub && tagOf(string(p.Payload)) == e.Payload {
				ri++
				consumed++
				if e.MsgExp < 0 {
					rn.viol("read.returned_expired", "Read returned expired message "+e.Payload, nil)
				}
				if m.oversize(e) {
					rn.viol("read.returned_oversize", fmt.Sprintf("Read returned message %s of %d bytes, limit %d", e.Payload, pubSize(e, m.version), m.limit), nil)
				}
				if len(p.Payload) != e.Full || p.QoS != e.QoS || p.Topic != topic {
					rn.viol("read.content", fmt.Sprintf("Read returned altered message %s: len %d/%d qos %d/%d topic %q", e.Payload, len(p.Payload), e.Full, p.QoS, e.QoS, p.Topic), nil)
				}
				if e.QoS > 0 {
					if k >= len(o.IDs) {
						rn.viol("read.too_many", fmt.Sprintf("Read returned more QoS>0 messages than the %d supplied ids", len(o.IDs)), nil)
						rn.dead = true
						return
					}
					if p.PacketID != o.IDs[k] {
						rn.viol("read.id_order", fmt.Sprintf("message %s got id %d, want %d (ids in order)", e.Payload, p.PacketID, o.IDs[k]), nil)
					}
					e.ID = p.PacketID
					k++
					e.Read = true
					m.replayed++ // handed out in this epoch: addressable by Remove/Replace
					e.InflExp = m.inflExp < 0
					rn.setLedger(e.Payload, "inflight")
				} else {
					if p.PacketID != 0 {
						rn.viol("read.qos0_id", fmt.Sprintf("QoS 0 message %s got packet id %d", e.Payload, p.PacketID), nil)
					}
					m.remove(e)
					rn.setLedger(e.Payload, "handed")
				}
				continue
			}
		}
		// not the next returned element: it must have been dropped, or the batch ends here
		found := -1
		for di, d := range drops {
			if !dropped[di] && d.Payload != "" && tagOf(d.Payload) == e.Payload {
				found = di
				break
			}
		}
		if found < 0 {
			break
		}
		dropped[found] = true
		consumed++
		reason := errName(drops[found].Err)
		switch {
		case e.MsgExp < 0 && reason == "expired", m.oversize(e) && reason == "oversize":
		case e.MsgExp < 0 || m.oversize(e):
			rn.viol("read.drop_reason:got="+reason, fmt.Sprintf("message %s dropped during Read with reason %s (expired=%v oversize=%v)", e.Payload, reason, e.MsgExp < 0, m.oversize(e)), nil)
		default:
			rn.viol("read.wrong_drop:got="+reason, fmt.Sprintf("deliverable message %s was dropped during Read (%s)", e.Payload, reason), nil)
		}
		m.remove(e)
		rn.setLedger(e.Payload, "dropped")
	}
	if ri != len(rs.el) {
		var desc string
		if p, ok := rs.el[ri].MessageWithID.(*queue.Publish); ok {
			desc = tagOf(string(p.Payload))
		} else {
			desc = fmt.Sprintf("pubrel %d", rs.el[ri].ID())
		}
		rn.viol("read.order", fmt.Sprintf("Read returned %s out of insertion order / not queued (position %d of %d)", desc, ri, len(rs.el)), nil)
		rn.dead = true
		return
	}
	if len(dropped) != len(drops) {
		rn.viol("read.unknown_drop", fmt.Sprintf("Read reported %d drops, %d explained", len(drops), len(dropped)), nil)
		rn.dead = true
		return
	}
	if consumed == 0 && len(o.IDs) > 0 {
		rn.viol("read.no_progress", "Read returned nothing and dropped nothing although unread messages exist", nil)
	}
}

func (rn *runner) doReadInflight(o qop) {
	m := rn.m
	el, err := rn.st.ReadInflight(o.N)
	drops := rn.n.take()
	if err != nil {
		rn.viol("readinflight.error", err.Error(), nil)
		rn.dead = true
		return
	}
	if len(drops) > 0 {
		rn.viol("readinflight.drop", "ReadInflight reported drops", nil)
	}
	infl := m.inflight()
	pending := infl[min(m.replayed, len(infl)):]
	if len(el) > int(o.N) {
		rn.viol("readinflight.too_many", fmt.Sprintf("returned %d > maxSize %d", len(el), o.N), nil)
	}
	if len(el) > len(pending) {
		rn.viol("readinflight.extra", fmt.Sprintf("replayed %d entries, only %d unacknowledged in-flight entries remain", len(el), len(pending)), nil)
		rn.dead = true
		return
	}
	if len(el) == 0 && len(pending) > 0 {
		rn.viol("readinflight.missing", fmt.Sprintf("replay ended although %d unacknowledged in-flight entries were not replayed (first id %d)", len(pending), pending[0].ID), nil)
		// adopt: those entries are lost for the implementation; drop them from the model
		for _, e := range pending {
			m.remove(e)
			if !e.Pubrel {
				m.ledger[e.Payload] = "lost"
			}
		}
		rn.n.mu.Lock()
		rn.n.qsum, rn.n.isum = len(m.ents), len(m.inflight())
		rn.n.mu.Unlock()
	}
	for i, x := range el {
		e := pending[i]
		switch p := x.MessageWithID.(type) {
		case *queue.Publish:
			if e.Pubrel || tagOf(string(p.Payload)) != e.Payload || p.PacketID != e.ID {
				rn.viol("readinflight.mismatch", fmt.Sprintf("replay #%d is publish %s id %d, want %s id %d pubrel=%v", i, tagOf(string(p.Payload)), p.PacketID, e.Payload, e.ID, e.Pubrel), nil)
				rn.dead = true
				return
			}
			if len(p.Payload) != e.Full || p.QoS != e.QoS {
				rn.viol("readinflight.content", fmt.Sprintf("replayed message %s altered: len %d/%d qos %d/%d", e.Payload, len(p.Payload), e.Full, p.QoS, e.QoS), nil)
			}
		case *queue.Pubrel:
			if !e.Pubrel || p.PacketID != e.ID {
				rn.viol("readinflight.mismatch", fmt.Sprintf("replay #%d is pubrel id %d, want %s id %d pubrel=%v", i, p.PacketID, e.Payload, e.ID, e.Pubrel), nil)
				rn.dead = true
				return
			}
		}
		if m.inflExp != 0 {
			e.InflExp = m.inflExp < 0
		}
		m.replayed++
	}
	if len(el) == 0 {
		m.drained = true
	}
}

func (rn *runner) doRemove(o qop) {
	m := rn.m
	err := rn.st.Remove(o.ID)
	if d := rn.n.take(); len(d) > 0 {
		rn.viol("remove.drop", "Remove reported drops", nil)
	}
	if err != nil {
		rn.viol("remove.error", err.Error(), nil)
	}
	for i, e := range m.inflight() {
		if e.ID == o.ID && i < m.replayed {
			m.remove(e)
			if !e.Pubrel {
				rn.setLedger(e.Payload, "acked")
			}
			return
		}
	}
}

func (rn *runner) doReplace(o qop) {
	m := rn.m
	rep, err := rn.st.Replace(&queue.Elem{At: rn.base, MessageWithID: &queue.Pubrel{PacketID: o.ID}})
	if err != nil {
		rn.viol("replace.error", err.Error(), nil)
	}
	want := false
	for i, e := range m.inflight() {
		if e.ID == o.ID && i < m.replayed {
			want = true
			e.InflExp = false // the supplied PUBREL element replaces the entry and carries no deadline
			if !e.Pubrel {
				e.Pubrel = true
				rn.setLedger(e.Payload, "acked")
			}
			break
		}
	}
	if rep != want {
		rn.viol("replace.result", fmt.Sprintf("Replace(%d) returned %v, want %v", o.ID, rep, want), nil)
	}
}

func (rn *runner) doInit(o qop) {
	m := rn.m
	rn.n = &recNotifier{qsum: rn.n.qsum, isum: rn.n.isum}
	err := rn.st.Init(&queue.InitOptions{CleanStart: o.Clean, Version: packets.Version(o.Version), ReadBytesLimit: o.Limit, Notifier: rn.n})
	if err != nil {
		rn.viol("init.error", err.Error(), nil)
		rn.dead = true
		return
	}
	m.inited, m.closed, m.drained, m.replayed = true, false, false, 0
	m.version, m.limit = o.Version, o.Limit
	if o.Clean {
		m.ents = nil
		rn.n.qsum, rn.n.isum = 0, 0 // new statistics epoch
		for k, v := range m.ledger {
			if v == "queued" || v == "inflight" {
				m.ledger[k] = "cleaned"
			}
		}
	}
}

func (rn *runner) step(o qop) {
	rn.hist = append(rn.hist, o)
	defer func() {
		if p := recover(); p != nil {
			rn.viol("panic:op="+o.Kind, fmt.Sprintf("%s panicked: %v", o.Kind, p), nil)
			rn.dead = true
		}
	}()
	switch o.Kind {
	case "add":
		rn.doAdd(o)
	case "read":
		rn.doRead(o)
	case "readinflight":
		rn.doReadInflight(o)
	case "remove":
		rn.doRemove(o)
	case "replace":
		rn.doReplace(o)
	case "init":
		rn.doInit(o)
	case "close":
		if err := rn.st.Close(); err != nil {
			rn.viol("close.error", err.Error(), nil)
		}
		rn.m.closed = true
	case "reopen":
		// the process is gone; a new one builds its store object over what the back end holds and - like the
		// broker for a session nobody has reconnected to yet - may Add before the first Init
		n := &recNotifier{qsum: rn.n.qsum, isum: rn.n.isum}
		st, err := rn.fac.Reopen(rn.m.cap, rn.ie, rn.id, n)
		if err != nil {
			rn.viol("reopen.error", err.Error(), nil)
			rn.dead = true
			return
		}
		rn.st, rn.n = st, n
		rn.m.inited, rn.m.closed, rn.m.drained, rn.m.replayed = false, false, false, 0
		rn.reopened++
	}
	if !rn.dead {
		rn.checkCounters()
	}
}

// gen produces the next operation from the model state (respecting the
// interface contract) or executes a supplied script.
type genCfg struct {
	rng   *rand.Rand
	seq   int
	noBig bool     // no payloads >= 64 KiB (covered by a dedicated case for the redis back end)
	stale []uint16 // packet identifiers that were in flight when the session was last wiped by a clean Init
	canReopen bool
}

func (g *genCfg) nextID(m *model) uint16 {
	used := map[uint16]bool{}
	for _, e := range m.ents {
		used[e.ID] = true
	}
	for {
		g.seq++
		id := uint16(g.seq%60000 + 1)
		if !used[id] {
			return id
		}
	}
}

// staleID returns an identifier of the wiped session that no current entry uses.
func (g *genCfg) staleID(m *model) (uint16, bool) {
	if len(g.stale) == 0 {
		return 0, false
	}
	id := g.stale[g.rng.Intn(len(g.stale))]
	for _, e := range m.ents {
		if e.ID == id {
			return 0, false
		}
	}
	return id, true
}

func (g *genCfg) next(m *model, limitChoices []uint32) qop {
	rng := g.rng
	add := func() qop {
		g.seq++
		o := qop{Kind: "add", Payload: fmt.Sprintf("m%d", g.seq), QoS: byte(rng.Intn(3))}
		switch x := rng.Intn(10); {
		case x < 2:
			o.Exp = -1
		case x < 4:
			o.Exp = 1
		}
		if m.limit != math.MaxUint32 && rng.Intn(3) == 0 {
			// size around the limit
			base := &ent{Full: len(o.Payload), QoS: o.QoS}
			target := int(m.limit) - 2 + rng.Intn(5)
			if pad := target - int(pubSize(base, m.version)); pad > 0 {
				o.Pad = pad
			}
		} else if !g.noBig && rng.Intn(40) == 0 {
			o.Pad = []int{65535, 65536, 70000}[rng.Intn(3)] - len(o.Payload)
		}
		return o
	}
	initOp := func(clean bool) qop {
		if clean {
			for _, e := range m.ents {
				if e.ID != 0 {
					g.stale = append(g.stale, e.ID)
				}
			}
			if len(g.stale) > 8 {
				g.stale = g.stale[len(g.stale)-8:]
			}
		}
		return qop{Kind: "init", Clean: clean, Version: []byte{4, 5}[rng.Intn(2)], Limit: limitChoices[rng.Intn(len(limitChoices))]}
	}
	if !m.inited {
		if len(m.ents) > 0 && rng.Intn(5) < 3 {
			return add() // a restored session that nobody has reconnected to yet keeps receiving messages
		}
		if rng.Intn(4) == 0 {
			return add() // Add before the first Init (offline session loaded at start-up)
		}
		return initOp(len(m.ents) == 0 && rng.Intn(2) == 0 || rng.Intn(6) == 0)
	}
	if m.closed {
		switch x := rng.Intn(10); {
		case x < 5:
			return add()
		case x < 6 && g.canReopen:
			return qop{Kind: "reopen"}
		default:
			return initOp(rng.Intn(5) == 0)
		}
	}
	if !m.drained {
		if rng.Intn(4) == 0 {
			return add()
		}
		return qop{Kind: "readinflight", N: uint(1 + rng.Intn(4))}
	}
	infl := m.inflight()
	x := rng.Intn(100)
	switch {
	case x < 40:
		return add()
	case x < 65:
		if len(m.queued()) > 0 {
			n := 1 + rng.Intn(4)
			ids := make([]uint16, n)
			tmp := &model{ents: append([]*ent{}, m.ents...)}
			for i := range ids {
				ids[i] = g.nextID(tmp)
				tmp.ents = append(tmp.ents, &ent{ID: ids[i]})
			}
			return qop{Kind: "read", IDs: ids}
		}
		return add()
	case x < 80:
		// a late acknowledgement for an identifier of the wiped session (if the identifier is not in use again)
		if id, ok := g.staleID(m); ok && (len(infl) == 0 || rng.Intn(4) == 0) {
			return qop{Kind: "remove", ID: id}
		}
		if len(infl) > 0 {
			return qop{Kind: "remove", ID: infl[rng.Intn(len(infl))].ID}
		}
		return qop{Kind: "remove", ID: uint16(60001 + rng.Intn(100))}
	case x < 88:
		if id, ok := g.staleID(m); ok && (len(infl) == 0 || rng.Intn(4) == 0) {
			return qop{Kind: "replace", ID: id}
		}
		if len(infl) > 0 {
			return qop{Kind: "replace", ID: infl[rng.Intn(len(infl))].ID}
		}
		return qop{Kind: "replace", ID: uint16(60001 + rng.Intn(100))}
	case x < 96:
		return qop{Kind: "close"}
	case g.canReopen:
		return qop{Kind: "reopen"}
	default:
		return add()
	}
}

// finalDrain proves that everything the model believes is stored is still there and nothing else.
func (rn *runner) finalDrain(g *genCfg) {
	if rn.dead || (!rn.m.inited && rn.reopened == 0) {
		return
	}
	if rn.m.inited && !rn.m.closed {
		rn.step(qop{Kind: "close"})
	}
	if rn.m.version == 0 {
		rn.m.version = 5
	}
	rn.step(qop{Kind: "init", Clean: false, Version: rn.m.version, Limit: math.MaxUint32})
	for i := 0; i < 1000 && !rn.dead && !rn.m.drained; i++ {
		rn.step(qop{Kind: "readinflight", N: 5})
	}
	if rn.dead {
		return
	}
	// make room for the sentinel, then add it; everything returned before it must be known
	for _, e := range rn.m.inflight() {
		rn.step(qop{Kind: "remove", ID: e.ID})
	}
	for i := 0; i < 1000 && !rn.dead && len(rn.m.queued()) > 0; i++ {
		ids := make([]uint16, 4)
		tmp := &model{ents: append([]*ent{}, rn.m.ents...)}
		for j := range ids {
			ids[j] = g.nextID(tmp)
			tmp.ents = append(tmp.ents, &ent{ID: ids[j]})
		}
		rn.step(qop{Kind: "read", IDs: ids})
		for _, e := range rn.m.inflight() {
			rn.step(qop{Kind: "remove", ID: e.ID})
		}
	}
	if rn.dead {
		return
	}
	if len(rn.m.ents) != 0 {
		rn.viol("drain.leftover", fmt.Sprintf("%d elements cannot be drained", len(rn.m.ents)), nil)
		return
	}
	g.seq++
	rn.step(qop{Kind: "add", Payload: fmt.Sprintf("sentinel%d", g.seq), QoS: 0})
	rn.step(qop{Kind: "read", IDs: []uint16{g.nextID(rn.m)}})
	if !rn.dead && len(rn.m.ents) != 0 {
		rn.viol("drain.sentinel", "sentinel not returned by the final Read", nil)
	}
	for tag, st := range rn.m.ledger {
		if st == "queued" || st == "inflight" {
			rn.viol("conservation.final", fmt.Sprintf("message %s still %q after the final drain", tag, st), nil)
		}
	}
}

func (rn *runner) runRandom(rng *rand.Rand, capacity, inflExp, nops int) {
	g := &genCfg{rng: rng, noBig: rn.fac.Name != "mem", canReopen: rn.fac.Reopen != nil}
	// 130/131 and 16387/16388: the packet sizes on both sides of the remaining lengths 128 and 16384, where the length field
	// itself grows by a byte (no packet is 130 or 16387 bytes long)
	limits := [][]uint32{{math.MaxUint32}, {math.MaxUint32, 120}, {120, 300}, {130, 131, 129}, {16387, 16388, 120}}[rng.Intn(5)]
	for i := 0; i < nops && !rn.dead; i++ {
		if len(rn.sacrificed) > 0 {
			g.stale = append(g.stale, rn.sacrificed...)
			rn.sacrificed = nil
		}
		rn.step(g.next(rn.m, limits))
		rn.r.Distinct("model_states", rn.m.state())
	}
	rn.finalDrain(g)
}

func newRunner(r *monitor.Run, fac Factory, capacity, inflExp int, id string) (*runner, func(), error) {
	var ie time.Duration
	switch inflExp {
	case -1:
		ie = -time.Hour
	case 1:
		ie = time.Hour
	}
	n := &recNotifier{}
	st, cleanup, err := fac.New(capacity, ie, id, n)
	if err != nil {
		return nil, nil, err
	}
	rn := &runner{r: r, fac: fac, base: time.Now(), n: n, st: st, id: id, ie: ie,
		m: &model{cap: capacity, inflExp: inflExp, ledger: map[string]string{}}}
	return rn, cleanup, nil
}

// Run is the entry point.
func Run(r *monitor.Run) {
	r.InconBudget = 0
	var timed sync.WaitGroup
	defer timed.Wait()
	facs := []Factory{{Name: "mem", New: func(capacity int, ie time.Duration, id string, def queue.Notifier) (queue.Store, func(), error) {
		q, err := memq.New(memq.Options{MaxQueuedMsg: capacity, InflightExpiry: ie, ClientID: id, DefaultNotifier: def})
		return q, func() {}, err
	}}}
	facs = append(facs, ExtraFactories...)
	for _, fac := range facs {
		if fac.Name == "mem" { // the other factories share one store server with the histories below
			timed.Add(1)
			go func(fac Factory) { defer timed.Done(); timedInflightCases(r, fac) }(fac)
		}
	}
	for _, fac := range facs {
		n := r.Pick(1500, 150000)
		if fac.Name != "mem" {
			n = r.Pick(150, 8000)
		}
		rng := r.Rand("hist-" + fac.Name)
		for i := 0; i < n; i++ {
			capacity := 1 + rng.Intn(6)
			inflExp := []int{0, -1, 1, -1}[rng.Intn(4)]
			rn, cleanup, err := newRunner(r, fac, capacity, inflExp, fmt.Sprintf("q%d", i))
			if err != nil {
				r.Inconclusive("factory " + fac.Name + ": " + err.Error())
				continue
			}
			rn.runRandom(rng, capacity, inflExp, 8+rng.Intn(r.Pick(40, 60)))
			cleanup()
			r.Eval(1)
			r.Count("histories_"+fac.Name, 1)
			r.Count("operations", int64(len(rn.hist)))
			drops, full := 0, 0
			for _, v := range rn.m.ledger {
				if v == "dropped" {
					drops++
				}
			}
			for _, o := range rn.hist {
				if o.Kind == "add" {
					full++
				}
			}
			r.Count("messages_dropped", int64(drops))
			r.Count("reopened_stores_"+fac.Name, int64(rn.reopened))
			if drops > 0 || full > capacity {
				r.Nontrivial(fmt.Sprintf("%s|%d|%v", fac.Name, i, rn.hist))
			}
			if i == 0 {
				hs := []string{}
				for _, o := range rn.hist[:min(12, len(rn.hist))] {
					hs = append(hs, o.String())
				}
				r.Sample(map[string]any{"store": fac.Name, "capacity": capacity, "inflight_expiry_sign": inflExp, "history_prefix": hs})
			}
		}
		blockedReadCases(r, fac)
		bigPayloadCases(r, fac)
		refusedCommandCases(r, fac)
		if fac.Name != "mem" {
			timedInflightCases(r, fac)
		}
	}
}

// timedInflightCases: the in-flight lifetime of a message starts when the message is handed out by Read, not when
// it was queued and not when the Read call started to wait. With inflight_expiry = 2 s a message handed out a
// few milliseconds ago is not an "expired in-flight" victim, however long it (or the reader) had been waiting before.
// Real time with margins: waits of 2.6 s before, verdict only if the overflowing Add came within 150 ms after
// (the redis back end stores deadlines in whole seconds, hence seconds and not milliseconds).
func timedInflightCases(r *monitor.Run, fac Factory) {
	const ie = 2 * time.Second
	const before = 2600 * time.Millisecond
	for _, kind := range []string{"queued_longer_than_inflight_expiry", "reader_blocked_longer_than_inflight_expiry"} {
		n := &recNotifier{}
		st, cleanup, err := fac.New(3, ie, "timed-"+kind, n)
		if err != nil {
			r.Inconclusive(err.Error())
			return
		}
		mk := func(pl string) *queue.Elem {
			return &queue.Elem{At: time.Now(), MessageWithID: &queue.Publish{Message: &gmqtt.Message{Topic: topic, Payload: []byte(pl), QoS: 1}}}
		}
		r.Eval(1)
		if err := st.Init(&queue.InitOptions{CleanStart: true, Version: packets.Version5, ReadBytesLimit: math.MaxUint32, Notifier: n}); err != nil {
			r.Inconclusive(err.Error())
			cleanup()
			continue
		}
		_, _ = st.ReadInflight(5)
		var handed []*queue.Elem
		if kind == "queued_longer_than_inflight_expiry" {
			_ = st.Add(mk("first"))
			time.Sleep(before)
			handed, err = st.Read([]uint16{1})
		} else {
			done := make(chan struct{})
			go func() { handed, err = st.Read([]uint16{1}); close(done) }()
			time.Sleep(before)
			_ = st.Add(mk("first"))
			select {
			case <-done:
			case <-time.After(10 * time.Second):
				r.Violation("timed.read_not_released:store="+fac.Name, "Read blocked on an empty queue was not released by Add", nil)
				cleanup()
				continue
			}
		}
		t0 := time.Now()
		if err != nil || len(handed) != 1 {
			r.Inconclusive(fmt.Sprintf("timed case %s store %s: Read returned %d elements, %v; drops %+v", kind, fac.Name, len(handed), err, n.take()))
			cleanup()
			continue
		}
		n.take()
		_ = st.Add(mk("second"))
		_ = st.Add(mk("third"))
		_ = st.Add(mk("fourth")) // the queue holds 3: one victim
		late := time.Since(t0) > 150*time.Millisecond
		drops := n.take()
		r.Count("timed_inflight_cases", 1)
		switch {
		case late:
			r.Inconclusive("timed case " + kind + ": the overflowing Add came too late")
		case len(drops) != 1:
			r.Violation("timed.drop_count:store="+fac.Name, fmt.Sprintf("Add on a full queue reported %d drops", len(drops)), map[string]any{"kind": kind})
		case drops[0].Payload == "first" || errName(drops[0].Err) == "expired_inflight":
			r.Violation(fmt.Sprintf("timed.inflight_expired_early:%s:store=%s", kind, fac.Name),
				fmt.Sprintf("a message handed out by Read less than 150 ms ago (inflight_expiry 2 s) was dropped as %s when the queue overflowed (%s)", errName(drops[0].Err), kind), map[string]any{"kind": kind, "dropped": drops[0].Payload})
		default:
			r.Nontrivial("timed|" + fac.Name + "|" + kind)
		}
		_ = st.Close()
		cleanup()
	}
}

// bigPayloadCases: messages of 65535 / 65536 / 70000 payload bytes survive the queue unchanged.
func bigPayloadCases(r *monitor.Run, fac Factory) {
	for _, size := range []int{65535, 65536, 70000} {
		rn, cleanup, err := newRunner(r, fac, 3, 0, fmt.Sprintf("big-%d", size))
		if err != nil {
			r.Inconclusive(err.Error())
			return
		}
		rn.step(qop{Kind: "init", Clean: true, Version: 5, Limit: math.MaxUint32})
		rn.step(qop{Kind: "readinflight", N: 5})
		rn.step(qop{Kind: "add", Payload: "big", QoS: 1, Pad: size - 3})
		el, err := rn.st.Read([]uint16{1})
		rn.hist = append(rn.hist, qop{Kind: "read", IDs: []uint16{1}})
		ok := err == nil && len(el) == 1
		if ok {
			p, isPub := el[0].MessageWithID.(*queue.Publish)
			ok = isPub && len(p.Payload) == size && p.Topic == topic && p.QoS == 1
		}
		if !ok {
			r.Violation(fmt.Sprintf("big_payload:store=%s:over_64k=%v", fac.Name, size > 65535), fmt.Sprintf("a queued message with a %d byte payload does not come back intact from Read (err=%v, %d elems)", size, err, len(el)),
				map[string]any{"store": fac.Name, "payload_size": size})
		}
		r.Eval(1)
		r.Count("big_payload_cases", 1)
		cleanup()
	}
}

// blockedReadCases: a Read blocked on an empty queue is released by Close (ErrClosed) and by Add.
func blockedReadCases(r *monitor.Run, fac Factory) {
	for _, by := range []string{"close", "add"} {
		rn, cleanup, err := newRunner(r, fac, 3, 0, "blocked-"+by)
		if err != nil {
			r.Inconclusive(err.Error())
			return
		}
		rn.step(qop{Kind: "init", Clean: true, Version: 5, Limit: math.MaxUint32})
		rn.step(qop{Kind: "readinflight", N: 5})
		type res struct {
			el  []*queue.Elem
			err error
		}
		ch := make(chan res, 1)
		go func() {
			el, err := rn.st.Read([]uint16{1, 2})
			ch <- res{el, err}
		}()
		time.Sleep(30 * time.Millisecond)
		select {
		case x := <-ch:
			rn.hist = append(rn.hist, qop{Kind: "read", IDs: []uint16{1, 2}})
			rn.viol("read.not_blocking", fmt.Sprintf("Read on an empty queue returned at once (%d elems, err=%v)", len(x.el), x.err), nil)
			cleanup()
			continue
		default:
		}
		if by == "close" {
			_ = rn.st.Close()
		} else {
			_ = rn.st.Add(rn.mkElem(qop{Kind: "add", Payload: "wake", QoS: 1}))
		}
		rn.hist = append(rn.hist, qop{Kind: "read", IDs: []uint16{1, 2}}, qop{Kind: by})
		select {
		case x := <-ch:
			if by == "close" && !errors.Is(x.err, queue.ErrClosed) {
				rn.viol("read.close_release", fmt.Sprintf("blocked Read released by Close returned err=%v", x.err), nil)
			}
			if by == "add" && (x.err != nil || len(x.el) != 1) {
				rn.viol("read.add_release", fmt.Sprintf("blocked Read released by Add returned %d elems err=%v", len(x.el), x.err), nil)
			}
			r.Count("blocked_read_released_by_"+by, 1)
		case <-time.After(20 * time.Second):
			rn.viol("read.stuck:by="+by, "blocked Read not released within 20 s", nil)
		}
		r.Eval(1)
		cleanup()
	}
}

// refusedCommandCases (durable back ends): the back end refuses one command of an operation on a FULL queue. Whatever
// the operation then returns, the queue stays within its bound and every message remains exactly one of: handed out
// by a later Read, reported dropped, or refused to the caller (Add returned an error and the message is not stored).
func refusedCommandCases(r *monitor.Run, fac Factory) {
	if fac.Refuse == nil {
		return
	}
	for _, cmd := range refusedCmds {
		for _, withInflight := range []bool{false, true} {
			n := &recNotifier{}
			st, cleanup, err := fac.New(3, 0, fmt.Sprintf("refuse-%s-%v", cmd, withInflight), n)
			if err != nil {
				r.Inconclusive(err.Error())
				return
			}
			kind := fmt.Sprintf("cmd=%s:inflight=%v:store=%s", cmd, withInflight, fac.Name)
			mk := func(pl string) *queue.Elem {
				return &queue.Elem{At: time.Now(), MessageWithID: &queue.Publish{Message: &gmqtt.Message{Topic: topic, Payload: []byte(pl), QoS: 1}}}
			}
			func() {
				defer cleanup()
				defer func() {
					if p := recover(); p != nil {
						r.Violation("refused.panic:"+kind, fmt.Sprintf("panic after the back end refused %s: %v", cmd, p), nil)
					}
				}()
				r.Eval(1)
				if err := st.Init(&queue.InitOptions{CleanStart: true, Version: packets.Version5, ReadBytesLimit: math.MaxUint32, Notifier: n}); err != nil {
					r.Inconclusive(err.Error())
					return
				}
				_, _ = st.ReadInflight(5)
				added := []string{"m1", "m2", "m3"}
				for _, pl := range added {
					if err := st.Add(mk(pl)); err != nil {
						r.Inconclusive("Add: " + err.Error())
						return
					}
				}
				handed := map[string]bool{}
				if withInflight {
					el, err := st.Read([]uint16{1})
					if err != nil || len(el) != 1 {
						r.Inconclusive(fmt.Sprintf("Read: %v %d", err, len(el)))
						return
					}
					handed["m1"] = true
				}
				n.take()
				fac.Refuse(cmd)
				errs := map[string]error{}
				for _, pl := range []string{"m4", "m5", "m6"} { // the queue holds 3: each Add needs a victim
					added = append(added, pl)
					if err := st.Add(mk(pl)); err != nil {
						errs[pl] = err
					}
				}
				dropped := map[string]int{}
				for _, d := range n.take() {
					dropped[tagOf(d.Payload)]++
				}
				// drain: acknowledge what is in flight, read the rest
				if withInflight {
					_ = st.Remove(1)
				}
				total := 0
				for round := 0; round < 4; round++ {
					type res struct {
						el  []*queue.Elem
						err error
					}
					ch := make(chan res, 1)
					go func() {
						el, err := st.Read([]uint16{11, 12, 13, 14, 15, 16, 17, 18})
						ch <- res{el, err}
					}()
					var rs res
					select {
					case rs = <-ch:
					case <-time.After(300 * time.Millisecond):
						_ = st.Close() // nothing left: the reader waits for more
						rs = <-ch
						round = 99
					}
					for _, e := range rs.el {
						if p, ok := e.MessageWithID.(*queue.Publish); ok {
							handed[string(p.Payload)] = true
							total++
							_ = st.Remove(e.ID())
						}
					}
					if rs.err != nil {
						break
					}
				}
				for _, d := range n.take() {
					dropped[tagOf(d.Payload)]++
				}
				if total > 3 {
					r.Violation("refused.bound:"+kind, fmt.Sprintf("a queue of capacity 3 handed out %d messages in the drain after the back end had refused one %s (added %v, dropped %v, Add errors %v)", total, cmd, added, dropped, errs), nil)
				}
				for _, pl := range added {
					states := 0
					if handed[pl] {
						states++
					}
					if dropped[pl] > 0 {
						states++
					}
					switch {
					case states == 0 && errs[pl] == nil:
						r.Violation("refused.silently_gone:"+kind, fmt.Sprintf("message %s was accepted by Add (no error), is not reported dropped and never came out of the queue (handed out %v, dropped %v, Add errors %v)", pl, handed, dropped, errs), nil)
					case states > 1 || dropped[pl] > 1:
						r.Violation("refused.two_fates:"+kind, fmt.Sprintf("message %s was handed out=%v and reported dropped %d times", pl, handed[pl], dropped[pl]), nil)
					}
				}
				r.Count("refused_command_cases", 1)
				r.Nontrivial("refused|" + kind)
			}()
		}
	}
}

// refusedCmds: LRANGE is read with Do (its error reply is seen). RPUSH / LREM / LSET are pipelined with Send + Flush and
// their replies are never read: a refusal of those goes unnoticed by the store (message accepted and gone). Back-end
// faults are outside the quantifier of the property; that behaviour is described in DESIGN 9.6, not judged here.
var refusedCmds = []string{"LRANGE"}
