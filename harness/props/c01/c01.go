// Package c01: PUBLISH reaches exactly the matching subscribers, at the right
// QoS, in order (DESIGN.md §5 C01). Wire-level scenarios against a reference
// delivery model.
package c01

import (
	"fmt"
	"math/rand"
	"sort"
	"strings"
	"sync"
	"time"

	"github.com/DrmagicE/gmqtt"
	"github.com/DrmagicE/gmqtt/config"
	"github.com/DrmagicE/gmqtt/pkg/packets"

	"verif/harness/broker"
	"verif/harness/monitor"
	"verif/harness/mqttx"
	"verif/harness/refmodel"
	"verif/harness/wire"
)

// SubSpec is one subscription of a client.
type SubSpec struct {
	Filter string
	QoS    byte
	NL     bool
	RAP    bool
	ID     uint32
}

// ClientSpec describes one scripted client.
type ClientSpec struct {
	ID    string
	V     byte        // 3, 4, 5
	Subs  [][]SubSpec // SUBSCRIBE packets in order (later ones override earlier ones with the same filter)
	Unsub []string    // filters removed again with UNSUBSCRIBE after all SUBSCRIBE packets
}

// Msg is one publication.
type Msg struct {
	Topic  string
	QoS    byte
	Retain bool
	Rich   bool // with v5 properties
}

// PubSpec describes one publisher.
type PubSpec struct {
	Name   string
	Client int // index into Clients, -1 for the in-process Publisher API, -2 for a burst connection (see burst)
	Msgs   []Msg
	// Aliases (v5 connections): the publisher sends its topics through two topic aliases: the first use binds an
	// alias, a repeated topic goes alias-only, another topic on the same alias re-binds it
	Aliases bool `json:",omitempty"`
}

// Scenario is a complete generated case.
type Scenario struct {
	Mode      string // overlap | onlyonce
	QueueQoS0 bool
	Clients   []ClientSpec
	// Churn clients subscribe after the regular clients and then leave (their session ends) before
	// anything is published: the subscription store has a history, the subscription tables do not change.
	Churn []ClientSpec
	Pubs  []PubSpec
}

var levels = []string{"a", "b", "", "$s"}

func genNames() []string {
	var out []string
	var rec func(p []string)
	rec = func(p []string) {
		if len(p) > 0 {
			if n := strings.Join(p, "/"); n != "" {
				out = append(out, n)
			}
		}
		if len(p) == 3 {
			return
		}
		for _, l := range levels {
			rec(append(append([]string{}, p...), l))
		}
	}
	rec(nil)
	return out
}

func genFilters() []string {
	var out []string
	lv := append(append([]string{}, levels...), "+")
	var rec func(p []string)
	rec = func(p []string) {
		if len(p) > 0 {
			if n := strings.Join(p, "/"); n != "" {
				out = append(out, n)
			}
		}
		if len(p) < 3 {
			out = append(out, strings.Join(append(append([]string{}, p...), "#"), "/"))
		}
		if len(p) == 3 {
			return
		}
		for _, l := range lv {
			rec(append(append([]string{}, p...), l))
		}
	}
	rec(nil)
	return out
}

var allNames = genNames()
var allFilters = genFilters()

// Generate draws a scenario.
func Generate(rng *rand.Rand, maxClients, maxMsgs int) Scenario {
	sc := Scenario{Mode: []string{config.Overlap, config.OnlyOnce}[rng.Intn(2)], QueueQoS0: rng.Intn(2) == 0}
	nc := 2 + rng.Intn(maxClients-1)
	// a small topic sub-universe makes overlaps frequent
	names := make([]string, 3+rng.Intn(5))
	for i := range names {
		names[i] = allNames[rng.Intn(len(allNames))]
	}
	var filters []string
	for len(filters) < 12 {
		f := allFilters[rng.Intn(len(allFilters))]
		for _, n := range names { // prefer filters that match something
			if refmodel.Match(n, f) || rng.Intn(6) == 0 {
				filters = append(filters, f)
				break
			}
		}
	}
	for i := 0; i < nc; i++ {
		c := ClientSpec{ID: fmt.Sprintf("s%d", i), V: []byte{4, 5, 5, 5, 3}[rng.Intn(5)]}
		npk := 1 + rng.Intn(3)
		for k := 0; k < npk; k++ {
			var pk []SubSpec
			seen := map[string]bool{}
			for j := 0; j < 1+rng.Intn(3); j++ {
				f := filters[rng.Intn(len(filters))]
				if seen[f] {
					continue
				}
				seen[f] = true
				s := SubSpec{Filter: f, QoS: byte(rng.Intn(3))}
				if c.V == 5 {
					s.NL, s.RAP = rng.Intn(3) == 0, rng.Intn(2) == 0
				}
				pk = append(pk, s)
			}
			if c.V == 5 && rng.Intn(2) == 0 {
				id := uint32(1 + rng.Intn(3))
				if rng.Intn(5) == 0 {
					id = 268435455
				}
				for j := range pk {
					pk[j].ID = id
				}
			}
			c.Subs = append(c.Subs, pk)
		}
		if rng.Intn(3) == 0 {
			t := c.table()
			for _, sp := range t[1:] {
				if rng.Intn(3) == 0 {
					c.Unsub = append(c.Unsub, sp.Filter)
				}
			}
		}
		sc.Clients = append(sc.Clients, c)
	}
	for i := 0; i < rng.Intn(3); i++ {
		c := ClientSpec{ID: fmt.Sprintf("churn%d", i), V: []byte{4, 5}[rng.Intn(2)]}
		var pk []SubSpec
		seen := map[string]bool{}
		for j := 0; j < 1+rng.Intn(3); j++ {
			f := filters[rng.Intn(len(filters))]
			if rng.Intn(2) == 0 { // a proper prefix of somebody's filter: an inner node of the store
				if ls := strings.Split(f, "/"); len(ls) > 1 {
					if pf := strings.Join(ls[:1+rng.Intn(len(ls)-1)], "/"); pf != "" {
						f = pf
					}
				}
			}
			if !seen[f] && refmodel.ValidFilter(f) {
				seen[f] = true
				pk = append(pk, SubSpec{Filter: f, QoS: byte(rng.Intn(3))})
			}
		}
		if len(pk) > 0 {
			c.Subs = [][]SubSpec{pk}
			sc.Churn = append(sc.Churn, c)
		}
	}
	np := 1 + rng.Intn(4)
	for p := 0; p < np; p++ {
		ps := PubSpec{Name: fmt.Sprintf("p%d", p), Client: rng.Intn(nc+1) - 1}
		// avoid two publishers on one connection (their packets would share one ordered stream; allowed but keep per-publisher order simple)
		for _, o := range sc.Pubs {
			if o.Client == ps.Client && ps.Client >= 0 {
				ps.Client = -1
			}
		}
		nm := 1 + rng.Intn(maxMsgs)
		for i := 0; i < nm; i++ {
			ps.Msgs = append(ps.Msgs, Msg{Topic: names[rng.Intn(len(names))], QoS: byte(rng.Intn(3)), Retain: rng.Intn(4) == 0, Rich: rng.Intn(3) == 0})
		}
		ps.Aliases = rng.Intn(3) == 0
		sc.Pubs = append(sc.Pubs, ps)
	}
	if rng.Intn(3) == 0 {
		ps := PubSpec{Name: "pb", Client: -2}
		for i, nm := 0, 3+rng.Intn(40); i < nm; i++ {
			ps.Msgs = append(ps.Msgs, Msg{Topic: names[rng.Intn(len(names))], QoS: 0, Retain: rng.Intn(8) == 0})
		}
		sc.Pubs = append(sc.Pubs, ps)
	}
	return sc
}

// table returns the effective subscriptions of a client (latest options win),
// including the sentinel subscription.
func (c ClientSpec) table() []SubSpec {
	m := map[string]SubSpec{}
	var order []string
	for _, pk := range c.Subs {
		for _, s := range pk {
			if _, ok := m[s.Filter]; !ok {
				order = append(order, s.Filter)
			}
			m[s.Filter] = s
		}
	}
	for _, f := range c.Unsub {
		delete(m, f)
	}
	out := []SubSpec{{Filter: "sentinel/#", QoS: 1}}
	for _, f := range order {
		if s, ok := m[f]; ok {
			out = append(out, s)
		}
	}
	return out
}

type expCopy struct {
	QoS    byte
	Retain int // 0, 1, or -1 = either
	IDs    []uint32
}

func (e expCopy) String() string { return fmt.Sprintf("q%d r%d ids%v", e.QoS, e.Retain, e.IDs) }

// expect computes the copies subscriber c must receive for message m of publisher p.
func expect(sc *Scenario, c ClientSpec, pubClient string, m Msg) []expCopy {
	var match []SubSpec
	for _, s := range c.table() {
		if !refmodel.Match(m.Topic, s.Filter) {
			continue
		}
		if s.NL && pubClient == c.ID {
			continue
		}
		match = append(match, s)
	}
	if len(match) == 0 {
		return nil
	}
	min := func(a, b byte) byte {
		if a < b {
			return a
		}
		return b
	}
	b2i := func(b bool) int {
		if b {
			return 1
		}
		return 0
	}
	if sc.Mode == config.Overlap {
		var out []expCopy
		for _, s := range match {
			e := expCopy{QoS: min(m.QoS, s.QoS), Retain: b2i(m.Retain && s.RAP)}
			if s.ID != 0 && c.V == 5 {
				e.IDs = []uint32{s.ID}
			}
			out = append(out, e)
		}
		return out
	}
	var maxQ byte
	allRAP, noneRAP := true, true
	var ids []uint32
	for _, s := range match {
		if s.QoS > maxQ {
			maxQ = s.QoS
		}
		if s.RAP {
			noneRAP = false
		} else {
			allRAP = false
		}
		if s.ID != 0 && c.V == 5 {
			ids = append(ids, s.ID)
		}
	}
	e := expCopy{QoS: min(m.QoS, maxQ), IDs: ids}
	switch {
	case !m.Retain || noneRAP:
		e.Retain = 0
	case allRAP:
		e.Retain = 1
	default:
		e.Retain = -1
	}
	return []expCopy{e}
}

func richProps(tag string) *mqttx.Props {
	pf := byte(1)
	ct, rt := "ct/"+tag, "rt/"+tag
	return &mqttx.Props{PayloadFormat: &pf, ContentType: &ct, ResponseTopic: &rt, CorrelationData: []byte("cd" + tag), HasCorrelationData: true,
		User: []mqttx.UserProp{{K: "k", V: tag}, {K: "k", V: "dup"}}}
}

// Result of running a scenario.
// sentinelOf is the last message of a publisher. A burst publisher (Client -2) opens its own connection, writes all
// its PUBLISH packets (QoS 0, so that the broker has nothing to write back), the sentinel and DISCONNECT in one go
// and closes at once: everything had been received completely before the stream ended and must be delivered.
func sentinelOf(ps PubSpec) Msg {
	q := byte(1)
	if ps.Client == -2 {
		q = 0
	}
	return Msg{Topic: "sentinel/" + ps.Name, QoS: q}
}

type finding struct {
	Sig, What string
	Detail    map[string]any
}

const step = 20 * time.Second

// RunScenario executes sc against a fresh broker and returns findings plus some observations.
func RunScenario(sc *Scenario, yield func(string)) (fs []finding, obs map[string]int, mergeOrders []string, err error) {
	obs = map[string]int{}
	add := func(sig, what string, d map[string]any) { fs = append(fs, finding{sig, what, d}) }
	b, err := broker.Start(broker.Options{Cfg: func(c *config.Config) {
		c.MQTT.DeliveryMode = sc.Mode
		c.MQTT.QueueQos0Msg = sc.QueueQoS0
		c.MQTT.MaxQueuedMsg = 20000
		c.MQTT.MessageExpiry = 0
	}, Delay: yield})
	if err != nil {
		return nil, nil, nil, err
	}
	defer b.Stop(10 * time.Second)

	clients := make([]*wire.Client, len(sc.Clients))
	for i, cs := range sc.Clients {
		c, err := wire.Dial(cs.ID, b.Addr, mqttx.Version(cs.V))
		if err != nil {
			return nil, nil, nil, err
		}
		defer c.Close()
		clients[i] = c
		ack, err := c.Connect(&mqttx.Packet{ClientID: cs.ID, CleanStart: true, KeepAlive: 0}, step)
		if err != nil || ack.Code != 0 {
			return nil, nil, nil, fmt.Errorf("connect %s: %v %v", cs.ID, ack, err)
		}
		// sentinel subscription first, then the generated SUBSCRIBE packets
		pks := append([][]SubSpec{{{Filter: "sentinel/#", QoS: 1}}}, cs.Subs...)
		for _, pk := range pks {
			var subs []mqttx.Sub
			var id uint32
			for _, s := range pk {
				subs = append(subs, mqttx.Sub{Filter: s.Filter, QoS: s.QoS, NoLocal: s.NL, RAP: s.RAP})
				id = s.ID
			}
			if len(subs) == 0 {
				continue
			}
			sa, err := c.Subscribe(subs, id, step)
			if err != nil {
				return nil, nil, nil, fmt.Errorf("subscribe %s: %v", cs.ID, err)
			}
			for k, code := range sa.Codes {
				if code != subs[k].QoS {
					add(fmt.Sprintf("suback.code:got=%d:want=%d", code, subs[k].QoS), fmt.Sprintf("SUBACK for %s filter %q grants %d, requested %d", cs.ID, subs[k].Filter, code, subs[k].QoS), nil)
				}
			}
			if len(sa.Codes) != len(subs) {
				add("suback.len", fmt.Sprintf("SUBACK has %d codes for %d filters", len(sa.Codes), len(subs)), nil)
			}
		}
	}

	for i, cs := range sc.Clients {
		if len(cs.Unsub) > 0 {
			if _, err := clients[i].Unsubscribe(cs.Unsub, step); err != nil {
				return nil, nil, nil, fmt.Errorf("unsubscribe %s: %v", cs.ID, err)
			}
			obs["unsubscribed_filters"] += len(cs.Unsub)
		}
	}
	for _, cs := range sc.Churn {
		c, err := wire.Dial(cs.ID, b.Addr, mqttx.Version(cs.V))
		if err != nil {
			return nil, nil, nil, err
		}
		if ack, err := c.Connect(&mqttx.Packet{ClientID: cs.ID, CleanStart: true}, step); err != nil || ack.Code != 0 {
			c.Close()
			return nil, nil, nil, fmt.Errorf("connect %s: %v %v", cs.ID, ack, err)
		}
		var subs []mqttx.Sub
		for _, s := range cs.Subs[0] {
			subs = append(subs, mqttx.Sub{Filter: s.Filter, QoS: s.QoS})
		}
		if _, err := c.Subscribe(subs, 0, step); err != nil {
			c.Close()
			return nil, nil, nil, fmt.Errorf("subscribe %s: %v", cs.ID, err)
		}
		from := b.Log.Len()
		if cs.V == 5 {
			c.Disconnect(0, nil)
		}
		c.Close()
		// a clean session (v3.1.1) / a session without expiry interval (v5) ends with its connection
		if _, ok := b.Log.Wait(0, func(ev broker.Event) bool { return ev.Kind == "OnSessionTerminated" && ev.Client == cs.ID }, step); !ok {
			_ = from
			return nil, nil, nil, fmt.Errorf("churn client %s: session end not observed", cs.ID)
		}
		obs["churn_sessions_ended"]++
	}

	// publishers run concurrently
	var wg sync.WaitGroup
	var pmu sync.Mutex
	for pi := range sc.Pubs {
		ps := sc.Pubs[pi]
		wg.Add(1)
		go func() {
			defer wg.Done()
			msgs := append(append([]Msg{}, ps.Msgs...), sentinelOf(ps))
			aliasTable := map[uint16]string{}
			if ps.Client == -2 {
				bc, err := wire.Dial("burst-"+ps.Name, b.Addr, mqttx.V311)
				if err == nil {
					_, err = bc.Connect(&mqttx.Packet{ClientID: "burst-" + ps.Name, CleanStart: true}, step)
				}
				if err != nil {
					pmu.Lock()
					add("publisher.burst_connect", err.Error(), nil)
					pmu.Unlock()
					return
				}
				var raw []byte
				for seq, m := range msgs {
					pb, _ := mqttx.Encode(&mqttx.Packet{Type: mqttx.PUBLISH, Topic: m.Topic, QoS: 0, Retain: m.Retain, Payload: []byte(fmt.Sprintf("%s/%d", ps.Name, seq))}, mqttx.V311)
					raw = append(raw, pb...)
				}
				db, _ := mqttx.Encode(&mqttx.Packet{Type: mqttx.DISCONNECT}, mqttx.V311)
				_ = bc.SendRaw(append(raw, db...), nil)
				bc.Close()
				return
			}
			for seq, m := range msgs {
				payload := fmt.Sprintf("%s/%d", ps.Name, seq)
				if ps.Client < 0 {
					gm := &gmqtt.Message{Topic: m.Topic, Payload: []byte(payload), QoS: m.QoS, Retained: m.Retain}
					if m.Rich {
						gm.ContentType, gm.ResponseTopic, gm.CorrelationData, gm.PayloadFormat = "ct/"+payload, "rt/"+payload, []byte("cd"+payload), 1
						gm.UserProperties = []packets.UserProperty{{K: []byte("k"), V: []byte(payload)}, {K: []byte("k"), V: []byte("dup")}}
					}
					b.Srv.Publisher().Publish(gm)
					continue
				}
				c := clients[ps.Client]
				p := &mqttx.Packet{Topic: m.Topic, QoS: m.QoS, Retain: m.Retain, Payload: []byte(payload)}
				if m.Rich && c.V == mqttx.V5 {
					p.Props = richProps(payload)
				}
				if ps.Aliases && c.V == mqttx.V5 {
					a := uint16(1 + (len(m.Topic)+seq)%2)
					if p.Props == nil {
						p.Props = &mqttx.Props{}
					}
					p.Props.TopicAlias = &a
					if aliasTable[a] == m.Topic {
						p.Topic = "" // alias only
					}
					aliasTable[a] = m.Topic
				}
				ack, err := c.Publish(p, step)
				if err != nil {
					pmu.Lock()
					add("publisher.ack_missing:qos="+fmt.Sprint(m.QoS), fmt.Sprintf("publisher %s message %d (qos %d, id %d): %v", ps.Name, seq, m.QoS, p.PacketID, err), nil)
					pmu.Unlock()
					return
				}
				if ack != nil && ack.Code >= 0x80 {
					pmu.Lock()
					add(fmt.Sprintf("publisher.ack_code:code=0x%02x", ack.Code), fmt.Sprintf("publisher %s message %d rejected with 0x%02x", ps.Name, seq, ack.Code), nil)
					pmu.Unlock()
				}
			}
		}()
	}
	wg.Wait()
	if len(fs) > 0 {
		return
	}

	// wait for every expected sentinel copy
	pubClientID := func(ps PubSpec) string {
		if ps.Client < 0 {
			return ""
		}
		return sc.Clients[ps.Client].ID
	}
	// one deadline for the whole scenario: when a sentinel is missing the rest is not waited for again and again
	deadline := time.Now().Add(30 * time.Second)
	for ci, cs := range sc.Clients {
		for _, ps := range sc.Pubs {
			want := len(expect(sc, cs, pubClientID(ps), sentinelOf(ps)))
			payload := fmt.Sprintf("%s/%d", ps.Name, len(ps.Msgs))
			for {
				n := 0
				for _, r := range clients[ci].Publishes() {
					if string(r.P.Payload) == payload {
						n++
					}
				}
				if n >= want {
					break
				}
				if time.Now().After(deadline) {
					break // the comparison below reports what is missing
				}
				time.Sleep(2 * time.Millisecond)
			}
		}
	}
	time.Sleep(30 * time.Millisecond) // quiet period: can only reveal late extras

	// compare
	for ci, cs := range sc.Clients {
		recs := clients[ci].Publishes()
		if clients[ci].DecodeErr != nil {
			add("subscriber.malformed_packet", fmt.Sprintf("%s received a malformed packet: %v", cs.ID, clients[ci].DecodeErr), nil)
		}
		if eof, _, rerr := clients[ci].EOF(); eof {
			add("subscriber.disconnected", fmt.Sprintf("%s was disconnected: %v; ctl=%v", cs.ID, rerr, clients[ci].Ctl()), nil)
		}
		got := map[string][]*mqttx.Packet{}
		lastSeq := map[string]int{}
		var merge []string
		for _, r := range recs {
			p := r.P
			got[string(p.Payload)] = append(got[string(p.Payload)], p)
			var pn string
			var seq int
			if _, err := fmt.Sscanf(strings.Replace(string(p.Payload), "/", " ", 1), "%s %d", &pn, &seq); err != nil {
				add("recv.unknown_payload", fmt.Sprintf("%s received unknown payload %q", cs.ID, p.Payload), nil)
				continue
			}
			if last, ok := lastSeq[pn]; ok && seq < last {
				add("order", fmt.Sprintf("%s received %s/%d after %s/%d", cs.ID, pn, seq, pn, last), map[string]any{"client": cs.ID})
			}
			lastSeq[pn] = seq
			if len(merge) == 0 || merge[len(merge)-1] != pn {
				merge = append(merge, pn)
			}
			if p.Dup {
				add("recv.dup_set", fmt.Sprintf("%s received first transmission %q with DUP=1", cs.ID, p.Payload), nil)
			}
			if p.QoS > 0 && p.PacketID == 0 {
				add("recv.pid_zero", fmt.Sprintf("%s received QoS %d message with packet id 0", cs.ID, p.QoS), nil)
			}
		}
		if len(merge) > 1 {
			mergeOrders = append(mergeOrders, strings.Join(merge, ""))
		}
		for _, ps := range sc.Pubs {
			msgs := append(append([]Msg{}, ps.Msgs...), sentinelOf(ps))
			for seq, m := range msgs {
				payload := fmt.Sprintf("%s/%d", ps.Name, seq)
				exp := expect(sc, cs, pubClientID(ps), m)
				g := got[payload]
				delete(got, payload)
				obs["expected_copies"] += len(exp)
				if len(exp) > 1 {
					obs["multi_copy_messages"]++
				}
				if len(exp) == 0 && len(g) == 0 {
					obs["correctly_not_delivered"]++
				}
				kind := fmt.Sprintf("mode=%s:v=%d", sc.Mode, cs.V)
				if len(g) != len(exp) {
					what := "missing"
					if len(g) > len(exp) {
						what = "extra"
					}
					nl := pubClientID(ps) == cs.ID
					add(fmt.Sprintf("delivery.%s:%s:self=%v:pubqos=%d", what, kind, nl, m.QoS), fmt.Sprintf("%s got %d copies of %s (topic %q qos %d retain %v), model expects %d %v", cs.ID, len(g), payload, m.Topic, m.QoS, m.Retain, len(exp), exp),
						map[string]any{"client": cs, "msg": m, "publisher": ps.Name, "publisher_client": pubClientID(ps)})
					continue
				}
				// match copies as multisets
				used := make([]bool, len(exp))
				for _, p := range g {
					var ids []uint32
					if p.Props != nil {
						ids = append(ids, p.Props.SubscriptionIDs...)
					}
					sort.Slice(ids, func(i, j int) bool { return ids[i] < ids[j] })
					ok := false
					for i, e := range exp {
						if used[i] {
							continue
						}
						eids := append([]uint32{}, e.IDs...)
						sort.Slice(eids, func(i, j int) bool { return eids[i] < eids[j] })
						r := 0
						if p.Retain {
							r = 1
						}
						if e.QoS == p.QoS && (e.Retain == -1 || e.Retain == r) && fmt.Sprint(eids) == fmt.Sprint(ids) {
							used[i], ok = true, true
							break
						}
					}
					if !ok {
						field := "qos"
						for _, e := range exp {
							if e.QoS == p.QoS {
								field = "retain_or_subid"
							}
						}
						add(fmt.Sprintf("delivery.attrs:%s:%s", field, kind), fmt.Sprintf("%s got %s as %s, model expects one of %v", cs.ID, payload, p.String(), exp),
							map[string]any{"client": cs, "msg": m, "publisher": ps.Name})
					}
					if p.Topic != m.Topic {
						add("delivery.topic", fmt.Sprintf("%s got %s on topic %q, published on %q", cs.ID, payload, p.Topic, m.Topic), nil)
					}
					// v5 properties forwarded unchanged
					pubV5 := ps.Client < 0 || sc.Clients[ps.Client].V == 5
					wantRich := m.Rich && pubV5 && cs.V == 5
					if cs.V == 5 {
						pp := p.Props
						if pp == nil {
							pp = &mqttx.Props{}
						}
						gotRich := pp.ContentType != nil || pp.ResponseTopic != nil || pp.HasCorrelationData || len(pp.User) > 0 || pp.PayloadFormat != nil
						if wantRich {
							w := richProps(payload)
							if pp.ContentType == nil || *pp.ContentType != *w.ContentType || pp.ResponseTopic == nil || *pp.ResponseTopic != *w.ResponseTopic ||
								string(pp.CorrelationData) != string(w.CorrelationData) || fmt.Sprint(pp.User) != fmt.Sprint(w.User) || pp.PayloadFormat == nil || *pp.PayloadFormat != 1 {
								add("delivery.props_changed", fmt.Sprintf("%s got %s with properties %s", cs.ID, payload, pp.String()), nil)
							}
						} else if gotRich {
							add("delivery.props_invented", fmt.Sprintf("%s got %s with properties %s although none were published", cs.ID, payload, pp.String()), nil)
						}
						if pp.MessageExpiry != nil || pp.TopicAlias != nil {
							add("delivery.props_unexpected", fmt.Sprintf("%s got %s with %s", cs.ID, payload, pp.String()), nil)
						}
					}
				}
			}
		}
		for payload, g := range got {
			add("delivery.unknown", fmt.Sprintf("%s received %d copies of unpublished payload %q", cs.ID, len(g), payload), nil)
		}
		// leftover acks at publishers = duplicate acknowledgements
		for _, p := range clients[ci].Ctl() {
			switch p.Type {
			case mqttx.PUBACK, mqttx.PUBREC, mqttx.PUBCOMP:
				add("publisher.extra_ack", fmt.Sprintf("%s received unsolicited %s", cs.ID, p.String()), nil)
			case mqttx.DISCONNECT:
				add(fmt.Sprintf("client.disconnect:code=0x%02x", p.Code), fmt.Sprintf("%s received %s", cs.ID, p.String()), nil)
			}
		}
	}
	for _, e := range b.Log.Events() {
		switch e.Kind {
		case "OnMsgDropped":
			add("dropped", fmt.Sprintf("message %q dropped for %s: %s (no drop condition was configured)", e.Payload, e.Client, e.Err), nil)
		case "OnClosed":
			if e.Err != "" {
				add("closed_with_error", fmt.Sprintf("connection of %s closed with error %q", e.Client, e.Err), nil)
			}
		}
	}
	return
}

// Run is the entry point.
func Run(r *monitor.Run) {
	n := r.Pick(250, 4000)
	maxClients := r.Pick(6, 8)
	maxMsgs := r.Pick(12, 80)
	rng := r.Rand("scenarios")
	scs := make([]Scenario, n)
	for i := range scs {
		scs[i] = Generate(rng, maxClients, maxMsgs)
	}
	var wg sync.WaitGroup
	sem := make(chan struct{}, 12)
	for i := range scs {
		wg.Add(1)
		sem <- struct{}{}
		go func(i int) {
			defer wg.Done()
			defer func() { <-sem }()
			sc := &scs[i]
			yrng := rand.New(rand.NewSource(r.Seed*7919 + int64(i)))
			var ymu sync.Mutex
			yield := func(kind string) {
				ymu.Lock()
				x := yrng.Intn(20)
				ymu.Unlock()
				if x == 0 {
					time.Sleep(time.Duration(200) * time.Microsecond)
				}
			}
			fs, obs, merges, err := RunScenario(sc, yield)
			r.Eval(1)
			if err != nil {
				r.Inconclusive(fmt.Sprintf("scenario %d: %v", i, err))
				return
			}
			for _, f := range fs {
				d := map[string]any{"scenario_index": i, "scenario": sc}
				for k, v := range f.Detail {
					d[k] = v
				}
				r.Violation(f.Sig, f.What, d)
			}
			for k, v := range obs {
				r.Count(k, int64(v))
			}
			for _, m := range merges {
				r.Distinct("subscriber_merge_orders", m)
			}
			if obs["expected_copies"] > len(sc.Pubs)*len(sc.Clients) { // more than just the sentinels
				r.Nontrivial(monitor.J(sc))
			}
			r.Count("mode_"+sc.Mode, 1)
			np := 0
			for _, p := range sc.Pubs {
				np += len(p.Msgs)
				if p.Client < 0 {
					r.Count("api_publishers", 1)
				} else {
					r.Count("mqtt_publishers", 1)
				}
			}
			r.Count("publishes", int64(np))
			if i == 0 {
				r.Sample(sc)
			}
		}(i)
	}
	wg.Wait()
}
