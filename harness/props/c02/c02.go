// Package c02: subscription index answers match MQTT topic-matching rules
// after any history (DESIGN.md §5 C02).
package c02

import (
	"sync"
	"sync/atomic"
	"fmt"
	"math/rand"
	"sort"
	"strings"

	"github.com/DrmagicE/gmqtt"
	"github.com/DrmagicE/gmqtt/persistence/subscription"
	"github.com/DrmagicE/gmqtt/persistence/subscription/mem"
	"github.com/DrmagicE/gmqtt/pkg/packets"

	"verif/harness/monitor"
	"verif/harness/refmodel"
)

// Factory creates a fresh store under test and a cleanup function.
type Factory struct {
	Name string
	New  func() (subscription.Store, func(), error)
	// Reload (durable stores only) returns a new store instance built from what the back end holds for the given
	// client ids, as a restarted broker does.
	Reload func(clients []string) (subscription.Store, error)
	// FailNext (durable stores only) makes the back end drop the connection at the next state-changing command.
	FailNext func()
}

// ExtraFactories lets other packages (redis back end) register stores.
var ExtraFactories []Factory

type op struct {
	Kind   string         // sub | unsub | unsuball | reload
	Fault  bool           `json:",omitempty"` // the back end fails during this operation: it must report an error and change nothing
	Client string         `json:",omitempty"`
	Subs   []refmodel.Sub `json:",omitempty"`
	Topics []string       `json:",omitempty"`
}

func (o op) String() string {
	switch o.Kind {
	case "sub":
		ss := make([]string, len(o.Subs))
		for i, s := range o.Subs {
			ss[i] = s.String()
		}
		return "sub(" + strings.Join(ss, ",") + ")"
	case "unsub":
		return "unsub(" + o.Client + ":" + strings.Join(o.Topics, ",") + ")"
	case "reload":
		return "reload"
	}
	return "unsuball(" + o.Client + ")"
}

func toGmqtt(s refmodel.Sub) *gmqtt.Subscription {
	return &gmqtt.Subscription{ShareName: s.Share, TopicFilter: s.Filter, ID: s.ID, QoS: s.QoS, NoLocal: s.NL, RetainAsPublished: s.RAP, RetainHandling: s.RH}
}

func fromGmqtt(c string, s *gmqtt.Subscription) refmodel.Sub {
	if s == nil {
		return refmodel.Sub{Client: c, Filter: "<nil subscription>"}
	}
	return refmodel.Sub{Client: c, Share: s.ShareName, Filter: s.TopicFilter, ID: s.ID, QoS: s.QoS, NL: s.NoLocal, RAP: s.RetainAsPublished, RH: s.RetainHandling}
}

func collect(st subscription.Store, o subscription.IterationOptions) []refmodel.Sub {
	var out []refmodel.Sub
	st.Iterate(func(c string, s *gmqtt.Subscription) bool {
		out = append(out, fromGmqtt(c, s))
		return true
	}, o)
	return out
}

type universe struct {
	clients []string
	filters []string // full filters (may include $share/..)
	probes  []string // topic names
}

func levelsNames() []string { return []string{"a", "b", "", "$s"} }

// bigUniverse: names of depth<=3 over {a,b,"",$s}; filters additionally with + and trailing #.
func bigUniverse() universe {
	var u universe
	u.clients = []string{"c1", "c2", "sub:c3", "c4"}
	lv := levelsNames()
	var names []string
	var rec func(prefix []string, d int)
	rec = func(prefix []string, d int) {
		if len(prefix) > 0 {
			n := strings.Join(prefix, "/")
			if n != "" {
				names = append(names, n)
			}
		}
		if d == 3 {
			return
		}
		for _, l := range lv {
			rec(append(append([]string{}, prefix...), l), d+1)
		}
	}
	rec(nil, 0)
	u.probes = names
	flv := append(append([]string{}, lv...), "+")
	var filters []string
	var frec func(prefix []string, d int)
	frec = func(prefix []string, d int) {
		if len(prefix) > 0 {
			f := strings.Join(prefix, "/")
			if f != "" {
				filters = append(filters, f)
			}
		}
		if d < 3 {
			f := strings.Join(append(append([]string{}, prefix...), "#"), "/")
			filters = append(filters, f)
		}
		if d == 3 {
			return
		}
		for _, l := range flv {
			frec(append(append([]string{}, prefix...), l), d+1)
		}
	}
	frec(nil, 0)
	plain := filters
	for _, g := range []string{"g1", "g2"} {
		for i, f := range plain {
			if i%3 == 0 { // a third of the plain filters also as shared distractors
				filters = append(filters, "$share/"+g+"/"+f)
			}
		}
	}
	u.filters = filters
	return u
}

func tinyUniverse() universe {
	return universe{
		clients: []string{"c1", "c2"},
		filters: []string{"a/b", "a/+", "a/#", "+/b", "$s/a", "$share/g/a/b"},
		probes:  []string{"a/b", "a", "a/c", "b/b", "$s/a", "a/b/c", "a/"},
	}
}

func mkSub(client, full string, variant int) refmodel.Sub {
	share, rest, _ := refmodel.SplitShare(full)
	return refmodel.Sub{Client: client, Share: share, Filter: rest,
		ID: uint32(variant % 5), QoS: byte(variant % 3), NL: variant%2 == 1, RAP: variant%4 >= 2, RH: byte((variant / 3) % 3)}
}

type checker struct {
	r      *monitor.Run
	u      universe
	fac    Factory
	hist   []op
	shared bool // C11(a): also compare the shared-subscription lookups
}

func (c *checker) violation(kind string, detail string, got, want string) {
	shared := 0
	for _, o := range c.hist {
		for _, s := range o.Subs {
			if s.Share != "" {
				shared = 1
			}
		}
	}
	last := ""
	if len(c.hist) > 0 {
		last = c.hist[len(c.hist)-1].Kind
	}
	sig := fmt.Sprintf("%s:store=%s:last=%s:shared_in_history=%d", kind, c.fac.Name, last, shared)
	hs := make([]string, len(c.hist))
	for i, o := range c.hist {
		hs[i] = o.String()
	}
	c.r.Violation(sig, fmt.Sprintf("%s %s: got [%s] want [%s] after %d ops", kind, detail, got, want, len(c.hist)),
		map[string]any{"store": c.fac.Name, "history": c.hist, "history_text": hs, "query": detail, "got": got, "want": want})
}

// checkAll compares every lookup the property mentions with the model.
func (c *checker) checkAll(st subscription.Store, m *refmodel.SubTable, usedFilters map[string]bool) {
	nonShared := func(s refmodel.Sub) bool { return s.Share == "" }
	// 1. topic-name lookups (non-shared subscriptions)
	for _, name := range c.u.probes {
		want := refmodel.Canon(m.Matching(name, nonShared))
		got := refmodel.Canon(collect(st, subscription.IterationOptions{Type: subscription.TypeNonShared | subscription.TypeSYS, TopicName: name, MatchType: subscription.MatchFilter}))
		if got != want {
			c.violation("lookup.match_filter", "topic="+name, got, want)
		}
		// TypeAll: the non-shared part must be the same
		var ns []refmodel.Sub
		for _, s := range collect(st, subscription.IterationOptions{Type: subscription.TypeAll, TopicName: name, MatchType: subscription.MatchFilter}) {
			if s.Share == "" {
				ns = append(ns, s)
			}
		}
		if g := refmodel.Canon(ns); g != want {
			c.violation("lookup.match_filter_typeall", "topic="+name, g, want)
		}
		for _, cl := range c.u.clients {
			wantc := refmodel.Canon(m.Matching(name, func(s refmodel.Sub) bool { return s.Share == "" && s.Client == cl }))
			gotc := refmodel.Canon(collect(st, subscription.IterationOptions{Type: subscription.TypeNonShared | subscription.TypeSYS, ClientID: cl, TopicName: name, MatchType: subscription.MatchFilter}))
			if gotc != wantc {
				c.violation("lookup.match_filter_client", "topic="+name+" client="+cl, gotc, wantc)
			}
		}
	}
	if c.shared {
		isShared := func(s refmodel.Sub) bool { return s.Share != "" }
		for _, name := range c.u.probes {
			want := refmodel.Canon(m.Matching(name, isShared))
			got := refmodel.Canon(collect(st, subscription.IterationOptions{Type: subscription.TypeShared, TopicName: name, MatchType: subscription.MatchFilter}))
			if got != want {
				kind := "shared.match_filter"
				if strings.HasPrefix(name, "$") {
					kind = "shared.match_filter_sys_topic"
				}
				c.violation(kind, "topic="+name, got, want)
			}
			// what deliverMessage uses: TypeAll
			var sh []refmodel.Sub
			for _, s := range collect(st, subscription.IterationOptions{Type: subscription.TypeAll, TopicName: name, MatchType: subscription.MatchFilter}) {
				if s.Share != "" {
					sh = append(sh, s)
				}
			}
			if g := refmodel.Canon(sh); g != want {
				kind := "shared.match_filter_typeall"
				if strings.HasPrefix(name, "$") {
					kind = "shared.match_filter_typeall_sys_topic"
				}
				c.violation(kind, "topic="+name, g, want)
			}
		}
		for _, cl := range c.u.clients {
			var want []refmodel.Sub
			for _, s := range m.T[cl] {
				if s.Share != "" {
					want = append(want, s)
				}
			}
			got := collect(st, subscription.IterationOptions{Type: subscription.TypeShared, ClientID: cl})
			if g, w := refmodel.Canon(got), refmodel.Canon(want); g != w {
				c.violation("shared.by_client", "client="+cl, g, w)
			}
		}
	}
	// 2. exact-filter lookups for every filter ever used
	for f := range usedFilters {
		var want []refmodel.Sub
		for _, s := range m.All() {
			if s.Full() == f {
				want = append(want, s)
			}
		}
		got := collect(st, subscription.IterationOptions{Type: subscription.TypeAll, TopicName: f, MatchType: subscription.MatchName})
		if g, w := refmodel.Canon(got), refmodel.Canon(want); g != w {
			kind := "lookup.match_name"
			if strings.HasPrefix(f, "$share/") {
				kind = "lookup.match_name_shared"
			}
			c.violation(kind, "filter="+f, g, w)
		}
	}
	// 2b. exact-filter lookups with strings nobody subscribed to, among them the prefixes of the shared form: nothing is stored
	// under them, so nothing comes back (and the lookup returns)
	for _, f := range []string{"$share/", "$share/g", "$share", "$share//", "$share/g/", "/", "$", "a//"} {
		if usedFilters[f] {
			continue
		}
		var want []refmodel.Sub
		for _, s := range m.All() {
			if s.Full() == f {
				want = append(want, s)
			}
		}
		func() {
			defer func() {
				if p := recover(); p != nil {
					c.violation("lookup.match_name_panic", "filter="+f, fmt.Sprint(p), refmodel.Canon(want))
				}
			}()
			got := collect(st, subscription.IterationOptions{Type: subscription.TypeAll, TopicName: f, MatchType: subscription.MatchName})
			if g, w := refmodel.Canon(got), refmodel.Canon(want); g != w {
				c.violation("lookup.match_name_unused", "filter="+f, g, w)
			}
		}()
	}
	// 3. per-client listing
	for _, cl := range c.u.clients {
		var want []refmodel.Sub
		for _, s := range m.T[cl] {
			want = append(want, s)
		}
		got := collect(st, subscription.IterationOptions{Type: subscription.TypeAll, ClientID: cl})
		if g, w := refmodel.Canon(got), refmodel.Canon(want); g != w {
			c.violation("lookup.by_client", "client="+cl, g, w)
		}
		cs, err := st.GetClientStats(cl)
		if m.Known[cl] {
			if err != nil {
				c.violation("stats.client_missing", "client="+cl, err.Error(), "stats")
			} else {
				if cs.SubscriptionsCurrent != m.ClientCurrent(cl) {
					c.violation("stats.client_current", "client="+cl, fmt.Sprint(cs.SubscriptionsCurrent), fmt.Sprint(m.ClientCurrent(cl)))
				}
				if cs.SubscriptionsTotal != m.ClientTotal[cl] {
					c.violation("stats.client_total", "client="+cl, fmt.Sprint(cs.SubscriptionsTotal), fmt.Sprint(m.ClientTotal[cl]))
				}
			}
		}
	}
	// 4. full iteration
	if g, w := refmodel.Canon(collect(st, subscription.IterationOptions{Type: subscription.TypeAll})), refmodel.Canon(m.All()); g != w {
		c.violation("lookup.iterate_all", "", g, w)
	}
	// 5. global stats
	gs := st.GetStats()
	if gs.SubscriptionsCurrent != m.Current() {
		c.violation("stats.current", "", fmt.Sprint(gs.SubscriptionsCurrent), fmt.Sprint(m.Current()))
	}
	if gs.SubscriptionsTotal != m.Total {
		c.violation("stats.total", "", fmt.Sprint(gs.SubscriptionsTotal), fmt.Sprint(m.Total))
	}
}

// apply executes one op on store and model, checking the direct results.
func (c *checker) apply(stp *subscription.Store, m *refmodel.SubTable, o op, used map[string]bool) {
	st := *stp
	c.hist = append(c.hist, o)
	if o.Kind == "reload" {
		if c.fac.Reload == nil {
			return
		}
		seen := map[string]bool{}
		var ids []string
		for _, h := range c.hist {
			if h.Client != "" && !seen[h.Client] {
				seen[h.Client] = true
				ids = append(ids, h.Client)
			}
		}
		ns, err := c.fac.Reload(ids)
		if err != nil {
			c.violation("reload.error", o.String(), err.Error(), "nil")
			return
		}
		*stp = ns
		c.r.Count("store_reloads_"+c.fac.Name, 1)
		// the cumulative "total" counters are statistics of the process, not of the index: a new instance
		// has counted exactly the subscriptions it loaded
		m.Total = m.Current()
		for cl := range m.ClientTotal {
			m.ClientTotal[cl] = m.ClientCurrent(cl)
			if m.ClientCurrent(cl) == 0 { // a client without subscriptions leaves no trace in the back end
				delete(m.ClientTotal, cl)
				delete(m.Known, cl)
			}
		}
		return
	}
	if o.Fault && c.fac.FailNext != nil {
		// only operations that reach the back end can fail there
		c.fac.FailNext()
		var err error
		switch o.Kind {
		case "sub":
			gs := make([]*gmqtt.Subscription, len(o.Subs))
			for i, s := range o.Subs {
				gs[i] = toGmqtt(s)
			}
			_, err = st.Subscribe(o.Client, gs...)
		case "unsub":
			err = st.Unsubscribe(o.Client, o.Topics...)
		case "unsuball":
			err = st.UnsubscribeAll(o.Client)
		}
		c.r.Count("faulted_operations_"+c.fac.Name, 1)
		if err == nil {
			c.violation("fault.no_error:"+o.Kind, o.String(), "nil", "an error (the back end dropped the connection)")
		}
		return // the model does not change: neither may the store
	}
	switch o.Kind {
	case "sub":
		gs := make([]*gmqtt.Subscription, len(o.Subs))
		for i, s := range o.Subs {
			gs[i] = toGmqtt(s)
		}
		rs, err := st.Subscribe(o.Client, gs...)
		if err != nil {
			c.violation("subscribe.error", o.String(), err.Error(), "nil")
			return
		}
		if len(rs) != len(o.Subs) {
			c.violation("subscribe.result_len", o.String(), fmt.Sprint(len(rs)), fmt.Sprint(len(o.Subs)))
		}
		for i, s := range o.Subs {
			existed := m.Subscribe(s)
			used[s.Full()] = true
			if i < len(rs) {
				if rs[i].AlreadyExisted != existed {
					kind := "subscribe.already_existed"
					if s.Share != "" {
						kind = "subscribe.already_existed_shared"
					}
					c.violation(kind, s.String(), fmt.Sprint(rs[i].AlreadyExisted), fmt.Sprint(existed))
				}
				if g := fromGmqtt(o.Client, rs[i].Subscription); g != s {
					c.violation("subscribe.result_sub", s.String(), g.String(), s.String())
				}
			}
		}
	case "unsub":
		if err := st.Unsubscribe(o.Client, o.Topics...); err != nil {
			c.violation("unsubscribe.error", o.String(), err.Error(), "nil")
		}
		for _, t := range o.Topics {
			m.Unsubscribe(o.Client, t)
		}
	case "unsuball":
		if err := st.UnsubscribeAll(o.Client); err != nil {
			c.violation("unsubscribeall.error", o.String(), err.Error(), "nil")
		}
		m.UnsubscribeAll(o.Client)
	}
}

func (c *checker) runHistory(ops []op, checkEvery bool) (states []string) {
	st, cleanup, err := c.fac.New()
	if err != nil {
		c.r.Inconclusive("store factory " + c.fac.Name + ": " + err.Error())
		return nil
	}
	defer cleanup()
	m := refmodel.NewSubTable()
	used := map[string]bool{}
	c.hist = c.hist[:0]
	defer func() {
		if p := recover(); p != nil {
			c.violation("panic", fmt.Sprint(p), fmt.Sprint(p), "no panic")
		}
	}()
	for i, o := range ops {
		c.apply(&st, m, o, used)
		if checkEvery || i == len(ops)-1 {
			c.checkAll(st, m, used)
		}
		if checkEvery {
			states = append(states, m.StateKey())
		}
	}
	if !checkEvery {
		states = append(states, m.StateKey())
	}
	return states
}

func tinyOps(u universe, depth int) []op {
	var ops []op
	for _, cl := range u.clients {
		for fi, f := range u.filters {
			ops = append(ops, op{Kind: "sub", Client: cl, Subs: []refmodel.Sub{mkSub(cl, f, depth*7+fi)}})
			ops = append(ops, op{Kind: "unsub", Client: cl, Topics: []string{f}})
		}
		ops = append(ops, op{Kind: "unsuball", Client: cl})
	}
	return ops
}

func randomHistory(rng *rand.Rand, u universe, n int) []op {
	// work on a small random sub-universe so that collisions (re-subscribe, prefix relations) are frequent
	k := 4 + rng.Intn(12)
	fs := make([]string, k)
	for i := range fs {
		fs[i] = u.filters[rng.Intn(len(u.filters))]
	}
	// add prefix-related filters
	if rng.Intn(2) == 0 {
		base := fs[0]
		if !strings.HasSuffix(base, "#") {
			fs = append(fs, base+"/#", base+"/a", base+"/+")
		}
	}
	ncl := 1 + rng.Intn(len(u.clients))
	ops := make([]op, 0, n)
	for i := 0; i < n; i++ {
		cl := u.clients[rng.Intn(ncl)]
		switch x := rng.Intn(10); {
		case x < 5:
			ns := 1 + rng.Intn(3)
			o := op{Kind: "sub", Client: cl}
			seen := map[string]bool{}
			for j := 0; j < ns; j++ {
				f := fs[rng.Intn(len(fs))]
				if seen[f] {
					continue
				}
				seen[f] = true
				o.Subs = append(o.Subs, mkSub(cl, f, rng.Intn(36)))
			}
			ops = append(ops, o)
		case x < 9:
			nt := 1 + rng.Intn(2)
			o := op{Kind: "unsub", Client: cl}
			for j := 0; j < nt; j++ {
				o.Topics = append(o.Topics, fs[rng.Intn(len(fs))])
			}
			ops = append(ops, o)
		default:
			ops = append(ops, op{Kind: "unsuball", Client: cl})
		}
		// durable back ends only (ignored by the others): a failing back end, a restart
		if rng.Intn(10) == 0 {
			ops[len(ops)-1].Fault = true
		}
		if rng.Intn(8) == 0 {
			ops = append(ops, op{Kind: "reload"})
		}
	}
	return ops
}

// Run is the entry point of the check.
func Run(r *monitor.Run) {
	facs := []Factory{{Name: "mem", New: func() (subscription.Store, func(), error) {
		s := mem.NewStore()
		return s, func() { _ = s.Close() }, nil
	}}}
	facs = append(facs, ExtraFactories...)

	// (A) exhaustive histories over the tiny universe
	tiny := tinyUniverse()
	maxLen := r.Pick(3, 4)
	for _, fac := range facs {
		exLen := maxLen
		if fac.Name != "mem" {
			exLen = r.Pick(2, 3) // network round trips: keep the exhaustive part smaller
		}
		var cur []op
		var hists [][]op
		var dfs func(d int)
		dfs = func(d int) {
			if d > 0 {
				hists = append(hists, append([]op{}, cur...))
			}
			if d == exLen {
				return
			}
			for _, o := range tinyOps(tiny, d) {
				cur = append(cur, o)
				dfs(d + 1)
				cur = cur[:len(cur)-1]
			}
		}
		dfs(0)
		workers := 16
		if fac.Name != "mem" {
			workers = 1
		}
		fac := fac
		r.Parallel(len(hists), workers, func(i int) {
			c := &checker{r: r, u: tiny, fac: fac}
			states := c.runHistory(hists[i], false)
			r.Eval(1)
			r.Count("exhaustive_histories_"+fac.Name, 1)
			for _, s := range states {
				r.Distinct("model_states", s)
				if s != "" {
					r.Nontrivial("tiny|" + fac.Name + "|" + fmt.Sprint(hists[i]))
				}
			}
		})
	}

	// (B) random histories over the big universe
	big := bigUniverse()
	r.Count("universe_filters", int64(len(big.filters)))
	r.Count("universe_probe_topics", int64(len(big.probes)))
	for _, fac := range facs {
		n := r.Pick(300, 20000)
		maxOps := r.Pick(60, 120)
		if fac.Name != "mem" {
			n = r.Pick(60, 3000)
		}
		rng := r.Rand("random-" + fac.Name)
		all := make([][]op, n)
		for i := range all {
			all[i] = randomHistory(rng, big, 5+rng.Intn(maxOps))
		}
		workers := 16
		if fac.Name != "mem" {
			workers = 1 // the durable back ends share one store server
		}
		r.Parallel(n, workers, func(i int) {
			c := &checker{r: r, u: big, fac: fac}
			ops := all[i]
			states := c.runHistory(ops, true)
			r.Eval(1)
			r.Count("random_histories_"+fac.Name, 1)
			r.Count("operations", int64(len(ops)))
			for _, s := range states {
				r.Distinct("model_states", s)
			}
			r.Nontrivial("rand|" + fac.Name + "|" + fmt.Sprint(i) + "|" + fmt.Sprint(len(states)))
			if i == 0 {
				hs := []string{}
				for _, o := range ops[:min(8, len(ops))] {
					hs = append(hs, o.String())
				}
				r.Sample(map[string]any{"store": fac.Name, "history_prefix": hs, "ops": len(ops)})
			}
		})
	}

	// (C) TopicMatch: exhaustive over all valid (name, plain filter) pairs of the big universe
	checkTopicMatch(r, big)

	// (D) lookups are reads: any number of them may run at once (the broker's delivery path, the API and plugins
	// all iterate) and each must see exactly what a lookup alone would see
	concurrentLookups(r, facs[0], big)
}

func concurrentLookups(r *monitor.Run, fac Factory, u universe) {
	rng := r.Rand("concurrent-lookups")
	for round := 0; round < r.Pick(6, 60); round++ {
		c := &checker{r: r, u: u, fac: fac}
		st, cleanup, err := fac.New()
		if err != nil {
			r.Inconclusive(err.Error())
			return
		}
		m := refmodel.NewSubTable()
		used := map[string]bool{}
		for _, o := range randomHistory(rng, u, 40+rng.Intn(60)) {
			if o.Fault {
				continue
			}
			c.apply(&st, m, o, used)
		}
		want := map[string]string{}
		for _, name := range u.probes {
			want[name] = refmodel.Canon(m.Matching(name, func(s refmodel.Sub) bool { return true }))
		}
		var wg sync.WaitGroup
		var bad int64
		seeds := make([]int64, 8)
		for g := range seeds {
			seeds[g] = rng.Int63()
		}
		for g := 0; g < 8; g++ {
			wg.Add(1)
			go func(g int) {
				defer wg.Done()
				lr := rand.New(rand.NewSource(seeds[g]))
				for i := 0; i < 400; i++ {
					name := u.probes[lr.Intn(len(u.probes))]
					got := refmodel.Canon(collect(st, subscription.IterationOptions{Type: subscription.TypeAll, TopicName: name, MatchType: subscription.MatchFilter}))
					if got != want[name] && atomic.AddInt64(&bad, 1) <= 2 {
						r.Violation("lookup.concurrent:store="+fac.Name, fmt.Sprintf("one of 8 concurrent lookups for topic %q returned [%s], the store holds [%s] (nothing was modified meanwhile)", name, got, want[name]), map[string]any{"topic": name, "got": got, "want": want[name]})
					}
				}
			}(g)
		}
		wg.Wait()
		cleanup()
		r.Eval(1)
		r.Count("concurrent_lookup_rounds", 1)
		r.Count("concurrent_lookups", 8*400)
		r.Nontrivial(fmt.Sprintf("concurrent-lookups|%d", round))
	}
}

func checkTopicMatch(r *monitor.Run, u universe) {
	var plain []string
	for _, f := range u.filters {
		if !strings.HasPrefix(f, "$share/") {
			plain = append(plain, f)
		}
	}
	sort.Strings(plain)
	pairs, matches := 0, 0
	for _, n := range u.probes {
		for _, f := range plain {
			if !refmodel.ValidName(n) || !refmodel.ValidPlainFilter(f) {
				continue
			}
			pairs++
			want := refmodel.Match(n, f)
			got := packets.TopicMatch([]byte(n), []byte(f))
			if want {
				matches++
			}
			if got != want {
				shape := filterShape(f)
				r.Violation(fmt.Sprintf("topicmatch:got=%v:want=%v:shape=%s", got, want, shape),
					fmt.Sprintf("TopicMatch(%q,%q)=%v, MQTT 4.7 says %v", n, f, got, want),
					map[string]any{"topic": n, "filter": f, "got": got, "want": want})
			}
		}
	}
	r.Eval(pairs)
	r.Count("topicmatch_pairs", int64(pairs))
	r.Count("topicmatch_matching_pairs", int64(matches))
	r.Sample(map[string]any{"topicmatch_example": []string{u.probes[5], plain[7]}})
	// totality on arbitrary bytes
	rng := r.Rand("topicmatch-bytes")
	alphabet := []byte("ab/+#$\x00\xff")
	n := r.Pick(20000, 2000000)
	for i := 0; i < n; i++ {
		a := make([]byte, rng.Intn(7))
		b := make([]byte, rng.Intn(7))
		for j := range a {
			a[j] = alphabet[rng.Intn(len(alphabet))]
		}
		for j := range b {
			b[j] = alphabet[rng.Intn(len(alphabet))]
		}
		func() {
			defer func() {
				if p := recover(); p != nil {
					r.Violation("topicmatch.panic", fmt.Sprintf("TopicMatch(%q,%q) panicked: %v", a, b, p), map[string]any{"topic": a, "filter": b})
				}
			}()
			got := packets.TopicMatch(a, b)
			if refmodel.ValidName(string(a)) && refmodel.ValidPlainFilter(string(b)) {
				if want := refmodel.Match(string(a), string(b)); got != want {
					r.Violation(fmt.Sprintf("topicmatch:got=%v:want=%v:shape=%s", got, want, filterShape(string(b))),
						fmt.Sprintf("TopicMatch(%q,%q)=%v, MQTT 4.7 says %v", a, b, got, want),
						map[string]any{"topic": string(a), "filter": string(b), "got": got, "want": want})
				}
			}
		}()
	}
	r.Eval(n)
	r.Count("topicmatch_random_byte_pairs", int64(n))
}

// filterShape abstracts a filter to its wildcard structure (for signatures).
func filterShape(f string) string {
	lv := strings.Split(f, "/")
	for i, l := range lv {
		switch {
		case l == "+" || l == "#":
		case l == "":
			lv[i] = "e"
		case l[0] == '$':
			lv[i] = "$"
		default:
			lv[i] = "x"
		}
	}
	return strings.Join(lv, "/")
}

// RunSharedStore is part (a) of C11: histories of joins and leaves of share groups
// (many clients, many groups, overlapping filters, the same client in several
// groups on one filter, groups coexisting with non-shared subscriptions).
func RunSharedStore(r *monitor.Run) {
	facs := []Factory{{Name: "mem", New: func() (subscription.Store, func(), error) {
		s := mem.NewStore()
		return s, func() { _ = s.Close() }, nil
	}}}
	facs = append(facs, ExtraFactories...)
	big := bigUniverse()
	// shared universe: few plain filters, each also in groups g1..g3
	var plain []string
	for _, f := range big.filters {
		if !strings.HasPrefix(f, "$share/") {
			plain = append(plain, f)
		}
	}
	for _, fac := range facs {
		n := r.Pick(400, 10000)
		if fac.Name != "mem" {
			n = r.Pick(60, 3000)
		}
		rng := r.Rand("shared-" + fac.Name)
		type job struct {
			u   universe
			ops []op
		}
		jobs := make([]job, n)
		for i := range jobs {
			u := universe{clients: []string{"c1", "c2", "c3", "c4", "c5"}, probes: big.probes}
			k := 2 + rng.Intn(4)
			for j := 0; j < k; j++ {
				f := plain[rng.Intn(len(plain))]
				u.filters = append(u.filters, f)
				for _, g := range []string{"g1", "g2", "g3"}[:1+rng.Intn(3)] {
					u.filters = append(u.filters, "$share/"+g+"/"+f)
				}
			}
			jobs[i] = job{u, sharedHistory(rng, u, 5+rng.Intn(r.Pick(40, 80)))}
		}
		workers := 16
		if fac.Name != "mem" {
			workers = 1 // the durable back ends share one store server
		}
		r.Parallel(n, workers, func(i int) {
			u, ops := jobs[i].u, jobs[i].ops
			c := &checker{r: r, u: u, fac: fac, shared: true}
			states := c.runHistory(ops, true)
			r.Eval(1)
			r.Count("store_histories_"+fac.Name, 1)
			r.Count("store_operations", int64(len(ops)))
			for _, s := range states {
				r.Distinct("store_model_states", s)
			}
			r.Nontrivial("sharedstore|" + fac.Name + "|" + fmt.Sprint(i) + "|" + fmt.Sprint(len(states)))
			if i == 0 {
				hs := []string{}
				for _, o := range ops[:min(8, len(ops))] {
					hs = append(hs, o.String())
				}
				r.Sample(map[string]any{"store": fac.Name, "store_history_prefix": hs})
			}
		})
	}
}

func sharedHistory(rng *rand.Rand, u universe, n int) []op {
	ops := make([]op, 0, n)
	for i := 0; i < n; i++ {
		cl := u.clients[rng.Intn(len(u.clients))]
		switch x := rng.Intn(10); {
		case x < 6:
			o := op{Kind: "sub", Client: cl}
			seen := map[string]bool{}
			for j := 0; j < 1+rng.Intn(3); j++ {
				f := u.filters[rng.Intn(len(u.filters))]
				if !seen[f] {
					seen[f] = true
					o.Subs = append(o.Subs, mkSub(cl, f, rng.Intn(36)))
				}
			}
			ops = append(ops, o)
		case x < 9:
			ops = append(ops, op{Kind: "unsub", Client: cl, Topics: []string{u.filters[rng.Intn(len(u.filters))]}})
		default:
			ops = append(ops, op{Kind: "unsuball", Client: cl})
		}
		// durable back ends only (ignored by the others): a failing back end, a restart
		if rng.Intn(12) == 0 {
			ops[len(ops)-1].Fault = true
		}
		if rng.Intn(8) == 0 {
			ops = append(ops, op{Kind: "reload"})
		}
	}
	return ops
}
