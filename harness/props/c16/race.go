package c16

import (
	"fmt"
	"sync"
	"sync/atomic"
	"time"

	"github.com/DrmagicE/gmqtt/plugin/federation"

	"verif/harness/fed"
	"verif/harness/monitor"
	"verif/harness/mqttx"
	"verif/harness/wire"
)

// lastUnsubscribeVsNewSubscribe: two clients of one node act on the same filter at the same time - one gives up the last
// subscription to it, the other subscribes to it. Whatever the order in which the node handles the two requests, the
// events it emits to its peer tell that order: once both requests are acknowledged and the stream is quiet, the peer's
// view agrees with the subscriptions that exist. The goroutine of the UNSUBSCRIBE is held up for a moment between the
// node's own book-keeping and the emission of its event (verif yield site fed.unsubscribed.counted), in the other half of
// the rounds the one of the SUBSCRIBE (fed.subscribed.counted).
func lastUnsubscribeVsNewSubscribe(r *monitor.Run, idx int) {
	a, err := fed.Start(fmt.Sprintf("c16RA%d", idx), nil, false, nil)
	if err != nil {
		r.Inconclusive(err.Error())
		return
	}
	defer func() { go a.Stop() }()
	b, err := fed.Start(fmt.Sprintf("c16RB%d", idx), []string{a.Gossip}, true, nil)
	if err != nil {
		r.Inconclusive(err.Error())
		return
	}
	defer func() { go b.Stop() }()
	dial := func(id string) (*wire.Client, error) {
		cl, err := wire.Dial(id, a.B.Addr, mqttx.V5)
		if err != nil {
			return nil, err
		}
		if _, err := cl.Connect(&mqttx.Packet{ClientID: id, CleanStart: true}, step); err != nil {
			cl.Close()
			return nil, err
		}
		return cl, nil
	}
	x, err := dial("race-x")
	if err != nil {
		r.Inconclusive(err.Error())
		return
	}
	defer x.Close()
	y, err := dial("race-y")
	if err != nil {
		r.Inconclusive(err.Error())
		return
	}
	defer y.Close()
	if !fed.WaitView(b, a, settle) || !fed.WaitView(a, b, settle) {
		r.Inconclusive("race: views not equal at the start")
		return
	}
	var holdSite atomic.Value
	holdSite.Store("")
	var held int64
	federation.SetVerifYield(func(site string) {
		if s, _ := holdSite.Load().(string); s == site {
			atomic.AddInt64(&held, 1)
			time.Sleep(3 * time.Millisecond)
		}
	})
	defer federation.SetVerifYield(nil)
	const rounds = 40
	for k := 0; k < rounds; k++ {
		t := fmt.Sprintf("race/%d/%d", idx, k)
		// x holds the only subscription
		if _, err := x.Subscribe([]mqttx.Sub{{Filter: t, QoS: 0}}, 0, step); err != nil {
			r.Inconclusive(err.Error())
			return
		}
		first, second := x, y // x unsubscribes (held), y subscribes a moment later
		site := "fed.unsubscribed.counted"
		if k%2 == 1 {
			site = "fed.subscribed.counted" // y's subscribe is held (it was counted as new only if x's unsubscribe came first) ...
		}
		holdSite.Store(site)
		var wg sync.WaitGroup
		wg.Add(2)
		var e1, e2 error
		go func() {
			defer wg.Done()
			if k%2 == 0 {
				_, e1 = first.Unsubscribe([]string{t}, step)
			} else {
				time.Sleep(time.Millisecond)
				_, e1 = first.Unsubscribe([]string{t}, step)
			}
		}()
		go func() {
			defer wg.Done()
			if k%2 == 0 {
				time.Sleep(time.Millisecond)
			}
			_, e2 = second.Subscribe([]mqttx.Sub{{Filter: t, QoS: 0}}, 0, step)
		}()
		wg.Wait()
		holdSite.Store("")
		if e1 != nil || e2 != nil {
			r.Inconclusive(fmt.Sprintf("race: %v %v", e1, e2))
			return
		}
	}
	r.Eval(1)
	if !fed.WaitView(b, a, settle) {
		v := b.F.VerifFedView(a.Name)
		have := fed.ActualTopics(a)
		missing := []string{}
		seen := map[string]bool{}
		for _, t := range v {
			seen[t] = true
		}
		for _, t := range have {
			if !seen[t] {
				missing = append(missing, t)
			}
		}
		r.Violation("race.unsubscribe_vs_subscribe:view_of=A", fmt.Sprintf("on A, %d times one client gave up the last subscription to a filter while another one subscribed to it; both were acknowledged. %v after the last request B believes A subscribes to %d filters, subscribers exist on A for %d; missing in B's view: %v", rounds, settle, len(v), len(have), head(missing)), nil)
		return
	}
	r.Count("last_unsubscribe_vs_new_subscribe_rounds", rounds)
	r.Count("subscription_hooks_held_between_count_and_emission", atomic.LoadInt64(&held))
	if atomic.LoadInt64(&held) > 0 {
		r.Nontrivial(fmt.Sprintf("race|%d", idx))
	}
}
