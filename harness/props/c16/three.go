package c16

import (
	"fmt"

	"verif/harness/fed"
	"verif/harness/monitor"
	"verif/harness/mqttx"
	"verif/harness/wire"
)

// threeNodes: a node keeps one event stream per peer, each with its own numbering. With two peers whose streams have
// advanced differently (messages forwarded to one of them only, because only it has a subscriber), every further
// subscription change of the node reaches both: each peer's view of the node converges to the topics that really have a
// subscriber there. Both drift directions, subscribes and unsubscribes.
func threeNodes(r *monitor.Run, idx int) {
	a, err := fed.Start(fmt.Sprintf("c16TA%d", idx), nil, false, nil)
	if err != nil {
		r.Inconclusive(err.Error())
		return
	}
	defer func() { go a.Stop() }()
	b, err := fed.Start(fmt.Sprintf("c16TB%d", idx), []string{a.Gossip}, true, nil)
	if err != nil {
		r.Inconclusive(err.Error())
		return
	}
	defer func() { go b.Stop() }()
	c, err := fed.Start(fmt.Sprintf("c16TC%d", idx), []string{a.Gossip}, true, nil)
	if err != nil {
		r.Inconclusive(err.Error())
		return
	}
	defer func() { go c.Stop() }()
	nodes := []*fed.Node{a, b, c}
	names := []string{"A", "B", "C"}
	converged := func(stage string) bool {
		for i, n := range nodes {
			for j, p := range nodes {
				if i == j {
					continue
				}
				if !fed.WaitView(n, p, settle) {
					v := n.F.VerifFedView(p.Name)
					r.Violation(fmt.Sprintf("three_nodes.view:stage=%s:of=%s:at=%s", stage, names[j], names[i]), fmt.Sprintf("%v after the last change %s still believes %s subscribes to %d topics %v; subscribers exist there for %d: %v", settle, names[i], names[j], len(v), head(v), len(fed.ActualTopics(p)), head(fed.ActualTopics(p))), nil)
					return false
				}
			}
		}
		return true
	}
	dial := func(n *fed.Node, id string) (*wire.Client, error) {
		cl, err := wire.Dial(id, n.B.Addr, mqttx.V5)
		if err != nil {
			return nil, err
		}
		if _, err := cl.Connect(&mqttx.Packet{ClientID: id, CleanStart: true}, step); err != nil {
			cl.Close()
			return nil, err
		}
		return cl, nil
	}
	ca, err := dial(a, "three-a")
	if err == nil {
		defer ca.Close()
	}
	cb, err2 := dial(b, "three-b")
	if err2 == nil {
		defer cb.Close()
	}
	cc, err3 := dial(c, "three-c")
	if err3 == nil {
		defer cc.Close()
	}
	if err != nil || err2 != nil || err3 != nil {
		r.Inconclusive(fmt.Sprintf("three nodes: %v %v %v", err, err2, err3))
		return
	}
	r.Eval(1)
	if !converged("start") {
		return
	}
	if _, err := cb.Subscribe([]mqttx.Sub{{Filter: "drift/b", QoS: 1}}, 0, step); err != nil {
		r.Inconclusive(err.Error())
		return
	}
	if _, err := cc.Subscribe([]mqttx.Sub{{Filter: "drift/c", QoS: 1}}, 0, step); err != nil {
		r.Inconclusive(err.Error())
		return
	}
	if _, err := ca.Subscribe([]mqttx.Sub{{Filter: "a/0", QoS: 1}}, 0, step); err != nil {
		r.Inconclusive(err.Error())
		return
	}
	if !converged("first_subscriptions") {
		return
	}
	total := 0
	sub := func(from, n int) bool {
		for k := from; k < from+n; k++ {
			if _, err := ca.Subscribe([]mqttx.Sub{{Filter: fmt.Sprintf("a/%d", k), QoS: 0}}, 0, step); err != nil {
				r.Inconclusive(err.Error())
				return false
			}
		}
		total += n
		return true
	}
	// messages from A that only B wants: A's stream to B runs ahead of its stream to C
	drift := func(topic string, to *wire.Client, n int, tag string) bool {
		for k := 0; k < n; k++ {
			pl := fmt.Sprintf("%s-%d-%d", tag, idx, k)
			if _, err := ca.Publish(&mqttx.Packet{Topic: topic, QoS: 1, Payload: []byte(pl)}, step); err != nil {
				r.Inconclusive(err.Error())
				return false
			}
			if err := to.WaitPayload(pl, settle); err != nil {
				r.Inconclusive(fmt.Sprintf("three nodes: message for the subscriber on the peer did not arrive: %v", err))
				return false
			}
		}
		return true
	}
	if !drift("drift/b", cb, 7+idx%5, "tob") || !sub(1, 12) || !converged("after_drift_to_b") {
		return
	}
	if !drift("drift/c", cc, 23+idx%7, "toc") || !sub(13, 12) || !converged("after_drift_to_c") {
		return
	}
	for k := 1; k < 25; k += 2 {
		if _, err := ca.Unsubscribe([]string{fmt.Sprintf("a/%d", k)}, step); err != nil {
			r.Inconclusive(err.Error())
			return
		}
	}
	if !drift("drift/b", cb, 3, "tob2") || !converged("after_unsubscribes") {
		return
	}
	r.Count("three_node_clusters_with_drifted_streams", 1)
	r.Count("three_node_subscription_changes", int64(total+12))
	r.Nontrivial(fmt.Sprintf("three|%d", idx))
}

func head(v []string) []string {
	if len(v) > 6 {
		return v[:6]
	}
	return v
}
