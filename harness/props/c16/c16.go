//go:build verif

// Package c16: the federation event stream is reliable - ordered, at-least-once,
// applied once (DESIGN.md §5 C16).
package c16

import (
	"fmt"
	"math/rand"
	"reflect"
	"strings"
	"sync"
	"time"

	"verif/harness/fed"
	"verif/harness/monitor"
	"verif/harness/mqttx"
	"verif/harness/wire"
)

const step = 10 * time.Second
const settle = 15 * time.Second

// Fault is one scripted fault, armed right before operation At.
type Fault struct {
	At   int
	Kind string // cutnow | cutafter_up | cutafter_down | blackhole | cut_during_resync
	N    int    // bytes after the current total (cutafter) or milliseconds (blackhole)
}

// Script is one case.
type Script struct {
	Ops        int
	Concurrent bool // 4 emitting clients instead of 1
	Faults     []Fault
	Seed       int64
	// Bulk > 0: the (single) emitter also subscribes to Bulk fresh filters with one SUBSCRIBE right after the
	// first operation and drops them with one UNSUBSCRIBE at the end: more events than one batch of the stream
	// carries (100) are pending at once
	Bulk int `json:",omitempty"`
}

type expEv struct {
	Kind, Topic, Payload string
	Client               int
}

type pair struct {
	a, b *fed.Node
	idx  int
	seq  int
	mu   sync.Mutex
}

func newPair(idx int) (*pair, error) {
	a, err := fed.Start(fmt.Sprintf("c16A%d", idx), nil, false, nil)
	if err != nil {
		return nil, err
	}
	b, err := fed.Start(fmt.Sprintf("c16B%d", idx), []string{a.Gossip}, true, nil)
	if err != nil {
		a.Stop()
		return nil, err
	}
	p := &pair{a: a, b: b, idx: idx}
	if !fed.WaitView(a, b, settle) || !fed.WaitView(b, a, settle) {
		p.stop()
		return nil, fmt.Errorf("federation of pair %d not established", idx)
	}
	return p, nil
}

func (p *pair) stop() {
	go p.a.Stop()
	go p.b.Stop()
}

type finding struct {
	Sig, What string
	Detail    map[string]any
}

// run executes one script on the pair.
func (p *pair) run(sc *Script, r *monitor.Run) (fs []finding, obs map[string]int, rerr error) {
	obs = map[string]int{}
	add := func(sig, what string, d map[string]any) { fs = append(fs, finding{sig, what, d}) }
	rng := rand.New(rand.NewSource(sc.Seed))
	p.seq++
	tag := fmt.Sprintf("s%d", p.seq)
	a, b := p.a, p.b
	// B is interested in m/<tag>/#, so that A forwards messages published there
	bc, err := wire.Dial("bsub", b.B.Addr, mqttx.V5)
	if err != nil {
		return nil, nil, err
	}
	defer bc.Close()
	if _, err := bc.Connect(&mqttx.Packet{ClientID: "bsub-" + tag, CleanStart: true}, step); err != nil {
		return nil, nil, err
	}
	if _, err := bc.Subscribe([]mqttx.Sub{{Filter: "m/" + tag + "/#", QoS: 1}}, 0, step); err != nil {
		return nil, nil, err
	}
	if !fed.WaitView(a, b, settle) || !fed.WaitView(b, a, settle) {
		return nil, nil, fmt.Errorf("views not stable before the script")
	}
	base := len(fed.AppliedBy(b.Name, a.Name))
	nclients := 1
	if sc.Concurrent {
		nclients = 4
	}
	clients := make([]*wire.Client, nclients)
	for i := range clients {
		c, err := wire.Dial("em", a.B.Addr, mqttx.V5)
		if err != nil {
			return nil, nil, err
		}
		defer c.Close()
		if _, err := c.Connect(&mqttx.Packet{ClientID: fmt.Sprintf("em-%s-%d", tag, i), CleanStart: true}, step); err != nil {
			return nil, nil, err
		}
		clients[i] = c
	}
	// per client: generate ops; each client uses its own topics so that "first/last subscriber" is decided per client
	var emu sync.Mutex
	var expected []expEv
	faultAt := map[int][]Fault{}
	for _, f := range sc.Faults {
		faultAt[f.At] = append(faultAt[f.At], f)
	}
	lastFault := time.Now()
	applyFaults := func(i int) {
		for _, f := range faultAt[i] {
			up, down, _, _ := b.Proxy.Totals()
			switch f.Kind {
			case "cutnow":
				b.Proxy.CutNow()
			case "cutafter_up":
				b.Proxy.CutAfter("up", up+int64(f.N))
			case "cutafter_down":
				b.Proxy.CutAfter("down", down+int64(f.N))
			case "blackhole":
				b.Proxy.Blackhole(time.Duration(f.N) * time.Millisecond)
			case "cut_during_resync":
				// cut, then cut again a few bytes into the re-established stream (handshake / first resent events)
				b.Proxy.CutNow()
				up, down, _, _ = b.Proxy.Totals()
				b.Proxy.CutAfter("up", up+int64(f.N))
				b.Proxy.CutAfter("down", down+int64(f.N/2+1))
			}
			obs["faults_"+f.Kind]++
			emu.Lock()
			lastFault = time.Now()
			emu.Unlock()
		}
	}
	var opCounter int
	var ocMu sync.Mutex
	emit := func(ci int, n int, lrng *rand.Rand) error {
		c := clients[ci]
		subbed := map[string]bool{}
		var bulk []string
		for j := 0; j < sc.Bulk && ci == 0 && !sc.Concurrent; j++ {
			bulk = append(bulk, fmt.Sprintf("u/%s/bulk/%03d", tag, j))
		}
		for k := 0; k < n; k++ {
			ocMu.Lock()
			i := opCounter
			opCounter++
			ocMu.Unlock()
			applyFaults(i)
			if len(bulk) > 0 && (k == 1 || k == n-1) {
				if k == 1 {
					var subs []mqttx.Sub
					for _, f := range bulk {
						subs = append(subs, mqttx.Sub{Filter: f, QoS: 1})
					}
					if _, err := c.Subscribe(subs, 0, step); err != nil {
						return err
					}
				} else if _, err := c.Unsubscribe(bulk, step); err != nil {
					return err
				}
				emu.Lock()
				for _, f := range bulk {
					expected = append(expected, expEv{map[bool]string{true: "sub", false: "unsub"}[k == 1], f, "", ci})
				}
				emu.Unlock()
				obs["bulk_events"] += len(bulk)
			}
			topic := fmt.Sprintf("u/%s/c%d/t%d", tag, ci, lrng.Intn(4))
			switch x := lrng.Intn(10); {
			case x < 4:
				if _, err := c.Subscribe([]mqttx.Sub{{Filter: topic, QoS: 1}}, 0, step); err != nil {
					return err
				}
				if !subbed[topic] {
					subbed[topic] = true
					emu.Lock()
					expected = append(expected, expEv{"sub", topic, "", ci})
					emu.Unlock()
				}
			case x < 6:
				if _, err := c.Unsubscribe([]string{topic}, step); err != nil {
					return err
				}
				if subbed[topic] {
					delete(subbed, topic)
					emu.Lock()
					expected = append(expected, expEv{"unsub", topic, "", ci})
					emu.Unlock()
				}
			default:
				pl := fmt.Sprintf("%s-c%d-%d", tag, ci, k)
				retained := lrng.Intn(5) == 0
				t := fmt.Sprintf("m/%s/c%d", tag, ci)
				if _, err := c.Publish(&mqttx.Packet{Topic: t, QoS: 1, Retain: retained, Payload: []byte(pl)}, step); err != nil {
					return err
				}
				emu.Lock()
				expected = append(expected, expEv{"msg", t, pl, ci})
				emu.Unlock()
			}
		}
		return nil
	}
	if sc.Concurrent {
		var wg sync.WaitGroup
		errs := make([]error, nclients)
		seeds := []int64{rng.Int63(), rng.Int63(), rng.Int63(), rng.Int63()}
		for ci := 0; ci < nclients; ci++ {
			wg.Add(1)
			go func(ci int) {
				defer wg.Done()
				errs[ci] = emit(ci, sc.Ops/nclients+1, rand.New(rand.NewSource(seeds[ci])))
			}(ci)
		}
		wg.Wait()
		for _, e := range errs {
			if e != nil {
				return nil, nil, e
			}
		}
	} else if err := emit(0, sc.Ops, rng); err != nil {
		return nil, nil, err
	}
	// bounded progress: within `settle` after the last fault everything emitted has been applied
	want := len(expected)
	b.Proxy.ClearCuts()
	deadline := lastFault.Add(settle)
	if d := time.Now().Add(settle / 3); d.After(deadline) {
		deadline = d
	}
	for len(fed.AppliedBy(b.Name, a.Name))-base < want && time.Now().Before(deadline) {
		time.Sleep(5 * time.Millisecond)
	}
	time.Sleep(150 * time.Millisecond) // quiet period: can only reveal extras
	got := fed.AppliedBy(b.Name, a.Name)[base:]
	obs["events_emitted"] = want
	obs["events_applied"] = len(got)
	_, _, conns, cuts := b.Proxy.Totals()
	obs["proxy_connections"], obs["proxy_cuts"] = conns, cuts
	render := func(k, t, pl string) string { return k + " " + t + " " + pl }
	var gs, es []string
	for _, g := range got {
		gs = append(gs, render(g.Kind, g.Topic, g.Payload))
	}
	for _, e := range expected {
		es = append(es, render(e.Kind, e.Topic, e.Payload))
	}
	detail := map[string]any{"script": sc, "emitted": es, "applied": gs}
	count := map[string]int{}
	for _, g := range gs {
		count[g]++
	}
	ecount := map[string]int{}
	for _, e := range es {
		ecount[e]++
	}
	for e, n := range ecount {
		switch {
		case count[e] < n:
			add("event.lost:"+e[:3], fmt.Sprintf("event %q emitted %d times, applied %d times by the peer (%d emitted, %d applied in total)", e, n, count[e], len(es), len(gs)), detail)
		case count[e] > n:
			add("event.applied_twice:"+e[:3], fmt.Sprintf("event %q emitted %d times, applied %d times by the peer", e, n, count[e]), detail)
		}
	}
	for g := range count {
		if ecount[g] == 0 {
			add("event.unknown", fmt.Sprintf("peer applied %q which was never emitted in this script", g), detail)
		}
	}
	if len(fs) == 0 {
		// order: total order for one emitter, per-client order for concurrent emitters
		if !sc.Concurrent {
			if !reflect.DeepEqual(gs, es) {
				add("event.order", "events applied in another order than emitted", detail)
			}
		} else {
			for ci := 0; ci < nclients; ci++ {
				var ge, ee []string
				for _, e := range expected {
					if e.Client == ci {
						ee = append(ee, render(e.Kind, e.Topic, e.Payload))
					}
				}
				pre := fmt.Sprintf("/c%d", ci)
				for _, g := range got {
					if containsClient(g.Topic, tag, ci) {
						ge = append(ge, render(g.Kind, g.Topic, g.Payload))
					}
				}
				_ = pre
				if !reflect.DeepEqual(ge, ee) {
					add("event.order_per_client", fmt.Sprintf("events of client %d applied in another order than emitted", ci), detail)
				}
			}
		}
	}
	// after a stable period the peer's view equals the node's local subscription set
	if !fed.WaitView(b, a, settle) {
		add("view.diverged", fmt.Sprintf("B's view of A %v differs from A's local topics %v after the stream was stable", b.F.VerifFedView(a.Name), a.F.VerifLocalTopics()), detail)
	}
	if !fed.WaitView(a, b, settle) {
		add("view.diverged_reverse", fmt.Sprintf("A's view of B %v differs from B's local topics %v", a.F.VerifFedView(b.Name), b.F.VerifLocalTopics()), detail)
	}
	// the messages also reached B's subscriber exactly once each
	nmsg := 0
	for _, e := range expected {
		if e.Kind == "msg" {
			nmsg++
		}
	}
	dl := time.Now().Add(3 * time.Second)
	for len(bc.Publishes()) < nmsg && time.Now().Before(dl) {
		time.Sleep(5 * time.Millisecond)
	}
	seen := map[string]int{}
	for _, rcv := range bc.Publishes() {
		seen[string(rcv.P.Payload)]++
	}
	for _, e := range expected {
		if e.Kind == "msg" && seen[e.Payload] != 1 {
			add(fmt.Sprintf("delivery.count:%d", seen[e.Payload]), fmt.Sprintf("message %s forwarded over the federation reached B's subscriber %d times", e.Payload, seen[e.Payload]), detail)
		}
	}
	// Leave nothing behind for the next script on this pair: the sessions of this script's clients end with
	// their connections, which emits unsubscribe events. Wait until they have been emitted and applied.
	for _, c := range clients {
		c.Close()
	}
	bc.Close()
	gone := func(ts []string) bool {
		for _, t := range ts {
			if strings.Contains(t, "/"+tag+"/") {
				return false
			}
		}
		return true
	}
	dl = time.Now().Add(settle)
	for time.Now().Before(dl) && !(gone(a.F.VerifLocalTopics()) && gone(b.F.VerifLocalTopics()) && gone(b.F.VerifFedView(a.Name)) && gone(a.F.VerifFedView(b.Name))) {
		time.Sleep(5 * time.Millisecond)
	}
	return fs, obs, nil
}

func containsClient(topic, tag string, ci int) bool {
	return len(topic) > 0 && (hasPrefix(topic, fmt.Sprintf("u/%s/c%d/", tag, ci)) || topic == fmt.Sprintf("m/%s/c%d", tag, ci))
}
func hasPrefix(s, p string) bool { return len(s) >= len(p) && s[:len(p)] == p }

// sessionLoss: B is stopped and a new B with the same node name joins; a full resynchronisation restores the views.
func sessionLoss(r *monitor.Run, idx int) {
	a, err := fed.Start(fmt.Sprintf("c16LA%d", idx), nil, false, nil)
	if err != nil {
		r.Inconclusive(err.Error())
		return
	}
	defer func() { go a.Stop() }()
	bname := fmt.Sprintf("c16LB%d", idx)
	b, err := fed.Start(bname, []string{a.Gossip}, true, nil)
	if err != nil {
		r.Inconclusive(err.Error())
		return
	}
	ca, _ := wire.Dial("ca", a.B.Addr, mqttx.V5)
	defer ca.Close()
	_, _ = ca.Connect(&mqttx.Packet{ClientID: "loss-a", CleanStart: true}, step)
	_, _ = ca.Subscribe([]mqttx.Sub{{Filter: "la/1", QoS: 1}, {Filter: "la/+/x", QoS: 0}, {Filter: "$share/g/la/s", QoS: 1}}, 0, step)
	_, _ = ca.Publish(&mqttx.Packet{Topic: "ret/a", QoS: 1, Retain: true, Payload: []byte("retained-at-a")}, step)
	if !fed.WaitView(b, a, settle) {
		r.Violation("loss.initial_sync", "B never learned A's subscriptions", nil)
		b.Stop()
		return
	}
	b.Stop() // leave + shutdown
	_, _ = ca.Subscribe([]mqttx.Sub{{Filter: "la/2", QoS: 1}}, 0, step)
	_, _ = ca.Unsubscribe([]string{"la/1"}, step)
	b2, err := fed.Start(bname, []string{a.Gossip}, true, nil)
	r.Eval(1)
	if err != nil {
		r.Inconclusive("rejoin: " + err.Error())
		return
	}
	defer func() { go b2.Stop() }()
	cb, _ := wire.Dial("cb", b2.B.Addr, mqttx.V5)
	defer cb.Close()
	_, _ = cb.Connect(&mqttx.Packet{ClientID: "loss-b", CleanStart: true}, step)
	_, _ = cb.Subscribe([]mqttx.Sub{{Filter: "lb/#", QoS: 1}}, 0, step)
	if !fed.WaitView(b2, a, settle) {
		r.Violation("loss.resync", fmt.Sprintf("after B was replaced, its view of A %v never became A's local set %v", b2.F.VerifFedView(a.Name), a.F.VerifLocalTopics()), nil)
	}
	if !fed.WaitView(a, b2, settle) {
		r.Violation("loss.resync_reverse", fmt.Sprintf("after B was replaced, A's view of B %v never became B's local set %v", a.F.VerifFedView(bname), b2.F.VerifLocalTopics()), nil)
	}
	// retained messages are re-sent on resynchronisation
	dl := time.Now().Add(settle)
	for b2.B.Srv.RetainedService().GetRetainedMessage("ret/a") == nil && time.Now().Before(dl) {
		time.Sleep(10 * time.Millisecond)
	}
	if m := b2.B.Srv.RetainedService().GetRetainedMessage("ret/a"); m == nil || string(m.Payload) != "retained-at-a" {
		r.Violation("loss.retained_not_resent", "the retained message of A did not reach the replaced B", nil)
	}
	r.Count("session_loss_cases", 1)
	r.Nontrivial(fmt.Sprintf("loss|%d", idx))
}

// sessionBounce: one node alone sees its peer fail and rejoin (asymmetric failure detection). It opens a new
// session towards the peer, which still holds the old one: the peer has to notice the new session id, forget
// what it knew and take the full resynchronisation, whose events are numbered from 0 again.
func sessionBounce(r *monitor.Run, idx int, rng *rand.Rand) {
	a, err := fed.Start(fmt.Sprintf("c16BA%d", idx), nil, false, nil)
	if err != nil {
		r.Inconclusive(err.Error())
		return
	}
	defer func() { go a.Stop() }()
	b, err := fed.Start(fmt.Sprintf("c16BB%d", idx), []string{a.Gossip}, true, nil)
	if err != nil {
		r.Inconclusive(err.Error())
		return
	}
	defer func() { go b.Stop() }()
	ca, _ := wire.Dial("ca", a.B.Addr, mqttx.V5)
	defer ca.Close()
	cb, _ := wire.Dial("cb", b.B.Addr, mqttx.V5)
	defer cb.Close()
	_, _ = ca.Connect(&mqttx.Packet{ClientID: "bounce-a", CleanStart: true}, step)
	_, _ = cb.Connect(&mqttx.Packet{ClientID: "bounce-b", CleanStart: true}, step)
	n := 0
	mutate := func(c *wire.Client, who string, k int) {
		for i := 0; i < k; i++ {
			n++
			f := fmt.Sprintf("bn/%s/%d", who, rng.Intn(8))
			if rng.Intn(4) == 0 {
				f = "$share/grp/" + f // shared subscriptions are part of the state that is resynchronised
			}
			if rng.Intn(3) == 0 {
				_, _ = c.Unsubscribe([]string{f}, step)
			} else {
				_, _ = c.Subscribe([]mqttx.Sub{{Filter: f, QoS: 1}}, 0, step)
			}
		}
	}
	mutate(ca, "a", 3+rng.Intn(6))
	mutate(cb, "b", 3+rng.Intn(6))
	if !fed.WaitView(b, a, settle) || !fed.WaitView(a, b, settle) {
		r.Violation("bounce.initial_sync", "views not equal before the bounce", nil)
		return
	}
	rounds := 1 + rng.Intn(3)
	for k := 0; k < rounds; k++ {
		side, other := a, b
		if rng.Intn(2) == 0 {
			side, other = b, a
		}
		if !side.F.VerifBouncePeer(other.Name) {
			r.Inconclusive("bounce: peer unknown")
			return
		}
		r.Count("one_sided_bounces", 1)
		mutate(ca, "a", rng.Intn(5))
		mutate(cb, "b", rng.Intn(5))
		r.Eval(1)
		if !fed.WaitView(b, a, settle) {
			r.Violation("bounce.resync:view_of=A", fmt.Sprintf("after a one-sided fail/join at %s, B's view of A %v never became A's local set %v", side.Name, b.F.VerifFedView(a.Name), a.F.VerifLocalTopics()), map[string]any{"round": k})
			return
		}
		if !fed.WaitView(a, b, settle) {
			r.Violation("bounce.resync:view_of=B", fmt.Sprintf("after a one-sided fail/join at %s, A's view of B %v never became B's local set %v", side.Name, a.F.VerifFedView(b.Name), b.F.VerifLocalTopics()), map[string]any{"round": k})
			return
		}
	}
	r.Count("session_bounce_cases", 1)
	r.Nontrivial(fmt.Sprintf("bounce|%d", idx))
}

// outageEmptyResync: the peer forgets the node's session while the stream is down, the node emits events during
// the outage that cancel out (subscribe, unsubscribe), so the full state it sends at the clean-start handshake is
// empty. Whatever was pending from before must be gone with the old session; events emitted afterwards arrive.
func outageEmptyResync(r *monitor.Run, idx int) {
	a, err := fed.Start(fmt.Sprintf("c16OA%d", idx), nil, false, nil)
	if err != nil {
		r.Inconclusive(err.Error())
		return
	}
	defer func() { go a.Stop() }()
	b, err := fed.Start(fmt.Sprintf("c16OB%d", idx), []string{a.Gossip}, true, nil)
	if err != nil {
		r.Inconclusive(err.Error())
		return
	}
	defer func() { go b.Stop() }()
	if !fed.WaitView(b, a, settle) || !fed.WaitView(a, b, settle) {
		r.Inconclusive("outage: federation not established")
		return
	}
	ca, _ := wire.Dial("ca", a.B.Addr, mqttx.V5)
	defer ca.Close()
	_, _ = ca.Connect(&mqttx.Packet{ClientID: "outage-a", CleanStart: true}, step)
	// the stream A -> B goes through B's proxy: take it down and keep it down
	b.Proxy.Refuse(true)
	b.Proxy.CutNow()
	if !b.F.VerifBouncePeer(a.Name) {
		r.Inconclusive("outage: peer unknown")
		return
	}
	for i := 0; i < 3; i++ {
		f := fmt.Sprintf("out/tmp/%d", i)
		_, _ = ca.Subscribe([]mqttx.Sub{{Filter: f, QoS: 1}}, 0, step)
		_, _ = ca.Unsubscribe([]string{f}, step)
	}
	b.Proxy.Refuse(false)
	b.Proxy.ClearCuts()
	// the stream comes back, the handshake is a clean start with an empty state
	time.Sleep(1500 * time.Millisecond)
	r.Eval(1)
	r.Count("outage_empty_resync_cases", 1)
	for i := 0; i < 3; i++ {
		_, _ = ca.Subscribe([]mqttx.Sub{{Filter: fmt.Sprintf("out/after/%d", i), QoS: 1}}, 0, step)
	}
	if !fed.WaitView(b, a, settle) {
		r.Violation("outage.resync", fmt.Sprintf("after an outage with a lost session and an empty resynchronisation, B's view of A %v never became A's local set %v", b.F.VerifFedView(a.Name), a.F.VerifLocalTopics()), nil)
		return
	}
	r.Nontrivial(fmt.Sprintf("outage|%d", idx))
}

func genScripts(rng *rand.Rand, n int, thorough bool) []Script {
	var out []Script
	for i := 0; i < n; i++ {
		sc := Script{Ops: 8 + rng.Intn(25), Concurrent: i%4 == 3, Seed: rng.Int63()}
		nf := rng.Intn(4)
		if i%7 == 0 {
			nf = 0
		}
		for k := 0; k < nf; k++ {
			f := Fault{At: rng.Intn(sc.Ops)}
			switch x := rng.Intn(10); {
			case x < 3:
				f.Kind = "cutnow"
			case x < 5:
				f.Kind, f.N = "cutafter_up", 1+rng.Intn(400)
			case x < 7:
				f.Kind, f.N = "cutafter_down", 1+rng.Intn(200)
			case x < 8:
				f.Kind, f.N = "blackhole", 300+rng.Intn(700)
			default:
				f.Kind, f.N = "cut_during_resync", 1+rng.Intn(600)
			}
			sc.Faults = append(sc.Faults, f)
		}
		if i%6 == 2 && !sc.Concurrent {
			sc.Bulk = 101 + rng.Intn(150)
			if sc.Ops < 12 {
				sc.Ops = 12
			}
		}
		out = append(out, sc)
	}
	if thorough {
		// every byte offset of the first 600 bytes of a re-established stream, in both directions
		for n := 1; n <= 600; n += 1 {
			out = append(out, Script{Ops: 10, Seed: rng.Int63(), Faults: []Fault{{At: 3, Kind: "cut_during_resync", N: n}}})
		}
	}
	return out
}

// Run is the entry point.
// resyncUnderChurn: node A holds several hundred topics, each with one subscriber. B loses A's session (one-sided
// fail/join), so A sends its full state again - while its client is unsubscribing all of those topics. However the
// two interleave, once things are quiet B's view of A is what A really has: nothing.
func resyncUnderChurn(r *monitor.Run, idx int) {
	a, err := fed.Start(fmt.Sprintf("c16CA%d", idx), nil, false, nil)
	if err != nil {
		r.Inconclusive(err.Error())
		return
	}
	defer func() { go a.Stop() }()
	b, err := fed.Start(fmt.Sprintf("c16CB%d", idx), []string{a.Gossip}, true, nil)
	if err != nil {
		r.Inconclusive(err.Error())
		return
	}
	defer func() { go b.Stop() }()
	ca, err := wire.Dial("ca", a.B.Addr, mqttx.V5)
	if err != nil {
		r.Inconclusive(err.Error())
		return
	}
	defer ca.Close()
	_, _ = ca.Connect(&mqttx.Packet{ClientID: "churn-a", CleanStart: true}, step)
	const n = 800
	for i := 0; i < n; i += 50 {
		var subs []mqttx.Sub
		for k := i; k < i+50; k++ {
			subs = append(subs, mqttx.Sub{Filter: fmt.Sprintf("ch/%d", k), QoS: 0})
		}
		if _, err := ca.Subscribe(subs, 0, step); err != nil {
			r.Inconclusive(err.Error())
			return
		}
	}
	if !fed.WaitView(b, a, settle) || !fed.WaitView(a, b, settle) {
		r.Violation("churn.initial_sync", "views not equal before the resynchronisation", nil)
		return
	}
	var wg sync.WaitGroup
	wg.Add(1)
	go func() {
		defer wg.Done()
		for i := 0; i < n; i++ {
			_, _ = ca.Unsubscribe([]string{fmt.Sprintf("ch/%d", i)}, step)
		}
	}()
	time.Sleep(time.Duration(idx*3%17) * time.Millisecond)
	if !b.F.VerifBouncePeer(a.Name) {
		r.Inconclusive("churn: peer unknown")
	}
	wg.Wait()
	r.Eval(1)
	if !fed.WaitView(b, a, settle) {
		v := b.F.VerifFedView(a.Name)
		r.Violation("churn.resync:view_of=A", fmt.Sprintf("A's client unsubscribed all %d topics while A was sending its full state to B again; %v later B still believes A subscribes to %d topics (e.g. %v), A has %d", n, settle, len(v), v[:min(len(v), 4)], len(fed.ActualTopics(a))), nil)
		return
	}
	r.Count("resynchronisations_under_unsubscribe_churn", 1)
	r.Nontrivial(fmt.Sprintf("churn|%d", idx))
}

// lostAcksThenResume: node A emits n events which B applies, but nothing B sends (the acknowledgements) reaches A
// any more; then the connection breaks and the stream is resumed (same session, no clean start), while A has nothing
// new to say. Whatever A sends again, B applies each event once.
func lostAcksThenResume(r *monitor.Run, idx, n int) {
	a, err := fed.Start(fmt.Sprintf("c16LA%d", idx), nil, false, nil)
	if err != nil {
		r.Inconclusive(err.Error())
		return
	}
	defer func() { go a.Stop() }()
	b, err := fed.Start(fmt.Sprintf("c16LB%d", idx), []string{a.Gossip}, true, nil)
	if err != nil {
		r.Inconclusive(err.Error())
		return
	}
	defer func() { go b.Stop() }()
	if !fed.WaitView(b, a, settle) || !fed.WaitView(a, b, settle) {
		r.Inconclusive("lost acks: federation not established")
		return
	}
	bc, err := wire.Dial("bsub", b.B.Addr, mqttx.V5)
	if err != nil {
		r.Inconclusive(err.Error())
		return
	}
	defer bc.Close()
	_, _ = bc.Connect(&mqttx.Packet{ClientID: "la-sub", CleanStart: true}, step)
	if _, err := bc.Subscribe([]mqttx.Sub{{Filter: "la/#", QoS: 1}}, 0, step); err != nil {
		r.Inconclusive(err.Error())
		return
	}
	if !fed.WaitView(a, b, settle) {
		r.Inconclusive("lost acks: view not stable")
		return
	}
	ca, err := wire.Dial("ca", a.B.Addr, mqttx.V5)
	if err != nil {
		r.Inconclusive(err.Error())
		return
	}
	defer ca.Close()
	_, _ = ca.Connect(&mqttx.Packet{ClientID: "la-pub", CleanStart: true}, step)
	// a first event that is acknowledged normally: the session is established and has history
	if _, err := ca.Publish(&mqttx.Packet{Topic: "la/warm", QoS: 1, Payload: []byte("la-warm")}, step); err != nil {
		r.Inconclusive(err.Error())
		return
	}
	if err := bc.WaitPayload("la-warm", settle); err != nil {
		r.Inconclusive("lost acks: warm-up message not forwarded")
		return
	}
	time.Sleep(300 * time.Millisecond) // its acknowledgement travels back
	base := len(fed.AppliedBy(b.Name, a.Name))
	b.Proxy.HoldDir("down", true) // B -> A: acknowledgements get stuck from now on
	for i := 0; i < n; i++ {
		if _, err := ca.Publish(&mqttx.Packet{Topic: "la/t", QoS: 1, Payload: []byte(fmt.Sprintf("la-%d", i))}, step); err != nil {
			r.Inconclusive(err.Error())
			b.Proxy.HoldDir("down", false)
			return
		}
	}
	if err := bc.WaitPayload(fmt.Sprintf("la-%d", n-1), settle); err != nil {
		r.Inconclusive("lost acks: the events did not reach B while only the return path was held")
		b.Proxy.HoldDir("down", false)
		return
	}
	b.Proxy.CutNow() // the held acknowledgements are lost with the connection
	b.Proxy.HoldDir("down", false)
	r.Eval(1)
	// A says nothing new until the stream is back; then one more event closes the observation
	time.Sleep(3 * time.Second)
	if _, err := ca.Publish(&mqttx.Packet{Topic: "la/t", QoS: 1, Payload: []byte("la-end")}, step); err != nil {
		r.Inconclusive(err.Error())
		return
	}
	if err := bc.WaitPayload("la-end", settle); err != nil {
		r.Violation("lost_acks.stream_not_resumed", fmt.Sprintf("after the connection had been cut the closing event did not reach B within %v", settle), nil)
		return
	}
	time.Sleep(200 * time.Millisecond)
	cnt := map[string]int{}
	for _, ev := range fed.AppliedBy(b.Name, a.Name)[base:] {
		if ev.Kind == "msg" {
			cnt[ev.Payload]++
		}
	}
	dup, lost := 0, 0
	for i := 0; i < n; i++ {
		switch c := cnt[fmt.Sprintf("la-%d", i)]; {
		case c == 0:
			lost++
		case c > 1:
			dup++
		}
	}
	if dup > 0 || lost > 0 {
		r.Violation(fmt.Sprintf("lost_acks.applied_count:dup=%v:lost=%v:more_than_100=%v", dup > 0, lost > 0, n > 100), fmt.Sprintf("%d events were applied by B while their acknowledgements were lost, then the stream broke and was resumed: %d of them were applied twice, %d not at all", n, dup, lost), map[string]any{"events": n})
		return
	}
	r.Count("lost_ack_resume_cases", 1)
	r.Count("events_acknowledged_into_the_void", int64(n))
	r.Nontrivial(fmt.Sprintf("lost-acks|%d|%d", idx, n))
}

func Run(r *monitor.Run) {
	for i, n := range []int{150, 60, 101, 260}[:r.Pick(2, 4)] {
		lostAcksThenResume(r, i, n)
	}
	for i := 0; i < r.Pick(6, 20); i++ {
		resyncUnderChurn(r, i)
	}
	for i := 0; i < r.Pick(2, 8); i++ {
		threeNodes(r, i)
	}
	for i := 0; i < r.Pick(2, 10); i++ {
		lastUnsubscribeVsNewSubscribe(r, i)
	}
	scs := genScripts(r.Rand("scripts"), r.Pick(24, 200), !r.Quick())
	npairs := 4
	var wg sync.WaitGroup
	var next int
	var nmu sync.Mutex
	r.InconBudget = 0.1
	for pi := 0; pi < npairs; pi++ {
		wg.Add(1)
		go func(pi int) {
			defer wg.Done()
			p, err := newPair(pi)
			if err != nil {
				r.Inconclusive(err.Error())
				return
			}
			defer p.stop()
			for {
				nmu.Lock()
				i := next
				next++
				nmu.Unlock()
				if i >= len(scs) {
					return
				}
				sc := &scs[i]
				fs, obs, err := p.run(sc, r)
				r.Eval(1)
				if err != nil {
					r.Inconclusive(fmt.Sprintf("script %d: %v", i, err))
					// the pair may be in a bad state: replace it
					p.stop()
					if p, err = newPair(pi + 100*(i+1)); err != nil {
						r.Inconclusive(err.Error())
						return
					}
					continue
				}
				for _, f := range fs {
					r.Violation(f.Sig, f.What, f.Detail)
				}
				for k, v := range obs {
					r.Count(k, int64(v))
				}
				if len(sc.Faults) > 0 {
					r.Nontrivial(monitor.J(sc))
				}
				if i == 1 {
					r.Sample(sc)
				}
			}
		}(pi)
	}
	wg.Wait()
	for i := 0; i < r.Pick(1, 6); i++ {
		sessionLoss(r, i)
	}
	brng := r.Rand("bounce")
	for i := 0; i < r.Pick(3, 20); i++ {
		sessionBounce(r, i, brng)
	}
	for i := 0; i < r.Pick(1, 5); i++ {
		outageEmptyResync(r, i)
	}
}
