// Package restored drives the one situation no running broker can be brought into from the outside: sessions that a
// broker restores from the durable (redis) store at start-up and that nobody has reconnected to yet. The scenario is
// shared by C20 (drops for such a session are counted), C15 (no panic, no dead lock, Stop returns) and C12.
package restored

import (
	"fmt"
	"reflect"
	"sort"
	"strings"
	"time"

	"github.com/DrmagicE/gmqtt"
	"github.com/DrmagicE/gmqtt/config"
	"github.com/DrmagicE/gmqtt/server"

	"verif/harness/broker"
	"verif/harness/mqttx"
	"verif/harness/redisx"
	"verif/harness/wire"
)

// Variant names what the restored queue of the sleeping session holds when the restarted broker gets new messages for it.
//
//	expired_inflight  [m1 in flight and past inflight_expiry, m2] full: the next message evicts m1 (reason "inflight expired")
//	full              [m1, m2] full, nothing in flight: every further message costs one victim (reason "queue full")
//	expired_message   [m1 with a 1 s message expiry, m2]: m1 is dropped (reason "expired") when the queue is next used
type Variant string

var Variants = []Variant{"expired_inflight", "full", "expired_message"}

// Result is what was observed.
type Result struct {
	Variant       Variant
	V             byte
	ViaAPI        bool
	Accepted      []string          // payloads published to the sleeper's subscription and acknowledged to their publisher
	Received      map[string]int    // payload -> copies the sleeper received after it came back (both brokers)
	ReceivedOld   []string          // what it received (and did not acknowledge) on the first broker
	HookDrops     map[string]string // payload -> reason reported through OnMsgDropped on the second broker
	HookDropN     map[string]int
	Client        server.ClientStats
	ClientOK      bool
	Global        server.GlobalStats
	StartGlobal   server.GlobalStats // right after the restart, before anybody connected
	StartStored   int                // sessions in the store at that moment
	StartQueued   int                // elements of the sleeper's stored queue at that moment (ground truth from the store)
	StartClient   server.ClientStats // the sleeper's statistics at that moment
	StartClientOK bool
	EndStored     int    // sessions in the store at the final quiescent point
	EndOnline     int    // connections the scenario holds at that point
	PublishPanic  string // recovered panic of Publisher.Publish
	ConnectErr    string // a fresh client could not connect after the publishes
	PublisherErr  string // the wire publisher lost its connection / got no ack
	StopErr       string
	ResumeErr     string
	Notes         []string
}

const step = 15 * time.Second

func start(addr string, rec bool) (*broker.Broker, error) {
	return broker.Start(broker.Options{Cfg: func(c *config.Config) {
		c.Persistence.Type = config.PersistenceTypeRedis
		c.Persistence.Redis.Addr = addr
		c.MQTT.MaxQueuedMsg = 2
		c.MQTT.InflightExpiry = 1 * time.Second
		c.MQTT.MessageExpiry = 2 * time.Hour
	}})
}

// Run executes one scenario. extra = number of messages published to the restored session by the second broker.
func Run(variant Variant, v byte, viaAPI bool, extra int) (*Result, error) {
	res := &Result{Variant: variant, V: v, ViaAPI: viaAPI, Received: map[string]int{}, HookDrops: map[string]string{}, HookDropN: map[string]int{}}
	env, err := redisx.NewEnv()
	if err != nil {
		return nil, err
	}
	defer env.Close()
	b1, err := start(env.Srv.Addr(), true)
	if err != nil {
		return nil, err
	}
	ver := mqttx.Version(v)
	connectSleeper := func(b *broker.Broker, clean bool) (*wire.Client, *mqttx.Packet, error) {
		c, err := wire.Dial("sleeper", b.Addr, ver)
		if err != nil {
			return nil, nil, err
		}
		p := &mqttx.Packet{ClientID: "sleeper", CleanStart: clean}
		if v == 5 {
			e := uint32(3600)
			p.Props = &mqttx.Props{SessionExpiry: &e}
		}
		ack, err := c.Connect(p, step)
		if err != nil {
			c.Close()
			return nil, nil, err
		}
		return c, ack, nil
	}
	s1, _, err := connectSleeper(b1, v == 5)
	if err != nil {
		b1.Stop(step)
		return nil, err
	}
	s1.SetAutoAck(false)
	if _, err := s1.Subscribe([]mqttx.Sub{{Filter: "ghost/#", QoS: 1}}, 0, step); err != nil {
		b1.Stop(step)
		return nil, err
	}
	pub1, err := wire.Dial("pub1", b1.Addr, mqttx.V5)
	if err != nil {
		b1.Stop(step)
		return nil, err
	}
	if _, err := pub1.Connect(&mqttx.Packet{ClientID: "pub1", CleanStart: true}, step); err != nil {
		b1.Stop(step)
		return nil, err
	}
	publish1 := func(pl string, expiry uint32) error {
		p := &mqttx.Packet{Topic: "ghost/t", QoS: 1, Payload: []byte(pl)}
		if expiry != 0 {
			p.Props = &mqttx.Props{MessageExpiry: &expiry}
		}
		_, err := pub1.Publish(p, step)
		if err == nil {
			res.Accepted = append(res.Accepted, pl)
		}
		return err
	}
	var handedOut time.Time
	switch variant {
	case "expired_inflight":
		if err := publish1("m1", 0); err != nil {
			b1.Stop(step)
			return nil, err
		}
		if err := s1.WaitPayload("m1", step); err != nil { // delivered, never acknowledged: in flight
			b1.Stop(step)
			return nil, fmt.Errorf("m1 not delivered: %w", err)
		}
		handedOut = time.Now()
		res.ReceivedOld = append(res.ReceivedOld, "m1")
	}
	from := b1.Log.Len()
	s1.Close()
	if _, ok := b1.Log.Wait(from, func(e broker.Event) bool { return e.Kind == "OnClosed" && e.Client == "sleeper" }, step); !ok {
		b1.Stop(step)
		return nil, fmt.Errorf("sleeper's connection not closed")
	}
	switch variant {
	case "expired_inflight":
		err = publish1("m2", 0)
	case "full":
		if err = publish1("m1", 0); err == nil {
			err = publish1("m2", 0)
		}
	case "expired_message":
		if err = publish1("m1", 1); err == nil {
			err = publish1("m2", 0)
		}
		handedOut = time.Now()
	}
	if err != nil {
		b1.Stop(step)
		return nil, err
	}
	pub1.Close()
	if err := b1.Stop(step); err != nil {
		return nil, fmt.Errorf("first broker: %w", err)
	}
	// the broker is down for longer than inflight_expiry / the message expiry (whole seconds in the redis encoding)
	if !handedOut.IsZero() {
		if d := time.Until(handedOut.Add(2700 * time.Millisecond)); d > 0 {
			time.Sleep(d)
		}
	}
	b2, err := start(env.Srv.Addr(), true)
	if err != nil {
		return nil, fmt.Errorf("restart on the same store: %w", err)
	}
	stopped := false
	stop := func() {
		if stopped {
			return
		}
		stopped = true
		if err := b2.Stop(12 * time.Second); err != nil {
			res.StopErr = err.Error()
		}
	}
	defer stop()
	res.StartGlobal = b2.Srv.StatsManager().GetGlobalStats()
	res.StartStored = storedSessions(b2)
	res.StartQueued = len(env.Srv.Snapshot().Lists["queue:sleeper"])
	res.StartClient, res.StartClientOK = b2.Srv.StatsManager().GetClientStats("sleeper")
	// new messages for the restored session
	var pub2 *wire.Client
	if !viaAPI {
		pub2, err = wire.Dial("pub2", b2.Addr, mqttx.V5)
		if err != nil {
			return nil, err
		}
		defer pub2.Close()
		if _, err := pub2.Connect(&mqttx.Packet{ClientID: "pub2", CleanStart: true}, step); err != nil {
			return nil, err
		}
	}
	for i := 0; i < extra; i++ {
		pl := fmt.Sprintf("n%d", i+1)
		if viaAPI {
			func() {
				defer func() {
					if p := recover(); p != nil && res.PublishPanic == "" {
						res.PublishPanic = fmt.Sprint(p)
					}
				}()
				b2.Srv.Publisher().Publish(&gmqtt.Message{Topic: "ghost/t", Payload: []byte(pl), QoS: 1})
				res.Accepted = append(res.Accepted, pl)
			}()
			if res.PublishPanic != "" {
				break
			}
		} else {
			if _, err := pub2.Publish(&mqttx.Packet{Topic: "ghost/t", QoS: 1, Payload: []byte(pl)}, 5*time.Second); err != nil {
				res.PublisherErr = fmt.Sprintf("PUBLISH %s to the topic of a restored session: %v (ctl %v)", pl, err, pub2.Ctl())
				break
			}
			res.Accepted = append(res.Accepted, pl)
		}
	}
	// the broker still answers
	done := make(chan string, 1)
	go func() {
		c, err := wire.Dial("fresh", b2.Addr, mqttx.V311)
		if err != nil {
			done <- err.Error()
			return
		}
		defer c.Close()
		if _, err := c.Connect(&mqttx.Packet{ClientID: "fresh", CleanStart: true}, 8*time.Second); err != nil {
			done <- "CONNECT of a fresh client after the publishes: " + err.Error()
			return
		}
		done <- ""
	}()
	res.ConnectErr = <-done
	if res.ConnectErr != "" || res.PublishPanic != "" {
		return res, nil // the rest would only hang
	}
	// the sleeper comes back and acknowledges everything
	s2, ack, err := connectSleeper(b2, false)
	if err != nil {
		res.ResumeErr = err.Error()
		return res, nil
	}
	defer s2.Close()
	if !ack.SessionPresent {
		res.ResumeErr = "session present = 0 after the restart"
		return res, nil
	}
	// quiescence: two identical statistics snapshots after a PINGREQ barrier and no new PUBLISH meanwhile
	var prev server.GlobalStats
	stable := 0
	for i := 0; i < 400 && stable < 3; i++ {
		time.Sleep(15 * time.Millisecond)
		if err := s2.Ping(step); err != nil {
			res.ResumeErr = "sleeper lost its connection after the resume: " + err.Error()
			break
		}
		cur := b2.Srv.StatsManager().GetGlobalStats()
		if i > 0 && reflect.DeepEqual(cur, prev) {
			stable++
		} else {
			stable = 0
		}
		prev = cur
	}
	for _, r := range s2.Publishes() {
		res.Received[string(r.P.Payload)]++
	}
	for _, e := range b2.Log.Events() {
		if e.Kind == "OnMsgDropped" && e.Client == "sleeper" {
			res.HookDrops[e.Payload] = e.Err
			res.HookDropN[e.Payload]++
		}
	}
	res.Client, res.ClientOK = b2.Srv.StatsManager().GetClientStats("sleeper")
	res.Global = b2.Srv.StatsManager().GetGlobalStats()
	res.EndStored = storedSessions(b2)
	res.EndOnline = 1
	if pub2 != nil {
		res.EndOnline = 2
	}
	s2.Disconnect(0, nil)
	stop()
	return res, nil
}

// Conservation returns the findings of the C20 part: every accepted message was either received by the sleeper
// after it came back or is counted (and reported) as dropped for it, once.
func (r *Result) Conservation() (sigs, whats []string) {
	add := func(sig, what string) { sigs, whats = append(sigs, sig), append(whats, what) }
	tag := fmt.Sprintf("variant=%s:api=%v", r.Variant, r.ViaAPI)
	if r.PublishPanic != "" || r.ConnectErr != "" || r.PublisherErr != "" || r.ResumeErr != "" {
		return // C15's business; nothing can be counted
	}
	var lost, dup []string
	delivered := 0
	for _, pl := range r.Accepted {
		n := r.Received[pl]
		if n > 0 {
			delivered++
		}
		if n == 0 && r.HookDropN[pl] == 0 {
			lost = append(lost, pl)
		}
		if n > 0 && r.HookDropN[pl] > 0 {
			dup = append(dup, pl)
		}
	}
	sort.Strings(lost)
	notDelivered := len(r.Accepted) - delivered
	q1 := r.Client.MessageStats.Qos1
	if !r.ClientOK {
		add("restored.no_client_stats:"+tag, "no statistics for the restored session after it came back")
		return
	}
	if got := q1.GetDroppedTotal(); got != uint64(notDelivered) {
		add(fmt.Sprintf("restored.dropped_total:%s", tag), fmt.Sprintf("accepted for the restored session: %v; received after it came back: %v; so %d were dropped, the client's QoS 1 drop counters say %d (%+v); OnMsgDropped reported %v", r.Accepted, r.Received, notDelivered, got, q1.DroppedTotal, r.HookDrops))
	}
	if got := r.Global.MessageStats.Qos1.GetDroppedTotal(); got != uint64(notDelivered) {
		add(fmt.Sprintf("restored.dropped_total_global:%s", tag), fmt.Sprintf("%d messages were dropped for the only session with drops, the global QoS 1 drop counters say %d (%+v)", notDelivered, got, r.Global.MessageStats.Qos1.DroppedTotal))
	}
	if len(lost) > 0 {
		add("restored.drop_not_reported:"+tag, fmt.Sprintf("messages %v were neither delivered to the restored session nor reported through OnMsgDropped (reported: %v)", lost, r.HookDrops))
	}
	if len(dup) > 0 {
		add("restored.dropped_and_delivered:"+tag, fmt.Sprintf("messages %v were reported dropped and delivered", dup))
	}
	for pl, n := range r.HookDropN {
		if n > 1 {
			add("restored.drop_reported_twice:"+tag, fmt.Sprintf("message %s reported dropped %d times", pl, n))
		}
	}
	// the reason the variant is built for
	want := map[Variant]string{"expired_inflight": "inflight", "full": "full", "expired_message": "expired"}[r.Variant]
	first := "m1"
	if why, ok := r.HookDrops[first]; ok && r.Variant != "full" && !strings.Contains(strings.ToLower(why), want) {
		add("restored.drop_reason:"+tag, fmt.Sprintf("m1 dropped with reason %q, the scenario makes it %q", why, want))
	}
	if r.Variant != "full" && r.Received[first] > 0 {
		add("restored.expired_delivered:"+tag, fmt.Sprintf("m1 (%s) was delivered after the restart", r.Variant))
	}
	// session and queue gauges: the sessions the store brought back are offline sessions, what their queues hold is queued
	sg := r.StartGlobal.ConnectionStats
	if sg.ActiveCurrent != 0 || sg.InactiveCurrent != uint64(r.StartStored) {
		add("restored.session_gauges_at_start:"+tag, fmt.Sprintf("right after the restart the store holds %d sessions and nobody is connected: ActiveCurrent=%d InactiveCurrent=%d", r.StartStored, sg.ActiveCurrent, sg.InactiveCurrent))
	}
	// Queue gauges right after the restart are observed, not judged: statistics are not persisted (stats.go says so
	// where it guards the gauges against going negative), the stored messages of a session that has not come back yet
	// are in no gauge. The property quantifies over client workloads; what the gauges show before the first client
	// acts on a restarted broker is outside it (see GaugeGapAtStart).
	eg := r.Global.ConnectionStats
	if eg.ActiveCurrent != uint64(r.EndOnline) || eg.InactiveCurrent != uint64(r.EndStored-r.EndOnline) {
		add("restored.session_gauges:"+tag, fmt.Sprintf("%d connections are up and the store holds %d sessions: ActiveCurrent=%d InactiveCurrent=%d", r.EndOnline, r.EndStored, eg.ActiveCurrent, eg.InactiveCurrent))
	}
	for name, g := range map[string]uint64{"client.QueuedCurrent": r.Client.MessageStats.QueuedCurrent, "client.InflightCurrent": r.Client.MessageStats.InflightCurrent,
		"global.QueuedCurrent": r.Global.MessageStats.QueuedCurrent, "global.InflightCurrent": r.Global.MessageStats.InflightCurrent} {
		if g != 0 {
			add("restored.queue_gauges:"+name+":"+tag, fmt.Sprintf("everything the restored session was sent has been acknowledged and nothing else is queued: %s = %d", name, g))
		}
	}
	if got := q1.SentTotal; got != uint64(sum(r.Received)) {
		add("restored.sent_total:"+tag, fmt.Sprintf("the sleeper received %d PUBLISH packets from the restarted broker, Qos1.SentTotal = %d", sum(r.Received), got))
	}
	return
}

// GaugeGapAtStart is the number of stored messages that no gauge showed right after the restart.
func (r *Result) GaugeGapAtStart() int {
	if d := r.StartQueued - int(r.StartGlobal.MessageStats.QueuedCurrent); d > 0 {
		return d
	}
	return 0
}

func storedSessions(b *broker.Broker) int {
	n := 0
	_ = b.Srv.ClientService().IterateSession(func(*gmqtt.Session) bool { n++; return true })
	return n
}

func sum(m map[string]int) int {
	n := 0
	for _, v := range m {
		n += v
	}
	return n
}

// Liveness returns the findings of the C15 part.
func (r *Result) Liveness() (sigs, whats []string) {
	add := func(sig, what string) { sigs, whats = append(sigs, sig), append(whats, what) }
	tag := fmt.Sprintf("variant=%s:api=%v", r.Variant, r.ViaAPI)
	if r.PublishPanic != "" {
		add("restored.panic:Publisher.Publish:"+tag, "Publisher.Publish to the topic of a session restored at start-up panicked: "+r.PublishPanic)
	}
	if r.PublisherErr != "" {
		add("restored.publisher_cut_off:"+tag, r.PublisherErr)
	}
	if r.ConnectErr != "" {
		add("restored.request_unanswered:CONNECT:"+tag, r.ConnectErr)
	}
	if r.StopErr != "" {
		add("restored.stop:"+tag, "Stop after publishes to a restored session: "+r.StopErr)
	}
	if r.ResumeErr != "" {
		add("restored.resume:"+tag, r.ResumeErr)
	}
	return
}
