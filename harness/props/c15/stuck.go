package c15

import (
	"fmt"
	"net"
	"strings"
	"time"

	"github.com/DrmagicE/gmqtt"
	"github.com/DrmagicE/gmqtt/config"

	"verif/harness/broker"
	"verif/harness/monitor"
	"verif/harness/mqttx"
	"verif/harness/wire"
)

// stuckResumedConsumer: one client that resumes its session and then stops reading must not cost the others their
// answers. Its session holds a full window of large unacknowledged messages; on the resume the broker retransmits them
// into a connection nobody reads (the write loop blocks in the socket, the channel to it fills up). The in-flight
// entries expire (inflight_expiry 1 s), the queue is full, and the next message for that session makes the queue
// sacrifice an expired in-flight entry. Everybody else - the publisher of that message, a fresh client - is still
// answered, and Stop gets rid of everything.
func stuckResumedConsumer(r *monitor.Run) {
	const n = 20
	b, err := broker.Start(broker.Options{Cfg: func(c *config.Config) {
		c.MQTT.MaxQueuedMsg = n
		c.MQTT.MaxInflight = n
		c.MQTT.InflightExpiry = time.Second
		c.MQTT.MessageExpiry = 0
	}})
	if err != nil {
		r.Inconclusive(err.Error())
		return
	}
	stopped := false
	defer func() {
		if !stopped {
			b.Stop(20 * time.Second)
		}
	}()
	id := "stuck-resumed"
	e := uint32(3600)
	s, err := wire.Dial(id, b.Addr, mqttx.V5)
	if err != nil {
		r.Inconclusive(err.Error())
		return
	}
	s.AutoAck = false
	if _, err := s.Connect(&mqttx.Packet{ClientID: id, CleanStart: true, Props: &mqttx.Props{SessionExpiry: &e}}, reqTimeout); err != nil {
		r.Inconclusive(err.Error())
		return
	}
	if _, err := s.Subscribe([]mqttx.Sub{{Filter: "stuck/#", QoS: 1}}, 0, reqTimeout); err != nil {
		r.Inconclusive(err.Error())
		return
	}
	big := make([]byte, 512<<10)
	for k := 0; k < n; k++ {
		b.Srv.Publisher().Publish(&gmqtt.Message{Topic: "stuck/t", Payload: big, QoS: 1})
	}
	deadline := time.Now().Add(reqTimeout)
	for len(s.Publishes()) < n && time.Now().Before(deadline) {
		time.Sleep(10 * time.Millisecond)
	}
	if len(s.Publishes()) < n {
		r.Inconclusive(fmt.Sprintf("stuck consumer: only %d of %d messages arrived on the first connection", len(s.Publishes()), n))
		return
	}
	from := b.Log.Len()
	s.Close()
	b.Log.Wait(from, func(ev broker.Event) bool { return ev.Kind == "OnClosed" && ev.Client == id }, 10*time.Second)
	// the resume: CONNACK is read, nothing after it
	raw, err := net.Dial("tcp", b.Addr)
	if err != nil {
		r.Inconclusive(err.Error())
		return
	}
	defer raw.Close()
	if tc, ok := raw.(*net.TCPConn); ok {
		_ = tc.SetReadBuffer(4096)
	}
	g := &stallConn{Conn: raw, gate: make(chan struct{})}
	cl := wire.New(id, g, mqttx.V5)
	cl.AutoAck = false
	ack, err := cl.Connect(&mqttx.Packet{ClientID: id, CleanStart: false, Props: &mqttx.Props{SessionExpiry: &e}}, reqTimeout)
	close(g.gate)
	if err != nil || !ack.SessionPresent {
		r.Inconclusive(fmt.Sprintf("stuck consumer: resume: %v %v", ack, err))
		return
	}
	// the in-flight entries expire while the retransmission is stuck
	time.Sleep(1600 * time.Millisecond)
	stuckInReplay := false
	for _, gr := range monitor.GoroutineDump("gmqtt/server") {
		if strings.Contains(gr, "pollInflights") {
			stuckInReplay = true
		}
	}
	r.Eval(1)
	p, err := wire.Dial("stuck-pub", b.Addr, mqttx.V311)
	if err != nil {
		r.Inconclusive(err.Error())
		return
	}
	defer p.Close()
	if _, err := p.Connect(&mqttx.Packet{ClientID: "stuck-pub", CleanStart: true}, reqTimeout); err != nil {
		r.Inconclusive(err.Error())
		return
	}
	t0 := time.Now()
	_, perr := p.Publish(&mqttx.Packet{Topic: "stuck/t", QoS: 1, Payload: []byte("one more")}, 10*time.Second)
	canary := func() error {
		cc, err := wire.Dial("stuck-canary", b.Addr, mqttx.V311)
		if err != nil {
			return err
		}
		defer cc.Close()
		if _, err := cc.Connect(&mqttx.Packet{ClientID: fmt.Sprintf("stuck-canary-%d", time.Now().UnixNano()), CleanStart: true}, 10*time.Second); err != nil {
			return err
		}
		return cc.Ping(10 * time.Second)
	}
	cerr := canary()
	if perr != nil || cerr != nil {
		d1 := monitor.GoroutineDump("gmqtt/server")
		time.Sleep(5 * time.Second)
		d2 := monitor.GoroutineDump("gmqtt/server")
		// (a broker that is merely slow answers the fresh client, or its goroutines move; a publisher that timed out on a
		// loaded machine while the fresh client was served proves nothing)
		if cerr != nil && sameGoroutines(d1, d2) && monitor.Jitter(t0) < 500*time.Millisecond {
			r.Violation(fmt.Sprintf("request.unanswered:stuck_resumed_consumer:publisher=%v:fresh_client=%v", perr != nil, cerr != nil), fmt.Sprintf("a resumed session whose client does not read (retransmission of %d x 512 KiB stuck in its socket, in-flight entries expired, queue full): the PUBLISH of another client to its topic: %v; CONNECT+PINGREQ of a fresh client: %v; the broker's goroutines have not moved for 5 s", n, perr, cerr), map[string]any{"goroutines": d1})
		} else {
			r.Inconclusive(fmt.Sprintf("stuck consumer: publisher %v, fresh client %v, but the broker is making progress", perr, cerr))
		}
		raw.Close()
		return
	}
	raw.Close()
	stopped = true
	if err := b.Stop(20 * time.Second); err != nil {
		r.Violation("stop.error:stuck_resumed_consumer", "Stop after a resumed consumer that did not read: "+err.Error(), nil)
		return
	}
	r.Count("resumed_consumers_that_stopped_reading", 1)
	if stuckInReplay {
		r.Count("resumed_consumers_with_the_replay_blocked_in_the_socket", 1)
		r.Nontrivial("stuck-resumed-consumer")
	}
}
