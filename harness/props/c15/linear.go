package c15

import (
	"fmt"
	"math/rand"
	"sync"
	"sync/atomic"
	"time"

	"github.com/anishathalye/porcupine"

	"github.com/DrmagicE/gmqtt"
	"github.com/DrmagicE/gmqtt/persistence/subscription"
	"github.com/DrmagicE/gmqtt/persistence/subscription/mem"
	"github.com/DrmagicE/gmqtt/retained/trie"

	"verif/harness/monitor"
)

type regIn struct {
	Key   string
	Op    string // put | del | get
	Value string
}

var clock int64

func now() int64 { return atomic.AddInt64(&clock, 1) }

// register-per-key model: put(v) -> state v ; del -> "" ; get must return the state
var registerModel = porcupine.Model{
	Partition: func(history []porcupine.Operation) [][]porcupine.Operation {
		m := map[string][]porcupine.Operation{}
		for _, o := range history {
			k := o.Input.(regIn).Key
			m[k] = append(m[k], o)
		}
		var out [][]porcupine.Operation
		for _, v := range m {
			out = append(out, v)
		}
		return out
	},
	Init: func() interface{} { return "" },
	Step: func(state, input, output interface{}) (bool, interface{}) {
		in := input.(regIn)
		switch in.Op {
		case "put":
			return true, in.Value
		case "del":
			return true, ""
		}
		return output.(string) == state.(string), state
	},
	DescribeOperation: func(input, output interface{}) string {
		in := input.(regIn)
		return fmt.Sprintf("%s(%s,%s)->%v", in.Op, in.Key, in.Value, output)
	},
}

func checkHistory(r *monitor.Run, name string, ops []porcupine.Operation) {
	res, info := porcupine.CheckOperationsVerbose(registerModel, ops, 60*time.Second)
	r.Eval(1)
	r.Count("linearizability_histories_"+name, 1)
	r.Count("linearizability_operations", int64(len(ops)))
	switch res {
	case porcupine.Ok:
		r.Nontrivial(fmt.Sprintf("lin|%s|%d|%d", name, len(ops), ops[len(ops)-1].Return))
	case porcupine.Unknown:
		r.Inconclusive("linearizability check of " + name + " timed out")
	case porcupine.Illegal:
		_ = info
		var w []string
		for _, o := range ops[:min(len(ops), 80)] {
			w = append(w, fmt.Sprintf("[%d,%d] c%d %s", o.Call, o.Return, o.ClientId, registerModel.DescribeOperation(o.Input, o.Output)))
		}
		r.Violation("linearizability:"+name, "history of concurrent "+name+" operations is not linearizable against a per-key register", map[string]any{"history_prefix": w})
	}
}

func linearizability(r *monitor.Run) {
	rounds := r.Pick(20, 600)
	rng := r.Rand("linear")
	for round := 0; round < rounds; round++ {
		// retained store: key = topic
		st := trie.NewStore()
		keys := []string{"a", "a/b", "a/b/c", "b"}
		var mu sync.Mutex
		var ops []porcupine.Operation
		var wg sync.WaitGroup
		seeds := make([]int64, 8)
		for i := range seeds {
			seeds[i] = rng.Int63()
		}
		for g := 0; g < 8; g++ {
			wg.Add(1)
			go func(g int) {
				defer wg.Done()
				lr := rand.New(rand.NewSource(seeds[g]))
				for i := 0; i < 12; i++ {
					k := keys[lr.Intn(len(keys))]
					in := regIn{Key: k}
					var out string
					call := now()
					switch lr.Intn(3) {
					case 0:
						in.Op, in.Value = "put", fmt.Sprintf("g%d-%d", g, i)
						st.AddOrReplace(&gmqtt.Message{Topic: k, Payload: []byte(in.Value), Retained: true})
					case 1:
						in.Op = "del"
						st.Remove(k)
					default:
						in.Op = "get"
						if m := st.GetRetainedMessage(k); m != nil {
							out = string(m.Payload)
						}
					}
					ret := now()
					mu.Lock()
					ops = append(ops, porcupine.Operation{ClientId: g, Input: in, Call: call, Output: out, Return: ret})
					mu.Unlock()
				}
			}(g)
		}
		wg.Wait()
		checkHistory(r, "retained_store", ops)

		// subscription store: key = client|filter, value = granted QoS as string
		ss := mem.NewStore()
		ops = nil
		clients := []string{"c1", "c2"}
		fs := []string{"a/#", "a/b", "$share/g/a/b"}
		for g := 0; g < 8; g++ {
			wg.Add(1)
			go func(g int) {
				defer wg.Done()
				lr := rand.New(rand.NewSource(seeds[g] + 1))
				for i := 0; i < 12; i++ {
					cl, f := clients[lr.Intn(2)], fs[lr.Intn(len(fs))]
					share, filter := subscription.SplitTopic(f)
					in := regIn{Key: cl + "|" + f}
					var out string
					call := now()
					switch lr.Intn(3) {
					case 0:
						q := byte(lr.Intn(3))
						in.Op, in.Value = "put", fmt.Sprint(q)
						_, _ = ss.Subscribe(cl, &gmqtt.Subscription{ShareName: share, TopicFilter: filter, QoS: q})
					case 1:
						in.Op = "del"
						_ = ss.Unsubscribe(cl, f)
					default:
						in.Op = "get"
						ss.Iterate(func(c string, s *gmqtt.Subscription) bool {
							out = fmt.Sprint(s.QoS)
							return true
						}, subscription.IterationOptions{Type: subscription.TypeAll, ClientID: cl, TopicName: f, MatchType: subscription.MatchName})
					}
					ret := now()
					mu.Lock()
					ops = append(ops, porcupine.Operation{ClientId: g, Input: in, Call: call, Output: out, Return: ret})
					mu.Unlock()
				}
			}(g)
		}
		wg.Wait()
		checkHistory(r, "subscription_store", ops)
	}
}
