// Package c15: concurrent use is race-free, deadlock-free and Stop terminates
// cleanly (DESIGN.md §5 C15). Built with -race; race reports are collected by
// ./check from the race log.
package c15

import (
	"os"
	"context"
	"errors"
	"fmt"
	"io"
	"math/rand"
	"net"
	"runtime"
	"strings"
	"sync"
	"sync/atomic"
	"time"

	"github.com/DrmagicE/gmqtt"
	"github.com/DrmagicE/gmqtt/config"
	"github.com/DrmagicE/gmqtt/persistence/subscription"
	"github.com/DrmagicE/gmqtt/server"

	"verif/harness/broker"
	"verif/harness/props/restored"
	"verif/harness/monitor"
	"verif/harness/mqttx"
	"verif/harness/wire"
	"verif/harness/yield"
)

const reqTimeout = 30 * time.Second

// ---- recording plugin (Load / Unload / OnStop counts) ---------------------------------

type stopPlugin struct {
	loads, unloads, stops int32
}

var curPlugin atomic.Value // *stopPlugin
var regOnce sync.Once

func (p *stopPlugin) Load(s server.Server) error { atomic.AddInt32(&p.loads, 1); return nil }
func (p *stopPlugin) Unload() error              { atomic.AddInt32(&p.unloads, 1); return nil }
func (p *stopPlugin) Name() string               { return "verifStop" }
func (p *stopPlugin) HookWrapper() server.HookWrapper {
	return server.HookWrapper{OnStopWrapper: func(next server.OnStop) server.OnStop {
		return func(ctx context.Context) {
			atomic.AddInt32(&p.stops, 1)
			next(ctx)
		}
	}}
}

func register() {
	regOnce.Do(func() {
		server.RegisterPlugin("verifStop", func(c config.Config) (server.Plugin, error) {
			return curPlugin.Load().(*stopPlugin), nil
		})
	})
}

// Params of one chaos run.
type Params struct {
	Seed       int64
	Clients    int
	Ops        int
	Procs      int
	HalfOpen   bool // include connections that never send CONNECT / get rejected
	HeavyYield bool
	Stalled    int `json:",omitempty"` // v5 consumers that stop reading, are flooded and then displaced
	// Redis: the broker keeps its sessions in the durable (redis) store; RefuseEvery > 0: while the traffic flows
	// redis answers every n-th state-changing command with an error reply instead of executing it
	Redis       bool `json:",omitempty"`
	RefuseEvery int  `json:",omitempty"`
	// Overlap: delivery_mode overlap (one copy per matching subscription; the delivery path then adds to the queues
	// while it is still iterating over the subscription index)
	Overlap bool `json:",omitempty"`
}

// RedisCfgHook (set by the registration code) switches a configuration to the redis back end on a private fake redis
// and returns a setter for the fault hook of that server (see fakeredis.Server.SetFault).
var RedisCfgHook func(c *config.Config) (cleanup func(), setFault func(f func(pos int, args [][]byte) string), err error)

// stallConn is a connection whose reader can be stopped for good (the peer's writes then block).
type stallConn struct {
	net.Conn
	gate chan struct{}
	once sync.Once
}

func (g *stallConn) Read(p []byte) (int, error) {
	select {
	case <-g.gate:
		select {} // never reads again; the goroutine ends with the process
	default:
	}
	return g.Conn.Read(p)
}

// stalledConsumer: a v5 subscriber stops reading and is flooded until the broker's write loop is blocked and
// its channel is full; then its client id is taken over. The take-over must be answered in bounded time, and
// Stop must still get rid of everything.
func (c *chaos) stalledConsumer(i int, wg *sync.WaitGroup) {
	defer wg.Done()
	id := fmt.Sprintf("stalled-%d", i)
	raw, err := net.Dial("tcp", c.b.Addr)
	if err != nil {
		return
	}
	g := &stallConn{Conn: raw, gate: make(chan struct{})}
	cl := wire.New(id, g, mqttx.V5)
	if ack, err := cl.Connect(&mqttx.Packet{ClientID: id, CleanStart: true}, reqTimeout); err != nil || ack.Code != 0 {
		raw.Close()
		return
	}
	c.mu.Lock()
	c.stalled = append(c.stalled, raw)
	c.mu.Unlock()
	if _, err := cl.Subscribe([]mqttx.Sub{{Filter: "stall/" + id, QoS: 0}}, 0, reqTimeout); err != nil {
		return
	}
	close(g.gate)
	big := make([]byte, 64<<10)
	for k := 0; k < 160 && atomic.LoadInt32(&c.stopped) == 0; k++ {
		c.b.Srv.Publisher().Publish(&gmqtt.Message{Topic: "stall/" + id, Payload: big, QoS: 0})
	}
	c.op("stalled_consumer_flooded")
	time.Sleep(20 * time.Millisecond)
	if atomic.LoadInt32(&c.stopped) != 0 {
		return
	}
	nc, err := wire.Dial(id+"-b", c.b.Addr, mqttx.V5)
	if err != nil {
		return
	}
	ack, err := nc.Connect(&mqttx.Packet{ClientID: id, CleanStart: true}, reqTimeout)
	c.op("stalled_consumer_takeover")
	if err == wire.ErrTimeout && atomic.LoadInt32(&c.stopped) == 0 {
		c.unanswered("CONNECT displacing the stalled consumer " + id)
	}
	if err == nil && ack.Code == 0 {
		c.mu.Lock()
		c.conns = append(c.conns, nc)
		c.mu.Unlock()
	} else {
		nc.Close()
	}
}

type chaos struct {
	p       Params
	b       *broker.Broker
	r       *monitor.Run
	mu      sync.Mutex
	fs      []finding
	ops     map[string]int64
	conns   []*wire.Client // every connection that completed CONNECT
	stalled []net.Conn     // raw sockets of the stalled consumers (their wire reader has stopped)
	stopped int32
}

type finding struct {
	Sig, What string
	Detail    map[string]any
}

func (c *chaos) add(sig, what string, d map[string]any) {
	c.mu.Lock()
	c.fs = append(c.fs, finding{sig, what, d})
	c.mu.Unlock()
}
func (c *chaos) op(name string) {
	c.mu.Lock()
	c.ops[name]++
	c.mu.Unlock()
}

var topics = []string{"a/b", "a/c", "b", "a/b/c", "$s/x"}
var filters = []string{"a/#", "a/+", "#", "b", "+/b", "$share/g/a/#", "$share/g/b", "$s/#", "a/b"}

// unanswered is called when a request got no answer within reqTimeout. That is a violation if the broker is stuck
// or has lost the request - not if the machine is merely too slow for the deadline:
//   - a fresh client (CONNECT + PINGREQ) is served meanwhile: the broker works, the request is lost => violation;
//   - the fresh client is not served either and two goroutine dumps 5 s apart show the same broker goroutines in
//     the same places: no progress => violation (dead lock);
//   - otherwise the broker is making progress slowly: inconclusive.
func (c *chaos) unanswered(what string, late ...func(time.Duration) bool) {
	if atomic.LoadInt32(&c.stopped) == 1 {
		return
	}
	kind := strings.SplitN(what, " ", 2)[0]
	if c.p.Redis && c.p.RefuseEvery > 0 {
		// the store refuses commands in this run: outside the quantifier of the property, counted only
		c.r.Count("requests_unanswered_while_the_store_refused_commands", 1)
		return
	}
	what = fmt.Sprintf("%s (run seed %d procs %d redis %v)", what, c.p.Seed, c.p.Procs, c.p.Redis)
	t0 := time.Now()
	d1 := monitor.GoroutineDump("gmqtt/server")
	canary := func() error {
		cc, err := wire.Dial("canary", c.b.Addr, mqttx.V311)
		if err != nil {
			return err
		}
		defer cc.Close()
		if _, err := cc.Connect(&mqttx.Packet{ClientID: fmt.Sprintf("canary-%d", time.Now().UnixNano()), CleanStart: true}, 10*time.Second); err != nil {
			return err
		}
		return cc.Ping(10 * time.Second)
	}
	cerr := canary()
	if atomic.LoadInt32(&c.stopped) == 1 {
		return
	}
	if cerr == nil && len(late) > 0 && late[0] != nil {
		// a request may depend on other clients' progress (a CONNECT waits for its predecessors with the same client
		// id to be torn down): give it another 90 s before calling it lost
		if late[0](90 * time.Second) {
			c.r.Count("requests_answered_late", 1)
			return
		}
		if atomic.LoadInt32(&c.stopped) == 1 {
			return
		}
	}
	if cerr == nil && monitor.Jitter(t0.Add(-reqTimeout)) < 500*time.Millisecond {
		c.add("request.unanswered:"+kind, fmt.Sprintf("%s not answered within %v (CONNECT: + 90 s) although a fresh client was served meanwhile", what, reqTimeout), map[string]any{"goroutines": d1})
		return
	}
	if el := time.Since(t0); el < 5*time.Second {
		time.Sleep(5*time.Second - el)
	}
	d2 := monitor.GoroutineDump("gmqtt/server")
	if atomic.LoadInt32(&c.stopped) == 1 {
		return
	}
	if cerr != nil && sameGoroutines(d1, d2) {
		c.add("request.unanswered:"+kind, fmt.Sprintf("%s not answered within %v, a fresh client is not served either (%v) and the broker's goroutines have not moved for 5 s", what, reqTimeout, cerr), map[string]any{"goroutines_t0": d1, "goroutines_t5s": d2})
		return
	}
	c.r.Inconclusive(fmt.Sprintf("%s not answered within %v, but the broker is making progress (fresh client: %v, timers up to %v late): machine too slow to judge", what, reqTimeout, cerr, monitor.Jitter(t0.Add(-reqTimeout))))
}

// sameGoroutines: the same goroutine ids with the same top frames in both dumps.
func sameGoroutines(a, b []string) bool {
	key := func(g string) string {
		l := strings.Split(g, "\n")
		if len(l) > 5 {
			l = l[:5]
		}
		return strings.Join(l, "\n")
	}
	if len(a) != len(b) {
		return false
	}
	m := map[string]bool{}
	for _, g := range a {
		m[key(g)] = true
	}
	for _, g := range b {
		if !m[key(g)] {
			return false
		}
	}
	return true
}

func (c *chaos) actor(i int, wg *sync.WaitGroup) {
	defer wg.Done()
	rng := rand.New(rand.NewSource(c.p.Seed*1000 + int64(i)))
	// a third of the actors share client ids (take-overs)
	id := fmt.Sprintf("actor-%d", i)
	if i%3 == 0 {
		id = fmt.Sprintf("shared-%d", (i/3)%3)
	}
	v := []mqttx.Version{mqttx.V311, mqttx.V5}[rng.Intn(2)]
	var cl *wire.Client
	connect := func() bool {
		if atomic.LoadInt32(&c.stopped) == 1 {
			return false
		}
		nc, err := wire.Dial(id, c.b.Addr, v)
		if err != nil {
			return false
		}
		p := &mqttx.Packet{ClientID: id, CleanStart: rng.Intn(3) == 0, KeepAlive: 0}
		if rng.Intn(4) == 0 {
			p.WillFlag, p.WillTopic, p.WillPayload, p.WillQoS = true, "a/b", []byte("will-"+id), byte(rng.Intn(2))
		}
		if v == mqttx.V5 {
			e := []uint32{0, 1, 3600}[rng.Intn(3)]
			p.Props = &mqttx.Props{SessionExpiry: &e}
			if p.WillFlag {
				d := uint32(rng.Intn(2))
				p.WillProps = &mqttx.Props{WillDelay: &d}
			}
			if rng.Intn(3) == 0 {
				ta := uint16(2)
				p.Props.TopicAliasMax = &ta
			}
		}
		nc.AutoAck = rng.Intn(5) != 0
		ack, err := nc.Connect(p, reqTimeout)
		c.op("connect")
		if err == wire.ErrTimeout {
			c.unanswered("CONNECT of "+id, func(d time.Duration) bool {
				_, lerr := nc.WaitType(mqttx.CONNACK, 0, d)
				return lerr == nil || lerr == wire.ErrClosed
			})
			nc.Close()
			return false
		}
		if err != nil || ack.Code != 0 {
			nc.Close()
			return false
		}
		c.mu.Lock()
		c.conns = append(c.conns, nc)
		c.mu.Unlock()
		cl = nc
		return true
	}
	check := func(what string, err error) bool {
		switch err {
		case nil:
			return true
		case wire.ErrTimeout:
			c.unanswered(what + " of " + id)
		}
		// closed (taken over, terminated, stopped): reconnect later
		cl.Close()
		cl = nil
		return false
	}
	for n := 0; n < c.p.Ops && atomic.LoadInt32(&c.stopped) == 0; n++ {
		if cl == nil {
			if !connect() {
				time.Sleep(time.Millisecond)
				continue
			}
		}
		switch x := rng.Intn(100); {
		case x < 25:
			f := filters[rng.Intn(len(filters))]
			if v != mqttx.V5 && strings.HasPrefix(f, "$share") {
				f = "a/#"
			}
			_, err := cl.Subscribe([]mqttx.Sub{{Filter: f, QoS: byte(rng.Intn(3))}}, uint32(rng.Intn(3)), reqTimeout)
			c.op("subscribe")
			check("SUBSCRIBE", err)
		case x < 33:
			_, err := cl.Unsubscribe([]string{filters[rng.Intn(len(filters))]}, reqTimeout)
			c.op("unsubscribe")
			check("UNSUBSCRIBE", err)
		case x < 75:
			p := &mqttx.Packet{Topic: topics[rng.Intn(len(topics))], QoS: byte(rng.Intn(3)), Retain: rng.Intn(6) == 0, Payload: make([]byte, rng.Intn(200))}
			if v == mqttx.V5 && rng.Intn(4) == 0 {
				a := uint16(1 + rng.Intn(3))
				p.Props = &mqttx.Props{TopicAlias: &a}
			}
			_, err := cl.Publish(p, reqTimeout)
			c.op(fmt.Sprintf("publish_qos%d", p.QoS))
			check("PUBLISH", err)
		case x < 83:
			c.op("ping")
			check("PINGREQ", cl.Ping(reqTimeout))
		case x < 89:
			cl.Disconnect(0, nil)
			c.op("disconnect")
			cl = nil
		case x < 95:
			cl.Close()
			c.op("abrupt_close")
			cl = nil
		default:
			// slow consumer: stop acknowledging for a while
			cl.SetAutoAck(false)
			c.op("stop_acking")
		}
	}
}

func (c *chaos) apiCaller(i int, wg *sync.WaitGroup) {
	defer wg.Done()
	rng := rand.New(rand.NewSource(c.p.Seed*7777 + int64(i)))
	s := c.b.Srv
	for n := 0; n < c.p.Ops && atomic.LoadInt32(&c.stopped) == 0; n++ {
		switch rng.Intn(12) {
		case 0, 1, 2:
			s.Publisher().Publish(&gmqtt.Message{Topic: topics[rng.Intn(len(topics))], Payload: []byte("api"), QoS: byte(rng.Intn(3)), Retained: rng.Intn(8) == 0})
			c.op("api_publish")
		case 3:
			_, _ = s.SubscriptionService().Subscribe(fmt.Sprintf("actor-%d", rng.Intn(c.p.Clients)), &gmqtt.Subscription{TopicFilter: "a/#", QoS: 1})
			c.op("api_subscribe")
		case 4:
			_ = s.SubscriptionService().Unsubscribe(fmt.Sprintf("actor-%d", rng.Intn(c.p.Clients)), "a/#")
			c.op("api_unsubscribe")
		case 5:
			n := 0
			s.SubscriptionService().Iterate(func(string, *gmqtt.Subscription) bool { n++; return true }, subscription.IterationOptions{Type: subscription.TypeAll, TopicName: "a/b", MatchType: subscription.MatchFilter})
			_ = s.SubscriptionService().GetStats()
			c.op("api_iterate_subscriptions")
		case 6:
			s.ClientService().TerminateSession(fmt.Sprintf("shared-%d", rng.Intn(3)))
			c.op("api_terminate_session")
		case 7:
			s.ClientService().IterateClient(func(server.Client) bool { return true })
			_ = s.ClientService().GetClient(fmt.Sprintf("actor-%d", rng.Intn(c.p.Clients)))
			_ = s.ClientService().IterateSession(func(*gmqtt.Session) bool { return true })
			c.op("api_client_service")
		case 8, 9:
			g := s.StatsManager().GetGlobalStats()
			_, _ = s.StatsManager().GetClientStats(fmt.Sprintf("actor-%d", rng.Intn(c.p.Clients)))
			_ = g
			c.op("api_stats")
		case 10:
			s.RetainedService().AddOrReplace(&gmqtt.Message{Topic: "a/api", Payload: []byte("r"), Retained: true})
			_ = s.RetainedService().GetMatchedMessages("a/#")
			s.RetainedService().Remove("a/api")
			c.op("api_retained")
		case 11:
			time.Sleep(time.Duration(rng.Intn(300)) * time.Microsecond)
		}
	}
}

func brokerGoroutines() []string {
	var out []string
	for _, g := range monitor.GoroutineDump("github.com/DrmagicE/gmqtt/server.") {
		if strings.Contains(g, "server.(*client).") || strings.Contains(g, "(*server).eventLoop") || strings.Contains(g, "(*server).serveTCP") ||
			strings.Contains(g, "(*server).serveAPIServer") || strings.Contains(g, "unregisterClient.func") || strings.Contains(g, "(*server).serveWebSocket") {
			out = append(out, g)
		}
	}
	return out
}

func runChaos(r *monitor.Run, p Params) {
	register()
	prev := runtime.GOMAXPROCS(p.Procs)
	defer runtime.GOMAXPROCS(prev)
	plg := &stopPlugin{}
	curPlugin.Store(plg)
	yield.Enable(p.Seed, p.HeavyYield)
	yield.WatchRecovered()
	yield.TakeRecovered()
	drng := rand.New(rand.NewSource(p.Seed))
	var dmu sync.Mutex
	var redisCleanup func()
	var setFault func(f func(pos int, args [][]byte) string)
	defer func() {
		if redisCleanup != nil {
			redisCleanup()
		}
	}()
	b, err := broker.Start(broker.Options{WS: true, Hooks: server.Hooks{OnBasicAuth: func(ctx context.Context, cl server.Client, req *server.ConnectRequest) error {
		if string(req.Connect.ClientID) == "reject-me" {
			return errors.New("rejected by the chaos hook")
		}
		return nil
	}}, Cfg: func(c *config.Config) {
		c.PluginOrder = []string{"verifStop"}
		c.MQTT.MaxQueuedMsg = 50
		c.MQTT.MaxInflight = 5
		if p.Overlap {
			c.MQTT.DeliveryMode = config.Overlap
		}
		if p.Redis && RedisCfgHook != nil {
			redisCleanup, setFault, _ = RedisCfgHook(c)
		}
	}, Delay: func(kind string) {
		dmu.Lock()
		x := drng.Intn(50)
		dmu.Unlock()
		if x == 0 {
			time.Sleep(300 * time.Microsecond)
		}
	}})
	if err != nil {
		r.Inconclusive("chaos broker: " + err.Error())
		return
	}
	c := &chaos{p: p, b: b, r: r, ops: map[string]int64{}}
	var refused int64
	if p.Redis && setFault != nil && p.RefuseEvery > 0 {
		var nth int64
		setFault(func(pos int, args [][]byte) string {
			if pos == 0 { // read-only command
				return ""
			}
			if atomic.AddInt64(&nth, 1)%int64(p.RefuseEvery) == 0 {
				atomic.AddInt64(&refused, 1)
				return "ERR verif: injected write refusal"
			}
			return ""
		})
	}
	if p.Redis {
		r.Count("chaos_runs_on_redis", 1)
	}
	// the tear-down of a connection passes the close.* sites: they are logged next to the hook events
	yield.Observe(func(site string) {
		if strings.HasPrefix(site, "close.") {
			b.Log.Add(broker.Event{Kind: "site:" + site})
		}
	})
	defer yield.Observe(nil)
	var half []net.Conn
	if p.HalfOpen {
		for i := 0; i < 4; i++ {
			if hc, err := net.Dial("tcp", b.Addr); err == nil {
				half = append(half, hc)
				if i == 3 {
					// a well-formed CONNECT refused by the auth hook, followed by a burst of packets nobody will handle
					pk, _ := mqttx.Encode(&mqttx.Packet{Type: mqttx.CONNECT, ProtoName: "MQTT", Level: 4, ClientID: "reject-me", CleanStart: true}, mqttx.V311)
					for k := 0; k < 30; k++ {
						pk = append(pk, 0xc0, 0x00)
					}
					_, _ = hc.Write(pk)
				}
				if i == 2 {
					// a CONNECT that is refused (client id of zero length is allowed; use a malformed protocol name instead)
					_, _ = hc.Write([]byte{0x10, 0x0c, 0x00, 0x04, 'M', 'Q', 'T', 'X', 0x04, 0x02, 0x00, 0x3c, 0x00, 0x00})
					// followed by a burst of packets that nobody will ever handle
					for k := 0; k < 30; k++ {
						_, _ = hc.Write([]byte{0xc0, 0x00})
					}
				}
			}
		}
	}
	var wg sync.WaitGroup
	for i := 0; i < p.Clients; i++ {
		wg.Add(1)
		go c.actor(i, &wg)
	}
	for i := 0; i < 4; i++ {
		wg.Add(1)
		go c.apiCaller(i, &wg)
	}
	// the retained store under concurrent writers and readers (store, clear, match, iterate)
	for i := 0; i < 3; i++ {
		wg.Add(1)
		go func(i int) {
			defer wg.Done()
			rs := b.Srv.RetainedService()
			for n := 0; n < 400 && atomic.LoadInt32(&c.stopped) == 0; n++ {
				t := fmt.Sprintf("ret/%d/%d", i, n%5)
				rs.AddOrReplace(&gmqtt.Message{Topic: t, Payload: []byte("r"), Retained: true})
				_ = rs.GetMatchedMessages("ret/#")
				_ = rs.GetRetainedMessage(t)
				rs.Iterate(func(*gmqtt.Message) bool { return true })
				rs.Remove(t)
			}
			c.op("retained_hammer")
		}(i)
	}
	var swg sync.WaitGroup
	for i := 0; i < p.Stalled; i++ {
		swg.Add(1)
		go c.stalledConsumer(i, &swg)
	}
	// let the traffic run for most of its operations, then stop the broker while it is still flowing
	done := make(chan struct{})
	go func() { wg.Wait(); close(done) }()
	select {
	case <-done:
	case <-time.After(time.Duration(300+p.Ops/4) * time.Millisecond):
	}
	// the stalled consumers have been displaced (or the attempt has been given up) before the broker is stopped
	sdone := make(chan struct{})
	go func() { swg.Wait(); close(sdone) }()
	select {
	case <-sdone:
	case <-time.After(reqTimeout + 20*time.Second):
	}
	// clients that leave on their own just as the broker is stopped: their tear-down is under way when Stop
	// looks for connections to close and to wait for
	c.mu.Lock()
	leaving := append([]*wire.Client(nil), c.conns...)
	c.mu.Unlock()
	dmu.Lock()
	drng.Shuffle(len(leaving), func(i, j int) { leaving[i], leaving[j] = leaving[j], leaving[i] })
	gaps := make([]int, 12)
	for i := range gaps {
		gaps[i] = drng.Intn(300)
	}
	dmu.Unlock()
	for i := 0; i < len(leaving) && i < 12; i++ {
		leaving[i].Close()
		time.Sleep(time.Duration(gaps[i]) * time.Microsecond)
	}
	if setFault != nil {
		setFault(nil) // the store is healthy again before the broker is stopped
		r.Count("redis_commands_refused", atomic.LoadInt64(&refused))
	}
	ctx, cancel := context.WithTimeout(context.Background(), 20*time.Second)
	t0 := time.Now()
	stopErr := make(chan error, 1)
	go func() { stopErr <- b.Srv.Stop(ctx) }()
	var serr error
	select {
	case serr = <-stopErr:
	case <-time.After(30 * time.Second):
		serr = fmt.Errorf("Stop did not return within 30 s")
		c.add("stop.hangs", "Stop(ctx 20 s) did not return within 30 s", map[string]any{"goroutines": monitor.GoroutineDump("gmqtt/server")})
	}
	cancel()
	atomic.StoreInt32(&c.stopped, 1)
	r.Max("stop_duration_ms_max", time.Since(t0).Milliseconds())
	if serr != nil {
		c.add("stop.error", "Stop returned "+serr.Error(), map[string]any{"goroutines": monitor.GoroutineDump("gmqtt/server")})
	}
	select {
	case <-done:
	case <-time.After(reqTimeout + 10*time.Second):
		c.add("harness.actors_stuck", "scripted clients did not finish after Stop", nil)
	}
	// listeners refuse connections
	if conn, err := net.DialTimeout("tcp", b.Addr, time.Second); err == nil {
		conn.Close()
		c.add("stop.listener_open", "the TCP listener still accepts connections after Stop", nil)
	}
	if conn, err := net.DialTimeout("tcp", b.WSAddr, time.Second); err == nil {
		conn.Close()
		c.add("stop.ws_listener_open", "the websocket listener still accepts connections after Stop", nil)
	}
	// every connection that completed CONNECT is closed by the broker
	open := 0
	for _, cl := range c.conns {
		if !cl.WaitEOF(3 * time.Second) {
			open++
		}
	}
	// the stalled consumers read again now, directly from the socket: whatever is buffered, then the end
	for _, sc := range c.stalled {
		_ = sc.SetReadDeadline(time.Now().Add(5 * time.Second))
		if _, err := io.Copy(io.Discard, sc); err != nil {
			if ne, ok := err.(net.Error); ok && ne.Timeout() {
				open++
			}
		}
		sc.Close()
	}
	if open > 0 {
		c.add("stop.connection_left_open:connected", fmt.Sprintf("%d of %d connections that had completed CONNECT were not closed by Stop", open, len(c.conns)), nil)
	}
	halfOpenLeft := 0
	for _, hc := range half {
		_ = hc.SetReadDeadline(time.Now().Add(300 * time.Millisecond))
		buf := make([]byte, 64)
		for {
			_, err := hc.Read(buf)
			if err != nil {
				if ne, ok := err.(net.Error); ok && ne.Timeout() {
					halfOpenLeft++
				}
				break
			}
		}
	}
	if halfOpenLeft > 0 {
		c.add("stop.connection_left_open:never_connected", fmt.Sprintf("%d of %d connections that never completed CONNECT (silent or refused) are still open after Stop", halfOpenLeft, len(half)), nil)
	}
	if l, u, s := atomic.LoadInt32(&plg.loads), atomic.LoadInt32(&plg.unloads), atomic.LoadInt32(&plg.stops); l != 1 || u != 1 || s != 1 {
		c.add(fmt.Sprintf("stop.plugin_lifecycle:load=%d:unload=%d:onstop=%d", l, u, s), fmt.Sprintf("plugin Load/Unload/OnStop ran %d/%d/%d times, want 1/1/1", l, u, s), nil)
	}
	// close our side of the half-open sockets only now: the goroutine check below is about what Stop achieved by itself
	var left []string
	for i := 0; i < 100; i++ {
		left = brokerGoroutines()
		if len(left) == 0 {
			break
		}
		time.Sleep(100 * time.Millisecond)
	}
	if len(left) > 0 {
		kinds := map[string]bool{}
		for _, g := range left {
			for _, fn := range []string{"readLoop", "writeLoop", "readHandle", "pollMessageHandler", "connectWithTimeOut", "serve", "eventLoop", "serveTCP", "unregisterClient.func"} {
				if strings.Contains(g, fn+"(") {
					kinds[fn] = true
					break
				}
			}
		}
		ks := []string{}
		for k := range kinds {
			ks = append(ks, k)
		}
		sortStrings(ks)
		c.add(fmt.Sprintf("stop.goroutines_left:half_open=%v:%s", p.HalfOpen, strings.Join(ks, ",")), fmt.Sprintf("%d broker goroutines still exist 10 s after Stop returned", len(left)), map[string]any{"goroutines": left[:min(len(left), 6)]})
	}
	r.Max("goroutines_inspected_after_stop", int64(runtime.NumGoroutine()))
	for _, hc := range half {
		hc.Close()
	}
	for _, cl := range c.conns {
		cl.Close()
	}
	// Stop waits for every connection: nothing of a connection's tear-down happens after OnStop has run
	// (session terminations and will publications are not looked at: API callers keep calling TerminateSession
	// and a delayed will may fire later; OnClosed and the close.* sites belong to a connection's own goroutine)
	stopAt := -1
	for i, e := range b.Log.Events() {
		if e.Kind == "OnStop" && stopAt < 0 {
			stopAt = i
		} else if stopAt >= 0 && (e.Kind == "OnClosed" || strings.HasPrefix(e.Kind, "site:close.")) {
			c.add("stop.teardown_after_onstop:"+e.Kind, fmt.Sprintf("%s of %q was reported after OnStop had run: Stop did not wait for that connection", e.Kind, e.Client), nil)
			break
		}
	}
	// panics that a connection goroutine recovered from (verif hook in the recover blocks of the broker)
	storeFaults := p.Redis && p.RefuseEvery > 0
	for _, rc := range yield.TakeRecovered() {
		if storeFaults {
			// the store refused commands during this run: store faults are outside the quantifier of the property;
			// what the broker does then is counted, not judged (DESIGN 9.6)
			r.Count("panics_recovered_while_the_store_refused_commands", 1)
			r.Distinct("panic_values_under_store_faults", rc.Value)
			continue
		}
		val := rc.Value
		if len(val) > 60 {
			val = val[:60]
		}
		c.add("panic.recovered:"+rc.Site, fmt.Sprintf("a %s goroutine of the broker panicked (recovered, the connection was closed): %s", rc.Site, rc.Value), map[string]any{"stack": rc.Stack, "value": val})
	}
	// recovered panics are also visible through OnClosed
	for _, e := range b.Log.Events() {
		if storeFaults {
			break
		}
		if e.Kind == "OnClosed" && (strings.Contains(e.Err, "runtime error") || strings.Contains(e.Err, "nil pointer") || strings.Contains(e.Err, "index out of range") || strings.Contains(e.Err, "must call ReadInflight")) {
			c.add("panic.recovered", fmt.Sprintf("connection of %s ended by a recovered panic: %s", e.Client, e.Err), nil)
		}
	}
	r.Eval(1)
	total := int64(0)
	for k, v := range c.ops {
		r.Count("op_"+k, v)
		total += v
	}
	r.Count("operations", total)
	r.Count("connections_established", int64(len(c.conns)))
	r.Count("gomaxprocs_"+fmt.Sprint(p.Procs), 1)
	for _, f := range c.fs {
		d := map[string]any{"params": p}
		for k, v := range f.Detail {
			d[k] = v
		}
		r.Violation(f.Sig, f.What, d)
	}
	r.Nontrivial(monitor.J(p))
	// give the remaining goroutines of this run the chance to end before the next broker starts
	time.Sleep(50 * time.Millisecond)
}

func sortStrings(s []string) {
	for i := range s {
		for j := i + 1; j < len(s); j++ {
			if s[j] < s[i] {
				s[i], s[j] = s[j], s[i]
			}
		}
	}
}

// stopDuringTeardown holds one connection in the tail of its own tear-down (after it has been unregistered, at
// the site close.before_closed) and calls Stop: Stop must not return while that connection's goroutine is held.
func stopDuringTeardown(r *monitor.Run) {
	yield.Enable(1, false)
	b, err := broker.Start(broker.Options{})
	if err != nil {
		r.Inconclusive(err.Error())
		return
	}
	entered, release := make(chan struct{}), make(chan struct{})
	var once sync.Once
	yield.Observe(func(site string) {
		if site == "close.before_closed" {
			once.Do(func() {
				close(entered)
				select {
				case <-release:
				case <-time.After(10 * time.Second):
				}
			})
		}
	})
	defer yield.Observe(nil)
	cl, err := wire.Dial("held", b.Addr, mqttx.V5)
	if err != nil {
		r.Inconclusive(err.Error())
		close(release)
		b.Stop(5 * time.Second)
		return
	}
	if _, err := cl.Connect(&mqttx.Packet{ClientID: "held", CleanStart: true}, reqTimeout); err != nil {
		r.Inconclusive(err.Error())
		close(release)
		b.Stop(5 * time.Second)
		return
	}
	cl.Close()
	select {
	case <-entered:
	case <-time.After(10 * time.Second):
		r.Inconclusive("stopDuringTeardown: the connection never reached close.before_closed")
		close(release)
		b.Stop(5 * time.Second)
		return
	}
	done := make(chan error, 1)
	go func() {
		ctx, cancel := context.WithTimeout(context.Background(), 8*time.Second)
		defer cancel()
		done <- b.Srv.Stop(ctx)
	}()
	r.Eval(1)
	r.Count("stops_during_a_held_teardown", 1)
	select {
	case err := <-done:
		r.Violation("stop.returned_during_teardown", fmt.Sprintf("Stop returned (%v) while the goroutine of a connection was still inside its tear-down", err), nil)
		close(release)
		return
	case <-time.After(400 * time.Millisecond):
		r.Nontrivial("stop-during-teardown")
	}
	close(release)
	select {
	case <-done:
	case <-time.After(10 * time.Second):
		r.Violation("stop.hangs", "Stop did not return after the held connection was released", nil)
	}
}

// refusedRequestV3: a request the broker refuses to carry out is still answered in bounded time - for a v3.1.1
// client, which cannot be sent a DISCONNECT, by closing the connection (here: a retained PUBLISH while
// retain_available is false).
func refusedRequestV3(r *monitor.Run) {
	b, err := broker.Start(broker.Options{Cfg: func(c *config.Config) { c.MQTT.RetainAvailable = false }})
	if err != nil {
		r.Inconclusive(err.Error())
		return
	}
	defer b.Stop(10 * time.Second)
	for _, v := range []mqttx.Version{mqttx.V311, mqttx.V5} {
		c, err := wire.Dial("refused", b.Addr, v)
		if err != nil {
			r.Inconclusive(err.Error())
			return
		}
		if _, err := c.Connect(&mqttx.Packet{ClientID: fmt.Sprintf("refused-%d", v), CleanStart: true}, reqTimeout); err != nil {
			r.Inconclusive(err.Error())
			c.Close()
			return
		}
		_ = c.Send(&mqttx.Packet{Type: mqttx.PUBLISH, Topic: "a/b", QoS: 1, PacketID: 5, Retain: true, Payload: []byte("r")})
		r.Eval(1)
		r.Count("refused_requests", 1)
		if !c.WaitEOF(10 * time.Second) {
			r.Violation(fmt.Sprintf("request.unanswered:refused_publish_connection_left_open:v=%d", v), "a retained PUBLISH (QoS 1) sent while retain_available is false got neither an acknowledgement nor a closed connection within 10 s", nil)
		} else {
			r.Nontrivial(fmt.Sprintf("refused-request|%d", v))
		}
		c.Close()
	}
}

// Run is the entry point.
// restoredSessions: publishes (API and wire) that reach the queue of a session restored from the durable store at
// start-up, to which nobody has reconnected yet - full queue, expired in-flight entry, expired message - must not
// panic, must leave the broker answering, and Stop must return.
func restoredSessions(r *monitor.Run) {
	var wg sync.WaitGroup
	for vi, variant := range restored.Variants {
		for k := 0; k < r.Pick(2, 4); k++ {
			wg.Add(1)
			go func(variant restored.Variant, vi, k int) {
				defer wg.Done()
				res, err := restored.Run(variant, []byte{4, 5}[(vi+k)%2], k%2 == 0, 1+k%3)
				r.Eval(1)
				if err != nil {
					r.Inconclusive(fmt.Sprintf("restored %s: %v", variant, err))
					return
				}
				sigs, whats := res.Liveness()
				for i := range sigs {
					r.Violation(sigs[i], whats[i], map[string]any{"result": res})
				}
				r.Count("restored_session_scenarios", 1)
				r.Nontrivial(fmt.Sprintf("restored|%s|%d", variant, k))
			}(variant, vi, k)
		}
	}
	wg.Wait()
}

// willTimerVsResume: the timer of a delayed will has fired and its goroutine is on its way to the broker's lock (held at
// the hand-over point will.before_lock) when the client comes back, is terminated through the API, or is taken over.
// Whoever holds the lock then tells the will what to do; nobody is left to listen, and that must not stop the broker.
func willTimerVsResume(r *monitor.Run) {
	for vi, how := range []string{"resume", "terminate", "clean_start"} {
		yield.Enable(r.Seed, false)
		entered, release := make(chan struct{}), make(chan struct{})
		var once, rel sync.Once
		free := func() { rel.Do(func() { close(release) }) }
		yield.Observe(func(site string) {
			if site == "will.before_lock" {
				once.Do(func() {
					close(entered)
					select {
					case <-release:
					case <-time.After(40 * time.Second):
					}
				})
			}
		})
		func() {
			defer yield.Observe(nil)
			defer free()
			b, err := broker.Start(broker.Options{})
			if err != nil {
				r.Inconclusive(err.Error())
				return
			}
			stopped := false
			defer func() {
				if !stopped {
					free()
					b.Stop(10 * time.Second)
				}
			}()
			id := fmt.Sprintf("will-vs-%d", vi)
			e, d := uint32(60), uint32(1)
			attach := func(clean bool, timeout time.Duration) (*wire.Client, error) {
				c, err := wire.Dial(id, b.Addr, mqttx.V5)
				if err != nil {
					return nil, err
				}
				ack, err := c.Connect(&mqttx.Packet{ClientID: id, CleanStart: clean, Props: &mqttx.Props{SessionExpiry: &e},
					WillFlag: true, WillTopic: "will/" + id, WillPayload: []byte("w"), WillQoS: 1, WillProps: &mqttx.Props{WillDelay: &d}}, timeout)
				if err != nil {
					c.Close()
					return nil, err
				}
				if ack.Code != 0 {
					c.Close()
					return nil, fmt.Errorf("connack 0x%02x", ack.Code)
				}
				return c, nil
			}
			c1, err := attach(true, reqTimeout)
			if err != nil {
				r.Inconclusive(err.Error())
				return
			}
			from := b.Log.Len()
			c1.Close()
			if _, ok := b.Log.Wait(from, func(ev broker.Event) bool { return ev.Kind == "OnClosed" && ev.Client == id }, 10*time.Second); !ok {
				r.Inconclusive("willTimerVsResume: OnClosed not observed")
				return
			}
			select {
			case <-entered: // the 1 s timer has fired, the goroutine is between its select and the lock
			case <-time.After(15 * time.Second):
				r.Inconclusive("willTimerVsResume: the will goroutine never reached will.before_lock")
				return
			}
			r.Eval(1)
			done := make(chan error, 1)
			go func() {
				switch how {
				case "terminate":
					b.Srv.ClientService().TerminateSession(id)
					done <- nil
				default:
					c2, err := attach(how == "clean_start", 20*time.Second)
					if c2 != nil {
						defer c2.Close()
					}
					done <- err
				}
			}()
			select {
			case err := <-done:
				if err == wire.ErrTimeout {
					r.Violation("will_timer.request_unanswered:"+how, "a CONNECT for a client whose delayed will's timer had just fired got no CONNACK within 20 s", map[string]any{"goroutines": monitor.GoroutineDump("gmqtt/server")})
					return
				}
			case <-time.After(25 * time.Second):
				r.Violation("will_timer.api_call_hangs:"+how, how+" for a client whose delayed will's timer had just fired did not return within 25 s", map[string]any{"goroutines": monitor.GoroutineDump("gmqtt/server")})
				return
			}
			// the broker still serves others
			cc, err := wire.Dial("canary", b.Addr, mqttx.V311)
			if err == nil {
				_, err = cc.Connect(&mqttx.Packet{ClientID: "canary-" + id, CleanStart: true}, 20*time.Second)
				cc.Close()
			}
			if err != nil {
				r.Violation("will_timer.broker_stuck:"+how, "after "+how+" for a client whose delayed will's timer had just fired a fresh client is not served: "+err.Error(), map[string]any{"goroutines": monitor.GoroutineDump("gmqtt/server")})
				return
			}
			free()
			stopped = true
			if err := b.Stop(20 * time.Second); err != nil {
				r.Violation("will_timer.stop:"+how, "Stop: "+err.Error(), nil)
				return
			}
			r.Count("will_timer_vs_lock_holder_cases", 1)
			r.Nontrivial("will-timer|" + how)
		}()
	}
}

// stopWithPendingWill: Stop is called while delayed wills are waiting for their timers (30 s). Stop returns, and so do
// the goroutines that hold those wills - none of them outlives the server to publish something minutes later.
func stopWithPendingWill(r *monitor.Run) {
	b, err := broker.Start(broker.Options{})
	if err != nil {
		r.Inconclusive(err.Error())
		return
	}
	e, d := uint32(120), uint32(30)
	for i := 0; i < 3; i++ {
		id := fmt.Sprintf("pending-will-%d", i)
		c, err := wire.Dial(id, b.Addr, mqttx.V5)
		if err != nil {
			r.Inconclusive(err.Error())
			b.Stop(10 * time.Second)
			return
		}
		if _, err := c.Connect(&mqttx.Packet{ClientID: id, CleanStart: true, Props: &mqttx.Props{SessionExpiry: &e},
			WillFlag: true, WillTopic: "will/" + id, WillPayload: []byte("w"), WillQoS: 1, WillProps: &mqttx.Props{WillDelay: &d}}, reqTimeout); err != nil {
			r.Inconclusive(err.Error())
			b.Stop(10 * time.Second)
			return
		}
		from := b.Log.Len()
		if i == 2 {
			// this one is still connected when Stop is called: its will becomes pending during Stop
			defer c.Close()
			continue
		}
		c.Close()
		b.Log.Wait(from, func(ev broker.Event) bool { return ev.Kind == "OnClosed" && ev.Client == id }, 10*time.Second)
	}
	r.Eval(1)
	if err := b.Stop(20 * time.Second); err != nil {
		r.Violation("stop.error:pending_delayed_wills", "Stop with delayed wills pending: "+err.Error(), nil)
		return
	}
	var left []string
	for i := 0; i < 50; i++ {
		left = brokerGoroutines()
		if len(left) == 0 {
			break
		}
		time.Sleep(100 * time.Millisecond)
	}
	if len(left) > 0 {
		r.Violation("stop.goroutines_left:pending_delayed_will", fmt.Sprintf("%d goroutines of the broker still exist 5 s after Stop returned; delayed wills (30 s) were pending", len(left)), map[string]any{"goroutines": left[:min(len(left), 4)]})
		return
	}
	r.Count("stops_with_pending_delayed_wills", 1)
	r.Nontrivial("stop-with-pending-will")
}

func Run(r *monitor.Run) {
	stopWithPendingWill(r)
	stuckResumedConsumer(r)
	willTimerVsResume(r)
	refusedRequestV3(r)
	stopDuringTeardown(r)
	restoredSessions(r)
	rng := r.Rand("chaos")
	n := r.Pick(5, 40)
	procs := []int{16, 2, 4, 1}
	for i := 0; i < n; i++ {
		p := Params{Seed: rng.Int63n(1 << 40), Clients: 20 + rng.Intn(r.Pick(20, 40)), Ops: r.Pick(60, 250), Procs: procs[i%len(procs)], HalfOpen: i%2 == 1, HeavyYield: i%3 == 0, Stalled: []int{2, 0, 1}[i%3]}
		p.Overlap = i%2 == 0
		if RedisCfgHook != nil && i%4 == 3 {
			// on the durable store. Refused commands (RefuseEvery) are injected only on request (VERIF_C15_REFUSE=1):
			// store faults are outside the quantifier of the property, and a data race that needs one (seen once
			// between the redis unack store's Init and Set) cannot be told apart from others in the race log.
			p.Redis = true
			if os.Getenv("VERIF_C15_REFUSE") == "1" {
				p.RefuseEvery = []int{17, 5, 0}[(i/4)%3]
			}
		}
		runChaos(r, p)
		if i == 0 {
			r.Sample(p)
		}
	}
	for site, cnt := range yield.Hits() {
		r.Count("yield_"+site, cnt)
	}
	linearizability(r)
}
