package c06

import (
	"math/rand"
	"strings"

	"verif/harness/mqttx"
)

// The well-formed domain. Everything produced here is accepted by the strict
// independent decoder (checked on every value, see wfCase). Two sub-domains:
//
//   - "server" domain: what gmqtt's Reader is asked to decode. gmqtt's decoder is
//     a server-role decoder in two documented places, which are therefore left
//     out here: (1) a PUBLISH never carries Subscription Identifiers
//     (packets.ValidProperties: "valid for server to unpack"), (2) a v3.x CONNECT
//     with an empty client identifier has Clean Session set (the decoder itself
//     answers 0x02 Identifier Rejected otherwise). Strings do not contain the
//     code points a receiver MAY refuse (MQTT 1.5.4: U+0001..U+001F,
//     U+007F..U+009F, non-characters).
//   - "full" domain (encode direction only): additionally PUBLISH with one or more
//     Subscription Identifiers, as a server sends it.

var (
	asciiRunes = []rune("abcdefghijklmnopqrstuvwxyzABCXYZ0123456789 _-.:;,!?*()[]{}<>=@%&|~^'\"\\")
	wideRunes  = []rune{0x00A0, 0x00E9, 0x07FF, 0x0800, 0x4E2D, 0xD7FF, 0xE000, 0xFFFC, 0x10000, 0x1F600, 0x10FFFD}
)

var versions = []mqttx.Version{mqttx.V31, mqttx.V311, mqttx.V5}

type gen struct {
	rng  *rand.Rand
	big  bool // allow large payloads
	full bool // full domain (see above)
}

func (g *gen) chance(pct int) bool { return g.rng.Intn(100) < pct }

func (g *gen) runeOf(exclude string) rune {
	for {
		var c rune
		if g.rng.Intn(600) == 0 {
			c = 0xFFFD // REPLACEMENT CHARACTER: an ordinary, allowed code point
		} else if g.chance(85) {
			c = asciiRunes[g.rng.Intn(len(asciiRunes))]
		} else {
			c = wideRunes[g.rng.Intn(len(wideRunes))]
		}
		if !strings.ContainsRune(exclude, c) {
			return c
		}
	}
}

// str returns a valid UTF-8 string of min..max runes without the excluded runes.
func (g *gen) strEx(min, max int, exclude string) string {
	n := min
	if max > min {
		n += g.rng.Intn(max - min + 1)
	}
	var sb strings.Builder
	for i := 0; i < n; i++ {
		sb.WriteRune(g.runeOf(exclude))
	}
	return sb.String()
}

func (g *gen) str(min, max int) string { return g.strEx(min, max, "") }

func (g *gen) bin(min, max int) []byte {
	n := min
	if max > min {
		n += g.rng.Intn(max - min + 1)
	}
	b := make([]byte, n)
	g.rng.Read(b)
	return b
}

func (g *gen) level() string {
	switch g.rng.Intn(10) {
	case 0:
		return "" // empty level
	case 1:
		return "$SYS"
	case 2:
		return " "
	}
	return g.strEx(1, 6, "+#/")
}

func (g *gen) topicName() string {
	for {
		n := 1 + g.rng.Intn(4)
		lv := make([]string, n)
		for i := range lv {
			lv[i] = g.level()
		}
		if t := strings.Join(lv, "/"); t != "" {
			return t
		}
	}
}

func (g *gen) plainFilter() string {
	for {
		n := 1 + g.rng.Intn(4)
		lv := make([]string, n)
		for i := range lv {
			switch {
			case g.chance(25):
				lv[i] = "+"
			case i == n-1 && g.chance(25):
				lv[i] = "#"
			default:
				lv[i] = g.level()
			}
		}
		if f := strings.Join(lv, "/"); f != "" && !strings.HasPrefix(f, "$share/") {
			return f
		}
	}
}

func (g *gen) filter(v5 bool) (f string, shared bool) {
	if v5 && g.chance(20) {
		return "$share/" + g.strEx(1, 5, "+#/") + "/" + g.plainFilter(), true
	}
	return g.plainFilter(), false
}

func (g *gen) pid() uint16 {
	switch g.rng.Intn(8) {
	case 0:
		return 1
	case 1:
		return 65535
	case 2:
		return 256
	}
	return uint16(1 + g.rng.Intn(65535))
}

func (g *gen) u32() uint32 {
	switch g.rng.Intn(6) {
	case 0:
		return 0
	case 1:
		return 0xFFFFFFFF
	case 2:
		return uint32(g.rng.Intn(300))
	}
	return g.rng.Uint32()
}

func (g *gen) u16() uint16 {
	switch g.rng.Intn(6) {
	case 0:
		return 0
	case 1:
		return 0xFFFF
	}
	return uint16(g.rng.Intn(65536))
}

func (g *gen) varintVal() uint32 {
	edges := []uint32{1, 127, 128, 16383, 16384, 2097151, 2097152, 268435455}
	if g.chance(60) {
		return edges[g.rng.Intn(len(edges))]
	}
	return uint32(1 + g.rng.Intn(268435455))
}

func (g *gen) payload() []byte {
	if g.big && g.chance(6) {
		sizes := []int{120, 127, 128, 200, 16370, 16384, 20000, 70000}
		n := sizes[g.rng.Intn(len(sizes))]
		return g.bin(n, n)
	}
	if g.chance(15) {
		return nil
	}
	return g.bin(0, 48)
}

func p8(x byte) *byte       { return &x }
func p16(x uint16) *uint16  { return &x }
func p32(x uint32) *uint32  { return &x }
func pstr(x string) *string { return &x }

// propNames lists, per packet type (0 = Will Properties), the properties the
// specification allows there (MQTT 5.0 table 2-4).
var propNames = map[byte][]string{
	0:                 {"PayloadFormat", "MessageExpiry", "ContentType", "ResponseTopic", "CorrelationData", "WillDelay", "User"},
	mqttx.CONNECT:     {"SessionExpiry", "AuthMethod", "AuthData", "RequestProblemInfo", "RequestResponseInfo", "ReceiveMax", "TopicAliasMax", "User", "MaxPacketSize"},
	mqttx.CONNACK:     {"SessionExpiry", "AssignedClientID", "ServerKeepAlive", "AuthMethod", "AuthData", "ResponseInfo", "ServerReference", "ReasonString", "ReceiveMax", "TopicAliasMax", "MaximumQoS", "RetainAvailable", "User", "MaxPacketSize", "WildcardSubAvailable", "SubIDAvailable", "SharedSubAvailable"},
	mqttx.PUBLISH:     {"PayloadFormat", "MessageExpiry", "ContentType", "ResponseTopic", "CorrelationData", "TopicAlias", "User", "SubscriptionIDs"},
	mqttx.PUBACK:      {"ReasonString", "User"},
	mqttx.PUBREC:      {"ReasonString", "User"},
	mqttx.PUBREL:      {"ReasonString", "User"},
	mqttx.PUBCOMP:     {"ReasonString", "User"},
	mqttx.SUBSCRIBE:   {"SubscriptionIDs", "User"},
	mqttx.SUBACK:      {"ReasonString", "User"},
	mqttx.UNSUBSCRIBE: {"User"},
	mqttx.UNSUBACK:    {"ReasonString", "User"},
	mqttx.DISCONNECT:  {"SessionExpiry", "ServerReference", "ReasonString", "User"},
	mqttx.AUTH:        {"AuthMethod", "AuthData", "ReasonString", "User"},
}

// props draws a property set for context ctx: none (20 %), all (10 %) or each
// allowed property with probability 1/3.
func (g *gen) props(ctx byte) *mqttx.Props {
	mode := g.rng.Intn(10)
	if mode < 2 {
		if g.chance(50) {
			return nil
		}
		return &mqttx.Props{}
	}
	ps := &mqttx.Props{}
	for _, name := range propNames[ctx] {
		if mode != 2 && !g.chance(33) {
			continue
		}
		if name == "SubscriptionIDs" && ctx == mqttx.PUBLISH && !g.full {
			continue
		}
		g.setProp(ps, name, ctx)
	}
	if ps.HasAuthData && ps.AuthMethod == nil {
		ps.AuthMethod = pstr(g.str(0, 10))
	}
	return ps
}

func (g *gen) setProp(ps *mqttx.Props, name string, ctx byte) {
	flag := func() *byte { return p8(byte(g.rng.Intn(2))) }
	switch name {
	case "PayloadFormat":
		ps.PayloadFormat = flag()
	case "MessageExpiry":
		ps.MessageExpiry = p32(g.u32())
	case "ContentType":
		ps.ContentType = pstr(g.str(0, 12))
	case "ResponseTopic":
		ps.ResponseTopic = pstr(g.topicName())
	case "CorrelationData":
		ps.CorrelationData, ps.HasCorrelationData = g.bin(0, 12), true
	case "SubscriptionIDs":
		n := 1
		if ctx == mqttx.PUBLISH {
			n += g.rng.Intn(3)
		}
		for i := 0; i < n; i++ {
			ps.SubscriptionIDs = append(ps.SubscriptionIDs, g.varintVal())
		}
	case "SessionExpiry":
		ps.SessionExpiry = p32(g.u32())
	case "AssignedClientID":
		ps.AssignedClientID = pstr(g.str(0, 12))
	case "ServerKeepAlive":
		ps.ServerKeepAlive = p16(g.u16())
	case "AuthMethod":
		ps.AuthMethod = pstr(g.str(0, 10))
	case "AuthData":
		ps.AuthData, ps.HasAuthData = g.bin(0, 12), true
	case "RequestProblemInfo":
		ps.RequestProblemInfo = flag()
	case "WillDelay":
		ps.WillDelay = p32(g.u32())
	case "RequestResponseInfo":
		ps.RequestResponseInfo = flag()
	case "ResponseInfo":
		ps.ResponseInfo = pstr(g.str(0, 12))
	case "ServerReference":
		ps.ServerReference = pstr(g.str(0, 12))
	case "ReasonString":
		ps.ReasonString = pstr(g.str(0, 16))
	case "ReceiveMax":
		ps.ReceiveMax = p16(1 + uint16(g.rng.Intn(65535)))
	case "TopicAliasMax":
		ps.TopicAliasMax = p16(g.u16())
	case "TopicAlias":
		ps.TopicAlias = p16(1 + uint16(g.rng.Intn(65535)))
	case "MaximumQoS":
		ps.MaximumQoS = flag()
	case "RetainAvailable":
		ps.RetainAvailable = flag()
	case "User":
		for i, n := 0, 1+g.rng.Intn(3); i < n; i++ {
			ps.User = append(ps.User, mqttx.UserProp{K: g.str(0, 6), V: g.str(0, 8)})
		}
	case "MaxPacketSize":
		x := g.u32()
		if x == 0 {
			x = 1
		}
		ps.MaxPacketSize = p32(x)
	case "WildcardSubAvailable":
		ps.WildcardSubAvailable = flag()
	case "SubIDAvailable":
		ps.SubIDAvailable = flag()
	case "SharedSubAvailable":
		ps.SharedSubAvailable = flag()
	default:
		panic("c06: unknown property name " + name)
	}
}

// v3 return codes / v5 reason codes per type (MQTT 5.0 sections 3.x.2.1).
var v5codes = map[byte][]byte{
	mqttx.CONNACK:    {0x00, 0x80, 0x81, 0x82, 0x83, 0x84, 0x85, 0x86, 0x87, 0x88, 0x89, 0x8A, 0x8C, 0x90, 0x95, 0x97, 0x99, 0x9A, 0x9B, 0x9C, 0x9D, 0x9F},
	mqttx.PUBACK:     {0x00, 0x10, 0x80, 0x83, 0x87, 0x90, 0x91, 0x97, 0x99},
	mqttx.PUBREC:     {0x00, 0x10, 0x80, 0x83, 0x87, 0x90, 0x91, 0x97, 0x99},
	mqttx.PUBREL:     {0x00, 0x92},
	mqttx.PUBCOMP:    {0x00, 0x92},
	mqttx.SUBACK:     {0x00, 0x01, 0x02, 0x80, 0x83, 0x87, 0x8F, 0x91, 0x97, 0x9E, 0xA1, 0xA2},
	mqttx.UNSUBACK:   {0x00, 0x11, 0x80, 0x83, 0x87, 0x8F, 0x91},
	mqttx.DISCONNECT: {0x00, 0x04, 0x80, 0x81, 0x82, 0x83, 0x87, 0x89, 0x8B, 0x8D, 0x8E, 0x8F, 0x90, 0x93, 0x94, 0x95, 0x96, 0x97, 0x98, 0x99, 0x9A, 0x9B, 0x9C, 0x9D, 0x9E, 0x9F, 0xA0, 0xA1, 0xA2},
	mqttx.AUTH:       {0x00, 0x18, 0x19},
}

func (g *gen) code(t byte) byte {
	c := v5codes[t]
	if g.chance(40) {
		return c[0]
	}
	return c[g.rng.Intn(len(c))]
}

// packet draws a well-formed value of type t for version v (t == AUTH needs v5).
func (g *gen) packet(t byte, v mqttx.Version) *mqttx.Packet {
	v5 := v == mqttx.V5
	p := &mqttx.Packet{Type: t}
	switch t {
	case mqttx.CONNECT:
		p.ProtoName, p.Level = "MQTT", byte(v)
		if v == mqttx.V31 {
			p.ProtoName = "MQIsdp"
		}
		p.CleanStart = g.chance(50)
		p.KeepAlive = g.u16()
		if g.chance(15) {
			p.ClientID = ""
			if !v5 {
				p.CleanStart = true // server-role exclusion (2)
			}
		} else {
			p.ClientID = g.str(1, 23)
		}
		if g.chance(45) {
			p.WillFlag, p.WillQoS, p.WillRetain = true, byte(g.rng.Intn(3)), g.chance(50)
			p.WillTopic = g.topicName()
			p.WillPayload = g.bin(0, 40)
			if v5 {
				p.WillProps = g.props(0)
			}
		}
		if g.chance(50) {
			p.HasUsername, p.Username = true, g.str(0, 12)
		}
		if (p.HasUsername || v5) && g.chance(50) {
			p.HasPassword = true
			if g.chance(50) {
				p.Password = g.bin(0, 16) // Binary Data: any bytes
			} else {
				p.Password = []byte(g.str(0, 12))
			}
		}
		if v5 {
			p.Props = g.props(t)
		}
	case mqttx.CONNACK:
		if v5 {
			p.Code = g.code(t)
			p.Props = g.props(t)
		} else {
			p.Code = byte(g.rng.Intn(6))
		}
		p.SessionPresent = p.Code == 0 && g.chance(50)
	case mqttx.PUBLISH:
		p.QoS = byte(g.rng.Intn(3))
		p.Dup = p.QoS > 0 && g.chance(30)
		p.Retain = g.chance(30)
		p.Topic = g.topicName()
		if p.QoS > 0 {
			p.PacketID = g.pid()
		}
		p.Payload = g.payload()
		if v5 {
			p.Props = g.props(t)
			if p.Props != nil && p.Props.TopicAlias != nil && g.chance(50) {
				p.Topic = "" // 3.3.2.3.4: topic may be empty when an alias is given
			}
		}
	case mqttx.PUBACK, mqttx.PUBREC, mqttx.PUBREL, mqttx.PUBCOMP:
		p.PacketID = g.pid()
		if v5 {
			p.Code = g.code(t)
			p.Props = g.props(t)
		}
		if t == mqttx.PUBREL && v == mqttx.V31 {
			p.Dup = g.chance(15)
		}
	case mqttx.SUBSCRIBE:
		p.PacketID = g.pid()
		for i, n := 0, 1+g.rng.Intn(4); i < n; i++ {
			f, shared := g.filter(v5)
			s := mqttx.Sub{Filter: f, QoS: byte(g.rng.Intn(3))}
			if v5 {
				s.NoLocal = !shared && g.chance(40)
				s.RAP = g.chance(40)
				s.RetainHandling = byte(g.rng.Intn(3))
			}
			p.Subs = append(p.Subs, s)
		}
		if v5 {
			p.Props = g.props(t)
		}
		if v == mqttx.V31 {
			p.Dup = g.chance(15)
		}
	case mqttx.SUBACK:
		p.PacketID = g.pid()
		for i, n := 0, 1+g.rng.Intn(4); i < n; i++ {
			if v5 {
				p.Codes = append(p.Codes, g.code(t))
			} else {
				p.Codes = append(p.Codes, []byte{0, 1, 2, 0x80}[g.rng.Intn(4)])
			}
		}
		if v5 {
			p.Props = g.props(t)
		}
	case mqttx.UNSUBSCRIBE:
		p.PacketID = g.pid()
		for i, n := 0, 1+g.rng.Intn(4); i < n; i++ {
			f, _ := g.filter(v5)
			p.Filters = append(p.Filters, f)
		}
		if v5 {
			p.Props = g.props(t)
		}
		if v == mqttx.V31 {
			p.Dup = g.chance(15)
		}
	case mqttx.UNSUBACK:
		p.PacketID = g.pid()
		if v5 {
			for i, n := 0, 1+g.rng.Intn(4); i < n; i++ {
				p.Codes = append(p.Codes, g.code(t))
			}
			p.Props = g.props(t)
		}
	case mqttx.PINGREQ, mqttx.PINGRESP:
	case mqttx.DISCONNECT:
		if v5 {
			p.Code = g.code(t)
			p.Props = g.props(t)
		}
	case mqttx.AUTH:
		p.Code = g.code(t)
		p.Props = g.props(t)
	}
	return p
}

// combos lists all (type, version) pairs: 15 types x 3 versions minus AUTH before v5.
type combo struct {
	t byte
	v mqttx.Version
}

func allCombos() []combo {
	var cs []combo
	for t := byte(1); t <= 15; t++ {
		for _, v := range versions {
			if t == mqttx.AUTH && v != mqttx.V5 {
				continue
			}
			cs = append(cs, combo{t, v})
		}
	}
	return cs
}

// longForms returns the alternative well-formed encodings of a v5 packet whose
// canonical (shortest) encoding b omits the reason code and/or property length
// (MQTT 5.0 3.4.2.1, 3.14.2.1, 3.15.2.1): the same value with the optional
// fields written out.
func longForms(b []byte, v mqttx.Version) [][]byte {
	if v != mqttx.V5 || len(b) < 2 || b[1]&0x80 != 0 {
		return nil
	}
	t, rl := b[0]>>4, int(b[1])
	with := func(extra ...byte) []byte {
		out := append([]byte{}, b...)
		out = append(out, extra...)
		out[1] = byte(len(out) - 2)
		return out
	}
	switch t {
	case mqttx.PUBACK, mqttx.PUBREC, mqttx.PUBREL, mqttx.PUBCOMP:
		if rl == 2 {
			return [][]byte{with(0), with(0, 0)}
		}
		if rl == 3 {
			return [][]byte{with(0)}
		}
	case mqttx.DISCONNECT:
		if rl == 0 {
			return [][]byte{with(0), with(0, 0)}
		}
		if rl == 1 {
			return [][]byte{with(0)}
		}
	case mqttx.AUTH:
		if rl == 0 {
			return [][]byte{with(0, 0)}
		}
	}
	return nil
}

// inServerDomain tells whether the well-formed value p (as decoded by mqttx under
// v) lies in the domain gmqtt's server-role decoder is expected to accept.
func inServerDomain(p *mqttx.Packet, v mqttx.Version) bool {
	if p.Type == mqttx.PUBLISH && p.Props != nil && len(p.Props.SubscriptionIDs) > 0 {
		return false
	}
	if p.Type == mqttx.CONNECT && p.Level < 5 && p.ClientID == "" && !p.CleanStart {
		return false
	}
	ok := true
	eachString(p, func(s *string) {
		if hasMayRejectRune(*s) {
			ok = false
		}
	})
	return ok
}

// hasMayRejectRune: code points of MQTT 5.0 section 1.5.4 that a receiver MAY
// treat as malformed (control characters and Unicode non-characters).
func hasMayRejectRune(s string) bool {
	for _, c := range s {
		if (c >= 0x01 && c <= 0x1F) || (c >= 0x7F && c <= 0x9F) || (c >= 0xFDD0 && c <= 0xFDEF) || c&0xFFFE == 0xFFFE {
			return true
		}
	}
	return false
}

// eachString visits every UTF-8 string field of p (not binary data).
func eachString(p *mqttx.Packet, f func(*string)) {
	f(&p.ClientID)
	f(&p.WillTopic)
	f(&p.Username)
	f(&p.Topic)
	for i := range p.Subs {
		f(&p.Subs[i].Filter)
	}
	for i := range p.Filters {
		f(&p.Filters[i])
	}
	for _, ps := range []*mqttx.Props{p.Props, p.WillProps} {
		if ps == nil {
			continue
		}
		for _, s := range []*string{ps.ContentType, ps.ResponseTopic, ps.AssignedClientID, ps.AuthMethod, ps.ResponseInfo, ps.ServerReference, ps.ReasonString} {
			if s != nil {
				f(s)
			}
		}
		for i := range ps.User {
			f(&ps.User[i].K)
			f(&ps.User[i].V)
		}
	}
}
