package c06

import (
	"bufio"
	"bytes"
	"encoding/hex"
	"fmt"
	"runtime"
	"runtime/debug"
	"time"

	"github.com/DrmagicE/gmqtt/pkg/packets"

	"verif/harness/mqttx"
)

// trailer is the known packet appended after an input: PINGREQ.
var trailer = []byte{0xC0, 0x00}

const hangTimeout = 10 * time.Second

// header is the harness' own (lenient) reading of a fixed header.
type header struct {
	ok        bool // the input holds a complete fixed header
	k         int  // bytes of the remaining-length field
	rl        int64
	canonical bool // k <= 4 and minimal
	overlong  bool // k > 4
}

func (h header) total() int64 { return 1 + int64(h.k) + h.rl }

func parseHeader(in []byte) header {
	var h header
	if len(in) < 2 {
		return h
	}
	var v int64
	for i := 1; i < len(in); i++ {
		c := in[i]
		if sh := uint(7 * (i - 1)); sh < 56 {
			v |= int64(c&0x7F) << sh
		}
		if c&0x80 == 0 {
			h.ok, h.k, h.rl = true, i, v
			h.overlong = h.k > 4
			h.canonical = !h.overlong && (h.k == 1 || c != 0)
			return h
		}
	}
	return h
}

// decRes is what one call of the decoder under test did.
type decRes struct {
	pkt      packets.Packet
	err      error
	panicked any
	stack    string
	hung     bool
	consumed int // bytes logically consumed from the stream by the first ReadPacket
	// second ReadPacket (only when asked for)
	second      bool
	pkt2        packets.Packet
	err2        error
	consumedAll int
}

// decodeStream feeds stream to a fresh packets.Reader set to version v and calls
// ReadPacket once (twice if readSecond and the first call returned a packet).
// The call runs in its own goroutine under a 10 s watchdog; panics are caught.
func decodeStream(stream []byte, v mqttx.Version, readSecond bool) decRes {
	under := bytes.NewReader(stream)
	br := bufio.NewReaderSize(under, 4096)
	rd := packets.NewReader(br) // a *bufio.Reader is used as is, so Buffered() tells the logical position
	rd.SetVersion(byte(v))
	ch := make(chan decRes, 1)
	go func() {
		var res decRes
		defer func() {
			if x := recover(); x != nil {
				res.panicked = x
				res.stack = string(debug.Stack())
			}
			ch <- res
		}()
		res.pkt, res.err = rd.ReadPacket()
		res.consumed = len(stream) - under.Len() - br.Buffered()
		if readSecond && res.err == nil && res.pkt != nil {
			res.second = true
			res.pkt2, res.err2 = rd.ReadPacket()
			res.consumedAll = len(stream) - under.Len() - br.Buffered()
		}
	}()
	t := time.NewTimer(hangTimeout)
	defer t.Stop()
	select {
	case res := <-ch:
		return res
	case <-t.C:
		return decRes{hung: true}
	}
}

// packBytes calls Pack under recover.
func packBytes(p packets.Packet) (b []byte, err error, panicked any, stack string) {
	defer func() {
		if x := recover(); x != nil {
			panicked, stack = x, string(debug.Stack())
		}
	}()
	var buf bytes.Buffer
	err = p.Pack(&buf)
	return buf.Bytes(), err, nil, ""
}

func hexTrunc(b []byte) string {
	if len(b) > 512 {
		return hex.EncodeToString(b[:512]) + fmt.Sprintf("...(%d bytes in total)", len(b))
	}
	return hex.EncodeToString(b)
}

func typeNameOf(in []byte) string {
	if len(in) == 0 {
		return "NONE"
	}
	return mqttx.TypeName(in[0] >> 4)
}

// allocDelta runs f and returns the growth of MemStats.TotalAlloc around it.
// Only meaningful while no other goroutine of the process allocates.
func allocDelta(f func()) uint64 {
	var m0, m1 runtime.MemStats
	runtime.ReadMemStats(&m0)
	f()
	runtime.ReadMemStats(&m1)
	return m1.TotalAlloc - m0.TotalAlloc
}

// decodeSession reads up to n packets from one Reader (initial version v0)
// under the watchdog; it stops at the first error.
func decodeSession(stream []byte, v0 mqttx.Version, n int) (pkts []packets.Packet, err error, panicked any, hung bool) {
	type out struct {
		pkts []packets.Packet
		err  error
		pan  any
	}
	rd := packets.NewReader(bufio.NewReaderSize(bytes.NewReader(stream), 4096))
	rd.SetVersion(byte(v0))
	ch := make(chan out, 1)
	go func() {
		var o out
		defer func() {
			if x := recover(); x != nil {
				o.pan = x
			}
			ch <- o
		}()
		for i := 0; i < n; i++ {
			p, err := rd.ReadPacket()
			if err != nil {
				o.err = err
				return
			}
			o.pkts = append(o.pkts, p)
		}
	}()
	t := time.NewTimer(hangTimeout)
	defer t.Stop()
	select {
	case o := <-ch:
		return o.pkts, o.err, o.pan, false
	case <-t.C:
		return nil, nil, nil, true
	}
}
