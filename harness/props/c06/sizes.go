package c06

import (
	"fmt"
	"math/rand"
	"sort"
	"strings"

	"github.com/DrmagicE/gmqtt"
	"github.com/DrmagicE/gmqtt/pkg/packets"

	"verif/harness/mqttx"
)

// sizes: gmqtt.Message.TotalBytes(v) and packets.TotalBytes(MessageToPublish(m, v))
// must equal the length of the packed PUBLISH, for random messages whose
// remaining length / property length sit around the variable-byte-integer
// boundaries 127/128, 16383/16384 and 2097151/2097152.

func packedLen(m *gmqtt.Message, v byte) (n int, pub *packets.Publish, err error, pan any) {
	defer func() {
		if x := recover(); x != nil {
			pan = x
		}
	}()
	pub = gmqtt.MessageToPublish(m, v)
	b, err, pan, _ := packBytes(pub)
	return len(b), pub, err, pan
}

func totalBytesOf(m *gmqtt.Message, v byte) (n uint32, pan any) {
	defer func() {
		if x := recover(); x != nil {
			pan = x
		}
	}()
	return m.TotalBytes(v), nil
}

type msgFeature struct {
	name  string
	clear func(m *gmqtt.Message) bool
}

var msgFeatures = []msgFeature{
	{"CorrelationData.empty_non_nil", func(m *gmqtt.Message) bool {
		if m.CorrelationData != nil && len(m.CorrelationData) == 0 {
			m.CorrelationData = nil
			return true
		}
		return false
	}},
	{"CorrelationData", func(m *gmqtt.Message) bool {
		if len(m.CorrelationData) > 0 {
			m.CorrelationData = nil
			return true
		}
		return false
	}},
	{"ContentType", func(m *gmqtt.Message) bool {
		if m.ContentType != "" {
			m.ContentType = ""
			return true
		}
		return false
	}},
	{"ResponseTopic", func(m *gmqtt.Message) bool {
		if m.ResponseTopic != "" {
			m.ResponseTopic = ""
			return true
		}
		return false
	}},
	{"MessageExpiry", func(m *gmqtt.Message) bool {
		if m.MessageExpiry != 0 {
			m.MessageExpiry = 0
			return true
		}
		return false
	}},
	{"PayloadFormat", func(m *gmqtt.Message) bool {
		if m.PayloadFormat != 0 {
			m.PayloadFormat = 0
			return true
		}
		return false
	}},
	{"SubscriptionIdentifier", func(m *gmqtt.Message) bool {
		if len(m.SubscriptionIdentifier) > 0 {
			m.SubscriptionIdentifier = nil
			return true
		}
		return false
	}},
	{"UserProperties", func(m *gmqtt.Message) bool {
		if len(m.UserProperties) > 0 {
			m.UserProperties = nil
			return true
		}
		return false
	}},
	{"QoS", func(m *gmqtt.Message) bool {
		if m.QoS != 0 {
			m.QoS, m.PacketID = 0, 0
			return true
		}
		return false
	}},
	{"Payload", func(m *gmqtt.Message) bool {
		if len(m.Payload) > 0 {
			m.Payload = nil
			return true
		}
		return false
	}},
}

func sizeMismatch(m *gmqtt.Message, v byte) bool {
	n, _, err, pan := packedLen(m, v)
	tb, pan2 := totalBytesOf(m, v)
	return err == nil && pan == nil && pan2 == nil && int(tb) != n
}

// sizeCause: greedy ablation of message features, as for rejected packets.
func sizeCause(m *gmqtt.Message, v byte) string {
	cur := m.Copy()
	if m.CorrelationData != nil && len(m.CorrelationData) == 0 {
		cur.CorrelationData = []byte{} // Copy drops an empty slice
	}
	var essential []string
	for _, f := range msgFeatures {
		q := *cur
		if !f.clear(&q) {
			continue
		}
		if sizeMismatch(&q, v) {
			*cur = q
		} else {
			essential = append(essential, f.name)
		}
	}
	if len(essential) == 0 {
		return "base"
	}
	sort.Strings(essential)
	return strings.Join(essential, "+")
}

func (c *checker) sizeCase(m *gmqtt.Message, v byte, what string) {
	r := c.r
	r.Eval(1)
	r.Count("inputs_sizes", 1)
	vs := fmt.Sprint(v)
	det := map[string]any{"generator": "sizes:" + what, "version": v, "topic": m.Topic, "qos": m.QoS, "payload_len": len(m.Payload),
		"content_type": m.ContentType, "response_topic": m.ResponseTopic, "correlation_data_len": len(m.CorrelationData), "correlation_data_nil": m.CorrelationData == nil,
		"message_expiry": m.MessageExpiry, "payload_format": m.PayloadFormat, "subscription_identifier": m.SubscriptionIdentifier, "user_properties": len(m.UserProperties)}
	n, pub, err, pan := packedLen(m, v)
	if pan != nil {
		r.Violation("encode.panic:type=PUBLISH:v="+vs, fmt.Sprintf("Pack of MessageToPublish panicked: %v", pan), det)
		return
	}
	if err != nil {
		r.Violation("encode.error:type=PUBLISH:v="+vs, "Pack of MessageToPublish failed: "+err.Error(), det)
		return
	}
	det["packed_len"] = n
	tb, pan := totalBytesOf(m, v)
	if pan != nil {
		r.Violation("size.message_totalbytes.panic:v="+vs, fmt.Sprintf("Message.TotalBytes panicked: %v", pan), det)
		return
	}
	det["message_totalbytes"] = tb
	ok := true
	if int(tb) != n {
		ok = false
		cause := sizeCause(m, v)
		r.Violation("size.message_totalbytes:v="+vs+":cause="+cause, fmt.Sprintf("Message.TotalBytes(%d)=%d, the packed PUBLISH has %d bytes (cause: %s)", v, tb, n, cause), det)
	}
	if ptb := packets.TotalBytes(pub); int(ptb) != n {
		ok = false
		r.Violation("size.totalbytes:stage=pack:type=PUBLISH:v="+vs, fmt.Sprintf("packets.TotalBytes=%d, the packed PUBLISH has %d bytes", ptb, n), det)
	}
	if ok {
		c.mu.Lock()
		first := !c.sizeSampled
		c.sizeSampled = true
		c.mu.Unlock()
		if first {
			r.Sample(det)
		}
		r.Count("sizes_equal", 1)
		r.Nontrivial(fmt.Sprintf("size:%d:%d:%s:%d", v, n, m.Topic, len(m.Payload)))
		r.Distinct("size_header_len_classes", fmt.Sprintf("v%d/%d", v, headerLenClass(n)))
	}
}

func headerLenClass(total int) int {
	switch {
	case total <= 2+127:
		return 1
	case total <= 3+16383:
		return 2
	case total <= 4+2097151:
		return 3
	}
	return 4
}

func randomMessage(rng *rand.Rand, g *gen, v5props bool) *gmqtt.Message {
	m := &gmqtt.Message{Topic: g.topicName(), QoS: byte(rng.Intn(3)), Retained: rng.Intn(2) == 0}
	if m.QoS > 0 {
		m.PacketID = g.pid()
		m.Dup = rng.Intn(4) == 0
	}
	if !v5props {
		return m
	}
	if g.chance(40) {
		m.ContentType = g.str(1, 20)
	}
	if g.chance(40) {
		m.CorrelationData = g.bin(1, 20)
	} else if g.chance(5) {
		m.CorrelationData = []byte{} // present but empty (a legal Correlation Data value)
	}
	if g.chance(40) {
		m.MessageExpiry = g.u32()
	}
	if g.chance(40) {
		m.PayloadFormat = packets.PayloadFormatString
	}
	if g.chance(40) {
		m.ResponseTopic = g.topicName()
	}
	if g.chance(40) {
		for i, n := 0, 1+rng.Intn(3); i < n; i++ {
			m.SubscriptionIdentifier = append(m.SubscriptionIdentifier, g.varintVal())
		}
	}
	if g.chance(40) {
		for i, n := 0, 1+rng.Intn(3); i < n; i++ {
			m.UserProperties = append(m.UserProperties, packets.UserProperty{K: []byte(g.str(0, 8)), V: []byte(g.str(0, 30))})
		}
	}
	return m
}

func (c *checker) sizes() {
	r := c.r
	// (a) random messages with small payloads
	n := r.Pick(1500, 200000)
	chunk := r.Pick(500, 10000)
	r.Parallel((n+chunk-1)/chunk, workers, func(i int) {
		rng := r.Rand(fmt.Sprintf("sizes-%d", i))
		g := &gen{rng: rng}
		for k := 0; k < chunk; k++ {
			v := byte(versions[rng.Intn(3)])
			m := randomMessage(rng, g, true)
			m.Payload = g.bin(0, 64)
			c.sizeCase(m, v, "random")
		}
	})
	// (b) remaining length placed exactly around the varint boundaries by choosing the payload length
	rng := r.Rand("sizes-boundary")
	g := &gen{rng: rng}
	bounds := []int{127, 16383, 2097151}
	reps := r.Pick(3, 40)
	for _, v := range versions {
		for bi, bound := range bounds {
			nrep := reps
			if bi == 2 {
				nrep = r.Pick(1, 6)
			}
			for rep := 0; rep < nrep; rep++ {
				m := randomMessage(rng, g, rep%2 == 1)
				_, pub, err, pan := packedLen(m, byte(v))
				if err != nil || pan != nil || pub.FixHeader == nil {
					continue
				}
				baseRL := pub.FixHeader.RemainLength // with an empty payload
				for d := -2; d <= 2; d++ {
					pl := bound + d - baseRL
					if pl < 0 {
						continue
					}
					mm := *m
					mm.Payload = make([]byte, pl)
					c.sizeCase(&mm, byte(v), fmt.Sprintf("boundary-%d%+d", bound, d))
				}
			}
		}
	}
	// (c) property length around 127/128 and 16383/16384 (v5)
	for _, bound := range []int{127, 16383} {
		for d := -3; d <= 3; d++ {
			for rep := 0; rep < r.Pick(1, 10); rep++ {
				m := &gmqtt.Message{Topic: "t", QoS: byte(rng.Intn(3)), Payload: g.bin(0, 10)}
				if m.QoS > 0 {
					m.PacketID = 1
				}
				// one user property with empty key (5 + len(value) bytes) fills the property field to bound+d
				fill := bound + d
				if rep%2 == 1 {
					m.MessageExpiry = 60
					fill -= 5
				}
				m.UserProperties = []packets.UserProperty{{K: []byte{}, V: []byte(strings.Repeat("v", fill-5))}}
				c.sizeCase(m, byte(mqttx.V5), fmt.Sprintf("proplen-%d%+d", bound, d))
			}
		}
	}
}
