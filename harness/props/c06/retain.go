package c06

import (
	"bufio"
	"bytes"
	"errors"
	"fmt"

	"github.com/DrmagicE/gmqtt/pkg/packets"

	"verif/harness/mqttx"
)

// retention: a packet that ReadPacket has returned belongs to the caller. The broker's read loop hands it to another
// goroutine and goes on reading; whatever the Reader reads afterwards must not change it. Streams of several
// hundred packets (longer than any internal buffer) are decoded from one Reader, all packets are kept, and only
// then compared with what was sent.
func (c *checker) retention() {
	r := c.r
	rng := r.Rand("retention")
	for round := 0; round < r.Pick(6, 80); round++ {
		v := versions[rng.Intn(3)]
		g := &gen{rng: rng}
		var stream []byte
		var want []*mqttx.Packet
		bufSize := []int{16, 512, 2048, 4096, 65536}[rng.Intn(5)]
		for i := 0; i < 200+rng.Intn(400); i++ {
			p := &mqttx.Packet{Type: mqttx.PUBLISH, Topic: fmt.Sprintf("ret/%d/%s", i, g.strEx(1, 8, "#+/\x00")), QoS: byte(rng.Intn(3)), Payload: []byte(fmt.Sprintf("payload-%d-", i) + g.strEx(0, 300, ""))}
			if p.QoS > 0 {
				p.PacketID = uint16(1 + i)
			}
			if v == mqttx.V5 && rng.Intn(3) == 0 {
				ct := fmt.Sprintf("ct-%d", i)
				p.Props = &mqttx.Props{ContentType: &ct, User: []mqttx.UserProp{{K: "k", V: fmt.Sprintf("v-%d", i)}}}
			}
			b, err := mqttx.Encode(p, v)
			if err != nil {
				continue
			}
			stream = append(stream, b...)
			want = append(want, p)
		}
		rd := packets.NewReader(bufio.NewReaderSize(bytes.NewReader(stream), bufSize))
		rd.SetVersion(byte(v))
		var kept []packets.Packet
		for range want {
			p, err := rd.ReadPacket()
			if err != nil {
				r.Violation("retention.decode_error:v="+vstr(v), fmt.Sprintf("packet %d of a stream of %d well-formed PUBLISH packets: %v", len(kept), len(want), err), nil)
				break
			}
			kept = append(kept, p)
		}
		r.Eval(1)
		changed := 0
		first := ""
		for i, p := range kept {
			got, err := fromGmqtt(p, v)
			if err != nil {
				continue
			}
			w := clonePacket(want[i])
			if d := diffPackets(w, got); d != "" {
				changed++
				if first == "" {
					first = fmt.Sprintf("packet %d field %s: now %s, was sent as %s", i, d, got.String(), w.String())
				}
			}
		}
		if changed > 0 {
			r.Violation(fmt.Sprintf("retention.changed_after_return:v=%s", vstr(v)), fmt.Sprintf("%d of %d packets returned by ReadPacket no longer hold what was sent once the Reader had read the rest of the stream (reader buffer %d bytes); %s", changed, len(kept), bufSize, first), map[string]any{"reader_buffer": bufSize, "packets": len(kept)})
		}
		r.Count("retention_packets_kept_while_reading_on", int64(len(kept)))
		r.Nontrivial(fmt.Sprintf("retention|%d|%d", round, bufSize))
	}
}

type failingWriter struct {
	left int
	buf  bytes.Buffer
}

var errWriterBroke = errors.New("verif: the connection broke")

func (w *failingWriter) Write(p []byte) (int, error) {
	if len(p) <= w.left {
		w.left -= len(p)
		return w.buf.Write(p)
	}
	n := w.left
	w.buf.Write(p[:n])
	w.left = 0
	return n, errWriterBroke
}

// encodeAfterFailedWrite: the bytes Pack produces are a function of the packet alone - also right after a Pack whose
// writer (a connection) broke in the middle of the packet. (The encoder takes scratch buffers from a pool.)
func (c *checker) encodeAfterFailedWrite() {
	r := c.r
	rng := r.Rand("failed-write")
	g := &gen{rng: rng}
	for round := 0; round < r.Pick(300, 20000); round++ {
		v := versions[rng.Intn(3)]
		big := g.packet(mqttx.PUBLISH, v)
		big.Payload = bytes.Repeat([]byte{byte('A' + round%26)}, 200+rng.Intn(5000))
		victim := toGmqtt(big, v)
		if victim == nil {
			continue
		}
		full, err, pan, _ := packBytes(victim)
		if err != nil || pan != nil || len(full) < 4 {
			continue
		}
		// the writer breaks after k bytes
		fw := &failingWriter{left: rng.Intn(len(full))}
		func() {
			defer func() { _ = recover() }()
			_ = victim.Pack(fw)
		}()
		// the next encodings, whoever does them
		for k := 0; k < 3; k++ {
			t := []byte{mqttx.PUBLISH, mqttx.SUBSCRIBE, mqttx.CONNACK, mqttx.PUBACK, mqttx.CONNECT}[rng.Intn(5)]
			next := g.packet(t, v)
			gp := toGmqtt(next, v)
			if gp == nil {
				continue
			}
			b1, err1, pan1, _ := packBytes(gp)
			b2, err2, pan2, _ := packBytes(gp)
			r.Eval(1)
			if pan1 != nil || pan2 != nil || (err1 == nil) != (err2 == nil) || !bytes.Equal(b1, b2) {
				r.Violation("encode.after_failed_write:type="+mqttx.TypeName(t)+":v="+vstr(v), fmt.Sprintf("after a Pack whose writer broke %d bytes into a %d byte PUBLISH, packing the same %s twice gives %d and %d bytes (err %v / %v): the first encoding carries bytes of the broken one", fw.buf.Len(), len(full), mqttx.TypeName(t), len(b1), len(b2), err1, err2), map[string]any{"first_hex": hexTrunc(b1), "second_hex": hexTrunc(b2)})
				return
			}
			if err1 == nil {
				if dec := decodeStream(append(append([]byte{}, b1...), trailer...), v, false); dec.err != nil || dec.pkt == nil {
					r.Violation("encode.after_failed_write_undecodable:type="+mqttx.TypeName(t)+":v="+vstr(v), fmt.Sprintf("the encoding produced right after a broken write does not decode: %v", dec.err), map[string]any{"hex": hexTrunc(b1)})
					return
				}
			}
		}
		r.Count("encodings_after_a_broken_write", 3)
	}
	r.Nontrivial("encode-after-failed-write")
}
