// Package c06: the packet codec (github.com/DrmagicE/gmqtt/pkg/packets) is
// total, bounded and round-trips for every input (DESIGN.md §5 C06).
//
// The decoder under test is packets.NewReader(r).ReadPacket() with
// Reader.SetVersion(v); the oracle is the independent codec verif/harness/mqttx.
package c06

import (
	"bytes"
	"encoding/hex"
	"encoding/json"
	"fmt"
	"runtime"
	"sort"
	"strings"
	"sync"
	"sync/atomic"

	"github.com/DrmagicE/gmqtt/pkg/packets"

	"verif/harness/monitor"
	"verif/harness/mqttx"
)

const (
	allocSlack  = 64 << 10 // allowed allocation per decode: 64 KiB + 32 x bytes supplied
	allocFactor = 32
	bigRL       = 1 << 20 // inputs declaring more than this are run in the serial section only
	workers     = 16
)

type caseInfo struct {
	gen        string // generator / mutation kind
	v          mqttx.Version
	in         []byte
	noTrailer  bool   // truncation cases: the stream ends with the input
	mustReject string // directed mutation: accepting is a violation (field=..:class=..)
	wf         bool   // produced by the well-formed generator (i)
	order      int64  // deterministic order key for deferred cases
}

type checker struct {
	r           *monitor.Run
	mu          sync.Mutex
	serial      bool       // true while the single-threaded (allocation) section runs
	big         []caseInfo // deferred: declared remaining length > bigRL
	samples     int
	sizeSampled bool
}

func vstr(v mqttx.Version) string { return fmt.Sprint(int(v)) }

// sigV is the version named in signatures: the reader's version, except for
// CONNECT, which carries its own protocol level (the reader's setting is
// irrelevant for it).
func sigV(ci caseInfo) string {
	if len(ci.in) > 0 && ci.in[0]>>4 == mqttx.CONNECT {
		if h := parseHeader(ci.in); h.ok {
			body := ci.in[1+h.k:]
			if len(body) >= 2 {
				if n := int(body[0])<<8 | int(body[1]); len(body) > 2+n {
					return fmt.Sprint(int(body[2+n]))
				}
			}
		}
	}
	return vstr(ci.v)
}

func (c *checker) detail(ci caseInfo, extra map[string]any) map[string]any {
	d := map[string]any{"generator": ci.gen, "reader_version": int(ci.v), "input_hex": hexTrunc(ci.in), "input_len": len(ci.in), "trailer_appended": !ci.noTrailer}
	if ci.mustReject != "" {
		d["must_reject"] = ci.mustReject
	}
	for k, v := range extra {
		d[k] = v
	}
	return d
}

// runCase executes one decode input with all monitors. It returns the packet
// the independent decoder read from the input (nil if it refused it or the
// input is not exactly one packet) and whether gmqtt accepted the input.
func (c *checker) runCase(ci caseInfo) (accepted bool) {
	r := c.r
	hin := parseHeader(ci.in)
	if !c.serial && hin.ok && hin.rl > bigRL {
		c.mu.Lock()
		c.big = append(c.big, ci)
		c.mu.Unlock()
		return false
	}
	r.Eval(1)
	r.Count("inputs_"+genClass(ci.gen), 1)
	stream := ci.in
	if !ci.noTrailer {
		stream = append(append(make([]byte, 0, len(ci.in)+2), ci.in...), trailer...)
	}
	hs := parseHeader(stream)
	exact := hin.ok && !hin.overlong && hin.total() == int64(len(ci.in))
	readSecond := exact && !ci.noTrailer
	tn, vs := typeNameOf(ci.in), sigV(ci)

	var res decRes
	if c.serial {
		delta := allocDelta(func() { res = decodeStream(stream, ci.v, readSecond) })
		r.Count("alloc_measured", 1)
		r.Max("alloc_max_bytes_per_decode", int64(delta))
		if limit := uint64(allocSlack + allocFactor*len(ci.in)); delta > limit {
			// the allocation happens before the body is looked at: name the reader's version even for CONNECT
			r.Violation("alloc.bomb:type="+tn+":v="+vstr(ci.v),
				fmt.Sprintf("decoding %d supplied bytes (%s, declared remaining length %d) allocated %d bytes (limit %d)", len(ci.in), tn, hin.rl, delta, limit),
				c.detail(ci, map[string]any{"allocated_bytes": delta, "limit_bytes": limit, "declared_remaining_length": hin.rl}))
		}
	} else {
		res = decodeStream(stream, ci.v, readSecond)
	}
	if res.hung {
		r.Violation("decode.hang:type="+tn+":v="+vs, "ReadPacket did not return within 10 s", c.detail(ci, nil))
		return false
	}
	if res.panicked != nil {
		r.Violation("decode.panic:type="+tn+":v="+vs, fmt.Sprintf("ReadPacket panicked: %v", res.panicked), c.detail(ci, map[string]any{"panic": fmt.Sprint(res.panicked), "stack": res.stack}))
		return false
	}
	// the independent reading of the same input (only if it is exactly one packet)
	var M *mqttx.Packet
	var merr error
	if exact {
		M, _, merr = mqttx.Decode(ci.in, ci.v)
		if merr == nil && ci.mustReject != "" {
			r.Inconclusive("oracle disagreement: directed mutation " + ci.gen + " (" + ci.mustReject + ") is accepted by mqttx: " + hexTrunc(ci.in))
		}
	}
	if res.err != nil || res.pkt == nil {
		if res.err == nil {
			r.Violation("decode.nil_without_error:type="+tn+":v="+vs, "ReadPacket returned neither a packet nor an error", c.detail(ci, nil))
			return false
		}
		r.Count("rejected", 1)
		if M != nil && inServerDomain(M, ci.v) {
			c.wfReject(ci, M, res.err)
		} else if M != nil {
			r.Count("wellformed_outside_server_domain_rejected", 1)
		}
		return false
	}
	// ---- accepted
	r.Count("accepted", 1)
	r.Count("accepted_"+genClass(ci.gen), 1)
	r.Nontrivial("dec:" + vs + ":" + string(ci.in))
	r.Distinct("accepted_type_version", tn+"/"+vs)
	if ci.noTrailer {
		r.Violation("truncated.accepted:type="+tn, "a truncated packet (the stream ends inside the packet) was decoded as a packet instead of an error",
			c.detail(ci, map[string]any{"decoded": res.pkt.String()}))
		return true
	}
	if !hs.ok {
		r.Violation("framing.header_incomplete:type="+tn, "packet accepted although the stream ends inside the fixed header", c.detail(ci, nil))
		return true
	}
	if hs.overlong {
		r.Violation("framing.varint_overlong:accepted", fmt.Sprintf("remaining length encoded in %d bytes (maximum is 4, MQTT 1.5.5) was accepted", hs.k), c.detail(ci, map[string]any{"decoded": res.pkt.String()}))
	} else if !hs.canonical {
		r.Count("lenient_noncanonical_remaining_length_accepted", 1)
	}
	expected := hs.total()
	switch {
	case expected > int64(len(stream)):
		r.Violation("framing.accept_beyond_input:type="+tn+":v="+vs, fmt.Sprintf("packet accepted although it declares %d bytes and the stream holds %d", expected, len(stream)), c.detail(ci, nil))
		return true
	case int64(res.consumed) != expected:
		dir := "under"
		if int64(res.consumed) > expected {
			dir = "over"
		}
		r.Violation("framing.consumed:type="+tn+":v="+vs+":dir="+dir, fmt.Sprintf("decoder consumed %d bytes, the packet declares %d", res.consumed, expected), c.detail(ci, nil))
		return true
	}
	if res.second {
		if _, ok := res.pkt2.(*packets.Pingreq); !ok || res.err2 != nil || res.consumedAll != len(stream) {
			r.Violation("framing.trailer:type="+tn+":v="+vs, fmt.Sprintf("the PINGREQ following the packet was not decoded intact (got %T, err %v, consumed %d of %d)", res.pkt2, res.err2, res.consumedAll, len(stream)), c.detail(ci, nil))
			return true
		}
		r.Count("trailer_intact", 1)
	}
	G, cerr := fromGmqtt(res.pkt, ci.v)
	if cerr != nil {
		r.Violation("decode.bad_value:type="+tn+":v="+vs, cerr.Error(), c.detail(ci, nil))
		return true
	}
	if exact {
		if merr == nil {
			r.Count("accepted_by_both", 1)
			if d := diffPackets(M, G); d != "" {
				r.Violation("roundtrip.mismatch:stage=decode:type="+tn+":v="+vs+":field="+d, "gmqtt decoded field "+d+" differently from the independent decoder",
					c.detail(ci, map[string]any{"gmqtt": G.String(), "mqttx": M.String(), "gmqtt_packet": res.pkt.String()}))
				M = nil // the value is already lost: do not report the same loss again after Pack
			}
		} else {
			r.Count("lenient_accept_of_malformed", 1)
			r.Distinct("lenient_accept_kinds", genClass(ci.gen)+":"+ci.gen+":"+tn)
			// an inner length field (string, binary, property length) that runs past the end of the
			// packet, or is missing altogether, and was still accepted: the decoder read the field
			// past the declared length of what encloses it
			if me, ok := merr.(*mqttx.MalformedError); ok && strings.HasPrefix(me.Reason, "truncated ") {
				what := strings.TrimPrefix(me.Reason, "truncated ")
				if i := strings.Index(what, " (need"); i >= 0 {
					what = what[:i]
				}
				what = strings.ReplaceAll(what, " ", "_")
				r.Violation("decode.accept_overrun:field="+what, "accepted although the field '"+what+"' runs past the end of its enclosing packet/property area (independent decoder: "+me.Reason+")",
					c.detail(ci, map[string]any{"gmqtt_packet": res.pkt.String()}))
			}
			if ci.mustReject != "" {
				sig := "decode.accept_invalid:type=" + tn + ":" + ci.mustReject
				if ci.v == mqttx.V5 && strings.HasSuffix(ci.mustReject, "field=Topic:class=empty") {
					sig += ":v=5" // v5 has its own rule for the empty topic (Topic Alias)
				}
				r.Violation(sig, "input that MQTT 1.5.4/4.7 forbids was accepted ("+ci.mustReject+"; independent decoder: "+merr.Error()+")",
					c.detail(ci, map[string]any{"gmqtt_packet": res.pkt.String()}))
			}
		}
	}
	if hs.canonical {
		if tb := packets.TotalBytes(res.pkt); int64(tb) != expected {
			r.Violation("size.totalbytes:stage=unpack:type="+tn+":v="+vs, fmt.Sprintf("TotalBytes=%d after Unpack, packet has %d bytes", tb, expected), c.detail(ci, nil))
		}
	}
	c.reencode(ci, res.pkt, G, M)
	c.mu.Lock()
	if c.samples < 4 && ci.wf {
		c.samples++
		c.mu.Unlock()
		r.Sample(map[string]any{"generator": ci.gen, "version": int(ci.v), "input_hex": hexTrunc(ci.in), "decoded": G.String()})
	} else {
		c.mu.Unlock()
	}
	return true
}

func genClass(g string) string {
	if i := strings.IndexByte(g, ':'); i >= 0 {
		return g[:i]
	}
	return g
}

// reencode: the accepted packet must Pack to bytes that gmqtt decodes to an
// equal packet (and, if the independent decoder knows the value M, that mqttx
// decodes to M); TotalBytes after Pack must be the encoded length.
func (c *checker) reencode(ci caseInfo, pkt packets.Packet, G, M *mqttx.Packet) {
	r := c.r
	tn, vs := typeNameOf(ci.in), sigV(ci)
	var flags0 byte
	if fh := fixHeaderOf(pkt); fh != nil {
		flags0 = fh.Flags
	}
	b2, err, pan, stack := packBytes(pkt)
	if pan != nil {
		r.Violation("encode.panic:type="+tn+":v="+vs, fmt.Sprintf("Pack of an accepted packet panicked: %v", pan), c.detail(ci, map[string]any{"stack": stack}))
		return
	}
	if err != nil {
		r.Violation("encode.error:type="+tn+":v="+vs, "Pack of an accepted packet failed: "+err.Error(), c.detail(ci, nil))
		return
	}
	ex := map[string]any{"repacked_hex": hexTrunc(b2)}
	if tb := packets.TotalBytes(pkt); int(tb) != len(b2) {
		r.Violation("size.totalbytes:stage=pack:type="+tn+":v="+vs, fmt.Sprintf("TotalBytes=%d after Pack, encoded length %d", tb, len(b2)), c.detail(ci, ex))
	}
	if h := parseHeader(b2); h.ok && h.rl > bigRL && !c.serial {
		return
	}
	res := decodeStream(append(append([]byte{}, b2...), trailer...), ci.v, true)
	switch {
	case res.hung:
		r.Violation("decode.hang:type="+tn+":v="+vs, "ReadPacket did not return within 10 s (re-encoded packet)", c.detail(ci, ex))
	case res.panicked != nil:
		r.Violation("decode.panic:type="+tn+":v="+vs, fmt.Sprintf("ReadPacket panicked on a re-encoded packet: %v", res.panicked), c.detail(ci, ex))
	case res.err != nil || res.pkt == nil:
		r.Violation("roundtrip.reencode_rejected:type="+tn+":v="+vs, fmt.Sprintf("Pack of an accepted packet gives bytes the decoder refuses: %v", res.err), c.detail(ci, ex))
	default:
		G2, cerr := fromGmqtt(res.pkt, ci.v)
		if cerr != nil {
			r.Violation("decode.bad_value:type="+tn+":v="+vs, cerr.Error(), c.detail(ci, ex))
			break
		}
		ex["first"], ex["second"] = G.String(), G2.String()
		if d := diffPackets(G, G2); d != "" {
			r.Violation("roundtrip.mismatch:stage=reencode:type="+tn+":v="+vs+":field="+d, "decode -> Pack -> decode changes field "+d, c.detail(ci, ex))
		} else if fh := fixHeaderOf(res.pkt); fh != nil && fh.Flags != flags0 {
			r.Violation("roundtrip.mismatch:stage=reencode:type="+tn+":field=FixHeader.Flags", fmt.Sprintf("decode -> Pack -> decode changes the fixed header flags 0x%x -> 0x%x", flags0, fh.Flags), c.detail(ci, ex))
		} else if _, ok := res.pkt2.(*packets.Pingreq); !ok || int(res.consumed) != len(b2) {
			r.Violation("framing.trailer:type="+tn+":v="+vs, "re-encoded packet is not framed correctly", c.detail(ci, ex))
		} else {
			r.Count("reencode_roundtrips", 1)
		}
	}
	if M != nil {
		M2, _, err := mqttx.Decode(b2, ci.v)
		if err != nil {
			r.Violation("roundtrip.undecodable:stage=encode:type="+tn+":v="+vs, "Pack of a well-formed packet gives bytes the independent decoder refuses: "+err.Error(), c.detail(ci, ex))
		} else if d := diffPackets(M, M2); d != "" {
			ex["want"], ex["got"] = M.String(), M2.String()
			r.Violation("roundtrip.mismatch:stage=encode:type="+tn+":v="+vs+":field="+d, "mqttx-encode -> gmqtt-decode -> Pack -> mqttx-decode changes field "+d, c.detail(ci, ex))
		} else {
			r.Count("wellformed_roundtrips", 1)
			r.Nontrivial("wf:" + vs + ":" + string(ci.in))
		}
	}
}

// wfReject reports a well-formed packet of the server domain that gmqtt refuses.
func (c *checker) wfReject(ci caseInfo, M *mqttx.Packet, derr error) {
	tn, vs := typeNameOf(ci.in), sigV(ci)
	field, decisive := ablate(M, func(q *mqttx.Packet) (valid, rej bool) {
		b, err := mqttx.Encode(q, ci.v)
		if err != nil {
			return false, false
		}
		if q2, _, err := mqttx.Decode(b, ci.v); err != nil || diffPackets(q, q2) != "" || !inServerDomain(q2, ci.v) {
			return false, false
		}
		if h := parseHeader(b); h.rl > bigRL {
			return false, false
		}
		res := decodeStream(append(b, trailer...), ci.v, false)
		return true, res.hung || res.panicked != nil || res.err != nil || res.pkt == nil
	})
	sig := "wf.reject:type=" + tn + ":v=" + vs + ":field=" + field
	if decisive { // content-level causes do not depend on the version; those in strings/properties not on the type either
		sig = "wf.reject:type=" + tn + ":field=" + field
		if strings.HasPrefix(field, "str.") || strings.HasPrefix(field, "Props.") || strings.HasPrefix(field, "WillProps.") {
			sig = "wf.reject:field=" + field
		}
	}
	c.r.Violation(sig, "a well-formed "+tn+" is refused by the decoder ("+derr.Error()+"); minimal discriminating feature(s): "+field,
		c.detail(ci, map[string]any{"error": derr.Error(), "mqttx": M.String()}))
}

// constructCase: encode direction on the full domain. The gmqtt struct is built
// directly (as the broker or a plugin would), packed, and read back by mqttx.
func (c *checker) constructCase(p *mqttx.Packet, v mqttx.Version) {
	r := c.r
	r.Eval(1)
	r.Count("inputs_construct", 1)
	tn, vs := mqttx.TypeName(p.Type), vstr(v)
	g := toGmqtt(p, v)
	det := map[string]any{"generator": "construct", "version": int(v), "value": p.String()}
	if want, err := mqttx.Encode(p, v); err == nil {
		det["mqttx_encoding_hex"] = hexTrunc(want)
	}
	b, err, pan, stack := packBytes(g)
	if pan != nil {
		det["stack"] = stack
		r.Violation("encode.panic:type="+tn+":v="+vs, fmt.Sprintf("Pack panicked: %v", pan), det)
		return
	}
	if err != nil {
		r.Violation("encode.error:type="+tn+":v="+vs, "Pack of a well-formed value failed: "+err.Error(), det)
		return
	}
	det["packed_hex"] = hexTrunc(b)
	if tb := packets.TotalBytes(g); int(tb) != len(b) {
		r.Violation("size.totalbytes:stage=pack:type="+tn+":v="+vs, fmt.Sprintf("TotalBytes=%d after Pack, encoded length %d", tb, len(b)), det)
	}
	q, n, err := mqttx.Decode(b, v)
	if err != nil || n != len(b) {
		r.Violation("roundtrip.undecodable:stage=construct:type="+tn+":v="+vs, fmt.Sprintf("Pack of a well-formed value gives bytes the independent decoder refuses: %v", err), det)
		return
	}
	if d := diffPackets(p, q); d != "" {
		det["got"] = q.String()
		r.Violation("roundtrip.mismatch:stage=construct:type="+tn+":v="+vs+":field="+d, "gmqtt-encode -> mqttx-decode changes field "+d, det)
		return
	}
	r.Count("construct_roundtrips", 1)
	r.Nontrivial("enc:" + vs + ":" + string(b))
}

// wfCases runs generator (i) for one (type, version): n values, the first
// truncN of them also truncated at every offset and each mutated mutN times.
func (c *checker) wfCases(stream string, cb combo, n, truncN, mutN int) {
	r := c.r
	rng := r.Rand(stream)
	g := &gen{rng: rng, big: true}
	gf := &gen{rng: rng, big: false, full: true}
	m := &mutator{rng: rng}
	var prev []byte
	for i := 0; i < n; i++ {
		p := g.packet(cb.t, cb.v)
		b, err := mqttx.Encode(p, cb.v)
		if err != nil {
			r.Inconclusive("generator produced an unencodable value: " + err.Error() + " " + p.String())
			continue
		}
		if q, k, err := mqttx.Decode(b, cb.v); err != nil || k != len(b) || diffPackets(p, q) != "" || !mqttx.Equal(p, q) {
			r.Inconclusive(fmt.Sprintf("generator value is not well-formed for the independent decoder (%v, diff %q): %s %s", err, diffPackets(p, q), p.String(), hexTrunc(b)))
			continue
		}
		if !inServerDomain(p, cb.v) {
			r.Inconclusive("generator left the server domain: " + p.String())
			continue
		}
		c.runCase(caseInfo{gen: "wf", v: cb.v, in: b, wf: true})
		if cb.t != mqttx.CONNECT && i%4 == 0 && len(b) < bigRL {
			c.sessionCase(g, cb, b)
		}
		for _, lf := range longForms(b, cb.v) {
			if _, _, err := mqttx.Decode(lf, cb.v); err != nil {
				r.Inconclusive("long form rejected by the independent decoder: " + hexTrunc(lf) + ": " + err.Error())
				continue
			}
			c.runCase(caseInfo{gen: "wf:longform", v: cb.v, in: lf, wf: true})
		}
		// encode direction, full domain (adds server->client only values)
		c.constructCase(p, cb.v)
		pf := gf.packet(cb.t, cb.v)
		if bf, err := mqttx.Encode(pf, cb.v); err == nil {
			if q, _, err := mqttx.Decode(bf, cb.v); err == nil && diffPackets(pf, q) == "" {
				c.constructCase(pf, cb.v)
			} else {
				r.Inconclusive(fmt.Sprintf("full-domain value is not well-formed for the independent decoder (%v): %s", err, pf.String()))
			}
		}
		if i < truncN {
			for _, off := range truncOffsets(rng, len(b)) {
				c.runCase(caseInfo{gen: "trunc", v: cb.v, in: b[:off], noTrailer: true})
			}
		}
		other := prev
		if other == nil {
			other = b
		}
		for j := 0; j < mutN; j++ {
			var mt mutant
			ok := false
			switch x := rng.Intn(10); {
			case x < 4:
				mt, ok = m.valueMutant(p, cb.v)
			case x < 6 && cb.v == mqttx.V5:
				mt, ok = m.propMutant(b, p)
			}
			if !ok {
				mt = m.byteMutant(b, other)
			}
			c.runCase(caseInfo{gen: "mut:" + mt.kind, v: cb.v, in: mt.in, mustReject: mt.mustReject})
		}
		if len(b) <= 4096 {
			prev = b
		}
	}
}

// sessionCase: "CONNECT decides the version". A CONNECT of version v, then the
// packet b (well-formed under v), then PINGREQ go through ONE Reader that was
// initially set to another version. If the Reader decodes b when set to v
// directly (standalone), it must decode it to the same value after the CONNECT.
func (c *checker) sessionCase(g *gen, cb combo, b []byte) {
	r := c.r
	conn := g.packet(mqttx.CONNECT, cb.v)
	// keep the CONNECT clear of content gmqtt is known to refuse (see generator (i) findings)
	conn.Password = asciiOnly(conn.Password)
	for _, ps := range []*mqttx.Props{conn.Props, conn.WillProps} {
		if ps != nil {
			ps.AuthData = asciiOnly(ps.AuthData)
		}
	}
	mapStrings(conn, func(c rune) rune {
		if c == 0xFFFD {
			return 'x'
		}
		return c
	})
	cbytes, err := mqttx.Encode(conn, cb.v)
	if err != nil {
		return
	}
	alone := decodeStream(append(append([]byte{}, b...), trailer...), cb.v, false)
	if alone.hung || alone.panicked != nil || alone.err != nil || alone.pkt == nil {
		return // reported by runCase
	}
	want, cerr := fromGmqtt(alone.pkt, cb.v)
	if cerr != nil {
		return
	}
	v0 := versions[g.rng.Intn(3)]
	stream := append(append(append([]byte{}, cbytes...), b...), trailer...)
	r.Eval(1)
	r.Count("inputs_session", 1)
	pkts, derr, pan, hung := decodeSession(stream, v0, 3)
	tn, vs := typeNameOf(b), vstr(cb.v)
	det := map[string]any{"generator": "session", "initial_reader_version": int(v0), "connect_version": int(cb.v), "stream_hex": hexTrunc(stream), "packet_hex": hexTrunc(b)}
	switch {
	case hung:
		r.Violation("decode.hang:type="+tn+":v="+vs, "ReadPacket did not return within 10 s (session stream)", det)
	case pan != nil:
		r.Violation("decode.panic:type="+tn+":v="+vs, fmt.Sprintf("ReadPacket panicked (session stream): %v", pan), det)
	case len(pkts) == 0:
		r.Count("session_connect_rejected", 1) // reported as wf.reject by the CONNECT cases
	case len(pkts) < 3:
		r.Violation("session.version:type="+tn+":v="+vs+":outcome=rejected", fmt.Sprintf("after a v%d CONNECT the Reader (initially v%d) refuses a packet it accepts when set to v%d directly: %v", cb.v, v0, cb.v, derr), det)
	default:
		got, cerr := fromGmqtt(pkts[1], cb.v)
		if _, ok := pkts[2].(*packets.Pingreq); !ok || cerr != nil {
			r.Violation("session.version:type="+tn+":v="+vs+":outcome=desync", "after a CONNECT the following packets are not decoded intact", det)
		} else if d := diffPackets(want, got); d != "" {
			det["want"], det["got"] = want.String(), got.String()
			r.Violation("session.version:type="+tn+":v="+vs+":field="+d, "after a CONNECT the Reader decodes field "+d+" differently than when set to that version directly", det)
		} else {
			r.Count("session_version_switch_ok", 1)
			r.Nontrivial("session:" + vs + ":" + string(b))
		}
	}
}

// truncOffsets: every offset for packets up to 256 bytes; for larger packets the
// first 64, the last 16 and 32 random offsets.
func truncOffsets(rng interface{ Intn(int) int }, n int) []int {
	var offs []int
	if n <= 256 {
		for i := 0; i < n; i++ {
			offs = append(offs, i)
		}
		return offs
	}
	for i := 0; i < 64; i++ {
		offs = append(offs, i)
	}
	for i := 0; i < 32; i++ {
		offs = append(offs, 64+rng.Intn(n-80))
	}
	for i := n - 16; i < n; i++ {
		offs = append(offs, i)
	}
	return offs
}

// Run is the entry point of the check.
func Run(r *monitor.Run) {
	r.InconBudget = 0
	r.MaxReplays = 100 // alloc.bomb alone has one signature per type and version
	c := &checker{r: r}
	combos := allCombos()

	// ---- 1. serial section: allocation monitor (otherwise idle process)
	c.serial = true
	c.allocSection(combos)
	c.serial = false

	// ---- 2. generators (i) + (ii), parallel by (type, version, chunk)
	perCombo := r.Pick(8, 4000)
	chunk := r.Pick(8, 250)
	truncPer := r.Pick(4, 80) // per chunk
	mutPer := r.Pick(28, 20)
	type job struct {
		cb combo
		k  int
	}
	var jobs []job
	for _, cb := range combos {
		for k := 0; k*chunk < perCombo; k++ {
			jobs = append(jobs, job{cb, k})
		}
	}
	r.Parallel(len(jobs), workers, func(i int) {
		j := jobs[i]
		c.wfCases(fmt.Sprintf("wf-%d-%d-%d", j.cb.t, j.cb.v, j.k), j.cb, chunk, truncPer, mutPer)
	})

	// ---- 2b. the directed mutations, systematically
	c.catalogue(combos)

	// ---- 3. generator (iii): raw random bytes
	rawN := r.Pick(12000, 3200000)
	rawChunk := r.Pick(1000, 50000)
	r.Parallel((rawN+rawChunk-1)/rawChunk, workers, func(i int) {
		rng := r.Rand(fmt.Sprintf("raw-%d", i))
		for k := 0; k < rawChunk; k++ {
			in := rawInput(rng)
			c.runCase(caseInfo{gen: "raw", v: versions[rng.Intn(3)], in: in})
		}
	})

	// ---- 4. deferred big declarations from the parallel sections (serial, capped)
	c.runDeferred()

	// ---- 5. sizes of messages, validity predicates
	c.sizes()
	c.predicates()
	// ---- 6. encoding is a function of the value: many goroutines packing at once (the encoder's buffer pool)
	c.concurrentEncode()
	// ---- 7. what ReadPacket returned stays what it was; encodings after a broken write
	c.retention()
	c.encodeAfterFailedWrite()
}

// concurrentEncode: every goroutine packs its own v5 values over and over while the others do the same; the
// bytes must be those a lone goroutine gets. (The encoder takes scratch buffers from a shared pool.)
func (c *checker) concurrentEncode() {
	r := c.r
	rng := r.Rand("concurrent-encode")
	g := &gen{rng: rng}
	const workers = 24
	type job struct {
		pk   packets.Packet
		want []byte
		desc string
	}
	jobs := make([][]job, workers)
	types := []byte{mqttx.CONNECT, mqttx.CONNACK, mqttx.PUBLISH, mqttx.PUBACK, mqttx.SUBSCRIBE, mqttx.SUBACK, mqttx.UNSUBSCRIBE, mqttx.DISCONNECT, mqttx.AUTH, mqttx.PUBREL}
	for w := range jobs {
		for k := 0; k < 6; k++ {
			p := g.packet(types[rng.Intn(len(types))], mqttx.V5)
			pk := toGmqtt(p, mqttx.V5)
			if pk == nil {
				continue
			}
			b, err, pan, _ := packBytes(pk)
			if err != nil || pan != nil {
				continue
			}
			jobs[w] = append(jobs[w], job{pk, append([]byte(nil), b...), p.String()})
		}
	}
	rounds := r.Pick(1500, 20000)
	var wg sync.WaitGroup
	var bad int32
	for w := 0; w < workers; w++ {
		wg.Add(1)
		go func(js []job) {
			defer wg.Done()
			for i := 0; i < rounds && atomic.LoadInt32(&bad) == 0; i++ {
				for _, j := range js {
					b, err, pan, _ := packBytes(j.pk)
					if err != nil || pan != nil || !bytes.Equal(b, j.want) {
						if atomic.CompareAndSwapInt32(&bad, 0, 1) {
							r.Violation("encode.concurrent_mismatch", fmt.Sprintf("Pack of %s while other goroutines were packing gave %d bytes (err %v, panic %v) that differ from the %d bytes the same value packs to alone", j.desc, len(b), err, pan, len(j.want)),
								map[string]any{"got_hex": hexTrunc(b), "want_hex": hexTrunc(j.want)})
						}
						return
					}
				}
			}
		}(jobs[w])
	}
	wg.Wait()
	r.Eval(1)
	r.Count("concurrent_encode_packs", int64(workers*rounds*6))
	r.Nontrivial("concurrent-encode")
}

// allocSection: generator (iv) and a sample of the other generators, one decode
// at a time, TotalAlloc measured around each.
func (c *checker) allocSection(combos []combo) {
	r := c.r
	rng := r.Rand("alloc")
	runtime.GC()
	n := 0
	tick := func() {
		n++
		if n%64 == 0 {
			runtime.GC()
		}
	}
	// (iv) bombs: per type and reader version (here also AUTH under v3.x: the decoder does not
	// look at the version for it) one maximal declaration, then smaller ones
	var all []combo
	for t := byte(1); t <= 15; t++ {
		for _, v := range versions {
			all = append(all, combo{t, v})
		}
	}
	for _, cb := range all {
		kind, in := bombInput(rng, cb.t, cb.v, true)
		c.runCase(caseInfo{gen: "bomb:" + kind, v: cb.v, in: in})
		runtime.GC()
	}
	for i, total := 0, r.Pick(110, 2400); i < total; i++ {
		cb := all[rng.Intn(len(all))]
		kind, in := bombInput(rng, cb.t, cb.v, !r.Quick() && i%12 == 0)
		c.runCase(caseInfo{gen: "bomb:" + kind, v: cb.v, in: in})
		if h := parseHeader(in); h.rl > 32<<20 {
			runtime.GC()
		}
		tick()
	}
	// a sample of well-formed values, their mutants and raw inputs under the allocation monitor
	g := &gen{rng: rng, big: true}
	m := &mutator{rng: rng}
	for i, total := 0, r.Pick(500, 30000); i < total; i++ {
		cb := combos[rng.Intn(len(combos))]
		p := g.packet(cb.t, cb.v)
		b, err := mqttx.Encode(p, cb.v)
		if err != nil {
			r.Inconclusive("generator produced an unencodable value: " + err.Error())
			continue
		}
		c.runCase(caseInfo{gen: "wf", v: cb.v, in: b, wf: true})
		tick()
		var mt mutant
		ok := false
		switch x := rng.Intn(10); {
		case x < 4:
			mt, ok = m.valueMutant(p, cb.v)
		case x < 6 && cb.v == mqttx.V5:
			mt, ok = m.propMutant(b, p)
		}
		if !ok {
			mt = m.byteMutant(b, b)
		}
		if h := parseHeader(mt.in); !(h.ok && h.rl > 32<<20 && i%16 != 0) { // at most 1/16 of the maximal declarations here
			c.runCase(caseInfo{gen: "mut:" + mt.kind, v: cb.v, in: mt.in, mustReject: mt.mustReject})
			tick()
		}
		c.runCase(caseInfo{gen: "raw", v: versions[rng.Intn(3)], in: rawInput(rng)})
		tick()
	}
}

func (c *checker) runDeferred() {
	r := c.r
	c.mu.Lock()
	big := c.big
	c.big = nil
	c.mu.Unlock()
	sort.Slice(big, func(i, j int) bool {
		if big[i].gen != big[j].gen {
			return big[i].gen < big[j].gen
		}
		if big[i].v != big[j].v {
			return big[i].v < big[j].v
		}
		return string(big[i].in) < string(big[j].in)
	})
	limit := r.Pick(60, 400)
	r.Count("deferred_big_declarations", int64(len(big)))
	c.serial = true
	runtime.GC()
	// spread the executed ones over the sorted list
	step := 1
	if len(big) > limit {
		step = len(big) / limit
	}
	done := 0
	for i := 0; i < len(big) && done < limit; i += step {
		c.runCase(big[i])
		done++
		runtime.GC()
	}
	r.Count("deferred_big_declarations_executed", int64(done))
	c.serial = false
}

// Replay re-runs a decode case stored in a violation file.
func Replay(r *monitor.Run, detail json.RawMessage) {
	var d struct {
		Generator string `json:"generator"`
		Version   int    `json:"reader_version"`
		Hex       string `json:"input_hex"`
		Len       int    `json:"input_len"`
		Trailer   bool   `json:"trailer_appended"`
		Must      string `json:"must_reject"`
		String    string `json:"string_hex"`
	}
	_ = json.Unmarshal(detail, &d)
	c := &checker{r: r, serial: true}
	if d.String != "" {
		if s, err := hex.DecodeString(d.String); err == nil {
			c.predicateCase(s)
			return
		}
	}
	in, err := hex.DecodeString(d.Hex)
	if err != nil || len(in) != d.Len || d.Version == 0 {
		fmt.Println("replay: this violation file holds no complete decode input")
		return
	}
	c.runCase(caseInfo{gen: d.Generator, v: mqttx.Version(d.Version), in: in, noTrailer: !d.Trailer, mustReject: d.Must})
}
