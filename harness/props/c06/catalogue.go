package c06

import (
	"fmt"

	"verif/harness/mqttx"
)

// catalogue: the directed mutations applied systematically (both tiers), so
// that every (packet type, version) x (mutation kind) pair and every
// (string field) x (forbidden content class) pair is exercised at least `reps`
// times regardless of the random draws of generator (ii).
func (c *checker) catalogue(combos []combo) {
	r := c.r
	reps := r.Pick(2, 12)
	r.Parallel(len(combos), workers, func(ci int) {
		cb := combos[ci]
		rng := r.Rand(fmt.Sprintf("catalogue-%d-%d", cb.t, cb.v))
		g := &gen{rng: rng}
		m := &mutator{rng: rng}
		v5 := cb.v == mqttx.V5
		run := func(kind string, p *mqttx.Packet, must string) {
			b, err := mqttx.Encode(p, cb.v)
			if err != nil {
				return
			}
			c.runCase(caseInfo{gen: "mut:" + kind, v: cb.v, in: b, mustReject: must})
		}
		for rep := 0; rep < reps; rep++ {
			p := g.packet(cb.t, cb.v)
			if cb.t == mqttx.CONNECT && !p.WillFlag {
				p.WillFlag, p.WillQoS, p.WillTopic, p.WillPayload = true, byte(rng.Intn(3)), g.topicName(), g.bin(0, 10)
				if v5 {
					p.WillProps = g.props(0)
				}
			}
			if cb.t == mqttx.CONNECT && !p.HasUsername {
				p.HasUsername, p.Username = true, g.str(1, 8)
			}
			if v5 && rep%2 == 0 { // every allowed property present
				ps := &mqttx.Props{}
				for _, name := range propNames[cb.t] {
					if !(name == "SubscriptionIDs" && cb.t == mqttx.PUBLISH) {
						g.setProp(ps, name, cb.t)
					}
				}
				p.Props = ps
				if p.Type == mqttx.PUBLISH && p.Topic == "" {
					p.Topic = g.topicName()
				}
			}
			// keep the base value clear of the content classes that gmqtt is already
			// known (from generator (i)) to refuse, so that they do not mask the
			// directed mutations: binary data is text here, no U+FFFD
			p.Password = asciiOnly(p.Password)
			for _, ps := range []*mqttx.Props{p.Props, p.WillProps} {
				if ps != nil {
					ps.AuthData, ps.CorrelationData = asciiOnly(ps.AuthData), asciiOnly(ps.CorrelationData)
				}
			}
			mapStrings(p, func(c rune) rune {
				if c == 0xFFFD {
					return 'x'
				}
				return c
			})
			b, err := mqttx.Encode(p, cb.v)
			if err != nil {
				continue
			}
			if _, _, err := mqttx.Decode(b, cb.v); err != nil {
				r.Inconclusive("catalogue base value is not well-formed: " + err.Error() + " " + p.String())
				continue
			}
			// forbidden / optional-to-refuse content in every string field
			names, _ := stringFields(p)
			for i := range names {
				for _, bad := range badStrings {
					q := clonePacket(p)
					_, ptrs := stringFields(q)
					s := *ptrs[i]
					at := len(s) / 2
					for at < len(s) && s[at]&0xC0 == 0x80 {
						at++
					}
					*ptrs[i] = s[:at] + bad.s + s[at:]
					must := ""
					if bad.must {
						must = "field=" + names[i] + ":class=" + bad.class
					}
					run("string-"+bad.class, q, must)
				}
			}
			// invalid topic names
			for _, bad := range badNames {
				switch cb.t {
				case mqttx.PUBLISH:
					q := clonePacket(p)
					q.Topic = bad.s
					if bad.s == "" && q.Props != nil {
						q.Props.TopicAlias = nil
					}
					run("topicname-"+bad.class, q, "field=Topic:class="+bad.class)
					if v5 {
						q = clonePacket(p)
						if q.Props == nil {
							q.Props = &mqttx.Props{}
						}
						q.Props.ResponseTopic = pstr(bad.s)
						run("responsetopic-"+bad.class, q, "field=Props.ResponseTopic:class="+bad.class)
					}
				case mqttx.CONNECT:
					q := clonePacket(p)
					q.WillTopic = bad.s
					run("topicname-"+bad.class, q, "field=WillTopic:class="+bad.class)
					if v5 {
						q = clonePacket(p)
						if q.WillProps == nil {
							q.WillProps = &mqttx.Props{}
						}
						q.WillProps.ResponseTopic = pstr(bad.s)
						run("responsetopic-"+bad.class, q, "field=WillProps.ResponseTopic:class="+bad.class)
					}
				}
			}
			// invalid topic filters
			for _, bad := range badFilters {
				if bad.v5only && !v5 {
					continue
				}
				q := clonePacket(p)
				switch cb.t {
				case mqttx.SUBSCRIBE:
					i := rng.Intn(len(q.Subs))
					q.Subs[i].Filter, q.Subs[i].NoLocal = bad.s, false
				case mqttx.UNSUBSCRIBE:
					q.Filters[rng.Intn(len(q.Filters))] = bad.s
				default:
					continue
				}
				run("filter-"+bad.class, q, "field=Filter:class="+bad.class)
			}
			// every byte-level and property-level mutation kind
			for n := 0; n < nByteMutations; n++ {
				mt := m.byteMutantN(n, b, b)
				c.runCase(caseInfo{gen: "mut:" + mt.kind, v: cb.v, in: mt.in})
			}
			if v5 {
				for n := 0; n < nPropMutations; n++ {
					if mt, ok := m.propMutantN(n, b, p); ok {
						c.runCase(caseInfo{gen: "mut:" + mt.kind, v: cb.v, in: mt.in, mustReject: mt.mustReject})
					}
				}
			}
			// every length of the remaining-length field from 1 to 8 bytes
			first, body, h := split(b)
			for k := h.k + 1; k <= 8; k++ {
				in := append(append([]byte{first}, paddedVarint(uint32(h.rl), k)...), body...)
				kind := "rl-noncanonical"
				if k > 4 {
					kind = "rl-overlong"
				}
				c.runCase(caseInfo{gen: "mut:" + kind, v: cb.v, in: in})
			}
		}
	})
}
