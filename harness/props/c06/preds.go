package c06

import (
	"bytes"
	"encoding/hex"
	"fmt"
	"strings"
	"unicode/utf8"

	"github.com/DrmagicE/gmqtt/pkg/packets"

	"verif/harness/mqttx"
	"verif/harness/refmodel"
)

// Validity predicates against the reference predicates (MQTT 4.7, 4.8.2, 1.5.4):
//
//	packets.ValidUTF8(s)              == well-formed UTF-8 without U+0000
//	packets.ValidTopicName(true, s)   == topic name (non-empty, valid string, no wildcard)
//	packets.ValidTopicFilter(true, s) == non-shared topic filter
//	packets.ValidV5Topic(s)           == topic filter incl. $share/<name>/<filter>
//
// For strings holding code points a receiver MAY refuse (control characters,
// non-characters; 1.5.4) either answer of ValidUTF8 is accepted.

var alphabet = [][]byte{[]byte("a"), []byte("/"), []byte("+"), []byte("#"), []byte("$"), {0x00}, []byte("\xc3\xa9"), {0xff}}

func strClass(s []byte) string {
	switch {
	case len(s) == 0:
		return "empty"
	case !utf8.Valid(s):
		return "invalid_utf8"
	case bytes.IndexByte(s, 0) >= 0:
		return "nul"
	case bytes.ContainsRune(s, utf8.RuneError):
		return "U+FFFD"
	case hasMayRejectRune(string(s)):
		return "may_reject_codepoint"
	case bytes.HasPrefix(s, []byte("$share/")):
		return "share"
	case bytes.ContainsAny(s, "+#"):
		return "wildcard"
	}
	return "plain"
}

func callPred(f func() bool) (res bool, pan any) {
	defer func() {
		if x := recover(); x != nil {
			pan = x
		}
	}()
	return f(), nil
}

// predicateCase compares the four predicates on s. Returns whether some
// reference predicate accepts s.
func (c *checker) predicateCase(s []byte) bool {
	r := c.r
	str := string(s)
	wantUTF8 := mqttx.ValidUTF8(s)
	wantName := mqttx.ValidTopicName(s)
	wantPlain := refmodel.ValidPlainFilter(str)
	wantV5 := mqttx.ValidTopicFilter(s)
	// refmodel.ValidFilter does not look at the share name's encoding, so the two
	// references are only comparable on valid strings; on the others mqttx decides.
	if wantUTF8 != refmodel.ValidString(str) || wantName != refmodel.ValidName(str) || (wantUTF8 && wantV5 != refmodel.ValidFilter(str)) ||
		(!strings.HasPrefix(str, "$share/") && wantPlain != wantV5) {
		r.Inconclusive("the two reference predicates disagree on " + hex.EncodeToString(s))
		return false
	}
	may := wantUTF8 && hasMayRejectRune(str)
	class := strClass(s)
	check := func(fn string, want bool, f func() bool) {
		got, pan := callPred(f)
		det := map[string]any{"generator": "predicates", "function": fn, "string_hex": hex.EncodeToString(s), "string": fmt.Sprintf("%q", s), "got": got, "want": want}
		if pan != nil {
			r.Violation("valid.panic:fn="+fn, fmt.Sprintf("%s panicked on %q: %v", fn, s, pan), det)
			return
		}
		if may {
			r.Count("predicate_may_reject_strings", 1)
			if got && !want {
				r.Violation(fmt.Sprintf("valid.%s:got=true:want=false:class=%s", fn, class), fmt.Sprintf("%s(%q) = true, reference = false", fn, s), det)
			}
			return
		}
		if got != want {
			r.Violation(fmt.Sprintf("valid.%s:got=%t:want=%t:class=%s", fn, got, want, class), fmt.Sprintf("%s(%q) = %t, reference = %t", fn, s, got, want), det)
		}
	}
	check("utf8", wantUTF8, func() bool { return packets.ValidUTF8(s) })
	check("topic_name", wantName, func() bool { return packets.ValidTopicName(true, s) })
	check("topic_filter", wantPlain, func() bool { return packets.ValidTopicFilter(true, s) })
	check("v5_topic", wantV5, func() bool { return packets.ValidV5Topic(s) })
	// mustUTF8=false variants: only totality
	for _, f := range []func() bool{func() bool { return packets.ValidTopicName(false, s) }, func() bool { return packets.ValidTopicFilter(false, s) }} {
		if _, pan := callPred(f); pan != nil {
			r.Violation("valid.panic:fn=mustUTF8_false", fmt.Sprintf("predicate panicked on %q: %v", s, pan), map[string]any{"string_hex": hex.EncodeToString(s)})
		}
	}
	return wantUTF8 || wantName || wantPlain || wantV5
}

// enumerate calls f for every concatenation of at most maxLen alphabet symbols.
func enumerate(prefix []byte, maxLen int, f func(s []byte)) {
	var rec func(cur []byte, depth int)
	rec = func(cur []byte, depth int) {
		f(cur)
		if depth == maxLen {
			return
		}
		for _, sym := range alphabet {
			rec(append(cur[:len(cur):len(cur)], sym...), depth+1)
		}
	}
	rec(prefix, 0)
}

func (c *checker) predicates() {
	r := c.r
	run := func(prefixes [][]byte, maxLen int, tag string) {
		// jobs: each prefix itself, and one enumeration per (prefix, first symbol):
		// deterministic and parallel
		type job struct {
			p      []byte
			depth  int
			single bool
		}
		var jobs []job
		for _, p := range prefixes {
			jobs = append(jobs, job{p: p, single: true})
			if maxLen == 0 {
				continue
			}
			for _, sym := range alphabet {
				jobs = append(jobs, job{p: append(append([]byte{}, p...), sym...), depth: maxLen - 1})
			}
		}
		r.Parallel(len(jobs), workers, func(i int) {
			j := jobs[i]
			var n, nt int64
			visit := func(s []byte) {
				n++
				if c.predicateCase(s) {
					nt++
					r.Nontrivial("pred:" + string(s))
				}
			}
			if j.single {
				visit(j.p)
			} else {
				enumerate(j.p, j.depth, visit)
			}
			r.Eval(int(n))
			r.Count("inputs_predicates", n)
			r.Count("predicate_strings_"+tag, n)
			r.Count("predicate_strings_valid_for_some_predicate", nt)
		})
	}
	// (a) all strings of at most L symbols over {a / + # $ NUL é 0xff}
	L := r.Pick(5, 6)
	run([][]byte{{}}, L, "alphabet")
	r.Count("predicate_alphabet_max_symbols", int64(L))
	// (b) shared-subscription shapes: "$share/" and "$share" followed by all strings of at most L-2 symbols
	run([][]byte{[]byte("$share/"), []byte("$share"), []byte("$share/a/"), []byte("$share/é/")}, L-2, "share")
	// (c) single code points and byte sequences of interest for 1.5.4
	specials := []string{"\ufffd", "a\ufffdb", "\uffff", "\ufffe", "\U0001fffe", "\ufdd0", "\u0001", "\u001f", "\u007f", "\u0080", "\u009f", "\u00a0", " ",
		"\xed\xa0\x80", "\xed\xbf\xbf", "\xc0\x80", "\xc0\xaf", "\xe0\x80\x80", "\xf4\x90\x80\x80", "\xf8\x88\x80\x80\x80", "\xef\xbb\xbf", "\xef\xbb\xbfa",
		"\U0010ffff", "\U0010fffd", "\U00010000", "퟿", "", "中/+/#", "😀", "a/\u0000", "\xc3", "\xe4\xb8", "+/+/+", "/", "//", "#", "+", "$SYS/#", "$share/g/#", "$share/g/+/a", "$share/g/$share/h/a",
		strings.Repeat("a", 65535), strings.Repeat("a/", 32767) + "#"}
	var n int64
	for _, s := range specials {
		n++
		if c.predicateCase([]byte(s)) {
			r.Nontrivial("pred:" + s)
		}
	}
	r.Eval(int(n))
	r.Count("inputs_predicates", n)
	r.Count("predicate_strings_special", n)
}
