package c06

import (
	"reflect"
	"sort"
	"strings"
	"unicode/utf8"

	"verif/harness/mqttx"
)

// Ablation: when gmqtt's decoder refuses a well-formed packet, the packet is
// simplified feature by feature (one greedy pass) to find the features without
// which it is accepted. Those feature names become the "field=" parameter of the
// signature, so that one root cause gives one signature. Content-level causes
// (a code point class in a string, non-text bytes in binary data) are tried first
// and are decisive: they name the cause alone.

type transform struct {
	name     string
	decisive bool // content-level cause: if essential, it alone names the cause
	apply    func(p *mqttx.Packet) bool
}

func mapStrings(p *mqttx.Packet, f func(rune) rune) bool {
	changed := false
	eachString(p, func(s *string) {
		n := strings.Map(f, *s)
		if n != *s {
			*s, changed = n, true
		}
	})
	return changed
}

func asciiOnly(b []byte) []byte {
	out := make([]byte, len(b))
	for i := range b {
		out[i] = 'a' + b[i]%26
	}
	return out
}

func isText(b []byte) bool {
	return utf8.Valid(b) && !hasMayRejectRune(string(b)) && !strings.ContainsRune(string(b), 0) && !strings.ContainsRune(string(b), utf8.RuneError)
}

func propTransforms(which string, get func(p *mqttx.Packet) *mqttx.Props) []transform {
	var ts []transform
	for _, bf := range []string{"CorrelationData", "AuthData"} {
		bf := bf
		ts = append(ts, transform{name: which + "." + bf + ".binary", decisive: true, apply: func(p *mqttx.Packet) bool {
			ps := get(p)
			if ps == nil {
				return false
			}
			f := reflect.ValueOf(ps).Elem().FieldByName(bf)
			b := f.Bytes()
			if len(b) == 0 || isText(b) {
				return false
			}
			f.SetBytes(asciiOnly(b))
			return true
		}})
	}
	t := reflect.TypeOf(mqttx.Props{})
	for i := 0; i < t.NumField(); i++ {
		name := t.Field(i).Name
		if strings.HasPrefix(name, "Has") {
			continue
		}
		ts = append(ts, transform{name: which + "." + name, apply: func(p *mqttx.Packet) bool {
			ps := get(p)
			if ps == nil {
				return false
			}
			e := reflect.ValueOf(ps).Elem()
			f := e.FieldByName(name)
			has := e.FieldByName("Has" + name)
			if f.IsZero() && !(has.IsValid() && has.Bool()) {
				return false
			}
			f.Set(reflect.Zero(f.Type()))
			if has.IsValid() {
				has.SetBool(false)
			}
			return true
		}})
	}
	return ts
}

func allTransforms() []transform {
	ts := []transform{
		{name: "str.U+FFFD", decisive: true, apply: func(p *mqttx.Packet) bool {
			return mapStrings(p, func(c rune) rune {
				if c == utf8.RuneError {
					return 'x'
				}
				return c
			})
		}},
		{name: "str.nonascii", decisive: true, apply: func(p *mqttx.Packet) bool {
			return mapStrings(p, func(c rune) rune {
				if c > 0x7E {
					return 'x'
				}
				return c
			})
		}},
		{name: "Password.binary", decisive: true, apply: func(p *mqttx.Packet) bool {
			if len(p.Password) == 0 || isText(p.Password) {
				return false
			}
			p.Password = asciiOnly(p.Password)
			return true
		}},
	}
	ts = append(ts, propTransforms("WillProps", func(p *mqttx.Packet) *mqttx.Props { return p.WillProps })...)
	ts = append(ts, propTransforms("Props", func(p *mqttx.Packet) *mqttx.Props { return p.Props })...)
	ts = append(ts,
		transform{name: "Will", apply: func(p *mqttx.Packet) bool {
			if !p.WillFlag {
				return false
			}
			p.WillFlag, p.WillQoS, p.WillRetain, p.WillTopic, p.WillPayload, p.WillProps = false, 0, false, "", nil, nil
			return true
		}},
		transform{name: "Password", apply: func(p *mqttx.Packet) bool {
			if !p.HasPassword && len(p.Password) == 0 {
				return false
			}
			p.HasPassword, p.Password = false, nil
			return true
		}},
		transform{name: "Username", apply: func(p *mqttx.Packet) bool {
			if !p.HasUsername && p.Username == "" {
				return false
			}
			p.HasUsername, p.Username = false, ""
			return true
		}},
		transform{name: "ClientID.empty", apply: func(p *mqttx.Packet) bool {
			if p.Type != mqttx.CONNECT || p.ClientID != "" {
				return false
			}
			p.ClientID = "cid"
			return true
		}},
		transform{name: "Dup", apply: func(p *mqttx.Packet) bool {
			if !p.Dup {
				return false
			}
			p.Dup = false
			return true
		}},
		transform{name: "Retain", apply: func(p *mqttx.Packet) bool {
			if !p.Retain {
				return false
			}
			p.Retain = false
			return true
		}},
		transform{name: "QoS", apply: func(p *mqttx.Packet) bool {
			if p.Type != mqttx.PUBLISH || p.QoS == 0 {
				return false
			}
			p.QoS, p.Dup, p.PacketID = 0, false, 0
			return true
		}},
		transform{name: "Payload", apply: func(p *mqttx.Packet) bool {
			if len(p.Payload) == 0 {
				return false
			}
			p.Payload = nil
			return true
		}},
		transform{name: "Topic.empty", apply: func(p *mqttx.Packet) bool {
			if p.Type != mqttx.PUBLISH || p.Topic != "" {
				return false
			}
			p.Topic = "t"
			return true
		}},
		transform{name: "SessionPresent", apply: func(p *mqttx.Packet) bool {
			if !p.SessionPresent {
				return false
			}
			p.SessionPresent = false
			return true
		}},
		transform{name: "Code", apply: func(p *mqttx.Packet) bool {
			if p.Code == 0 {
				return false
			}
			p.Code = 0
			return true
		}},
		transform{name: "Subs.share", apply: func(p *mqttx.Packet) bool {
			ch := false
			for i := range p.Subs {
				if _, rest, ok := mqttx.SplitShare(p.Subs[i].Filter); ok {
					p.Subs[i].Filter, ch = rest, true
				}
			}
			for i := range p.Filters {
				if _, rest, ok := mqttx.SplitShare(p.Filters[i]); ok {
					p.Filters[i], ch = rest, true
				}
			}
			return ch
		}},
		transform{name: "Subs.options", apply: func(p *mqttx.Packet) bool {
			ch := false
			for i := range p.Subs {
				s := &p.Subs[i]
				if s.NoLocal || s.RAP || s.RetainHandling != 0 || s.QoS != 0 {
					s.NoLocal, s.RAP, s.RetainHandling, s.QoS, ch = false, false, 0, 0, true
				}
			}
			return ch
		}},
		transform{name: "count", apply: func(p *mqttx.Packet) bool {
			ch := false
			if len(p.Subs) > 1 {
				p.Subs, ch = p.Subs[:1], true
			}
			if len(p.Filters) > 1 {
				p.Filters, ch = p.Filters[:1], true
			}
			if len(p.Codes) > 1 {
				p.Codes, ch = p.Codes[:1], true
			}
			return ch
		}},
	)
	return ts
}

var transforms = allTransforms()

// ablate returns the essential features of a rejected well-formed packet.
// rejected(q) must report: (valid) q is still well-formed for the independent
// decoder, (rej) gmqtt still refuses it.
func ablate(p *mqttx.Packet, rejected func(q *mqttx.Packet) (valid, rej bool)) (cause string, decisive bool) {
	cur := clonePacket(p)
	if valid, rej := rejected(cur); valid && !rej {
		return "encoding-form", false // the canonical encoding of the same value is accepted
	}
	essential := map[string]bool{}
	for _, t := range transforms {
		q := clonePacket(cur)
		if !t.apply(q) {
			continue
		}
		valid, rej := rejected(q)
		switch {
		case !valid:
		case rej:
			cur = q
		default:
			if t.decisive {
				return t.name, true
			}
			essential[t.name] = true
		}
	}
	if len(essential) == 0 {
		return "base", false
	}
	names := make([]string, 0, len(essential))
	for n := range essential {
		names = append(names, n)
	}
	sort.Strings(names)
	if len(names) > 3 {
		names = append(names[:3], "more")
	}
	return strings.Join(names, "+"), false
}
