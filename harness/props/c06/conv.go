package c06

import (
	"fmt"
	"reflect"

	"github.com/DrmagicE/gmqtt/pkg/packets"

	"verif/harness/mqttx"
)

// ---------------------------------------------------------------- gmqtt -> mqttx

func sp(b []byte) *string {
	if b == nil {
		return nil
	}
	s := string(b)
	return &s
}

func cpb(b []byte) []byte {
	if b == nil {
		return nil
	}
	return append([]byte{}, b...)
}

func cp8(p *byte) *byte {
	if p == nil {
		return nil
	}
	x := *p
	return &x
}

func cp16(p *uint16) *uint16 {
	if p == nil {
		return nil
	}
	x := *p
	return &x
}

func cp32(p *uint32) *uint32 {
	if p == nil {
		return nil
	}
	x := *p
	return &x
}

// propsFromGmqtt converts a gmqtt property set. A non-nil []byte (even empty)
// means "property present", as in gmqtt's own Pack.
func propsFromGmqtt(g *packets.Properties) *mqttx.Props {
	if g == nil {
		return nil
	}
	ps := &mqttx.Props{
		PayloadFormat:        cp8(g.PayloadFormat),
		MessageExpiry:        cp32(g.MessageExpiry),
		ContentType:          sp(g.ContentType),
		ResponseTopic:        sp(g.ResponseTopic),
		CorrelationData:      cpb(g.CorrelationData),
		HasCorrelationData:   g.CorrelationData != nil,
		SubscriptionIDs:      append([]uint32(nil), g.SubscriptionIdentifier...),
		SessionExpiry:        cp32(g.SessionExpiryInterval),
		AssignedClientID:     sp(g.AssignedClientID),
		ServerKeepAlive:      cp16(g.ServerKeepAlive),
		AuthMethod:           sp(g.AuthMethod),
		AuthData:             cpb(g.AuthData),
		HasAuthData:          g.AuthData != nil,
		RequestProblemInfo:   cp8(g.RequestProblemInfo),
		WillDelay:            cp32(g.WillDelayInterval),
		RequestResponseInfo:  cp8(g.RequestResponseInfo),
		ResponseInfo:         sp(g.ResponseInfo),
		ServerReference:      sp(g.ServerReference),
		ReasonString:         sp(g.ReasonString),
		ReceiveMax:           cp16(g.ReceiveMaximum),
		TopicAliasMax:        cp16(g.TopicAliasMaximum),
		TopicAlias:           cp16(g.TopicAlias),
		MaximumQoS:           cp8(g.MaximumQoS),
		RetainAvailable:      cp8(g.RetainAvailable),
		MaxPacketSize:        cp32(g.MaximumPacketSize),
		WildcardSubAvailable: cp8(g.WildcardSubAvailable),
		SubIDAvailable:       cp8(g.SubIDAvailable),
		SharedSubAvailable:   cp8(g.SharedSubAvailable),
	}
	for _, u := range g.User {
		ps.User = append(ps.User, mqttx.UserProp{K: string(u.K), V: string(u.V)})
	}
	return ps
}

// fixHeaderOf returns the FixHeader pointer of any gmqtt packet (nil if unset).
func fixHeaderOf(p packets.Packet) *packets.FixHeader {
	switch t := p.(type) {
	case *packets.Connect:
		return t.FixHeader
	case *packets.Connack:
		return t.FixHeader
	case *packets.Publish:
		return t.FixHeader
	case *packets.Puback:
		return t.FixHeader
	case *packets.Pubrec:
		return t.FixHeader
	case *packets.Pubrel:
		return t.FixHeader
	case *packets.Pubcomp:
		return t.FixHeader
	case *packets.Subscribe:
		return t.FixHeader
	case *packets.Suback:
		return t.FixHeader
	case *packets.Unsubscribe:
		return t.FixHeader
	case *packets.Unsuback:
		return t.FixHeader
	case *packets.Pingreq:
		return t.FixHeader
	case *packets.Pingresp:
		return t.FixHeader
	case *packets.Disconnect:
		return t.FixHeader
	case *packets.Auth:
		return t.FixHeader
	}
	return nil
}

// fromGmqtt converts a decoded (or constructed) gmqtt packet into the neutral
// mqttx value, copying all data (including the MQTT 3.1 DUP flag of
// PUBREL/SUBSCRIBE/UNSUBSCRIBE, for which gmqtt has a field since cc52901).
func fromGmqtt(p packets.Packet, _ mqttx.Version) (*mqttx.Packet, error) {
	switch t := p.(type) {
	case *packets.Connect:
		if t == nil {
			break
		}
		return &mqttx.Packet{Type: mqttx.CONNECT,
			ProtoName: string(t.ProtocolName), Level: t.ProtocolLevel, CleanStart: t.CleanStart, KeepAlive: t.KeepAlive,
			ClientID: string(t.ClientID), WillFlag: t.WillFlag, WillQoS: t.WillQos, WillRetain: t.WillRetain,
			WillTopic: string(t.WillTopic), WillPayload: cpb(t.WillMsg), WillProps: propsFromGmqtt(t.WillProperties),
			HasUsername: t.UsernameFlag, HasPassword: t.PasswordFlag, Username: string(t.Username), Password: cpb(t.Password),
			Props: propsFromGmqtt(t.Properties)}, nil
	case *packets.Connack:
		if t == nil {
			break
		}
		return &mqttx.Packet{Type: mqttx.CONNACK, SessionPresent: t.SessionPresent, Code: t.Code, Props: propsFromGmqtt(t.Properties)}, nil
	case *packets.Publish:
		if t == nil {
			break
		}
		return &mqttx.Packet{Type: mqttx.PUBLISH, Dup: t.Dup, QoS: t.Qos, Retain: t.Retain, Topic: string(t.TopicName),
			PacketID: t.PacketID, Payload: cpb(t.Payload), Props: propsFromGmqtt(t.Properties)}, nil
	case *packets.Puback:
		if t == nil {
			break
		}
		return &mqttx.Packet{Type: mqttx.PUBACK, PacketID: t.PacketID, Code: t.Code, Props: propsFromGmqtt(t.Properties)}, nil
	case *packets.Pubrec:
		if t == nil {
			break
		}
		return &mqttx.Packet{Type: mqttx.PUBREC, PacketID: t.PacketID, Code: t.Code, Props: propsFromGmqtt(t.Properties)}, nil
	case *packets.Pubrel:
		if t == nil {
			break
		}
		return &mqttx.Packet{Type: mqttx.PUBREL, Dup: t.Dup, PacketID: t.PacketID, Code: t.Code, Props: propsFromGmqtt(t.Properties)}, nil
	case *packets.Pubcomp:
		if t == nil {
			break
		}
		return &mqttx.Packet{Type: mqttx.PUBCOMP, PacketID: t.PacketID, Code: t.Code, Props: propsFromGmqtt(t.Properties)}, nil
	case *packets.Subscribe:
		if t == nil {
			break
		}
		q := &mqttx.Packet{Type: mqttx.SUBSCRIBE, Dup: t.Dup, PacketID: t.PacketID, Props: propsFromGmqtt(t.Properties)}
		for _, s := range t.Topics {
			q.Subs = append(q.Subs, mqttx.Sub{Filter: s.Name, QoS: s.Qos, NoLocal: s.NoLocal, RAP: s.RetainAsPublished, RetainHandling: s.RetainHandling})
		}
		return q, nil
	case *packets.Suback:
		if t == nil {
			break
		}
		return &mqttx.Packet{Type: mqttx.SUBACK, PacketID: t.PacketID, Codes: cpb(t.Payload), Props: propsFromGmqtt(t.Properties)}, nil
	case *packets.Unsubscribe:
		if t == nil {
			break
		}
		return &mqttx.Packet{Type: mqttx.UNSUBSCRIBE, Dup: t.Dup, PacketID: t.PacketID, Filters: append([]string(nil), t.Topics...), Props: propsFromGmqtt(t.Properties)}, nil
	case *packets.Unsuback:
		if t == nil {
			break
		}
		return &mqttx.Packet{Type: mqttx.UNSUBACK, PacketID: t.PacketID, Codes: cpb(t.Payload), Props: propsFromGmqtt(t.Properties)}, nil
	case *packets.Pingreq:
		if t == nil {
			break
		}
		return &mqttx.Packet{Type: mqttx.PINGREQ}, nil
	case *packets.Pingresp:
		if t == nil {
			break
		}
		return &mqttx.Packet{Type: mqttx.PINGRESP}, nil
	case *packets.Disconnect:
		if t == nil {
			break
		}
		return &mqttx.Packet{Type: mqttx.DISCONNECT, Code: t.Code, Props: propsFromGmqtt(t.Properties)}, nil
	case *packets.Auth:
		if t == nil {
			break
		}
		return &mqttx.Packet{Type: mqttx.AUTH, Code: t.Code, Props: propsFromGmqtt(t.Properties)}, nil
	}
	return nil, fmt.Errorf("decoder returned %T (nil or unknown packet type) without an error", p)
}

// ---------------------------------------------------------------- mqttx -> gmqtt

func bs(s *string) []byte {
	if s == nil {
		return nil
	}
	return []byte(*s)
}

func binProp(b []byte, has bool) []byte {
	if !has && len(b) == 0 {
		return nil
	}
	if b == nil {
		return []byte{}
	}
	return cpb(b)
}

func propsToGmqtt(ps *mqttx.Props) *packets.Properties {
	if ps == nil {
		return nil
	}
	g := &packets.Properties{
		PayloadFormat:          cp8(ps.PayloadFormat),
		MessageExpiry:          cp32(ps.MessageExpiry),
		ContentType:            bs(ps.ContentType),
		ResponseTopic:          bs(ps.ResponseTopic),
		CorrelationData:        binProp(ps.CorrelationData, ps.HasCorrelationData),
		SubscriptionIdentifier: append([]uint32(nil), ps.SubscriptionIDs...),
		SessionExpiryInterval:  cp32(ps.SessionExpiry),
		AssignedClientID:       bs(ps.AssignedClientID),
		ServerKeepAlive:        cp16(ps.ServerKeepAlive),
		AuthMethod:             bs(ps.AuthMethod),
		AuthData:               binProp(ps.AuthData, ps.HasAuthData),
		RequestProblemInfo:     cp8(ps.RequestProblemInfo),
		WillDelayInterval:      cp32(ps.WillDelay),
		RequestResponseInfo:    cp8(ps.RequestResponseInfo),
		ResponseInfo:           bs(ps.ResponseInfo),
		ServerReference:        bs(ps.ServerReference),
		ReasonString:           bs(ps.ReasonString),
		ReceiveMaximum:         cp16(ps.ReceiveMax),
		TopicAliasMaximum:      cp16(ps.TopicAliasMax),
		TopicAlias:             cp16(ps.TopicAlias),
		MaximumQoS:             cp8(ps.MaximumQoS),
		RetainAvailable:        cp8(ps.RetainAvailable),
		MaximumPacketSize:      cp32(ps.MaxPacketSize),
		WildcardSubAvailable:   cp8(ps.WildcardSubAvailable),
		SubIDAvailable:         cp8(ps.SubIDAvailable),
		SharedSubAvailable:     cp8(ps.SharedSubAvailable),
	}
	for _, u := range ps.User {
		g.User = append(g.User, packets.UserProperty{K: []byte(u.K), V: []byte(u.V)})
	}
	return g
}

// toGmqtt builds the gmqtt struct a user of the package would build for the
// well-formed value p under version v (only exported fields are set, FixHeader
// is left to Pack). Properties stay nil when p.Props is nil.
func toGmqtt(p *mqttx.Packet, v mqttx.Version) packets.Packet {
	gv := byte(v)
	pr := propsToGmqtt(p.Props)
	switch p.Type {
	case mqttx.CONNECT:
		return &packets.Connect{Version: gv, ProtocolLevel: p.Level, ProtocolName: []byte(p.ProtoName),
			UsernameFlag: p.HasUsername || p.Username != "", PasswordFlag: p.HasPassword || len(p.Password) > 0,
			WillRetain: p.WillRetain, WillQos: p.WillQoS, WillFlag: p.WillFlag, WillTopic: []byte(p.WillTopic), WillMsg: cpb(p.WillPayload),
			CleanStart: p.CleanStart, KeepAlive: p.KeepAlive, ClientID: []byte(p.ClientID), Username: []byte(p.Username), Password: cpb(p.Password),
			Properties: pr, WillProperties: propsToGmqtt(p.WillProps)}
	case mqttx.CONNACK:
		return &packets.Connack{Version: gv, Code: p.Code, SessionPresent: p.SessionPresent, Properties: pr}
	case mqttx.PUBLISH:
		return &packets.Publish{Version: gv, Dup: p.Dup, Qos: p.QoS, Retain: p.Retain, TopicName: []byte(p.Topic), PacketID: p.PacketID, Payload: cpb(p.Payload), Properties: pr}
	case mqttx.PUBACK:
		return &packets.Puback{Version: gv, PacketID: p.PacketID, Code: p.Code, Properties: pr}
	case mqttx.PUBREC:
		return &packets.Pubrec{Version: gv, PacketID: p.PacketID, Code: p.Code, Properties: pr}
	case mqttx.PUBREL:
		return &packets.Pubrel{PacketID: p.PacketID, Code: p.Code, Properties: pr, Dup: p.Dup}
	case mqttx.PUBCOMP:
		return &packets.Pubcomp{Version: gv, PacketID: p.PacketID, Code: p.Code, Properties: pr}
	case mqttx.SUBSCRIBE:
		g := &packets.Subscribe{Version: gv, PacketID: p.PacketID, Properties: pr, Dup: p.Dup}
		for _, s := range p.Subs {
			g.Topics = append(g.Topics, packets.Topic{Name: s.Filter, SubOptions: packets.SubOptions{Qos: s.QoS, RetainHandling: s.RetainHandling, NoLocal: s.NoLocal, RetainAsPublished: s.RAP}})
		}
		return g
	case mqttx.SUBACK:
		return &packets.Suback{Version: gv, PacketID: p.PacketID, Payload: cpb(p.Codes), Properties: pr}
	case mqttx.UNSUBSCRIBE:
		return &packets.Unsubscribe{Version: gv, PacketID: p.PacketID, Topics: append([]string(nil), p.Filters...), Properties: pr, Dup: p.Dup}
	case mqttx.UNSUBACK:
		return &packets.Unsuback{Version: gv, PacketID: p.PacketID, Payload: cpb(p.Codes), Properties: pr}
	case mqttx.PINGREQ:
		return &packets.Pingreq{}
	case mqttx.PINGRESP:
		return &packets.Pingresp{}
	case mqttx.DISCONNECT:
		return &packets.Disconnect{Version: gv, Code: p.Code, Properties: pr}
	case mqttx.AUTH:
		return &packets.Auth{Code: p.Code, Properties: pr}
	}
	return nil
}

// ---------------------------------------------------------------- field-wise diff

var emptyProps mqttx.Props

// diffPackets returns the name of the first field in which a and b differ
// ("" if equal). Normalisation as in mqttx.Equal: nil Props == empty Props,
// nil slice == empty slice, HasX implied by a non-empty value.
func diffPackets(a, b *mqttx.Packet) string {
	if a == nil || b == nil {
		if a == b {
			return ""
		}
		return "<nil>"
	}
	x, y := *a, *b
	x.HasUsername = x.HasUsername || x.Username != ""
	y.HasUsername = y.HasUsername || y.Username != ""
	x.HasPassword = x.HasPassword || len(x.Password) > 0
	y.HasPassword = y.HasPassword || len(y.Password) > 0
	va, vb := reflect.ValueOf(x), reflect.ValueOf(y)
	for i := 0; i < va.NumField(); i++ {
		name := va.Type().Field(i).Name
		fa, fb := va.Field(i), vb.Field(i)
		if name == "Props" || name == "WillProps" {
			pa, _ := fa.Interface().(*mqttx.Props)
			pb, _ := fb.Interface().(*mqttx.Props)
			if d := diffProps(pa, pb); d != "" {
				return name + "." + d
			}
			continue
		}
		if !sameValue(fa, fb) {
			return name
		}
	}
	return ""
}

func diffProps(a, b *mqttx.Props) string {
	if a == nil {
		a = &emptyProps
	}
	if b == nil {
		b = &emptyProps
	}
	x, y := *a, *b
	x.HasCorrelationData = x.HasCorrelationData || len(x.CorrelationData) > 0
	y.HasCorrelationData = y.HasCorrelationData || len(y.CorrelationData) > 0
	x.HasAuthData = x.HasAuthData || len(x.AuthData) > 0
	y.HasAuthData = y.HasAuthData || len(y.AuthData) > 0
	va, vb := reflect.ValueOf(x), reflect.ValueOf(y)
	for i := 0; i < va.NumField(); i++ {
		if !sameValue(va.Field(i), vb.Field(i)) {
			return va.Type().Field(i).Name
		}
	}
	return ""
}

func sameValue(a, b reflect.Value) bool {
	switch a.Kind() {
	case reflect.Slice:
		if a.Len() == 0 && b.Len() == 0 {
			return true
		}
	case reflect.Pointer:
		if a.IsNil() || b.IsNil() {
			return a.IsNil() == b.IsNil()
		}
	}
	return reflect.DeepEqual(a.Interface(), b.Interface())
}

// clonePacket deep-copies p.
func clonePacket(p *mqttx.Packet) *mqttx.Packet {
	q := *p
	q.WillPayload, q.Password, q.Payload, q.Codes = cpb(p.WillPayload), cpb(p.Password), cpb(p.Payload), cpb(p.Codes)
	q.Subs = append([]mqttx.Sub(nil), p.Subs...)
	q.Filters = append([]string(nil), p.Filters...)
	q.Props, q.WillProps = cloneProps(p.Props), cloneProps(p.WillProps)
	return &q
}

func cloneProps(ps *mqttx.Props) *mqttx.Props {
	if ps == nil {
		return nil
	}
	q := &mqttx.Props{}
	src, dst := reflect.ValueOf(ps).Elem(), reflect.ValueOf(q).Elem()
	for i := 0; i < src.NumField(); i++ {
		f := src.Field(i)
		switch f.Kind() {
		case reflect.Pointer:
			if !f.IsNil() {
				n := reflect.New(f.Type().Elem())
				n.Elem().Set(f.Elem())
				dst.Field(i).Set(n)
			}
		case reflect.Slice:
			if !f.IsNil() {
				n := reflect.MakeSlice(f.Type(), f.Len(), f.Len())
				reflect.Copy(n, f)
				dst.Field(i).Set(n)
			}
		default:
			dst.Field(i).Set(f)
		}
	}
	return q
}
