package c06

import (
	"math/rand"

	"verif/harness/mqttx"
)

// mutant is one ill-formed (or at least altered) input derived from a
// well-formed packet. mustReject is non-empty for the directed mutations whose
// result MQTT 1.5.4 / 4.7 forbids outright (ill-formed UTF-8, U+0000, invalid
// topic name / filter): accepting such an input is a violation. All other
// mutants only have to be handled without panic, hang, framing error or
// disproportionate allocation, and - if accepted - must round-trip.
type mutant struct {
	kind       string
	in         []byte
	mustReject string
}

func putVarint(x uint32) []byte {
	var b []byte
	for {
		c := byte(x & 0x7F)
		x >>= 7
		if x > 0 {
			c |= 0x80
		}
		b = append(b, c)
		if x == 0 {
			return b
		}
	}
}

// paddedVarint encodes x in exactly k bytes (k larger than needed gives a
// non-canonical encoding; k > 4 gives one longer than the specification allows).
func paddedVarint(x uint32, k int) []byte {
	b := make([]byte, k)
	for i := 0; i < k; i++ {
		b[i] = byte(x&0x7F) | 0x80
		x >>= 7
	}
	b[k-1] &= 0x7F
	return b
}

// frame builds a packet from first byte and body with a canonical remaining length.
func frame(first byte, body []byte) []byte {
	out := append([]byte{first}, putVarint(uint32(len(body)))...)
	return append(out, body...)
}

func split(b []byte) (first byte, body []byte, h header) {
	h = parseHeader(b)
	return b[0], b[1+h.k:], h
}

// propKinds: wire format of each property identifier (MQTT 5.0 table 2-4):
// 1 byte, 2 two-byte int, 4 four-byte int, v varint, s string, b binary, p string pair.
var propKinds = map[byte]byte{
	0x01: '1', 0x02: '4', 0x03: 's', 0x08: 's', 0x09: 'b', 0x0B: 'v', 0x11: '4', 0x12: 's', 0x13: '2', 0x15: 's', 0x16: 'b',
	0x17: '1', 0x18: '4', 0x19: '1', 0x1A: 's', 0x1C: 's', 0x1F: 's', 0x21: '2', 0x22: '2', 0x23: '2', 0x24: '1', 0x25: '1',
	0x26: 'p', 0x27: '4', 0x28: '1', 0x29: '1', 0x2A: '1',
}

var propIDs = []byte{0x01, 0x02, 0x03, 0x08, 0x09, 0x0B, 0x11, 0x12, 0x13, 0x15, 0x16, 0x17, 0x18, 0x19, 0x1A, 0x1C, 0x1F, 0x21, 0x22, 0x23, 0x24, 0x25, 0x26, 0x27, 0x28, 0x29, 0x2A}

// tokenizeProps splits raw property bytes into single properties (nil if unparsable).
func tokenizeProps(b []byte) [][]byte {
	var out [][]byte
	for len(b) > 0 {
		n := 1
		strAt := func(i int) int {
			if i+2 > len(b) {
				return -1
			}
			return 2 + int(b[i])<<8 | int(b[i+1])
		}
		switch propKinds[b[0]] {
		case '1':
			n += 1
		case '2':
			n += 2
		case '4':
			n += 4
		case 'v':
			for n < len(b) && b[n]&0x80 != 0 {
				n++
			}
			n++
		case 's', 'b':
			l := strAt(1)
			if l < 0 {
				return nil
			}
			n += l
		case 'p':
			l := strAt(1)
			if l < 0 {
				return nil
			}
			n += l
			l = strAt(n)
			if l < 0 {
				return nil
			}
			n += l
		default:
			return nil
		}
		if n > len(b) {
			return nil
		}
		out = append(out, b[:n])
		b = b[n:]
	}
	return out
}

// randomProp builds one syntactically complete property with identifier id.
func randomProp(rng *rand.Rand, id byte) []byte {
	b := []byte{id}
	switch propKinds[id] {
	case '1':
		b = append(b, byte(rng.Intn(2)))
	case '2':
		b = append(b, byte(rng.Intn(256)), byte(1+rng.Intn(255)))
	case '4':
		b = append(b, byte(rng.Intn(256)), byte(rng.Intn(256)), byte(rng.Intn(256)), byte(1+rng.Intn(255)))
	case 'v':
		b = append(b, putVarint(uint32(1+rng.Intn(300)))...)
	case 's', 'b':
		b = append(b, 0, 2, 'a', 'b')
	case 'p':
		b = append(b, 0, 1, 'k', 0, 1, 'v')
	default:
		b = append(b, byte(rng.Intn(256)))
	}
	return b
}

// propRegion locates the (main) property field of the v5 packet b encoding p:
// lenAt = index of the property length, start/end = property bytes.
func propRegion(b []byte, p *mqttx.Packet) (lenAt, start, end int, ok bool) {
	h := parseHeader(b)
	if !h.ok || int(h.total()) != len(b) {
		return
	}
	body := 1 + h.k
	off := -1
	switch p.Type {
	case mqttx.CONNECT:
		off = 2 + len(p.ProtoName) + 4
	case mqttx.CONNACK, mqttx.SUBSCRIBE, mqttx.UNSUBSCRIBE, mqttx.SUBACK, mqttx.UNSUBACK:
		off = 2
	case mqttx.PUBLISH:
		off = 2 + len(p.Topic)
		if p.QoS > 0 {
			off += 2
		}
	case mqttx.PUBACK, mqttx.PUBREC, mqttx.PUBREL, mqttx.PUBCOMP:
		if h.rl > 3 {
			off = 3
		}
	case mqttx.DISCONNECT, mqttx.AUTH:
		if h.rl >= 2 {
			off = 1
		}
	}
	if off < 0 || body+off >= len(b) {
		return
	}
	lenAt = body + off
	ph := parseHeader(append([]byte{0}, b[lenAt:]...))
	if !ph.ok || ph.k > 4 {
		return
	}
	start = lenAt + ph.k
	end = start + int(ph.rl)
	if end > len(b) {
		return
	}
	return lenAt, start, end, true
}

// withProps rebuilds b with the property field replaced by lenField+props.
func withProps(b []byte, lenAt, end int, lenField, props []byte) []byte {
	first, _, h := split(b)
	body := append([]byte{}, b[1+h.k:lenAt]...)
	body = append(body, lenField...)
	body = append(body, props...)
	body = append(body, b[end:]...)
	return frame(first, body)
}

var badStrings = []struct {
	class string
	s     string
	must  bool
}{
	{"invalid_utf8", "a\xffb", true},
	{"invalid_utf8", "\xc3", true},
	{"nul", "a\x00b", true},
	{"surrogate", "\xed\xa0\x80", true},
	{"overlong", "\xc0\x80", true},
	{"beyond_unicode", "\xf4\x90\x80\x80", true},
	{"control", "a\x01b", false},
	{"control", "\x7f", false},
	{"control", "\xc2\x85", false},
	{"nonchar", "\xef\xbf\xbf", false},
	{"bom", "\xef\xbb\xbfa", false},
}

var badNames = []struct{ class, s string }{
	{"wildcard", "a/#"}, {"wildcard", "+"}, {"wildcard", "a/+/b"}, {"wildcard", "#"}, {"wildcard", "a+"}, {"empty", ""},
}

var badFilters = []struct {
	class, s string
	v5only   bool
}{
	{"wildcard", "a+", false}, {"wildcard", "+a", false}, {"wildcard", "a/#/b", false}, {"wildcard", "#a", false}, {"wildcard", "a#", false},
	{"wildcard", "a/+b", false}, {"wildcard", "a/b+/c", false}, {"wildcard", "##", false}, {"wildcard", "/+a", false}, {"wildcard", "+/a#", false},
	{"empty", "", false},
	{"share", "$share//a", true}, {"share", "$share/g", true}, {"share", "$share/g/", true}, {"share", "$share/+/a", true},
	{"share", "$share/g#/a", true}, {"share", "$share/g/a+", true}, {"share", "$share/", true},
}

type mutator struct {
	rng *rand.Rand
}

func (m *mutator) pick(n int) int { return m.rng.Intn(n) }

const nByteMutations, nPropMutations = 16, 13

// byteMutant applies one random byte-level mutation to b.
func (m *mutator) byteMutant(b []byte, other []byte) mutant {
	return m.byteMutantN(m.pick(nByteMutations), b, other)
}

// byteMutantN applies byte-level mutation number n.
func (m *mutator) byteMutantN(n int, b []byte, other []byte) mutant {
	first, body, h := split(b)
	cp := func() []byte { return append([]byte{}, b...) }
	withRL := func(field []byte) []byte {
		out := append([]byte{first}, field...)
		return append(out, body...)
	}
	switch n {
	case 0:
		if h.rl > 0 {
			return mutant{kind: "rl-1", in: withRL(putVarint(uint32(h.rl - 1)))}
		}
		fallthrough
	case 1:
		return mutant{kind: "rl+1", in: withRL(putVarint(uint32(h.rl + 1)))}
	case 2:
		return mutant{kind: "rl0", in: withRL([]byte{0})}
	case 3:
		return mutant{kind: "rlmax", in: withRL(putVarint(268435455))}
	case 4:
		if h.k < 4 {
			return mutant{kind: "rl-noncanonical", in: withRL(paddedVarint(uint32(h.rl), h.k+1+m.pick(4-h.k)))}
		}
		fallthrough
	case 5:
		return mutant{kind: "rl-overlong", in: withRL(paddedVarint(uint32(h.rl), 5+m.pick(3)))}
	case 6:
		out := cp()
		out[0] ^= 1 << uint(m.pick(4))
		return mutant{kind: "flags", in: out}
	case 7:
		out := cp()
		out[0] = out[0]&0x0F | byte(m.pick(16))<<4
		return mutant{kind: "type", in: out}
	case 8, 9:
		out := cp()
		if len(body) > 0 {
			for i, n := 0, 1+m.pick(3); i < n; i++ {
				out[1+h.k+m.pick(len(body))] ^= 1 << uint(m.pick(8))
			}
		}
		return mutant{kind: "bitflip", in: out}
	case 10:
		out := cp()
		if len(body) > 0 {
			vals := []byte{0, 1, 0x7F, 0x80, 0xFF, 0xC0, 0xED, byte(m.pick(256))}
			out[1+h.k+m.pick(len(body))] = vals[m.pick(len(vals))]
		}
		return mutant{kind: "byteset", in: out}
	case 11:
		at := m.pick(len(body) + 1)
		ins := make([]byte, 1+m.pick(4))
		m.rng.Read(ins)
		nb := append(append(append([]byte{}, body[:at]...), ins...), body[at:]...)
		if m.pick(2) == 0 {
			return mutant{kind: "insert", in: frame(first, nb)}
		}
		return mutant{kind: "insert-keeplen", in: append(append([]byte{first}, b[1:1+h.k]...), nb...)}
	case 12:
		if len(body) > 0 {
			at := m.pick(len(body))
			n := 1 + m.pick(4)
			if at+n > len(body) {
				n = len(body) - at
			}
			nb := append(append([]byte{}, body[:at]...), body[at+n:]...)
			if m.pick(2) == 0 {
				return mutant{kind: "delete", in: frame(first, nb)}
			}
			return mutant{kind: "delete-keeplen", in: append(append([]byte{first}, b[1:1+h.k]...), nb...)}
		}
		fallthrough
	case 13:
		n := 1 + m.pick(8)
		if n > len(body) {
			n = len(body)
		}
		return mutant{kind: "dup-tail", in: frame(first, append(append([]byte{}, body...), body[len(body)-n:]...))}
	case 14:
		_, ob, _ := split(other)
		a, c := 0, 0
		if len(body) > 0 {
			a = m.pick(len(body) + 1)
		}
		if len(ob) > 0 {
			c = m.pick(len(ob) + 1)
		}
		return mutant{kind: "splice", in: frame(first, append(append([]byte{}, body[:a]...), ob[c:]...))}
	default:
		// two packets glued: the second must be left in the stream
		return mutant{kind: "glue", in: append(cp(), other...)}
	}
}

// propMutant alters the property field of a v5 packet on the byte level.
func (m *mutator) propMutant(b []byte, p *mqttx.Packet) (mutant, bool) {
	return m.propMutantN(m.pick(nPropMutations), b, p)
}

func (m *mutator) propMutantN(n int, b []byte, p *mqttx.Packet) (mutant, bool) {
	lenAt, start, end, ok := propRegion(b, p)
	if !ok {
		return mutant{}, false
	}
	props := b[start:end]
	toks := tokenizeProps(props)
	canon := func(pr []byte) []byte { return putVarint(uint32(len(pr))) }
	join := func(ts [][]byte) []byte {
		var out []byte
		for _, t := range ts {
			out = append(out, t...)
		}
		return out
	}
	switch n {
	case 0:
		if len(toks) > 0 {
			t := toks[m.pick(len(toks))]
			at := m.pick(len(toks) + 1)
			nt := append(append(append([][]byte{}, toks[:at]...), t), toks[at:]...)
			pr := join(nt)
			mt := mutant{kind: "prop-duplicate", in: withProps(b, lenAt, end, canon(pr), pr)}
			if len(t) > 0 && t[0] != 0x26 && !(t[0] == 0x0B && p.Type == mqttx.PUBLISH) {
				// every property but User Property (and Subscription Identifier in PUBLISH) may appear once only
				mt.mustReject = "field=Props:class=duplicate"
			}
			return mt, true
		}
		fallthrough
	case 1:
		// a property that table 2-4 does not allow in this packet type
		allowed := map[string]bool{}
		for _, n := range propNames[p.Type] {
			allowed[n] = true
		}
		for try := 0; try < 50; try++ {
			id := propIDs[m.pick(len(propIDs))]
			if allowed[propIDName[id]] {
				continue
			}
			pr := append(append([]byte{}, props...), randomProp(m.rng, id)...)
			return mutant{kind: "prop-misplaced", in: withProps(b, lenAt, end, canon(pr), pr)}, true
		}
		fallthrough
	case 2:
		ids := []byte{0x00, 0x04, 0x0A, 0x20, 0x2B, 0x7F, 0x80, 0xFF}
		pr := append(append([]byte{}, props...), ids[m.pick(len(ids))], byte(m.pick(256)))
		return mutant{kind: "prop-unknown", in: withProps(b, lenAt, end, canon(pr), pr)}, true
	case 3:
		if len(props) > 0 {
			return mutant{kind: "proplen-1", in: withProps(b, lenAt, end, putVarint(uint32(len(props)-1)), props)}, true
		}
		fallthrough
	case 4:
		return mutant{kind: "proplen+1", in: withProps(b, lenAt, end, putVarint(uint32(len(props)+1)), props)}, true
	case 5:
		return mutant{kind: "proplen0", in: withProps(b, lenAt, end, []byte{0}, props)}, true
	case 6:
		huge := []uint32{268435455, 2097152, 16384, 65535}
		return mutant{kind: "proplen-huge", in: withProps(b, lenAt, end, putVarint(huge[m.pick(len(huge))]), props)}, true
	case 7:
		k := len(canon(props)) + 1 + m.pick(3)
		return mutant{kind: "proplen-noncanonical", in: withProps(b, lenAt, end, paddedVarint(uint32(len(props)), k), props)}, true
	case 8:
		// Subscription Identifier 0 / non-canonical / 5 bytes
		variants := [][]byte{{0x0B, 0x00}, {0x0B, 0x81, 0x00}, {0x0B, 0x80, 0x80, 0x80, 0x80, 0x01}, {0x0B, 0xFF, 0xFF, 0xFF, 0xFF, 0x7F}}
		pr := append(append([]byte{}, props...), variants[m.pick(len(variants))]...)
		return mutant{kind: "prop-subid", in: withProps(b, lenAt, end, canon(pr), pr)}, true
	case 9:
		// boolean-like property with value 2, or a "must not be 0" property with 0
		variants := [][]byte{{0x01, 2}, {0x17, 2}, {0x19, 0xFF}, {0x24, 2}, {0x25, 2}, {0x28, 2}, {0x29, 2}, {0x2A, 2}, {0x21, 0, 0}, {0x23, 0, 0}, {0x27, 0, 0, 0, 0}}
		pr := append(append([]byte{}, props...), variants[m.pick(len(variants))]...)
		return mutant{kind: "prop-badvalue", in: withProps(b, lenAt, end, canon(pr), pr)}, true
	case 10:
		// a property cut short inside the property field
		id := propIDs[m.pick(len(propIDs))]
		t := randomProp(m.rng, id)
		t = t[:1+m.pick(len(t)-1)]
		pr := append(append([]byte{}, props...), t...)
		return mutant{kind: "prop-truncated", in: withProps(b, lenAt, end, canon(pr), pr)}, true
	case 11:
		// a once-only string / binary property twice, the first occurrence with the (legal) zero-length value:
		// "already present" must not be decided from the length of the stored value
		allowed := map[string]bool{}
		for _, n := range propNames[p.Type] {
			allowed[n] = true
		}
		var ids []byte
		for _, id := range []byte{0x03, 0x08, 0x09, 0x12, 0x15, 0x16, 0x1A, 0x1C, 0x1F} {
			if allowed[propIDName[id]] {
				ids = append(ids, id)
			}
		}
		if len(ids) > 0 {
			id := ids[m.pick(len(ids))]
			pr := []byte{id, 0, 0}
			for _, t := range toks {
				if len(t) > 0 && t[0] != id {
					pr = append(pr, t...)
				}
			}
			pr = append(pr, id, 0, 1, 'x')
			return mutant{kind: "prop-duplicate-empty-first", in: withProps(b, lenAt, end, canon(pr), pr), mustReject: "field=Props:class=duplicate_after_empty"}, true
		}
		fallthrough
	default:
		// string property with a huge declared length
		pr := append(append([]byte{}, props...), 0x26, 0xFF, 0xFF, 'k')
		return mutant{kind: "prop-strlen-huge", in: withProps(b, lenAt, end, canon(pr), pr)}, true
	}
}

var propIDName = map[byte]string{
	0x01: "PayloadFormat", 0x02: "MessageExpiry", 0x03: "ContentType", 0x08: "ResponseTopic", 0x09: "CorrelationData", 0x0B: "SubscriptionIDs",
	0x11: "SessionExpiry", 0x12: "AssignedClientID", 0x13: "ServerKeepAlive", 0x15: "AuthMethod", 0x16: "AuthData", 0x17: "RequestProblemInfo",
	0x18: "WillDelay", 0x19: "RequestResponseInfo", 0x1A: "ResponseInfo", 0x1C: "ServerReference", 0x1F: "ReasonString", 0x21: "ReceiveMax",
	0x22: "TopicAliasMax", 0x23: "TopicAlias", 0x24: "MaximumQoS", 0x25: "RetainAvailable", 0x26: "User", 0x27: "MaxPacketSize",
	0x28: "WildcardSubAvailable", 0x29: "SubIDAvailable", 0x2A: "SharedSubAvailable",
}

// stringFields lists the UTF-8 string fields of p with their names.
func stringFields(p *mqttx.Packet) (names []string, ptrs []*string) {
	add := func(n string, s *string) { names, ptrs = append(names, n), append(ptrs, s) }
	switch p.Type {
	case mqttx.CONNECT:
		add("ClientID", &p.ClientID)
		if p.WillFlag {
			add("WillTopic", &p.WillTopic)
		}
		if p.HasUsername {
			add("Username", &p.Username)
		}
	case mqttx.PUBLISH:
		add("Topic", &p.Topic)
	case mqttx.SUBSCRIBE:
		for i := range p.Subs {
			add("Filter", &p.Subs[i].Filter)
		}
	case mqttx.UNSUBSCRIBE:
		for i := range p.Filters {
			add("Filter", &p.Filters[i])
		}
	}
	for which, ps := range map[string]*mqttx.Props{"Props": p.Props, "WillProps": p.WillProps} {
		if ps == nil || (which == "WillProps" && !p.WillFlag) {
			continue
		}
		for n, s := range map[string]*string{"ContentType": ps.ContentType, "ResponseTopic": ps.ResponseTopic, "AssignedClientID": ps.AssignedClientID,
			"AuthMethod": ps.AuthMethod, "ResponseInfo": ps.ResponseInfo, "ServerReference": ps.ServerReference, "ReasonString": ps.ReasonString} {
			if s != nil {
				add(which+"."+n, s)
			}
		}
		for i := range ps.User {
			add(which+".User.key", &ps.User[i].K)
			add(which+".User.value", &ps.User[i].V)
		}
	}
	// map iteration order is random: sort for determinism
	for i := 1; i < len(names); i++ {
		for j := i; j > 0 && names[j] < names[j-1]; j-- {
			names[j], names[j-1] = names[j-1], names[j]
			ptrs[j], ptrs[j-1] = ptrs[j-1], ptrs[j]
		}
	}
	return
}

// valueMutant alters the value and re-encodes it with the (lenient) mqttx encoder.
func (m *mutator) valueMutant(orig *mqttx.Packet, v mqttx.Version) (mutant, bool) {
	p := clonePacket(orig)
	v5 := v == mqttx.V5
	mt := mutant{}
	switch m.pick(12) {
	case 0, 1, 2:
		names, ptrs := stringFields(p)
		if len(names) == 0 {
			return mt, false
		}
		i := m.pick(len(names))
		bad := badStrings[m.pick(len(badStrings))]
		s := *ptrs[i]
		at := 0
		if len(s) > 0 {
			at = m.pick(len(s) + 1)
			for at < len(s) && s[at]&0xC0 == 0x80 { // do not split a multi-byte sequence
				at++
			}
		}
		*ptrs[i] = s[:at] + bad.s + s[at:]
		mt.kind = "string-" + bad.class
		if bad.must {
			mt.mustReject = "field=" + names[i] + ":class=" + bad.class
		}
	case 3:
		bad := badNames[m.pick(len(badNames))]
		switch {
		case p.Type == mqttx.PUBLISH:
			if bad.s == "" && v5 {
				if p.Props != nil {
					p.Props.TopicAlias = nil
				}
			}
			p.Topic = bad.s
			mt.mustReject = "field=Topic:class=" + bad.class
		case p.Type == mqttx.CONNECT && p.WillFlag:
			p.WillTopic = bad.s
			mt.mustReject = "field=WillTopic:class=" + bad.class
		default:
			return mt, false
		}
		mt.kind = "topicname-" + bad.class
	case 4:
		bad := badNames[m.pick(len(badNames))]
		switch {
		case p.Type == mqttx.PUBLISH && v5:
			if p.Props == nil {
				p.Props = &mqttx.Props{}
			}
			p.Props.ResponseTopic = pstr(bad.s)
			mt.mustReject = "field=Props.ResponseTopic:class=" + bad.class
		case p.Type == mqttx.CONNECT && p.WillFlag && v5:
			if p.WillProps == nil {
				p.WillProps = &mqttx.Props{}
			}
			p.WillProps.ResponseTopic = pstr(bad.s)
			mt.mustReject = "field=WillProps.ResponseTopic:class=" + bad.class
		default:
			return mt, false
		}
		mt.kind = "responsetopic-" + bad.class
	case 5, 6:
		bad := badFilters[m.pick(len(badFilters))]
		if bad.v5only && !v5 {
			return mt, false
		}
		switch {
		case p.Type == mqttx.SUBSCRIBE && len(p.Subs) > 0:
			i := m.pick(len(p.Subs))
			p.Subs[i].Filter = bad.s
			p.Subs[i].NoLocal = false
		case p.Type == mqttx.UNSUBSCRIBE && len(p.Filters) > 0:
			p.Filters[m.pick(len(p.Filters))] = bad.s
		default:
			return mt, false
		}
		mt.kind = "filter-" + bad.class
		mt.mustReject = "field=Filter:class=" + bad.class
	case 7:
		switch p.Type {
		case mqttx.PUBLISH:
			p.QoS = 3
			if p.PacketID == 0 {
				p.PacketID = 7
			}
		case mqttx.SUBSCRIBE:
			if len(p.Subs) == 0 {
				return mt, false
			}
			if v5 && m.pick(2) == 0 {
				p.Subs[0].RetainHandling = 3
			} else {
				p.Subs[0].QoS = 3
			}
		case mqttx.CONNECT:
			p.WillFlag, p.WillQoS = true, 3
		default:
			return mt, false
		}
		mt.kind = "qos3"
	case 8:
		if p.Type != mqttx.CONNECT {
			return mt, false
		}
		names := []string{"MQTT", "MQIsdp", "mqtt", "", "MQTTX", "MQIsdq", "MQT"}
		levels := []byte{0, 2, 3, 4, 5, 6, 0x84, 255}
		p.ProtoName, p.Level = names[m.pick(len(names))], levels[m.pick(len(levels))]
		if p.Level == 0 { // Encode would substitute the default
			p.Level = 1
		}
		mt.kind = "protocol"
	case 9:
		switch p.Type {
		case mqttx.PUBLISH:
			if p.QoS == 0 {
				return mt, false
			}
			p.PacketID = 0
		case mqttx.SUBSCRIBE, mqttx.UNSUBSCRIBE, mqttx.PUBACK, mqttx.PUBREC, mqttx.PUBREL, mqttx.PUBCOMP, mqttx.SUBACK, mqttx.UNSUBACK:
			p.PacketID = 0
		default:
			return mt, false
		}
		mt.kind = "packetid0"
	case 10:
		switch p.Type {
		case mqttx.SUBSCRIBE:
			p.Subs = nil
		case mqttx.UNSUBSCRIBE:
			p.Filters = nil
		case mqttx.SUBACK:
			p.Codes = nil
		case mqttx.UNSUBACK:
			if !v5 {
				return mt, false
			}
			p.Codes = nil
		default:
			return mt, false
		}
		mt.kind = "empty-payload"
	default:
		switch p.Type {
		case mqttx.CONNECT:
			switch m.pick(3) {
			case 0:
				p.WillFlag, p.WillQoS, p.WillRetain = false, byte(1+m.pick(2)), m.pick(2) == 0
			case 1:
				p.HasUsername, p.Username, p.HasPassword = false, "", true
			default:
				p.ClientID, p.CleanStart = "", false
			}
			mt.kind = "connect-flags"
		case mqttx.PUBLISH:
			p.QoS, p.Dup, p.PacketID = 0, true, 0
			mt.kind = "dup-qos0"
		case mqttx.CONNACK, mqttx.PUBACK, mqttx.PUBREC, mqttx.PUBREL, mqttx.PUBCOMP, mqttx.DISCONNECT, mqttx.AUTH:
			p.Code = []byte{0x03, 0x7F, 0xFF, 0x8B, 0x05}[m.pick(5)]
			mt.kind = "reason-code"
		case mqttx.SUBACK, mqttx.UNSUBACK:
			if len(p.Codes) == 0 {
				return mt, false
			}
			p.Codes[0] = []byte{0x03, 0x7F, 0xFF}[m.pick(3)]
			mt.kind = "reason-code"
		default:
			return mt, false
		}
	}
	b, err := mqttx.Encode(p, v)
	if err != nil {
		return mt, false
	}
	// the CONNECT reserved flag cannot be expressed as a value: set it on the bytes
	if p.Type == mqttx.CONNECT && mt.kind == "connect-flags" && m.pick(3) == 0 {
		h := parseHeader(b)
		if at := 1 + h.k + 2 + len(p.ProtoName) + 1; at < len(b) {
			b[at] |= 1
			mt.kind = "connect-reserved-flag"
		}
	}
	mt.in = b
	return mt, true
}

// rawInput draws generator (iii): random bytes of length 0..64 whose first byte
// is biased to valid packet types and whose remaining-length field mostly fits.
func rawInput(rng *rand.Rand) []byte {
	n := rng.Intn(65)
	if n == 0 {
		return nil
	}
	b := make([]byte, n)
	switch rng.Intn(3) {
	case 0:
		rng.Read(b)
	case 1: // small values dominate, so that length prefixes are plausible
		for i := range b {
			switch rng.Intn(10) {
			case 0, 1, 2, 3:
				b[i] = byte(rng.Intn(9))
			case 4, 5, 6:
				b[i] = byte('a' + rng.Intn(26))
			default:
				b[i] = byte(rng.Intn(256))
			}
		}
	default: // property-like stream
		for i := 0; i < n; {
			switch rng.Intn(4) {
			case 0:
				b[i] = propIDs[rng.Intn(len(propIDs))]
				i++
			case 1:
				b[i] = 0
				i++
				if i < n {
					b[i] = byte(rng.Intn(6))
					i++
				}
			default:
				b[i] = byte(rng.Intn(256))
				i++
			}
		}
	}
	if rng.Intn(5) != 0 {
		t := byte(1 + rng.Intn(15))
		fl := byte(0)
		switch t {
		case mqttx.PUBLISH:
			fl = byte(rng.Intn(16))
		case mqttx.PUBREL, mqttx.SUBSCRIBE, mqttx.UNSUBSCRIBE:
			fl = 2
		}
		b[0] = t<<4 | fl
	}
	if n >= 2 {
		switch x := rng.Intn(1000); {
		case x < 700:
			b[1] = byte(n - 2) // the rest of the input is the body
		case x < 850:
			b[1] = byte(rng.Intn(128))
		case x < 945:
			b[1] = byte(rng.Intn(256))
		case x < 995:
			if n >= 3 {
				b[1], b[2] = 0x80|byte(rng.Intn(128)), byte(rng.Intn(128))
			}
		default:
			if n >= 4 { // three-byte length: up to 2 MiB declared
				b[1], b[2], b[3] = 0x80|byte(rng.Intn(128)), 0x80|byte(rng.Intn(128)), byte(rng.Intn(128))
			}
		}
		// never a 4+ byte length field here (they are the business of the bomb generator)
		if n >= 4 && b[1]&0x80 != 0 && b[2]&0x80 != 0 && b[3]&0x80 != 0 {
			b[3] &= 0x7F
		}
	}
	return b
}

// bombInput draws generator (iv): at most 8 bytes that declare a huge length.
// big selects the largest declarations (up to 268,435,455).
func bombInput(rng *rand.Rand, t byte, v mqttx.Version, big bool) (kind string, in []byte) {
	fl := byte(0)
	switch t {
	case mqttx.PUBLISH:
		fl = byte(rng.Intn(3)) << 1
	case mqttx.PUBREL, mqttx.SUBSCRIBE, mqttx.UNSUBSCRIBE:
		fl = 2
	}
	first := t<<4 | fl
	mode := rng.Intn(10)
	if big {
		mode = 0
	}
	switch {
	case mode < 6:
		var rl uint32
		switch {
		case big && rng.Intn(2) == 0:
			rl = 268435455
		case big:
			rl = uint32(64<<20 + rng.Intn(192<<20))
		default:
			rl = uint32(1<<20 + rng.Intn(7<<20))
		}
		in = append([]byte{first}, putVarint(rl)...)
		extra := make([]byte, rng.Intn(4))
		rng.Read(extra)
		return "remaining-length", append(in, extra...)
	case mode < 8:
		// consistent small packet, huge inner string length
		body := []byte{0xFF, 0xFF, 'a', 'b'}
		if t != mqttx.CONNECT && t != mqttx.PUBLISH {
			body = []byte{0x00, 0x01, 0xFF, 0xFF, 'a'}
		}
		return "string-length", frame(first, body)
	default:
		// huge property length (v5 layouts)
		var pre []byte
		switch t {
		case mqttx.CONNACK, mqttx.SUBSCRIBE, mqttx.UNSUBSCRIBE, mqttx.SUBACK, mqttx.UNSUBACK:
			pre = []byte{0, 1}
		case mqttx.PUBLISH:
			pre = []byte{0, 1, 'a'}
			if fl != 0 {
				first = t << 4
			}
		case mqttx.PUBACK, mqttx.PUBREC, mqttx.PUBREL, mqttx.PUBCOMP:
			pre = []byte{0, 1, 0}
		case mqttx.DISCONNECT, mqttx.AUTH:
			pre = []byte{0}
		default:
			pre = []byte{0}
		}
		body := append(pre, 0xFF, 0xFF, 0xFF, 0x7F)
		if len(body) > 6 {
			body = body[:6]
		}
		return "property-length", frame(first, body)
	}
}
