// Package c07: retained messages (DESIGN.md §5 C07). store.go is part (a):
// retained.Store of trie.NewStore() against a map model.
package c07

import (
	"fmt"
	"math/rand"
	"reflect"
	"sort"
	"strings"

	"github.com/DrmagicE/gmqtt"
	"github.com/DrmagicE/gmqtt/pkg/packets"
	"github.com/DrmagicE/gmqtt/retained"
	"github.com/DrmagicE/gmqtt/retained/trie"

	"verif/harness/monitor"
	"verif/harness/refmodel"
)

type sop struct {
	Kind    string // add | remove | clear
	Topic   string `json:",omitempty"`
	Payload string `json:",omitempty"`
	QoS     byte   `json:",omitempty"`
	Rich    bool   `json:",omitempty"` // with v5 properties
}

func (o sop) String() string {
	switch o.Kind {
	case "add":
		return fmt.Sprintf("add(%s=%s,q%d,rich=%v)", o.Topic, o.Payload, o.QoS, o.Rich)
	case "remove":
		return "remove(" + o.Topic + ")"
	}
	return "clear"
}

func mkMsg(o sop) *gmqtt.Message {
	m := &gmqtt.Message{Topic: o.Topic, Payload: []byte(o.Payload), QoS: o.QoS, Retained: true}
	if o.Rich {
		m.ContentType = "ct-" + o.Payload
		m.CorrelationData = []byte("cd-" + o.Payload)
		m.MessageExpiry = 3600
		m.PayloadFormat = 1
		m.ResponseTopic = "rt/" + o.Payload
		m.UserProperties = []packets.UserProperty{{K: []byte("k"), V: []byte(o.Payload)}, {K: []byte("k"), V: []byte("2")}}
	}
	return m
}

func canonMsg(m *gmqtt.Message) string {
	if m == nil {
		return "<nil>"
	}
	up := ""
	for _, u := range m.UserProperties {
		up += string(u.K) + "=" + string(u.V) + ","
	}
	return fmt.Sprintf("%s=%q q%d r%v dup%v ct=%s cd=%s me=%d pf=%d rt=%s up=%s sid=%v", m.Topic, m.Payload, m.QoS, m.Retained, m.Dup,
		m.ContentType, m.CorrelationData, m.MessageExpiry, m.PayloadFormat, m.ResponseTopic, up, m.SubscriptionIdentifier)
}

func canonMsgs(ms []*gmqtt.Message) string {
	ss := make([]string, len(ms))
	for i, m := range ms {
		ss[i] = canonMsg(m)
	}
	sort.Strings(ss)
	return strings.Join(ss, " ; ")
}

type storeUniverse struct {
	topics  []string
	filters []string
}

func names(levels []string, depth int) []string {
	var out []string
	var rec func(p []string)
	rec = func(p []string) {
		if len(p) > 0 {
			if n := strings.Join(p, "/"); n != "" {
				out = append(out, n)
			}
		}
		if len(p) == depth {
			return
		}
		for _, l := range levels {
			rec(append(append([]string{}, p...), l))
		}
	}
	rec(nil)
	return out
}

func filtersOf(levels []string, depth int) []string {
	var out []string
	lv := append(append([]string{}, levels...), "+")
	var rec func(p []string)
	rec = func(p []string) {
		if len(p) > 0 {
			if n := strings.Join(p, "/"); n != "" {
				out = append(out, n)
			}
		}
		if len(p) < depth {
			out = append(out, strings.Join(append(append([]string{}, p...), "#"), "/"))
		}
		if len(p) == depth {
			return
		}
		for _, l := range lv {
			rec(append(append([]string{}, p...), l))
		}
	}
	rec(nil)
	return out
}

type storeChecker struct {
	r    *monitor.Run
	u    storeUniverse
	hist []sop
}

func (c *storeChecker) viol(kind, q, got, want string) {
	last := ""
	if len(c.hist) > 0 {
		last = c.hist[len(c.hist)-1].Kind
	}
	hs := make([]string, len(c.hist))
	for i, o := range c.hist {
		hs[i] = o.String()
	}
	c.r.Violation(fmt.Sprintf("store.%s:last=%s", kind, last), fmt.Sprintf("retained store %s %s: got [%s] want [%s]", kind, q, got, want),
		map[string]any{"history": c.hist, "history_text": hs, "query": q, "got": got, "want": want})
}

func (c *storeChecker) check(st retained.Store, model map[string]*gmqtt.Message) {
	for _, t := range c.u.topics {
		got := st.GetRetainedMessage(t)
		want := model[t]
		if canonMsg(got) != canonMsg(want) {
			c.viol("get", "topic="+t, canonMsg(got), canonMsg(want))
		}
		if got != nil {
			// returned value must be a copy: mutate it and look again
			got.Payload = append(got.Payload, 'X')
			got.Topic = "mutated"
			got.QoS = 7
			if again := st.GetRetainedMessage(t); canonMsg(again) != canonMsg(want) {
				c.viol("get_alias", "topic="+t, canonMsg(again), canonMsg(want))
			}
		}
	}
	for _, f := range c.u.filters {
		var want []*gmqtt.Message
		for t, m := range model {
			if refmodel.Match(t, f) {
				want = append(want, m)
			}
		}
		got := st.GetMatchedMessages(f)
		if g, w := canonMsgs(got), canonMsgs(want); g != w {
			c.viol("match", "filter="+f, g, w)
		}
		for _, m := range got {
			if m != nil {
				m.Payload = append(m.Payload, 'Y')
				m.Retained = false
			}
		}
	}
	var all, wantAll []*gmqtt.Message
	st.Iterate(func(m *gmqtt.Message) bool { all = append(all, m); return true })
	for _, m := range model {
		wantAll = append(wantAll, m)
	}
	if g, w := canonMsgs(all), canonMsgs(wantAll); g != w {
		c.viol("iterate", "", g, w)
	}
	// early stop of Iterate
	if len(wantAll) > 1 {
		n := 0
		st.Iterate(func(m *gmqtt.Message) bool { n++; return false })
		if n != 1 {
			c.viol("iterate_stop", "", fmt.Sprint(n), "1")
		}
	}
}

func (c *storeChecker) run(ops []sop, checkEvery bool) (nonEmpty bool, states []string) {
	st := trie.NewStore()
	model := map[string]*gmqtt.Message{}
	c.hist = c.hist[:0]
	defer func() {
		if p := recover(); p != nil {
			c.viol("panic", fmt.Sprint(p), fmt.Sprint(p), "no panic")
		}
	}()
	for i, o := range ops {
		c.hist = append(c.hist, o)
		switch o.Kind {
		case "add":
			st.AddOrReplace(mkMsg(o))
			model[o.Topic] = mkMsg(o)
		case "remove":
			st.Remove(o.Topic)
			delete(model, o.Topic)
		case "clear":
			st.ClearAll()
			model = map[string]*gmqtt.Message{}
		}
		if len(model) > 0 {
			nonEmpty = true
		}
		if checkEvery || i == len(ops)-1 {
			c.check(st, model)
			ks := make([]string, 0, len(model))
			for k, m := range model {
				ks = append(ks, k+"="+string(m.Payload))
			}
			sort.Strings(ks)
			states = append(states, strings.Join(ks, ","))
		}
	}
	return
}

// RunStore is part (a) of C07.
func RunStore(r *monitor.Run) {
	// exhaustive over a tiny universe
	tinyTopics := []string{"a", "a/b", "a/b/c", "$s/a", "b"}
	tu := storeUniverse{topics: append(append([]string{}, tinyTopics...), "a/c", "$s"), filters: []string{"#", "+", "a/#", "a/+", "+/b", "a/b/#", "+/+/c", "$s/#", "$s/+", "+/#", "a", "a/b"}}
	var tinyOps []sop
	for i, t := range tinyTopics {
		tinyOps = append(tinyOps, sop{Kind: "add", Topic: t, QoS: byte(i % 3)}, sop{Kind: "remove", Topic: t})
	}
	tinyOps = append(tinyOps, sop{Kind: "clear"})
	maxLen := r.Pick(4, 5)
	c := &storeChecker{r: r, u: tu}
	var cur []sop
	seq := 0
	var dfs func(d int)
	dfs = func(d int) {
		if d > 0 {
			ne, states := c.run(cur, false)
			r.Eval(1)
			r.Count("store_exhaustive_histories", 1)
			for _, s := range states {
				r.Distinct("store_states", s)
			}
			if ne {
				r.Nontrivial("st|" + fmt.Sprint(cur))
			}
		}
		if d == maxLen {
			return
		}
		for _, o := range tinyOps {
			if o.Kind == "add" {
				seq++
				o.Payload = fmt.Sprintf("p%d", d) // unique per position in the history
			}
			cur = append(cur, o)
			dfs(d + 1)
			cur = cur[:len(cur)-1]
		}
	}
	dfs(0)

	// random histories over the big universe
	lv := []string{"a", "b", "", "$s"}
	bu := storeUniverse{topics: names(lv, 3), filters: filtersOf(lv, 3)}
	r.Count("store_universe_topics", int64(len(bu.topics)))
	r.Count("store_universe_filters", int64(len(bu.filters)))
	rng := r.Rand("store")
	n := r.Pick(150, 20000)
	c = &storeChecker{r: r, u: bu}
	for i := 0; i < n; i++ {
		ops := randomStoreHistory(rng, bu, 5+rng.Intn(r.Pick(40, 80)))
		_, states := c.run(ops, true)
		r.Eval(1)
		r.Count("store_random_histories", 1)
		r.Count("store_operations", int64(len(ops)))
		for _, s := range states {
			r.Distinct("store_states", s)
		}
		r.Nontrivial(fmt.Sprintf("str|%d|%d", i, len(states)))
		if i == 0 {
			hs := []string{}
			for _, o := range ops[:min(8, len(ops))] {
				hs = append(hs, o.String())
			}
			r.Sample(map[string]any{"store_history_prefix": hs})
		}
	}
	_ = reflect.DeepEqual
}

func randomStoreHistory(rng *rand.Rand, u storeUniverse, n int) []sop {
	k := 3 + rng.Intn(10)
	ts := make([]string, k)
	for i := range ts {
		ts[i] = u.topics[rng.Intn(len(u.topics))]
	}
	if rng.Intn(2) == 0 { // prefix-related topics
		ts = append(ts, ts[0]+"/a", ts[0]+"/a/b", ts[0]+"/")
	}
	ops := make([]sop, n)
	for i := range ops {
		t := ts[rng.Intn(len(ts))]
		switch x := rng.Intn(20); {
		case x < 11:
			ops[i] = sop{Kind: "add", Topic: t, Payload: fmt.Sprintf("m%d", i), QoS: byte(rng.Intn(3)), Rich: rng.Intn(3) == 0}
		case x < 19:
			ops[i] = sop{Kind: "remove", Topic: t}
		default:
			ops[i] = sop{Kind: "clear"}
		}
	}
	return ops
}
