package c07

import (
	"fmt"
	"math/rand"
	"sort"
	"strings"
	"time"

	"github.com/DrmagicE/gmqtt"

	"verif/harness/broker"
	"verif/harness/monitor"
	"verif/harness/mqttx"
	"verif/harness/refmodel"
	"verif/harness/wire"
)

// PubOp is one retained publish / clear.
type PubOp struct {
	Pub    int // publisher index
	Topic  string
	Clear  bool
	QoS    byte
	Rich   bool
	Alias  bool // v5: send through a topic alias (bind first if needed)
	Normal bool // RETAIN=0 publish (must not touch the store)
}

// SubOp is one subscribe / unsubscribe of a subscriber.
type SubOp struct {
	Client int
	Unsub  bool
	Filter string // plain filter
	Share  string // "" or group
	QoS    byte
	RH     byte
	RAP    bool
}

// WScenario is one wire scenario: phases alternate publishes and subscriptions.
type WScenario struct {
	PubV   []byte // versions of publishers
	SubV   []byte // versions of subscribers
	Phases []Phase
}

type Phase struct {
	Pubs []PubOp
	Subs []SubOp
}

type stored struct {
	Payload string
	QoS     byte
	Rich    bool
	V5      bool
}

func genW(rng *rand.Rand, size int) WScenario {
	sc := WScenario{}
	for i := 0; i < 1+rng.Intn(2); i++ {
		sc.PubV = append(sc.PubV, []byte{4, 5, 5}[rng.Intn(3)])
	}
	for i := 0; i < 1+rng.Intn(3); i++ {
		sc.SubV = append(sc.SubV, []byte{4, 5, 5, 3}[rng.Intn(4)])
	}
	lv := []string{"a", "b", "", "$s"}
	all := names(lv, 3)
	topics := make([]string, 3+rng.Intn(4))
	for i := range topics {
		topics[i] = all[rng.Intn(len(all))]
	}
	allF := filtersOf(lv, 3)
	var filters []string
	for len(filters) < 8 {
		f := allF[rng.Intn(len(allF))]
		for _, t := range topics {
			if refmodel.Match(t, f) || rng.Intn(8) == 0 {
				filters = append(filters, f)
				break
			}
		}
	}
	for ph := 0; ph < 2+rng.Intn(2); ph++ {
		var p Phase
		for i := 0; i < 1+rng.Intn(size); i++ {
			pi := rng.Intn(len(sc.PubV))
			o := PubOp{Pub: pi, Topic: topics[rng.Intn(len(topics))], QoS: byte(rng.Intn(3)), Rich: rng.Intn(3) == 0}
			switch x := rng.Intn(10); {
			case x < 2:
				o.Clear = true
			case x < 3:
				o.Normal = true
			}
			if sc.PubV[pi] == 5 {
				o.Alias = rng.Intn(3) == 0
			} else {
				o.Rich = false
			}
			p.Pubs = append(p.Pubs, o)
		}
		for i := 0; i < 1+rng.Intn(size); i++ {
			ci := rng.Intn(len(sc.SubV))
			o := SubOp{Client: ci, Filter: filters[rng.Intn(len(filters))], QoS: byte(rng.Intn(3))}
			if sc.SubV[ci] == 5 {
				o.RH = byte(rng.Intn(3))
				o.RAP = rng.Intn(2) == 0
			}
			// (gmqtt installs "$share/<group>/<filter>" as a shared subscription for every protocol version)
			if rng.Intn(6) == 0 {
				o.Share = "g"
			}
			if rng.Intn(6) == 0 {
				o.Unsub = true
			}
			p.Subs = append(p.Subs, o)
		}
		sc.Phases = append(sc.Phases, p)
	}
	return sc
}

type wfinding struct{ Sig, What string }

const wstep = 15 * time.Second

func runW(sc *WScenario) (fs []wfinding, obs map[string]int, rerr error) {
	obs = map[string]int{}
	add := func(sig, what string) { fs = append(fs, wfinding{sig, what}) }
	b, err := broker.Start(broker.Options{})
	if err != nil {
		return nil, nil, err
	}
	defer b.Stop(10 * time.Second)
	pubs := make([]*wire.Client, len(sc.PubV))
	aliases := make([]map[string]uint16, len(sc.PubV))
	for i, v := range sc.PubV {
		c, err := wire.Dial(fmt.Sprintf("pub%d", i), b.Addr, mqttx.Version(v))
		if err != nil {
			return nil, nil, err
		}
		defer c.Close()
		if _, err := c.Connect(&mqttx.Packet{ClientID: fmt.Sprintf("pub%d", i), CleanStart: true}, wstep); err != nil {
			return nil, nil, err
		}
		pubs[i] = c
		aliases[i] = map[string]uint16{}
	}
	subs := make([]*wire.Client, len(sc.SubV))
	pos := make([]int, len(sc.SubV)) // consumed PUBLISH records per subscriber
	for i, v := range sc.SubV {
		c, err := wire.Dial(fmt.Sprintf("sub%d", i), b.Addr, mqttx.Version(v))
		if err != nil {
			return nil, nil, err
		}
		defer c.Close()
		if _, err := c.Connect(&mqttx.Packet{ClientID: fmt.Sprintf("sub%d", i), CleanStart: true}, wstep); err != nil {
			return nil, nil, err
		}
		if _, err := c.Subscribe([]mqttx.Sub{{Filter: fmt.Sprintf("sent/sub%d", i), QoS: 1}}, 0, wstep); err != nil {
			return nil, nil, err
		}
		subs[i] = c
	}
	model := map[string]stored{}
	live := make([]map[string]bool, len(sc.SubV)) // existing subscriptions (full filter) per subscriber
	for i := range live {
		live[i] = map[string]bool{}
	}
	seq := 0
	sentinelN := 0
	// sentinel returns the PUBLISH packets the subscriber received since the last call, up to the sentinel.
	sentinel := func(ci int) ([]*mqttx.Packet, bool) {
		sentinelN++
		pl := fmt.Sprintf("sentinel-%d", sentinelN)
		b.Srv.Publisher().Publish(&gmqtt.Message{Topic: fmt.Sprintf("sent/sub%d", ci), Payload: []byte(pl), QoS: 1})
		idx, err := subs[ci].WaitPublish(pos[ci], func(p *mqttx.Packet) bool { return string(p.Payload) == pl }, wstep)
		if err != nil {
			add("sentinel.missing", fmt.Sprintf("sub%d never received %s: %v", ci, pl, err))
			return nil, false
		}
		recs := subs[ci].Publishes()
		var out []*mqttx.Packet
		for _, r := range recs[pos[ci]:idx] {
			out = append(out, r.P)
		}
		pos[ci] = idx + 1
		return out, true
	}
	for phi, ph := range sc.Phases {
		for _, o := range ph.Pubs {
			c := pubs[o.Pub]
			seq++
			payload := fmt.Sprintf("r%d", seq)
			if o.Clear {
				payload = ""
			}
			p := &mqttx.Packet{Topic: o.Topic, QoS: o.QoS, Retain: !o.Normal, Payload: []byte(payload)}
			v5 := c.V == mqttx.V5
			if v5 {
				p.Props = &mqttx.Props{}
				if o.Rich && !o.Clear {
					ct, rt := "ct/"+payload, "rt/"+payload
					pf := byte(1)
					p.Props.ContentType, p.Props.ResponseTopic, p.Props.PayloadFormat = &ct, &rt, &pf
					p.Props.CorrelationData, p.Props.HasCorrelationData = []byte("cd"+payload), true
					p.Props.User = []mqttx.UserProp{{K: "k", V: payload}}
				}
				if o.Alias {
					a, ok := aliases[o.Pub][o.Topic]
					if !ok {
						a = uint16(len(aliases[o.Pub]) + 1)
						if a <= 9 { // broker advertises 10; stay strictly below to avoid the alias==max defect (C13's business)
							aliases[o.Pub][o.Topic] = a
							p.Props.TopicAlias = &a // first use: alias + topic
						}
					} else {
						p.Props.TopicAlias = &a
						p.Topic = "" // alias only
						obs["publishes_via_alias_only"]++
					}
				}
			}
			if _, err := c.Publish(p, wstep); err != nil {
				add("publisher.ack", fmt.Sprintf("publisher %d %v: %v (ctl=%v)", o.Pub, p.String(), err, c.Ctl()))
				return
			}
			if o.QoS == 0 {
				// no ack for QoS 0: order it before the next publisher's packet with a barrier
				if err := c.Ping(wstep); err != nil {
					add("publisher.barrier", err.Error())
					return
				}
			}
			if o.Normal {
				continue
			}
			if o.Clear {
				delete(model, o.Topic)
				obs["clears"]++
			} else {
				model[o.Topic] = stored{Payload: payload, QoS: o.QoS, Rich: o.Rich && v5, V5: v5}
				obs["retained_publishes"]++
			}
		}
		for _, c := range pubs {
			if err := c.Ping(wstep); err != nil {
				add("publisher.barrier", err.Error())
				return
			}
		}
		// the broker's retained store must equal the model
		got := map[string]string{}
		b.Srv.RetainedService().Iterate(func(m *gmqtt.Message) bool {
			got[m.Topic] = fmt.Sprintf("%s q%d", m.Payload, m.QoS)
			return true
		})
		want := map[string]string{}
		for t, s := range model {
			want[t] = fmt.Sprintf("%s q%d", s.Payload, s.QoS)
		}
		if fmt.Sprint(got) != fmt.Sprint(want) {
			viaAlias := false
			for _, o := range ph.Pubs {
				if o.Alias && o.Clear {
					viaAlias = true
				}
			}
			add(fmt.Sprintf("service.contents:clear_via_alias=%v", viaAlias), fmt.Sprintf("phase %d: RetainedService holds %v, model %v", phi, got, want))
			// adopt the broker's state to keep checking the replay rules
			for t := range model {
				if _, ok := got[t]; !ok {
					delete(model, t)
				}
			}
			b.Srv.RetainedService().Iterate(func(m *gmqtt.Message) bool {
				if s, ok := model[m.Topic]; !ok || s.Payload != string(m.Payload) {
					model[m.Topic] = stored{Payload: string(m.Payload), QoS: m.QoS, Rich: m.ContentType != "", V5: true}
				}
				return true
			})
		}
		// live deliveries of this phase are C01's business: discard them up to a sentinel
		for ci := range subs {
			if _, ok := sentinel(ci); !ok {
				return
			}
		}
		for _, o := range ph.Subs {
			c := subs[o.Client]
			full := o.Filter
			if o.Share != "" {
				full = "$share/" + o.Share + "/" + o.Filter
			}
			if o.Unsub {
				if _, err := c.Unsubscribe([]string{full}, wstep); err != nil {
					add("unsuback", err.Error())
					return
				}
				delete(live[o.Client], full)
				continue
			}
			sa, err := c.Subscribe([]mqttx.Sub{{Filter: full, QoS: o.QoS, RAP: o.RAP, RetainHandling: o.RH}}, 0, wstep)
			if err != nil || len(sa.Codes) != 1 || sa.Codes[0] != o.QoS {
				add("suback", fmt.Sprintf("subscribe %s: %v %v", full, sa, err))
				return
			}
			existed := live[o.Client][full]
			live[o.Client][full] = true
			recv, ok := sentinel(o.Client)
			if !ok {
				return
			}
			v5 := c.V == mqttx.V5
			replay := o.Share == "" && (!v5 || o.RH == 0 || (o.RH == 1 && !existed))
			wantSet := map[string]stored{}
			if replay {
				for t, s := range model {
					if refmodel.Match(t, o.Filter) {
						wantSet[t] = s
					}
				}
			}
			obs["subscribes_checked"]++
			if len(wantSet) > 0 {
				obs["subscribes_with_replay"]++
			}
			kind := fmt.Sprintf("v=%d:rh=%d:shared=%v:existed=%v", c.V, o.RH, o.Share != "", existed)
			seen := map[string]int{}
			for _, p := range recv {
				if strings.HasPrefix(p.Topic, "sent/") {
					continue // another subscriber's sentinel seen through a wildcard subscription
				}
				// other live subscriptions of this client cannot produce traffic here: nothing is published during the subscribe phase
				s, ok := wantSet[p.Topic]
				seen[p.Topic]++
				if !ok {
					add("replay.unexpected:"+kind, fmt.Sprintf("sub%d subscribing %s received %s which must not be replayed", o.Client, full, p.String()))
					continue
				}
				if string(p.Payload) != s.Payload {
					add("replay.stale_payload", fmt.Sprintf("topic %s replayed with payload %q, last retained value is %q", p.Topic, p.Payload, s.Payload))
				}
				wq := s.QoS
				if o.QoS < wq {
					wq = o.QoS
				}
				if p.QoS != wq {
					add(fmt.Sprintf("replay.qos:got=%d:want=%d", p.QoS, wq), fmt.Sprintf("topic %s stored QoS %d granted %d replayed with QoS %d", p.Topic, s.QoS, o.QoS, p.QoS))
				}
				if !p.Retain {
					add(fmt.Sprintf("replay.retain_flag:got=0:want=1:rap=%d:v5=%v", b2i(o.RAP), v5), fmt.Sprintf("retained message on %s replayed to %s with RETAIN=0 (RAP=%v)", p.Topic, full, o.RAP))
				}
				if p.Dup {
					add("replay.dup", "replayed message has DUP=1")
				}
				if v5 {
					pp := p.Props
					if pp == nil {
						pp = &mqttx.Props{}
					}
					has := pp.ContentType != nil || pp.ResponseTopic != nil || pp.HasCorrelationData || len(pp.User) > 0 || pp.PayloadFormat != nil
					if s.Rich {
						if pp.ContentType == nil || *pp.ContentType != "ct/"+s.Payload || pp.ResponseTopic == nil || *pp.ResponseTopic != "rt/"+s.Payload ||
							string(pp.CorrelationData) != "cd"+s.Payload || len(pp.User) != 1 || pp.User[0].V != s.Payload || pp.PayloadFormat == nil {
							add("replay.props", fmt.Sprintf("topic %s replayed with properties %s", p.Topic, pp.String()))
						}
					} else if has {
						add("replay.props_invented", fmt.Sprintf("topic %s replayed with properties %s", p.Topic, pp.String()))
					}
				}
			}
			for t := range wantSet {
				if seen[t] == 0 {
					add("replay.missing:"+kind, fmt.Sprintf("sub%d subscribing %s (qos %d rh %d) did not get the retained message of %s", o.Client, full, o.QoS, o.RH, t))
				} else if seen[t] > 1 {
					add("replay.twice", fmt.Sprintf("retained message of %s replayed %d times for one SUBSCRIBE", t, seen[t]))
				}
			}
		}
	}
	return
}

func b2i(b bool) int {
	if b {
		return 1
	}
	return 0
}

// RunWire is part (b) of C07.
func RunWire(r *monitor.Run) {
	n := r.Pick(120, 2500)
	rng := r.Rand("wire")
	scs := make([]WScenario, n)
	for i := range scs {
		scs[i] = genW(rng, r.Pick(6, 10))
	}
	r.Parallel(n, 16, func(i int) {
		sc := &scs[i]
		fs, obs, err := runW(sc)
		r.Eval(1)
		if err != nil {
			r.Inconclusive(fmt.Sprintf("wire scenario %d: %v", i, err))
			return
		}
		for _, f := range fs {
			r.Violation(f.Sig, f.What, map[string]any{"scenario": sc, "index": i})
		}
		for k, v := range obs {
			r.Count("wire_"+k, int64(v))
		}
		if obs["subscribes_with_replay"] > 0 {
			r.Nontrivial("wire|" + monitor.J(sc))
		}
		r.Count("wire_scenarios", 1)
		if i == 0 {
			r.Sample(map[string]any{"wire_scenario": sc})
		}
	})
	_ = sort.Strings
	_ = strings.Join
}
