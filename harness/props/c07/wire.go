package c07

import "verif/harness/monitor"

// RunWire is part (b) of C07 (wire level); filled in once the wire client exists.
func RunWire(r *monitor.Run) {}
