package c07

import (
	"fmt"
	"sync"
	"time"

	"github.com/DrmagicE/gmqtt"
	"github.com/DrmagicE/gmqtt/retained"
	"github.com/DrmagicE/gmqtt/retained/trie"
	"github.com/DrmagicE/gmqtt/server"

	"verif/harness/broker"
	"verif/harness/monitor"
	"verif/harness/mqttx"
	"verif/harness/wire"
)

// slowStore is the broker's own retained store behind a proxy that takes its time for every update (a store on a
// slower medium). The broker accepts any retained.Store through WithRetainedStore.
type slowStore struct {
	retained.Store
	d time.Duration
}

func (s *slowStore) AddOrReplace(m *gmqtt.Message) { time.Sleep(s.d); s.Store.AddOrReplace(m) }
func (s *slowStore) Remove(t string)               { time.Sleep(s.d); s.Store.Remove(t) }

// RunRace: a retained PUBLISH and a SUBSCRIBE for its topic arrive on two connections at about the same time. However
// the two are interleaved, a subscriber whose SUBACK has arrived sees the message that is kept for its filter from
// then on: either it was forwarded to it as a subscriber, or it is replayed to it as the retained message - at least one.
func RunRace(r *monitor.Run) {
	b, err := broker.Start(broker.Options{ExtraOpts: []server.Options{server.WithRetainedStore(&slowStore{Store: trie.NewStore(), d: 3 * time.Millisecond})}})
	if err != nil {
		r.Inconclusive(err.Error())
		return
	}
	defer b.Stop(10 * time.Second)
	const step = 10 * time.Second
	n := r.Pick(120, 2000)
	rng := r.Rand("race")
	type rc struct {
		v     mqttx.Version
		delta time.Duration // SUBSCRIBE is sent this long after the PUBLISH (negative: before)
		qos   byte
	}
	cases := make([]rc, n)
	for i := range cases {
		cases[i] = rc{[]mqttx.Version{mqttx.V311, mqttx.V5}[rng.Intn(2)], time.Duration(rng.Intn(7000)-500) * time.Microsecond, byte(rng.Intn(3))}
	}
	var missed int64
	var mu sync.Mutex
	r.Parallel(n, 8, func(i int) {
		c := cases[i]
		topic := fmt.Sprintf("race/%d", i)
		payload := fmt.Sprintf("kept-%d", i)
		p, err := wire.Dial("rp", b.Addr, mqttx.V311)
		if err != nil {
			r.Inconclusive(err.Error())
			return
		}
		defer p.Close()
		s, err := wire.Dial("rs", b.Addr, c.v)
		if err != nil {
			r.Inconclusive(err.Error())
			return
		}
		defer s.Close()
		if _, err := p.Connect(&mqttx.Packet{ClientID: fmt.Sprintf("race-p-%d", i), CleanStart: true}, step); err != nil {
			r.Inconclusive(err.Error())
			return
		}
		if _, err := s.Connect(&mqttx.Packet{ClientID: fmt.Sprintf("race-s-%d", i), CleanStart: true}, step); err != nil {
			r.Inconclusive(err.Error())
			return
		}
		var wg sync.WaitGroup
		var perr, serr error
		wg.Add(2)
		t0 := time.Now()
		go func() {
			defer wg.Done()
			if c.delta < 0 {
				time.Sleep(-c.delta)
			}
			_, perr = p.Publish(&mqttx.Packet{Topic: topic, QoS: 1, Retain: true, Payload: []byte(payload)}, step)
		}()
		go func() {
			defer wg.Done()
			if c.delta > 0 {
				time.Sleep(time.Until(t0.Add(c.delta)))
			}
			_, serr = s.Subscribe([]mqttx.Sub{{Filter: topic, QoS: c.qos}}, 0, step)
		}()
		wg.Wait()
		r.Eval(1)
		if perr != nil || serr != nil {
			r.Inconclusive(fmt.Sprintf("race %d: %v %v", i, perr, serr))
			return
		}
		// both requests are acknowledged; whatever is on its way to the subscriber arrives before the answer to a PINGREQ
		// sent now, except a forwarded copy still in its queue: give that one the sentinel treatment
		b.Srv.Publisher().Publish(&gmqtt.Message{Topic: topic, Payload: []byte("sentinel"), QoS: c.qos})
		if err := s.WaitPayload("sentinel", step); err != nil {
			r.Inconclusive(fmt.Sprintf("race %d: sentinel: %v", i, err))
			return
		}
		got := 0
		for _, rec := range s.Publishes() {
			if string(rec.P.Payload) == payload {
				got++
			}
		}
		if got == 0 {
			mu.Lock()
			missed++
			first := missed == 1
			mu.Unlock()
			if first || true {
				r.Violation(fmt.Sprintf("race.kept_message_never_seen:v=%d", c.v), fmt.Sprintf("retained PUBLISH on %s and SUBSCRIBE %s (sent %v later) were both acknowledged; the message is kept (store: %v) but the subscriber got it neither forwarded nor replayed", topic, topic, c.delta, b.Srv.RetainedService().GetRetainedMessage(topic) != nil), map[string]any{"delta_us": c.delta.Microseconds(), "qos": c.qos})
			}
		}
		if got > 0 {
			r.Count("races_retained_publish_vs_subscribe", 1)
			if got > 1 {
				r.Count("races_seen_forwarded_and_replayed", 1)
			}
		}
		r.Nontrivial(fmt.Sprintf("race|%d", i))
	})
}

var _ = monitor.J
