package c07

import (
	"fmt"
	"time"

	"verif/harness/broker"
	"verif/harness/monitor"
	"verif/harness/mqttx"
	"verif/harness/wire"
)

// RunWills: a will published with RETAIN=1 is a RETAIN=1 message accepted for its topic like any other: with a payload it
// replaces what is kept for the topic, with an empty payload it clears the topic. Checked through RetainedService and through
// what a new subscription is sent, for v3.1.1/v5 testators, QoS 0-2, a connection that breaks and one that is taken over.
func RunWills(r *monitor.Run) {
	type wcase struct {
		v     mqttx.Version
		q     byte
		empty bool
		end   string // close | takeover
		prior bool   // a message is kept for the topic beforehand
	}
	var cs []wcase
	for _, v := range []mqttx.Version{mqttx.V311, mqttx.V5} {
		for q := byte(0); q <= 2; q++ {
			for _, empty := range []bool{false, true} {
				for _, end := range []string{"close", "takeover"} {
					cs = append(cs, wcase{v, q, empty, end, true})
				}
			}
		}
		cs = append(cs, wcase{v, 1, true, "close", false}, wcase{v, 1, false, "close", false})
	}
	b, err := broker.Start(broker.Options{})
	if err != nil {
		r.Inconclusive(err.Error())
		return
	}
	defer b.Stop(10 * time.Second)
	pub, err := wire.Dial("wpub", b.Addr, mqttx.V311)
	if err != nil {
		r.Inconclusive(err.Error())
		return
	}
	defer pub.Close()
	if _, err := pub.Connect(&mqttx.Packet{ClientID: "wpub", CleanStart: true}, wstep); err != nil {
		r.Inconclusive(err.Error())
		return
	}
	watch, err := wire.Dial("wwatch", b.Addr, mqttx.V5)
	if err != nil {
		r.Inconclusive(err.Error())
		return
	}
	defer watch.Close()
	if _, err := watch.Connect(&mqttx.Packet{ClientID: "wwatch", CleanStart: true}, wstep); err != nil {
		r.Inconclusive(err.Error())
		return
	}
	if _, err := watch.Subscribe([]mqttx.Sub{{Filter: "wr/#", QoS: 2, RAP: true}}, 0, wstep); err != nil {
		r.Inconclusive(err.Error())
		return
	}
	for i, c := range cs {
		tag := fmt.Sprintf("v=%d:qos=%d:empty=%v:end=%s:prior=%v", c.v, c.q, c.empty, c.end, c.prior)
		topic := fmt.Sprintf("wr/%d", i)
		r.Eval(1)
		if c.prior {
			if _, err := pub.Publish(&mqttx.Packet{Topic: topic, QoS: 1, Retain: true, Payload: []byte("old")}, wstep); err != nil {
				r.Inconclusive("will " + tag + ": " + err.Error())
				return
			}
		}
		id := fmt.Sprintf("testator-%d", i)
		payload := fmt.Sprintf("last-words-%d", i)
		if c.empty {
			payload = ""
		}
		t, err := wire.Dial(id, b.Addr, c.v)
		if err != nil {
			r.Inconclusive(err.Error())
			return
		}
		from := len(watch.Publishes())
		if _, err := t.Connect(&mqttx.Packet{ClientID: id, CleanStart: true, WillFlag: true, WillQoS: c.q, WillRetain: true, WillTopic: topic, WillPayload: []byte(payload)}, wstep); err != nil {
			r.Inconclusive("will " + tag + ": " + err.Error())
			t.Close()
			return
		}
		var t2 *wire.Client
		if c.end == "close" {
			t.Close()
		} else {
			t2, err = wire.Dial(id, b.Addr, c.v)
			if err == nil {
				_, err = t2.Connect(&mqttx.Packet{ClientID: id, CleanStart: true}, wstep)
			}
			if err != nil {
				r.Inconclusive("will " + tag + " take-over: " + err.Error())
				return
			}
		}
		// the will has been published once the watcher has it
		if _, err := watch.WaitPublish(from, func(p *mqttx.Packet) bool { return p.Topic == topic && string(p.Payload) == payload }, wstep); err != nil {
			r.Inconclusive(fmt.Sprintf("will %s: the watcher never saw the will on %s: %v", tag, topic, err))
			if t2 != nil {
				t2.Close()
			}
			t.Close()
			continue
		}
		kept := b.Srv.RetainedService().GetRetainedMessage(topic)
		switch {
		case c.empty && kept != nil:
			r.Violation("will.empty_retained_will_kept:"+tag, fmt.Sprintf("a will with RETAIN=1 and an empty payload was published on %s: the topic still holds a retained message (payload %q, prior message: %v)", topic, kept.Payload, c.prior), nil)
		case !c.empty && (kept == nil || string(kept.Payload) != payload):
			r.Violation("will.retained_will_not_kept:"+tag, fmt.Sprintf("a will with RETAIN=1 and payload %q was published on %s: RetainedService holds %v", payload, topic, kept), nil)
		}
		// what a new subscription is sent
		ns, err := wire.Dial(fmt.Sprintf("wnew-%d", i), b.Addr, mqttx.V5)
		if err == nil {
			_, err = ns.Connect(&mqttx.Packet{ClientID: fmt.Sprintf("wnew-%d", i), CleanStart: true}, wstep)
		}
		if err != nil {
			r.Inconclusive(err.Error())
			return
		}
		if _, err := ns.Subscribe([]mqttx.Sub{{Filter: topic, QoS: 2}, {Filter: "wend/" + id, QoS: 1}}, 0, wstep); err != nil {
			r.Inconclusive(err.Error())
			ns.Close()
			return
		}
		if _, err := pub.Publish(&mqttx.Packet{Topic: "wend/" + id, QoS: 1, Payload: []byte("end")}, wstep); err != nil {
			r.Inconclusive(err.Error())
			ns.Close()
			return
		}
		if err := ns.WaitPayload("end", wstep); err != nil {
			r.Inconclusive(fmt.Sprintf("will %s: new subscriber: %v", tag, err))
			ns.Close()
			continue
		}
		var got []string
		for _, rec := range ns.Publishes() {
			if rec.P.Topic == topic {
				got = append(got, string(rec.P.Payload))
			}
		}
		switch {
		case c.empty && len(got) > 0:
			r.Violation("will.replay_after_clearing_will:"+tag, fmt.Sprintf("after a RETAIN=1 will with empty payload on %s a new subscription was sent %q", topic, got), nil)
		case !c.empty && (len(got) != 1 || got[0] != payload):
			r.Violation("will.replay_after_retained_will:"+tag, fmt.Sprintf("after a RETAIN=1 will %q on %s a new subscription was sent %q", payload, topic, got), nil)
		}
		ns.Close()
		if t2 != nil {
			t2.Close()
		}
		r.Count("retained_will_cases", 1)
		r.Nontrivial("will|" + tag)
	}
}
