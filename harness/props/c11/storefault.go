package c11

import (
	"fmt"
	"time"

	"github.com/DrmagicE/gmqtt"
	"github.com/DrmagicE/gmqtt/config"

	"verif/harness/broker"
	"verif/harness/monitor"
	"verif/harness/mqttx"
	"verif/harness/wire"
)

// RedisCfgFault (set by the registration code) switches a configuration to the redis back end on a private fake
// redis and returns arm(cmd, key): redis refuses the next such command with an error reply.
var RedisCfgFault func(c *config.Config) (cleanup func(), arm func(cmd, key string), err error)

// RunStoreFault: a member leaves its groups because its session ends (clean-session disconnect, TerminateSession,
// take-over with Clean Start 1) at a moment when redis refuses the DEL of its queue. The session has ended - the
// member must no longer be selected, every later message goes to the remaining member.
func RunStoreFault(r *monitor.Run) {
	if RedisCfgFault == nil {
		return
	}
	for vi, end := range []string{"disconnect", "terminate", "takeover_clean"} {
		var cleanup func()
		var arm func(cmd, key string)
		b, err := broker.Start(broker.Options{Cfg: func(c *config.Config) { cleanup, arm, _ = RedisCfgFault(c) }})
		if err != nil || arm == nil {
			r.Inconclusive(fmt.Sprintf("store-fault broker: %v", err))
			return
		}
		func() {
			defer func() { b.Stop(step); cleanup() }()
			connect := func(id string, clean bool, expiry uint32) (*wire.Client, error) {
				c, err := wire.Dial(id, b.Addr, mqttx.V5)
				if err != nil {
					return nil, err
				}
				p := &mqttx.Packet{ClientID: id, CleanStart: clean}
				if expiry != 0 {
					p.Props = &mqttx.Props{SessionExpiry: &expiry}
				}
				if _, err := c.Connect(p, step); err != nil {
					return nil, err
				}
				return c, nil
			}
			leaverExpiry := uint32(0)
			if end != "disconnect" {
				leaverExpiry = 3600
			}
			leaver, err := connect("leaver", true, leaverExpiry)
			if err != nil {
				r.Inconclusive(err.Error())
				return
			}
			stay, err := connect("stay", true, 3600)
			if err != nil {
				r.Inconclusive(err.Error())
				return
			}
			defer stay.Close()
			for _, c := range []*wire.Client{leaver, stay} {
				if _, err := c.Subscribe([]mqttx.Sub{{Filter: "$share/sf/job/#", QoS: 1}}, 0, step); err != nil {
					r.Inconclusive(err.Error())
					return
				}
			}
			from := b.Log.Len()
			arm("DEL", "queue:leaver")
			switch end {
			case "disconnect":
				leaver.Disconnect(0, nil)
			case "terminate":
				b.Srv.ClientService().TerminateSession("leaver")
			case "takeover_clean":
				l2, err := connect("leaver", true, 3600)
				if err != nil {
					r.Inconclusive("take-over while the store refuses a command: " + err.Error())
					return
				}
				defer l2.Close()
			}
			if _, ok := b.Log.Wait(from, func(e broker.Event) bool { return e.Kind == "OnClosed" && e.Client == "leaver" }, step); !ok {
				r.Inconclusive("end of the leaver's connection not observed")
				return
			}
			// the session end follows at once (same goroutine, under the broker's lock); a publish waits for that lock
			time.Sleep(50 * time.Millisecond)
			leaver.Close()
			r.Eval(1)
			n := 16
			for i := 0; i < n; i++ {
				b.Srv.Publisher().Publish(&gmqtt.Message{Topic: "job/x", Payload: []byte(fmt.Sprintf("sf-%d", i)), QoS: 1})
			}
			b.Srv.Publisher().Publish(&gmqtt.Message{Topic: "sf/sentinel", Payload: []byte("sentinel"), QoS: 1})
			if _, err := stay.Subscribe([]mqttx.Sub{{Filter: "sf/sentinel", QoS: 1}}, 0, step); err != nil {
				r.Inconclusive(err.Error())
				return
			}
			b.Srv.Publisher().Publish(&gmqtt.Message{Topic: "sf/sentinel", Payload: []byte("sentinel2"), QoS: 1})
			if err := stay.WaitPayload("sentinel2", step); err != nil {
				r.Inconclusive("sentinel: " + err.Error())
				return
			}
			got := 0
			for _, rec := range stay.Publishes() {
				if len(rec.P.Payload) > 3 && string(rec.P.Payload[:3]) == "sf-" {
					got++
				}
			}
			if got != n {
				r.Violation(fmt.Sprintf("store_fault.group_member_after_session_end:end=%s", end), fmt.Sprintf("the session of a group member ended (%s) while redis refused the DEL of its queue; of %d later messages the remaining member received %d - the leaver is still being selected", end, n, got), map[string]any{"end": end})
			}
			r.Count("wire_members_left_while_the_store_refused_a_command", 1)
			r.Nontrivial(fmt.Sprintf("store-fault|%s|%d", end, vi))
		}()
	}
}
