package c11

import "verif/harness/monitor"

func RunWire(r *monitor.Run) {}
