package c11

import (
	"encoding/json"
	"fmt"
	"strings"
	"math/rand"
	"time"

	"github.com/DrmagicE/gmqtt"
	"github.com/DrmagicE/gmqtt/config"

	"verif/harness/broker"
	"verif/harness/monitor"
	"verif/harness/mqttx"
	"verif/harness/refmodel"
	"verif/harness/wire"
)

// Op is one step of a wire scenario.
type Op struct {
	Kind   string // join | unsub | plain | unplain | disconnect | drop | reconnect | publish | terminate | expire
	M      int    `json:",omitempty"`
	Group  string `json:",omitempty"`
	Filter string `json:",omitempty"`
	QoS    byte   `json:",omitempty"`
	Clean  bool   `json:",omitempty"`
	Topic  string `json:",omitempty"`
	API    bool   `json:",omitempty"`
}

// Scenario is one generated case.
type Scenario struct {
	Mode       string
	Persistent []bool // per member: session expiry 3600 or 0
	Short      int    // index+1 of the one member whose session expiry is 1 s (0 = none); it leaves groups by expiry
	Ops        []Op
}

type gkey struct{ Group, Filter string }

func (o Op) String() string {
	switch o.Kind {
	case "join", "unsub":
		return fmt.Sprintf("%s(m%d,$share/%s/%s,q%d)", o.Kind, o.M, o.Group, o.Filter, o.QoS)
	case "plain", "unplain":
		return fmt.Sprintf("%s(m%d,%s,q%d)", o.Kind, o.M, o.Filter, o.QoS)
	case "publish":
		return fmt.Sprintf("publish(%s,q%d,api=%v)", o.Topic, o.QoS, o.API)
	case "reconnect":
		return fmt.Sprintf("reconnect(m%d,clean=%v)", o.M, o.Clean)
	}
	return fmt.Sprintf("%s(m%d)", o.Kind, o.M)
}

func gen(rng *rand.Rand, maxOps int) Scenario {
	nm := 2 + rng.Intn(4)
	sc := Scenario{Mode: []string{config.Overlap, config.OnlyOnce}[rng.Intn(2)]}
	for i := 0; i < nm; i++ {
		sc.Persistent = append(sc.Persistent, rng.Intn(2) == 0)
	}
	if rng.Intn(3) == 0 {
		sc.Short = 1 + rng.Intn(nm)
		sc.Persistent[sc.Short-1] = true
	}
	expired := false
	topics := [][]string{{"a/b", "a/c", "a", "$s/b"}, {"x", "x/y", "/", "x/"}}[rng.Intn(2)]
	filters := [][]string{{"a/b", "a/+", "a/#", "#", "+/b", "$s/+"}, {"x", "x/#", "+", "+/+", "x/+", "/"}}[0]
	if topics[0] == "x" {
		filters = []string{"x", "x/#", "+", "+/+", "x/+", "/"}
	}
	groups := []string{"g1", "g2"}
	online := make([]bool, nm)
	for i := range online {
		online[i] = true
	}
	n := 6 + rng.Intn(maxOps)
	for i := 0; i < n; i++ {
		m := rng.Intn(nm)
		f := filters[rng.Intn(len(filters))]
		g := groups[rng.Intn(len(groups))]
		x := rng.Intn(100)
		switch {
		case x < 30:
			if online[m] {
				sc.Ops = append(sc.Ops, Op{Kind: "join", M: m, Group: g, Filter: f, QoS: byte(rng.Intn(3))})
			}
		case x < 38:
			if online[m] {
				sc.Ops = append(sc.Ops, Op{Kind: "unsub", M: m, Group: g, Filter: f})
			}
		case x < 46:
			if online[m] {
				sc.Ops = append(sc.Ops, Op{Kind: "plain", M: m, Filter: f, QoS: byte(rng.Intn(3))})
			}
		case x < 49:
			if online[m] {
				sc.Ops = append(sc.Ops, Op{Kind: "unplain", M: m, Filter: f})
			}
		case x < 55:
			if online[m] {
				sc.Ops = append(sc.Ops, Op{Kind: []string{"disconnect", "drop", "leave"}[rng.Intn(3)], M: m})
				online[m] = false
			}
		case x < 63:
			if m == sc.Short-1 && !online[m] {
				// the member with the short expiry comes back (Clean Start 0) after its session has expired and
				// before any expiry sweep of the broker can have run: it left every group by expiry
				if expired {
					break
				}
				expired = true
				sc.Ops = append(sc.Ops, Op{Kind: "expire", M: m})
				online[m] = true
				break
			}
			// reconnect: for an online member this is a take-over
			sc.Ops = append(sc.Ops, Op{Kind: "reconnect", M: m, Clean: rng.Intn(2) == 0})
			online[m] = true
		case x < 66:
			sc.Ops = append(sc.Ops, Op{Kind: "terminate", M: m})
			online[m] = false
		default:
			sc.Ops = append(sc.Ops, Op{Kind: "publish", Topic: topics[rng.Intn(len(topics))], QoS: byte(rng.Intn(3)), API: rng.Intn(4) == 0})
		}
	}
	if sc.Short != 0 && !expired {
		// directed epilogue: the short-lived member and another one share a group; the short-lived one leaves by expiry,
		// comes back without subscribing, and the group keeps being served
		m := sc.Short - 1
		other := (m + 1) % nm
		f, t := filters[0], topics[0]
		if !online[m] {
			sc.Ops = append(sc.Ops, Op{Kind: "expire", M: m})
		}
		if !online[other] {
			sc.Ops = append(sc.Ops, Op{Kind: "reconnect", M: other, Clean: false})
		}
		sc.Ops = append(sc.Ops, Op{Kind: "join", M: m, Group: "g1", Filter: f, QoS: 1}, Op{Kind: "join", M: other, Group: "g1", Filter: f, QoS: 1},
			Op{Kind: "plain", M: m, Filter: f, QoS: 1}, Op{Kind: "publish", Topic: t, QoS: 1}, Op{Kind: "disconnect", M: m}, Op{Kind: "publish", Topic: t, QoS: 1})
		if online[m] {
			// once its expiry interval has passed the member has left, swept by the broker or not: what is published
			// from then on goes to the remaining member
			sc.Ops = append(sc.Ops, Op{Kind: "expire_wait", M: m})
			for k := 0; k < 4; k++ {
				sc.Ops = append(sc.Ops, Op{Kind: "publish", Topic: t, QoS: byte(1 + k%2)})
			}
			sc.Ops = append(sc.Ops, Op{Kind: "expire", M: m})
		} else {
			sc.Ops = append(sc.Ops, Op{Kind: "reconnect", M: m, Clean: true})
		}
		for k := 0; k < 4; k++ {
			sc.Ops = append(sc.Ops, Op{Kind: "publish", Topic: t, QoS: byte(k % 3), API: k == 3})
		}
	}
	return sc
}

type member struct {
	c       *wire.Client
	online  bool
	exists  bool // session exists
	groups  map[gkey]byte
	plain   map[string]byte
	prev    []*wire.Client // earlier connections of this member (their receptions count)
	sentinelSub bool
}

type memq struct {
	M int
	Q byte
}

type pubRec struct {
	payload string
	topic   string
	qos     byte
	members map[gkey][]memq // current members (with granted QoS) per matching group-filter at publish time
	plainOf map[int][]byte // matching non-shared subscriptions (granted QoS) per member
	offline map[int]bool   // members that were offline when it was published
	lossy   map[int]bool   // ... and whose session ended before they came back: their copy is unobservable
}

type finding struct{ Sig, What string }

const step = 15 * time.Second

func subID(m int, k gkey, filters []string) uint32 {
	gi := 1
	if k.Group == "g2" {
		gi = 2
	}
	fi := 0
	for i, f := range filters {
		if f == k.Filter {
			fi = i
		}
	}
	return uint32(1000*(m+1) + 100*gi + fi)
}

func runW(sc *Scenario) (fs []finding, obs map[string]int, hist map[string]int, rerr error) {
	obs = map[string]int{}
	hist = map[string]int{}
	add := func(sig, what string) { fs = append(fs, finding{sig, what}) }
	b, err := broker.Start(broker.Options{Cfg: func(c *config.Config) {
		c.MQTT.DeliveryMode = sc.Mode
		c.MQTT.MessageExpiry = 0
	}})
	if err != nil {
		return nil, nil, nil, err
	}
	defer b.Stop(10 * time.Second)
	var allFilters []string
	seenF := map[string]bool{}
	for _, o := range sc.Ops {
		if o.Filter != "" && !seenF[o.Filter] {
			seenF[o.Filter] = true
			allFilters = append(allFilters, o.Filter)
		}
	}
	nm := len(sc.Persistent)
	ms := make([]*member, nm)
	connect := func(i int, clean bool) (bool, error) {
		c, err := wire.Dial(fmt.Sprintf("m%d", i), b.Addr, mqttx.V5)
		if err != nil {
			return false, err
		}
		p := &mqttx.Packet{ClientID: fmt.Sprintf("m%d", i), CleanStart: clean}
		if sc.Persistent[i] {
			e := uint32(3600)
			if i == sc.Short-1 {
				e = 1
			}
			p.Props = &mqttx.Props{SessionExpiry: &e}
		}
		ack, err := c.Connect(p, step)
		if err != nil || ack.Code != 0 {
			return false, fmt.Errorf("connect m%d: %v %v", i, ack, err)
		}
		if ms[i] != nil && ms[i].c != nil {
			old := ms[i].c
			// keep the old connection's receptions: they are part of the member's history
			ms[i].prev = append(ms[i].prev, old)
		}
		ms[i].c = c
		ms[i].online = true
		return ack.SessionPresent, nil
	}
	for i := range ms {
		ms[i] = &member{groups: map[gkey]byte{}, plain: map[string]byte{}}
		if _, err := connect(i, true); err != nil {
			return nil, nil, nil, err
		}
		ms[i].exists = true
		if _, err := ms[i].c.Subscribe([]mqttx.Sub{{Filter: fmt.Sprintf("sent/m%d", i), QoS: 1}}, 0, step); err != nil {
			return nil, nil, nil, err
		}
		ms[i].sentinelSub = true
	}
	pub, err := wire.Dial("pub", b.Addr, mqttx.V5)
	if err != nil {
		return nil, nil, nil, err
	}
	defer pub.Close()
	if _, err := pub.Connect(&mqttx.Packet{ClientID: "publisher", CleanStart: true}, step); err != nil {
		return nil, nil, nil, err
	}
	var pubs []pubRec
	barN := 0
	// barrier: everything queued for an online member so far has reached its socket
	barrier := func(i int) bool {
		if !ms[i].online || !ms[i].sentinelSub {
			return true
		}
		barN++
		pl := fmt.Sprintf("bar-%d", barN)
		b.Srv.Publisher().Publish(&gmqtt.Message{Topic: fmt.Sprintf("sent/m%d", i), Payload: []byte(pl), QoS: 1})
		if err := ms[i].c.WaitPayload(pl, step); err != nil {
			add("barrier", fmt.Sprintf("m%d never received %s: %v", i, pl, err))
			return false
		}
		return true
	}
	endSession := func(i int) {
		for _, pr := range pubs {
			if pr.offline[i] {
				pr.lossy[i] = true
			}
		}
		ms[i].groups = map[gkey]byte{}
		ms[i].plain = map[string]byte{}
		ms[i].exists = false
		ms[i].sentinelSub = false
	}
	seq := 0
	closedAt := map[int]time.Time{}
	for oi, o := range sc.Ops {
		m := o.M
		switch o.Kind {
		case "disconnect", "drop", "leave", "terminate", "reconnect", "expire", "expire_wait":
			if !barrier(m) {
				return
			}
		}
		switch o.Kind {
		case "join":
			k := gkey{o.Group, o.Filter}
			sa, err := ms[m].c.Subscribe([]mqttx.Sub{{Filter: "$share/" + o.Group + "/" + o.Filter, QoS: o.QoS}}, subID(m, k, allFilters), step)
			if err != nil || len(sa.Codes) != 1 || sa.Codes[0] != o.QoS {
				add("join.suback", fmt.Sprintf("op %d %s: %v %v", oi, o, sa, err))
				return
			}
			ms[m].groups[k] = o.QoS
		case "unsub":
			if _, err := ms[m].c.Unsubscribe([]string{"$share/" + o.Group + "/" + o.Filter}, step); err != nil {
				add("unsub.ack", fmt.Sprintf("op %d %s: %v", oi, o, err))
				return
			}
			delete(ms[m].groups, gkey{o.Group, o.Filter})
		case "plain":
			sa, err := ms[m].c.Subscribe([]mqttx.Sub{{Filter: o.Filter, QoS: o.QoS}}, 7, step)
			if err != nil || len(sa.Codes) != 1 || sa.Codes[0] != o.QoS {
				add("plain.suback", fmt.Sprintf("op %d %s: %v %v", oi, o, sa, err))
				return
			}
			ms[m].plain[o.Filter] = o.QoS
		case "unplain":
			if _, err := ms[m].c.Unsubscribe([]string{o.Filter}, step); err != nil {
				add("unplain.ack", err.Error())
				return
			}
			delete(ms[m].plain, o.Filter)
		case "disconnect", "drop":
			from := b.Log.Len()
			if o.Kind == "disconnect" {
				ms[m].c.Disconnect(0, nil)
			} else {
				ms[m].c.Close()
			}
			ms[m].online = false
			id := fmt.Sprintf("m%d", m)
			if _, ok := b.Log.Wait(from, func(e broker.Event) bool { return e.Kind == "OnClosed" && e.Client == id }, step); !ok {
				add("close.not_observed", "OnClosed never fired for "+id)
				return
			}
			closedAt[m] = time.Now()
			if !sc.Persistent[m] {
				if _, ok := b.Log.Wait(from, func(e broker.Event) bool { return e.Kind == "OnSessionTerminated" && e.Client == id }, step); !ok {
					add("session_end.not_observed", "session of "+id+" (expiry 0) not terminated at disconnect")
					return
				}
				endSession(m)
			}
		case "leave":
			// DISCONNECT with Session Expiry Interval 0: the member ends its session, whatever CONNECT said, and with it
			// every membership
			from := b.Log.Len()
			zero := uint32(0)
			ms[m].c.Disconnect(0, &mqttx.Props{SessionExpiry: &zero})
			ms[m].online = false
			id := fmt.Sprintf("m%d", m)
			if _, ok := b.Log.Wait(from, func(e broker.Event) bool { return e.Kind == "OnClosed" && e.Client == id }, step); !ok {
				add("close.not_observed", "OnClosed never fired for "+id)
				return
			}
			closedAt[m] = time.Now()
			endSession(m)
			obs["left_by_disconnect_with_expiry_0"]++
		case "quick_resume":
			// the member with the 1 s expiry comes back (Clean Start 0) right away. Within the second the session is
			// certainly resumed; later than that (a loaded machine) both answers are right and the model follows CONNACK
			sp, err := connect(m, false)
			if err != nil {
				add("reconnect", err.Error())
				return
			}
			if !sp {
				if time.Since(closedAt[m]) < 900*time.Millisecond {
					add("quick_resume.session_present:got=false", fmt.Sprintf("op %d: m%d came back %v after its connection ended, session expiry 1 s, CONNACK says no session", oi, m, time.Since(closedAt[m])))
					return
				}
				endSession(m)
				if _, err := ms[m].c.Subscribe([]mqttx.Sub{{Filter: fmt.Sprintf("sent/m%d", m), QoS: 1}}, 0, step); err != nil {
					add("reconnect.subscribe", err.Error())
					return
				}
				ms[m].sentinelSub = true
				obs["quick_resume_too_late"]++
			} else {
				obs["quick_resumes"]++
			}
			ms[m].exists = true
		case "outlive":
			// the resumed connection lasts beyond the moment the session would have expired had the member stayed away:
			// that deadline died with the resume, the member is online and a member like any other
			if d := time.Until(closedAt[m].Add(1700 * time.Millisecond)); d > 0 {
				time.Sleep(d)
			}
			obs["connections_outliving_the_old_deadline"]++
		case "terminate":
			from := b.Log.Len()
			id := fmt.Sprintf("m%d", m)
			had := ms[m].exists
			b.Srv.ClientService().TerminateSession(id)
			if had {
				if _, ok := b.Log.Wait(from, func(e broker.Event) bool { return e.Kind == "OnSessionTerminated" && e.Client == id }, step); !ok {
					add("terminate.not_observed", "TerminateSession("+id+") did not terminate the session")
					return
				}
			}
			if ms[m].online {
				ms[m].c.WaitEOF(step)
			}
			ms[m].online = false
			endSession(m)
		case "expire_wait":
			if d := time.Until(closedAt[m].Add(1700 * time.Millisecond)); d > 0 {
				time.Sleep(d)
			}
			if ms[m].exists && !ms[m].online {
				endSession(m) // expired: no longer a member of anything (what was queued for it before is unobservable)
				obs["publishes_after_expiry_before_any_sweep"]++
			}
		case "expire":
			// OnClosed was observed at closedAt; 1.7 s later the 1 s session has certainly expired (a sleep can only last longer)
			if d := time.Until(closedAt[m].Add(1700 * time.Millisecond)); d > 0 {
				time.Sleep(d)
			}
			if !ms[m].exists {
				// terminated meanwhile through the API: an ordinary reconnect
				obs["expire_after_terminate"]++
			}
			sp, err := connect(m, false)
			if err != nil {
				add("reconnect", err.Error())
				return
			}
			if sp {
				add("expire.session_present", fmt.Sprintf("op %d: m%d came back %v after its connection ended, session expiry 1 s, CONNACK says session present", oi, m, time.Since(closedAt[m])))
				return
			}
			endSession(m)
			if _, err := ms[m].c.Subscribe([]mqttx.Sub{{Filter: fmt.Sprintf("sent/m%d", m), QoS: 1}}, 0, step); err != nil {
				add("reconnect.subscribe", err.Error())
				return
			}
			ms[m].sentinelSub = true
			ms[m].exists = true
			obs["left_by_expiry_then_reconnected"]++
		case "reconnect":
			wasOnline := ms[m].online
			sp, err := connect(m, o.Clean)
			if err != nil {
				add("reconnect", err.Error())
				return
			}
			// a session with expiry 0 ends with its network connection, also when that is a take-over
			resumed := ms[m].exists && !o.Clean && (sc.Persistent[m] || !wasOnline)
			if sp != resumed {
				add(fmt.Sprintf("reconnect.session_present:got=%v:want=%v", sp, resumed), fmt.Sprintf("op %d %s", oi, o))
				return
			}
			if !resumed {
				endSession(m)
				if _, err := ms[m].c.Subscribe([]mqttx.Sub{{Filter: fmt.Sprintf("sent/m%d", m), QoS: 1}}, 0, step); err != nil {
					add("reconnect.subscribe", err.Error())
					return
				}
				ms[m].sentinelSub = true
			}
			ms[m].exists = true
		case "publish":
			seq++
			pr := pubRec{payload: fmt.Sprintf("p%d", seq), topic: o.Topic, qos: o.QoS, members: map[gkey][]memq{}, plainOf: map[int][]byte{}, offline: map[int]bool{}, lossy: map[int]bool{}}
			for i, mm := range ms {
				if !mm.online {
					pr.offline[i] = true
				}
				for k, q := range mm.groups {
					if refmodel.Match(o.Topic, k.Filter) {
						pr.members[k] = append(pr.members[k], memq{i, q})
					}
				}
				for f, q := range mm.plain {
					if refmodel.Match(o.Topic, f) {
						pr.plainOf[i] = append(pr.plainOf[i], q)
					}
				}
			}
			if o.API {
				b.Srv.Publisher().Publish(&gmqtt.Message{Topic: o.Topic, Payload: []byte(pr.payload), QoS: o.QoS})
			} else {
				if _, err := pub.Publish(&mqttx.Packet{Topic: o.Topic, QoS: o.QoS, Payload: []byte(pr.payload)}, step); err != nil {
					add("publish.ack", err.Error())
					return
				}
				if o.QoS == 0 {
					if err := pub.Ping(step); err != nil {
						add("publish.barrier", err.Error())
						return
					}
				}
			}
			pubs = append(pubs, pr)
		}
	}
	// drain: bring every member with a session back online, subscribe the sentinel topic again where needed, send sentinels
	for i, mm := range ms {
		if !mm.online {
			if !mm.exists {
				continue // nothing can be queued for a member without session
			}
			if i == sc.Short-1 {
				endSession(i) // its 1 s session may have expired by now or not: what was queued for it is unobservable
				continue
			}
			sp, err := connect(i, false)
			if err != nil {
				add("drain.reconnect", err.Error())
				return
			}
			if !sp {
				add("drain.session_lost", fmt.Sprintf("m%d: persistent session vanished", i))
				return
			}
		}
		if !mm.sentinelSub {
			if _, err := mm.c.Subscribe([]mqttx.Sub{{Filter: fmt.Sprintf("sent/m%d", i), QoS: 1}}, 0, step); err != nil {
				add("drain.subscribe", err.Error())
				return
			}
		}
		b.Srv.Publisher().Publish(&gmqtt.Message{Topic: fmt.Sprintf("sent/m%d", i), Payload: []byte("sentinel"), QoS: 1})
		if err := mm.c.WaitPayload("sentinel", step); err != nil {
			add("drain.sentinel", fmt.Sprintf("m%d: %v", i, err))
			return
		}
	}
	time.Sleep(20 * time.Millisecond)
	// collect receptions: payload -> list of (member, subscription ids, qos)
	type rcv struct {
		m   int
		ids []uint32
		qos byte
	}
	got := map[string][]rcv{}
	for i, mm := range ms {
		for _, c := range append(append([]*wire.Client{}, mm.prev...), mm.c) {
			if c == nil {
				continue
			}
			for _, r := range c.Publishes() {
				var ids []uint32
				if r.P.Props != nil {
					ids = r.P.Props.SubscriptionIDs
				}
				got[string(r.P.Payload)] = append(got[string(r.P.Payload)], rcv{i, ids, r.P.QoS})
			}
		}
	}
	min := func(a, b byte) byte {
		if a < b {
			return a
		}
		return b
	}
	for _, pr := range pubs {
		rs := got[pr.payload]
		for k, mem := range pr.members {
			obs["group_deliveries_checked"]++
			if len(mem) >= 2 {
				obs["group_deliveries_with_choice"]++
			}
			n := 0
			for _, r := range rs {
				for _, id := range r.ids {
					for _, mq := range mem {
						mi := mq.M
						if id == subID(mi, k, allFilters) && r.m == mi {
							n++
							hist[fmt.Sprintf("size%d", len(mem))]++
							if want := min(pr.qos, mq.Q); r.qos != want {
								add(fmt.Sprintf("group.qos:got=%d:want=%d", r.qos, want), fmt.Sprintf("message %s (QoS %d) via $share/%s/%s to m%d (granted %d) with QoS %d", pr.payload, pr.qos, k.Group, k.Filter, mi, mq.Q, r.qos))
							}
						}
					}
				}
			}
			lossy := false
			for _, mq := range mem {
				if pr.lossy[mq.M] {
					lossy = true
				}
			}
			if n == 0 && lossy {
				obs["group_deliveries_unobservable"]++
				continue
			}
			if n != 1 {
				kind := "none"
				if n > 1 {
					kind = "several"
				}
				add(fmt.Sprintf("group.%s:members=%d", kind, len(mem)), fmt.Sprintf("message %s (topic %s) matched $share/%s/%s with members %v: %d copies delivered through the group, want exactly 1 (receptions %v)", pr.payload, pr.topic, k.Group, k.Filter, mem, n, rs))
			}
		}
		// copies attributed to groups the receiver was not a member of / that do not match
		for _, r := range rs {
			for _, id := range r.ids {
				if id == 7 {
					continue
				}
				ok := false
				for k, mem := range pr.members {
					for _, mq := range mem {
						if mq.M == r.m && id == subID(mq.M, k, allFilters) {
							ok = true
						}
					}
				}
				if !ok {
					add("group.non_member", fmt.Sprintf("m%d received %s with subscription id %d although it was not a member of a matching group when it was published", r.m, pr.payload, id))
				}
			}
		}
		// non-shared copies: independent of the groups
		for i := range ms {
			qs := pr.plainOf[i]
			n := 0
			for _, r := range rs {
				if r.m != i {
					continue
				}
				for _, id := range r.ids {
					if id == 7 {
						n++
						break
					}
				}
			}
			want := 0
			if len(qs) > 0 {
				want = 1
				if sc.Mode == config.Overlap {
					want = len(qs)
				}
			}
			if pr.lossy[i] && n <= want {
				continue
			}
			if n != want {
				add(fmt.Sprintf("plain.copies:mode=%s", sc.Mode), fmt.Sprintf("m%d got %d non-shared copies of %s, want %d (its non-shared subscriptions must be served independently of the groups)", i, n, pr.payload, want))
			}
		}
		delete(got, pr.payload)
	}
	for pl, rs := range got {
		if pl == "sentinel" || strings.HasPrefix(pl, "bar-") {
			continue
		}
		add("delivery.unknown", fmt.Sprintf("payload %q received %v but never published", pl, rs))
	}
	for _, e := range b.Log.Events() {
		if e.Kind == "OnMsgDropped" {
			add("dropped", fmt.Sprintf("message %q dropped for %s: %s", e.Payload, e.Client, e.Err))
		}
	}
	obs["publishes"] = len(pubs)
	return
}

// RunWire is part (b).
// directedScenarios: (a) a member leaves with DISCONNECT / Session Expiry Interval 0 although it connected with a long
// expiry: the group is served by who is left; (b) the member with the 1 s expiry drops, resumes at once and stays
// connected beyond the old deadline: as sole member of its group it gets every message, with a second member half of them.
func directedScenarios() []Scenario {
	var out []Scenario
	for _, mode := range []string{config.Overlap, config.OnlyOnce} {
		pubs := func(n int) (ops []Op) {
			for k := 0; k < n; k++ {
				ops = append(ops, Op{Kind: "publish", Topic: "a/b", QoS: byte(1 + k%2)})
			}
			return
		}
		a := Scenario{Mode: mode, Persistent: []bool{true, true}}
		a.Ops = append(a.Ops, Op{Kind: "join", M: 0, Group: "g1", Filter: "a/+", QoS: 1}, Op{Kind: "join", M: 1, Group: "g1", Filter: "a/+", QoS: 1})
		a.Ops = append(a.Ops, pubs(4)...)
		a.Ops = append(a.Ops, Op{Kind: "leave", M: 0})
		a.Ops = append(a.Ops, pubs(8)...)
		a.Ops = append(a.Ops, Op{Kind: "reconnect", M: 0, Clean: false})
		a.Ops = append(a.Ops, pubs(4)...)
		out = append(out, a)
		for _, how := range []string{"drop", "disconnect"} {
			b := Scenario{Mode: mode, Persistent: []bool{true, true}, Short: 1}
			b.Ops = append(b.Ops, Op{Kind: "join", M: 0, Group: "g1", Filter: "a/+", QoS: 1}, Op{Kind: "join", M: 1, Group: "g2", Filter: "a/+", QoS: 1})
			b.Ops = append(b.Ops, pubs(2)...)
			b.Ops = append(b.Ops, Op{Kind: how, M: 0}, Op{Kind: "quick_resume", M: 0}, Op{Kind: "outlive", M: 0})
			b.Ops = append(b.Ops, pubs(6)...)
			b.Ops = append(b.Ops, Op{Kind: "join", M: 1, Group: "g1", Filter: "a/+", QoS: 2})
			b.Ops = append(b.Ops, pubs(8)...)
			out = append(out, b)
		}
	}
	return out
}

func RunWire(r *monitor.Run) {
	n := r.Pick(120, 1500)
	rng := r.Rand("wire")
	scs := make([]Scenario, n)
	for i := range scs {
		scs[i] = gen(rng, r.Pick(40, 80))
	}
	scs = append(directedScenarios(), scs...)
	n = len(scs)
	r.Parallel(n, 16, func(i int) {
		sc := &scs[i]
		fs, obs, hist, err := runW(sc)
		r.Eval(1)
		if err != nil {
			r.Inconclusive(fmt.Sprintf("wire %d: %v", i, err))
			return
		}
		hs := make([]string, len(sc.Ops))
		for k, o := range sc.Ops {
			hs[k] = o.String()
		}
		for _, f := range fs {
			r.Violation(f.Sig, f.What, map[string]any{"scenario": sc, "history_text": hs, "index": i})
		}
		for k, v := range obs {
			r.Count("wire_"+k, int64(v))
		}
		for k, v := range hist {
			r.Count("wire_selected_from_group_"+k, int64(v))
		}
		if obs["group_deliveries_with_choice"] > 0 {
			r.Nontrivial("wire|" + monitor.J(sc))
		}
		if i == 0 {
			r.Sample(map[string]any{"wire_history": hs, "mode": sc.Mode, "persistent": sc.Persistent})
		}
	})
}


// Replay re-runs the scenario stored in a violation detail.
func Replay(r *monitor.Run, detail []byte) {
	var d struct{ Scenario Scenario }
	if err := json.Unmarshal(detail, &d); err != nil || len(d.Scenario.Ops) == 0 {
		fmt.Println("replay: no wire scenario in this file:", err)
		return
	}
	fs, _, _, err := runW(&d.Scenario)
	if err != nil {
		fmt.Println("replay: harness error:", err)
		return
	}
	for _, f := range fs {
		r.Violation(f.Sig, f.What, nil)
	}
}
