// Package c11: shared subscriptions - each message goes to exactly one live
// member per group (DESIGN.md §5 C11).
package c11

import (
	"verif/harness/monitor"
	"verif/harness/props/c02"
)

// Run is the entry point: (a) store level, (b) wire level.
func Run(r *monitor.Run) {
	c02.RunSharedStore(r)
	RunWire(r)
	RunStoreFault(r)
}
