// Package c08: the will message is published exactly when, and only when, it
// should be (DESIGN.md §5 C08). Real seconds with margins (DESIGN.md §4).
package c08

import (
	"context"
	"encoding/json"
	"fmt"
	"github.com/DrmagicE/gmqtt"
	"github.com/DrmagicE/gmqtt/config"
	"github.com/DrmagicE/gmqtt/server"
	"math/rand"
	"strings"
	"sync"
	"time"
	"verif/harness/yield"

	"verif/harness/broker"
	"verif/harness/monitor"
	"verif/harness/mqttx"
	"verif/harness/wire"
)

// Case is one will scenario.
type Case struct {
	V          byte
	WillQoS    byte
	WillRetain bool
	Delay      uint32 // v5 will delay interval (s)
	Rich       bool   // v5 will properties
	Expiry     uint32 // v5 session expiry (s); v3: 0 = clean session, else persistent
	// RefuseQueueDel (with Reattach clean_before): the broker runs on redis, which refuses the DEL of the session's
	// queue while the Clean Start 1 reconnect ends the old session. The session has ended: the will is due then.
	RefuseQueueDel bool `json:",omitempty"`
	End        string // disc0 | disc4 | close | malformed | keepalive | takeover0 | takeover1 | server_close | terminate
	Reattach   string // never | before | after | clean_before
	// DISCONNECT 0x04 carrying its own Session Expiry Interval, which replaces the CONNECT value
	HasDiscExpiry bool   `json:",omitempty"`
	DiscExpiry    uint32 `json:",omitempty"`
}

// effective session expiry once the connection has ended
func (c Case) effExpiry() uint32 {
	if c.HasDiscExpiry {
		return c.DiscExpiry
	}
	return c.Expiry
}

// RedisCfgFault (set by the registration code) switches a configuration to the redis back end on a private fake
// redis and returns arm(cmd, key): redis refuses the next such command with an error reply.
var RedisCfgFault func(c *config.Config) (cleanup func(), arm func(cmd, key string), err error)

const margin = 400 * time.Millisecond
const step = 10 * time.Second

type finding struct{ Sig, What string }

func (c Case) key() string { return monitor.J(c) }

// effective delay in seconds and whether the session outlives the connection.
func (c Case) effDelay() uint32 {
	if c.V != 5 {
		return 0
	}
	if c.effExpiry() < c.Delay {
		return c.effExpiry()
	}
	return c.Delay
}

func runCase(c Case, idx int) (fs []finding, incon string, obs map[string]int, rerr error) {
	obs = map[string]int{}
	caseStart := time.Now()
	add := func(sig, what string) { fs = append(fs, finding{sig, what}) }
	var redisCleanup func()
	var arm func(cmd, key string)
	b, err := broker.Start(broker.Options{Hooks: server.Hooks{OnMsgArrived: func(ctx context.Context, cl server.Client, req *server.MsgArrivedRequest) error {
		if req.Message != nil && strings.HasPrefix(req.Message.Topic, "busy/") {
			time.Sleep(120 * time.Millisecond) // a slow plugin: the packet handler is busy while the rest arrives
		}
		return nil
	}}, Cfg: func(cf *config.Config) {
		if c.RefuseQueueDel && RedisCfgFault != nil {
			redisCleanup, arm, _ = RedisCfgFault(cf)
		}
	}})
	if err != nil {
		return nil, "", nil, err
	}
	defer func() {
		b.Stop(step)
		if redisCleanup != nil {
			redisCleanup()
		}
	}()
	if c.RefuseQueueDel && arm == nil {
		return nil, "", nil, fmt.Errorf("no fault-capable redis")
	}
	o, err := wire.Dial("obs", b.Addr, mqttx.V5)
	if err != nil {
		return nil, "", nil, err
	}
	defer o.Close()
	if _, err := o.Connect(&mqttx.Packet{ClientID: "observer", CleanStart: true}, step); err != nil {
		return nil, "", nil, err
	}
	if _, err := o.Subscribe([]mqttx.Sub{{Filter: "will/#", QoS: 2, RAP: true}}, 0, step); err != nil {
		return nil, "", nil, err
	}
	id := fmt.Sprintf("w%d", idx)
	topic := "will/" + id
	payload := "will-" + id
	v := mqttx.Version(c.V)
	mkConnect := func(clean bool, withWill bool) *mqttx.Packet {
		p := &mqttx.Packet{ClientID: id, CleanStart: clean}
		if c.End == "keepalive" {
			p.KeepAlive = 1
		}
		if withWill {
			p.WillFlag, p.WillTopic, p.WillPayload, p.WillQoS, p.WillRetain = true, topic, []byte(payload), c.WillQoS, c.WillRetain
		}
		if c.V == 5 {
			e := c.Expiry
			p.Props = &mqttx.Props{SessionExpiry: &e}
			if withWill {
				d := c.Delay
				p.WillProps = &mqttx.Props{WillDelay: &d}
				if c.Rich {
					ct, rt := "ct/will", "rt/will"
					pf := byte(1)
					me := uint32(600)
					p.WillProps.ContentType, p.WillProps.ResponseTopic, p.WillProps.PayloadFormat, p.WillProps.MessageExpiry = &ct, &rt, &pf, &me
					p.WillProps.CorrelationData, p.WillProps.HasCorrelationData = []byte("cd"), true
					p.WillProps.User = []mqttx.UserProp{{K: "k", V: "v"}}
				}
			}
		} else {
			p.CleanStart = c.Expiry == 0
			if !withWill {
				p.CleanStart = clean || c.Expiry == 0
			}
		}
		return p
	}
	w, err := wire.Dial(id, b.Addr, v)
	if err != nil {
		return nil, "", nil, err
	}
	if ack, err := w.Connect(mkConnect(c.V == 5, true), step); err != nil || ack.Code != 0 {
		return nil, "", nil, fmt.Errorf("will owner connect: %v %v", ack, err)
	}
	from := b.Log.Len()
	suppressed := false
	var w2 *wire.Client
	switch c.End {
	case "disc0":
		w.Disconnect(0, nil)
		suppressed = true
	case "busy_disc0":
		// the last PUBLISH, the DISCONNECT and the end of the stream arrive back to back while the broker is still
		// busy with the PUBLISH: the DISCONNECT has been received completely and counts
		var raw []byte
		for i := 0; i < 2; i++ {
			pb, err := mqttx.Encode(&mqttx.Packet{Type: mqttx.PUBLISH, Topic: "busy/" + id, Payload: []byte("last words")}, v)
			if err != nil {
				return nil, "", nil, err
			}
			raw = append(raw, pb...)
		}
		db, err := mqttx.Encode(&mqttx.Packet{Type: mqttx.DISCONNECT}, v)
		if err != nil {
			return nil, "", nil, err
		}
		_ = w.SendRaw(append(raw, db...), nil)
		w.Close()
		suppressed = true
		obs["disconnects_behind_a_busy_handler"]++
	case "disc0_invalid":
		// CONNECT had Session Expiry Interval 0: a DISCONNECT that sets a non-zero one is a protocol error and
		// "not a valid DISCONNECT" [MQTT-3.14.2-2] - it does not suppress the will
		de := uint32(5)
		w.Disconnect(0, &mqttx.Props{SessionExpiry: &de})
		obs["invalid_disconnects"]++
	case "disc4":
		if c.HasDiscExpiry {
			de := c.DiscExpiry
			w.Disconnect(0x04, &mqttx.Props{SessionExpiry: &de})
			obs["disconnects_overriding_session_expiry"]++
		} else {
			w.Disconnect(0x04, nil)
		}
	case "close":
		w.Close()
	case "malformed":
		_ = w.SendRaw([]byte{0x30, 0x03, 0x00, 0x05, 'a'}, nil) // PUBLISH whose topic length exceeds the packet
	case "keepalive":
		// say nothing: the broker closes after 1.5 x keep alive
	case "server_close":
		if cl := b.Srv.ClientService().GetClient(id); cl != nil {
			cl.Close()
		} else {
			return nil, "", nil, fmt.Errorf("client not registered")
		}
	case "terminate":
		b.Srv.ClientService().TerminateSession(id)
	case "takeover0", "takeover1":
		w2, err = wire.Dial(id+"b", b.Addr, v)
		if err != nil {
			return nil, "", nil, err
		}
		defer w2.Close()
		if ack, err := w2.Connect(mkConnect(c.End == "takeover1", false), step); err != nil || ack.Code != 0 {
			return nil, "", nil, fmt.Errorf("take-over connect: %v %v", ack, err)
		}
	}
	ev, ok := b.Log.Wait(from, func(e broker.Event) bool { return e.Kind == "OnClosed" && e.Client == id }, step)
	if !ok {
		return nil, "OnClosed not observed", obs, nil
	}
	tEnd := ev.T
	defer w.Close()
	D := time.Duration(c.effDelay()) * time.Second
	// expected publication: never (-1), or an offset from tEnd
	expect := D
	switch {
	case suppressed:
		expect = -1
	case c.End == "takeover0":
		if D > 0 {
			expect = -1 // a new connection to the session was made before the delay passed
		}
	case c.End == "takeover1", c.End == "terminate":
		expect = 0 // the session ended
	}
	reattachAt := time.Duration(-1)
	if expect > 0 {
		switch c.Reattach {
		case "before":
			reattachAt, expect = 300*time.Millisecond, -1
		case "clean_before", "terminate_before":
			reattachAt, expect = 300*time.Millisecond, 300*time.Millisecond
		case "after":
			reattachAt = D + 800*time.Millisecond
		}
	}
	if reattachAt >= 0 && c.Reattach == "terminate_before" {
		// administrative termination of the offline session while the will is pending: the session ends now
		time.Sleep(time.Until(time.Now().Add(tEnd + reattachAt - broker.Now())))
		expect = broker.Now() - tEnd
		b.Srv.ClientService().TerminateSession(id)
		obs["offline_terminations_with_pending_will"]++
	} else if reattachAt >= 0 {
		time.Sleep(time.Until(time.Now().Add(tEnd + reattachAt - broker.Now())))
		w3, err := wire.Dial(id+"c", b.Addr, v)
		if err != nil {
			return nil, "", nil, err
		}
		defer w3.Close()
		if c.RefuseQueueDel {
			arm("DEL", "queue:"+id)
			obs["session_ends_while_the_store_refuses_a_command"]++
		}
		tConn := broker.Now()
		ack, err := w3.Connect(mkConnect(c.Reattach == "clean_before", false), step)
		if c.RefuseQueueDel && (err == nil || err == wire.ErrClosed) {
			// whether the new connection is accepted after the store error is not the subject here
		} else if err != nil || ack.Code != 0 {
			return nil, "", nil, fmt.Errorf("re-attach: %v %v", ack, err)
		}
		if c.Reattach == "clean_before" {
			expect = tConn - tEnd
		}
		if c.Reattach == "before" && broker.Now()-tEnd > D-margin {
			return nil, "re-attach came too close to the delay", obs, nil
		}
		obs["reattachments"]++
	}
	// observe long enough
	horizon := D + 1500*time.Millisecond
	if expect >= 0 && expect+1500*time.Millisecond > horizon {
		horizon = expect + 1500*time.Millisecond
	}
	time.Sleep(time.Until(time.Now().Add(tEnd + horizon - broker.Now())))
	var hits []wire.Rec
	for _, r := range o.Publishes() {
		if string(r.P.Payload) == payload {
			hits = append(hits, r)
		}
	}
	if expect >= 0 && len(hits) == 0 {
		// bounded progress: allow up to expect + 5 s
		if _, err := o.WaitPublish(0, func(p *mqttx.Packet) bool { return string(p.Payload) == payload }, time.Until(time.Now().Add(tEnd+expect+5*time.Second-broker.Now()))); err == nil {
			for _, r := range o.Publishes() {
				if string(r.P.Payload) == payload {
					hits = append(hits, r)
				}
			}
		}
	}
	// "too late" / "never" verdicts need a machine that runs timers on time: if the harness' own 5 ms sleeps
	// overshot by more than 150 ms during this case, lateness proves nothing
	if j := monitor.Jitter(caseStart); j > 150*time.Millisecond && expect >= 0 {
		late := len(hits) == 0
		for _, h := range hits {
			if h.T-tEnd > expect+margin {
				late = true
			}
		}
		if late {
			return nil, fmt.Sprintf("timers of the harness were up to %v late during the case: lateness cannot be judged", j), obs, nil
		}
	}
	kind := fmt.Sprintf("end=%s:reattach=%s:v=%d", c.End, c.Reattach, c.V)
	if c.RefuseQueueDel {
		kind += ":queue_del_refused=true"
	}
	if c.HasDiscExpiry {
		kind += ":disconnect_expiry=" + map[bool]string{true: "raised", false: "lowered"}[c.DiscExpiry > c.Expiry]
	}
	switch {
	case expect < 0 && len(hits) > 0:
		add("will.published_but_suppressed:"+kind, fmt.Sprintf("will published %v after the connection ended although it must not be (delay %v)", hits[0].T-tEnd, D))
	case expect >= 0 && len(hits) == 0:
		add("will.not_published:"+kind, fmt.Sprintf("will not published within %v + 5 s after the connection ended", expect))
	case expect >= 0 && len(hits) > 1:
		add("will.published_twice:"+kind, fmt.Sprintf("will published %d times", len(hits)))
	case expect >= 0:
		dt := hits[0].T - tEnd
		switch {
		case dt < expect-margin:
			add(fmt.Sprintf("will.too_early:%s", kind), fmt.Sprintf("will published %v after the connection ended, due after %v (delay %ds, session expiry %ds)", dt, expect, c.Delay, c.effExpiry()))
		case dt > expect+margin && dt <= expect+5*time.Second:
			// late but inside the progress bound: a defect only if the statement fixes the instant (session end)
			if c.End == "terminate" || c.End == "takeover1" || c.Reattach == "clean_before" || c.Reattach == "terminate_before" {
				add(fmt.Sprintf("will.late_after_session_end:%s", kind), fmt.Sprintf("the session ended %v after the connection closed but the will came only after %v", expect, dt))
			} else if dt > expect+700*time.Millisecond {
				add(fmt.Sprintf("will.late:%s", kind), fmt.Sprintf("will published %v after the connection ended, due after %v", dt, expect))
			}
		}
		p := hits[0].P
		if p.Topic != topic || p.QoS != c.WillQoS {
			add("will.content:topic_or_qos", fmt.Sprintf("will arrived as %s, registered topic %s qos %d", p.String(), topic, c.WillQoS))
		}
		if p.Retain != c.WillRetain {
			add(fmt.Sprintf("will.retain_flag:got=%v:want=%v", p.Retain, c.WillRetain), fmt.Sprintf("will registered with retain=%v arrived with RETAIN=%v at a Retain-As-Published subscriber", c.WillRetain, p.Retain))
		}
		m := b.Srv.RetainedService().GetRetainedMessage(topic)
		if c.WillRetain && (m == nil || string(m.Payload) != payload) {
			add("will.not_retained", "a will registered with retain=1 is not in the retained store after publication")
		}
		if !c.WillRetain && m != nil {
			add("will.retained_unasked", "a will registered with retain=0 is in the retained store")
		}
		if c.V == 5 && c.Rich {
			pp := p.Props
			if pp == nil || pp.ContentType == nil || *pp.ContentType != "ct/will" || pp.ResponseTopic == nil || *pp.ResponseTopic != "rt/will" || string(pp.CorrelationData) != "cd" ||
				len(pp.User) != 1 || pp.User[0].V != "v" || pp.PayloadFormat == nil || *pp.PayloadFormat != 1 {
				add("will.properties", fmt.Sprintf("will properties changed: %v", pp.String()))
			}
		}
		obs["wills_published_on_time"]++
	default:
		obs["wills_correctly_suppressed"]++
	}
	return fs, "", obs, nil
}

func allCases(rng *rand.Rand, quick bool) []Case {
	var cs []Case
	ends := []string{"disc0", "busy_disc0", "disc0_invalid", "disc4", "close", "malformed", "keepalive", "takeover0", "takeover1", "server_close", "terminate"}
	for _, v := range []byte{4, 5, 3} {
		for _, end := range ends {
			if (end == "disc4" || end == "disc0_invalid") && v != 5 {
				continue
			}
			delays := []uint32{0}
			exps := []uint32{0, 5}
			if v == 5 {
				delays = []uint32{0, 1, 2}
				exps = []uint32{0, 1, 5}
			}
			for _, d := range delays {
				for _, e := range exps {
					if end == "disc0_invalid" && e != 0 {
						continue
					}
					type de struct {
						has bool
						v   uint32
					}
					des := []de{{}}
					if end == "disc4" && e > 0 {
						for _, x := range []uint32{0, 1, 5} {
							if x != e {
								des = append(des, de{true, x})
							}
						}
					}
					for _, dx := range des {
						eff := e
						if dx.has {
							eff = dx.v
						}
						res := []string{"never"}
						if v == 5 && d > 0 && eff > 0 && (end == "close" || end == "disc4" || end == "malformed" || end == "server_close" || end == "keepalive") {
							res = []string{"never", "before", "after", "clean_before", "terminate_before"}
						}
						for _, re := range res {
							if (re == "before" || re == "clean_before" || re == "terminate_before") && (d < 2 || eff < 2) {
								continue // needs an effective delay of at least 2 s to re-attach safely inside it
							}
							cs = append(cs, Case{V: v, WillQoS: byte(rng.Intn(3)), WillRetain: rng.Intn(2) == 0, Delay: d, Rich: v == 5 && rng.Intn(2) == 0, Expiry: e, End: end, Reattach: re, HasDiscExpiry: dx.has, DiscExpiry: dx.v})
						}
					}
				}
			}
		}
	}
	if RedisCfgFault != nil {
		for _, end := range []string{"close", "malformed"} {
			cs = append(cs, Case{V: 5, WillQoS: 1, Delay: 2, Expiry: 5, End: end, Reattach: "clean_before", RefuseQueueDel: true})
		}
	}
	if quick {
		rng.Shuffle(len(cs), func(i, j int) { cs[i], cs[j] = cs[j], cs[i] })
		// keep one of every end kind and re-attachment kind, then fill up
		seen := map[string]int{}
		var keep, rest []Case
		for _, c := range cs {
			k := c.End + "|" + c.Reattach + fmt.Sprint(c.V == 5, c.HasDiscExpiry, c.DiscExpiry > c.Expiry, c.effDelay() != Case{V: c.V, Delay: c.Delay, Expiry: c.Expiry}.effDelay(), c.End == "takeover0" && c.effDelay() > 0, c.RefuseQueueDel)
			quota := 1
			if c.End == "takeover0" && c.effDelay() > 0 {
				quota = 4 // arming and cancelling the delayed will back to back is a race: several shots
			}
			if c.End == "busy_disc0" {
				quota = 3 // what the handler does with a DISCONNECT queued behind a slow PUBLISH is a race, too
			}
			if seen[k] < quota {
				seen[k]++
				keep = append(keep, c)
			} else {
				rest = append(rest, c)
			}
		}
		for len(keep) < 76 && len(rest) > 0 {
			keep = append(keep, rest[0])
			rest = rest[1:]
		}
		return keep
	}
	// thorough: every combination with all will QoS / retain variants sampled thrice
	out := cs
	for rep := 0; rep < 4; rep++ {
		for _, c := range cs {
			c.WillQoS, c.WillRetain, c.Rich = byte(rng.Intn(3)), rng.Intn(2) == 0, c.V == 5 && rng.Intn(2) == 0
			out = append(out, c)
		}
	}
	return out
}

// emptyRetainedWill: a will is published like any other message: with RETAIN = 1 and a zero-length payload it
// clears the retained message of its topic.
func emptyRetainedWill(r *monitor.Run, v byte) {
	b, err := broker.Start(broker.Options{})
	if err != nil {
		r.Inconclusive(err.Error())
		return
	}
	defer b.Stop(step)
	topic := fmt.Sprintf("will/empty/v%d", v)
	b.Srv.RetainedService().AddOrReplace(&gmqtt.Message{Topic: topic, Payload: []byte("stale-status"), QoS: 1, Retained: true})
	if b.Srv.RetainedService().GetRetainedMessage(topic) == nil {
		r.Inconclusive("retained message could not be stored")
		return
	}
	o, err := wire.Dial("obs", b.Addr, mqttx.V5)
	if err != nil {
		r.Inconclusive(err.Error())
		return
	}
	defer o.Close()
	_, _ = o.Connect(&mqttx.Packet{ClientID: "observer", CleanStart: true}, step)
	if _, err := o.Subscribe([]mqttx.Sub{{Filter: "will/#", QoS: 1, RAP: true, RetainHandling: 2}}, 0, step); err != nil {
		r.Inconclusive(err.Error())
		return
	}
	w, err := wire.Dial("w", b.Addr, mqttx.Version(v))
	if err != nil {
		r.Inconclusive(err.Error())
		return
	}
	if ack, err := w.Connect(&mqttx.Packet{ClientID: "w-empty", CleanStart: true, WillFlag: true, WillTopic: topic, WillPayload: []byte{}, WillQoS: 1, WillRetain: true}, step); err != nil || ack.Code != 0 {
		r.Inconclusive(fmt.Sprintf("connect: %v %v", ack, err))
		return
	}
	w.Close()
	r.Eval(1)
	r.Count("empty_retained_wills", 1)
	if _, err := o.WaitPublish(0, func(p *mqttx.Packet) bool { return p.Topic == topic && len(p.Payload) == 0 }, step); err != nil {
		r.Violation(fmt.Sprintf("will.not_published:empty_payload:v=%d", v), "a will with a zero-length payload was not published after the socket was closed", nil)
		return
	}
	if m := b.Srv.RetainedService().GetRetainedMessage(topic); m != nil {
		r.Violation(fmt.Sprintf("will.empty_retained_not_cleared:v=%d", v), fmt.Sprintf("a retained will with a zero-length payload left the retained message %q of its topic in place", m.Payload), nil)
		return
	}
	r.Nontrivial(fmt.Sprintf("empty-retained-will|%d", v))
}

// cancelledWillOvertaken: the goroutine of a cancelled delayed will is slow to finish (held at the hand-over point
// will.before_lock). Meanwhile the client's next connection ends as well and a new delayed will is pending. When
// the old goroutine finally runs it must not take the new will's bookkeeping with it: a re-attachment before the
// new delay has passed still cancels the new will. Will delay 3 s, re-attachments within 0.5 s.
func cancelledWillOvertaken(r *monitor.Run) {
	yield.Enable(1, false)
	entered, release := make(chan struct{}), make(chan struct{})
	var once sync.Once
	yield.Observe(func(site string) {
		if site == "will.before_lock" {
			once.Do(func() {
				close(entered)
				select {
				case <-release:
				case <-time.After(20 * time.Second):
				}
			})
		}
	})
	defer yield.Observe(nil)
	b, err := broker.Start(broker.Options{})
	if err != nil {
		r.Inconclusive(err.Error())
		close(release)
		return
	}
	defer b.Stop(step)
	o, err := wire.Dial("obs", b.Addr, mqttx.V5)
	if err != nil {
		r.Inconclusive(err.Error())
		close(release)
		return
	}
	defer o.Close()
	_, _ = o.Connect(&mqttx.Packet{ClientID: "observer", CleanStart: true}, step)
	_, _ = o.Subscribe([]mqttx.Sub{{Filter: "will/#", QoS: 1}}, 0, step)
	e, d := uint32(60), uint32(3)
	attach := func(name string) (*wire.Client, error) {
		c, err := wire.Dial(name, b.Addr, mqttx.V5)
		if err != nil {
			return nil, err
		}
		ack, err := c.Connect(&mqttx.Packet{ClientID: "overtaken", CleanStart: false, Props: &mqttx.Props{SessionExpiry: &e},
			WillFlag: true, WillTopic: "will/overtaken", WillPayload: []byte("will-overtaken"), WillQoS: 1, WillProps: &mqttx.Props{WillDelay: &d}}, step)
		if err != nil || ack.Code != 0 {
			c.Close()
			return nil, fmt.Errorf("connect: %v %v", ack, err)
		}
		return c, nil
	}
	closed := func(c *wire.Client) bool {
		from := b.Log.Len()
		c.Close()
		_, ok := b.Log.Wait(from, func(ev broker.Event) bool { return ev.Kind == "OnClosed" && ev.Client == "overtaken" }, step)
		return ok
	}
	c1, err := attach("c1")
	if err != nil || !closed(c1) { // first will pending
		r.Inconclusive(fmt.Sprintf("cancelledWillOvertaken: first connection: %v", err))
		close(release)
		return
	}
	c2, err := attach("c2") // cancels the first will: its goroutine is held at will.before_lock
	if err != nil {
		r.Inconclusive(err.Error())
		close(release)
		return
	}
	select {
	case <-entered:
	case <-time.After(step):
		r.Inconclusive("cancelledWillOvertaken: the cancelled will never reached will.before_lock")
		close(release)
		return
	}
	if !closed(c2) { // second will pending
		r.Inconclusive("cancelledWillOvertaken: OnClosed of the second connection not observed")
		close(release)
		return
	}
	close(release) // the old goroutine finishes now
	time.Sleep(200 * time.Millisecond)
	t0 := time.Now()
	c3, err := attach("c3") // re-attached long before the 3 s delay of the second will has passed
	if err != nil {
		r.Inconclusive(err.Error())
		return
	}
	defer c3.Close()
	r.Eval(1)
	r.Count("cancelled_will_overtaken_cases", 1)
	if time.Since(t0) > 1500*time.Millisecond {
		r.Inconclusive("cancelledWillOvertaken: re-attachment took too long")
		return
	}
	if _, err := o.WaitPublish(0, func(p *mqttx.Packet) bool { return string(p.Payload) == "will-overtaken" }, 4500*time.Millisecond); err == nil {
		r.Violation("will.published_but_suppressed:stale_cancelled_will", "the client re-attached 0.2 s after its connection ended (will delay 3 s) and the will was published all the same: the late goroutine of an earlier, cancelled will had removed the pending will's entry", nil)
		return
	}
	r.Nontrivial("cancelled-will-overtaken")
}

// Run is the entry point.
func Run(r *monitor.Run) {
	for _, v := range []byte{4, 5} {
		emptyRetainedWill(r, v)
	}
	// (alone: the yield observer is process-wide, another case's will goroutine would be held instead)
	cancelledWillOvertaken(r)
	cs := allCases(r.Rand("cases"), r.Quick())
	r.Parallel(len(cs), 32, func(i int) {
		c := cs[i]
		fs, incon, obs, err := runCase(c, i)
		// a timing-dependent verdict must recur to be reported
		timing := false
		for _, f := range fs {
			if len(f.Sig) > 8 && (f.Sig[:8] == "will.too" || f.Sig[:9] == "will.late") {
				timing = true
			}
		}
		if timing {
			again := 0
			for k := 0; k < 2; k++ {
				fs2, _, _, _ := runCase(c, i+100000*(k+1))
				for _, f := range fs2 {
					if len(f.Sig) > 8 && (f.Sig[:8] == "will.too" || f.Sig[:9] == "will.late") {
						again++
						break
					}
				}
			}
			if again == 0 {
				fs, incon = nil, "timing verdict did not recur"
			}
		}
		r.Eval(1)
		if err != nil {
			r.Inconclusive(fmt.Sprintf("case %d %v: %v", i, c, err))
			return
		}
		if incon != "" {
			r.Inconclusive(fmt.Sprintf("case %d: %s", i, incon))
			return
		}
		for _, f := range fs {
			r.Violation(f.Sig, f.What, map[string]any{"case": c})
		}
		for k, v := range obs {
			r.Count(k, int64(v))
		}
		r.Count("end_"+c.End, 1)
		r.Nontrivial(c.key())
		if i == 0 {
			r.Sample(c)
		}
	})
}

// Replay re-runs one case.
func Replay(r *monitor.Run, detail []byte) {
	var d struct{ Case Case }
	if err := json.Unmarshal(detail, &d); err != nil {
		fmt.Println("replay:", err)
		return
	}
	fs, incon, _, err := runCase(d.Case, 1)
	fmt.Println("replay:", incon, err)
	for _, f := range fs {
		r.Violation(f.Sig, f.What, nil)
	}
}
