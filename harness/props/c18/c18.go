// Package c18: the WebSocket transport delivers the exact byte stream of the
// binary messages (DESIGN.md §5 C18).
package c18

import (
	"context"
	"github.com/DrmagicE/gmqtt"
	"github.com/DrmagicE/gmqtt/server"
	"sync"
	"sync/atomic"

	"bytes"
	"crypto/sha1"
	"encoding/json"
	"fmt"
	"github.com/DrmagicE/gmqtt/config"
	"io"
	"math/rand"
	"net"
	"strings"
	"time"
	"verif/harness/yield"

	"github.com/gorilla/websocket"

	"verif/harness/broker"
	"verif/harness/monitor"
	"verif/harness/mqttx"
	"verif/harness/wire"
)

// Case is one segmentation of the reference stream.
type Case struct {
	Kind  string // aligned | fixed | onecut | random | packed | empties
	V     byte
	K     int   `json:",omitempty"` // chunk size / cut position
	Cuts  []int `json:",omitempty"` // explicit cut positions
	Sizes []int // payload sizes of the publishes
	Seed  int64 `json:",omitempty"`
	// MaxPkt: run against the broker configured with this max_packet_size. The limit is about MQTT packets;
	// a WebSocket message carrying several packets may be longer.
	MaxPkt int `json:",omitempty"`
}

const limitedMaxPkt = 1600

type stream struct {
	bytes    []byte
	bounds   []int // packet boundaries (offsets after each packet)
	payloads [][]byte
	pingAt   int // index of the packet after which PINGRESP is expected
}

func buildStream(c *Case, id int) *stream {
	v := mqttx.Version(c.V)
	s := &stream{}
	app := func(p *mqttx.Packet) {
		b, err := mqttx.Encode(p, v)
		if err != nil {
			panic(err)
		}
		s.bytes = append(s.bytes, b...)
		s.bounds = append(s.bounds, len(s.bytes))
	}
	proto := "MQTT"
	app(&mqttx.Packet{Type: mqttx.CONNECT, ProtoName: proto, Level: c.V, ClientID: fmt.Sprintf("ws-%d", id), CleanStart: true, KeepAlive: 60})
	app(&mqttx.Packet{Type: mqttx.SUBSCRIBE, PacketID: 1, Subs: []mqttx.Sub{{Filter: fmt.Sprintf("ws/%d", id), QoS: 0}}})
	for i, n := range c.Sizes {
		pl := make([]byte, n)
		for j := range pl {
			pl[j] = byte('a' + (i+j)%26)
		}
		if n >= 4 {
			copy(pl, fmt.Sprintf("%04d", i))
		}
		s.payloads = append(s.payloads, pl)
		app(&mqttx.Packet{Type: mqttx.PUBLISH, Topic: fmt.Sprintf("ws/%d", id), QoS: 1, PacketID: uint16(10 + i), Payload: pl})
	}
	app(&mqttx.Packet{Type: mqttx.PINGREQ})
	return s
}

// segments cuts the stream according to the case.
func segments(c *Case, s *stream) [][]byte {
	n := len(s.bytes)
	var cuts []int
	switch c.Kind {
	case "aligned", "many_empties":
		cuts = append(cuts, s.bounds...)
	case "fixed":
		for p := c.K; p < n; p += c.K {
			cuts = append(cuts, p)
		}
	case "onecut":
		if c.K > 0 && c.K < n {
			cuts = []int{c.K}
		}
	case "packed":
		for i := 1; i < len(s.bounds); i += 2 + c.K%3 {
			cuts = append(cuts, s.bounds[i])
		}
	case "random", "empties":
		rng := rand.New(rand.NewSource(c.Seed))
		m := 1 + rng.Intn(12)
		set := map[int]bool{}
		for i := 0; i < m; i++ {
			set[1+rng.Intn(n-1)] = true
		}
		// cuts near the reader's buffer size relative to packet starts are the interesting ones
		for _, b := range s.bounds {
			for _, d := range []int{1023, 1024, 1025} {
				if b+d < n && rng.Intn(3) == 0 {
					set[b+d] = true
				}
			}
		}
		for p := range set {
			cuts = append(cuts, p)
		}
		for i := range cuts {
			for j := i + 1; j < len(cuts); j++ {
				if cuts[j] < cuts[i] {
					cuts[i], cuts[j] = cuts[j], cuts[i]
				}
			}
		}
	}
	cuts = append(cuts, c.Cuts...)
	var out [][]byte
	prev := 0
	for _, p := range cuts {
		if p <= prev || p >= n {
			continue
		}
		out = append(out, s.bytes[prev:p])
		if c.Kind == "empties" {
			out = append(out, []byte{})
		}
		if c.Kind == "many_empties" {
			// a run of empty binary messages contributes nothing to the concatenation, however long it is
			for k := 0; k < 40+c.K; k++ {
				out = append(out, []byte{})
			}
		}
		prev = p
	}
	out = append(out, s.bytes[prev:])
	return out
}

type result struct {
	connack   bool
	suback    bool
	pubacks   []uint16
	echoes    []string // sha1 of payloads in order
	pingresp  bool
	nonBinary int
	frames    int
	closedErr string
	malformed string
}

func collect(rd io.Reader, v mqttx.Version, want int, done chan<- *result, deadline time.Duration) {
	r := &result{}
	mr := mqttx.NewReader(rd, v)
	for {
		p, _, err := mr.ReadPacket()
		if err != nil {
			if _, ok := err.(*mqttx.MalformedError); ok {
				r.malformed = err.Error()
			}
			r.closedErr = err.Error()
			done <- r
			return
		}
		switch p.Type {
		case mqttx.CONNACK:
			r.connack = p.Code == 0
		case mqttx.SUBACK:
			r.suback = true
		case mqttx.PUBACK:
			r.pubacks = append(r.pubacks, p.PacketID)
		case mqttx.PUBLISH:
			r.echoes = append(r.echoes, fmt.Sprintf("%x", sha1.Sum(p.Payload)))
		case mqttx.PINGRESP:
			r.pingresp = true
		}
		if r.pingresp && len(r.echoes) >= want && len(r.pubacks) >= want {
			done <- r
			return
		}
	}
}

func expectOf(s *stream) *result {
	r := &result{connack: true, suback: true, pingresp: true}
	for i, pl := range s.payloads {
		r.pubacks = append(r.pubacks, uint16(10+i))
		r.echoes = append(r.echoes, fmt.Sprintf("%x", sha1.Sum(pl)))
	}
	return r
}

func diff(got, want *result) string {
	switch {
	case !got.connack:
		return "no CONNACK"
	case !got.suback:
		return "no SUBACK"
	case fmt.Sprint(got.pubacks) != fmt.Sprint(want.pubacks):
		return fmt.Sprintf("PUBACK ids %v, want %v", got.pubacks, want.pubacks)
	case fmt.Sprint(got.echoes) != fmt.Sprint(want.echoes):
		return fmt.Sprintf("%d forwarded payloads (checksums differ or missing), want %d", len(got.echoes), len(want.echoes))
	case !got.pingresp:
		return "no PINGRESP"
	}
	return ""
}

var caseSeq int64

func runCase(b *broker.Broker, c *Case, id int) (sig, what string, obs map[string]int) {
	obs = map[string]int{}
	s := buildStream(c, id)
	segs := segments(c, s)
	obs["ws_messages_sent"] = len(segs)
	obs["stream_bytes"] = len(s.bytes)
	want := expectOf(s)
	ws, err := wire.DialWS(b.WSAddr)
	if err != nil {
		return "harness", "dial: " + err.Error(), obs
	}
	defer ws.Close()
	done := make(chan *result, 1)
	go collect(ws, mqttx.Version(c.V), len(s.payloads), done, 0)
	for _, seg := range segs {
		_ = ws.Conn.SetWriteDeadline(time.Now().Add(10 * time.Second))
		if err := ws.Conn.WriteMessage(websocket.BinaryMessage, seg); err != nil {
			break // the broker may already have closed on a corrupted stream; the reader reports
		}
	}
	var got *result
	select {
	case got = <-done:
	case <-time.After(15 * time.Second):
		ws.Close()
		got = <-done
		got.closedErr = "timeout: " + got.closedErr
	}
	for _, mt := range ws.FrameTypes() {
		obs["frames_from_broker"]++
		if mt != websocket.BinaryMessage {
			got.nonBinary++
		}
	}
	if got.nonBinary > 0 {
		return "frames.non_binary", fmt.Sprintf("%d non-binary frames from the broker", got.nonBinary), obs
	}
	if got.malformed != "" {
		return "outbound.malformed", "bytes written by the broker do not decode: " + got.malformed, obs
	}
	if d := diff(got, want); d != "" {
		near := "no"
		for _, seg := range segs {
			if l := len(seg); l%1024 == 1 && l > 1 {
				near = "len%1024==1"
			}
		}
		return fmt.Sprintf("stream.corrupted:seg=%s:%s", c.Kind, near), fmt.Sprintf("segmentation %s (k=%d, %d messages): %s; connection: %s", c.Kind, c.K, len(segs), d, got.closedErr), obs
	}
	// finish politely
	dis, _ := mqttx.Encode(&mqttx.Packet{Type: mqttx.DISCONNECT}, mqttx.Version(c.V))
	_ = ws.Conn.WriteMessage(websocket.BinaryMessage, dis)
	return "", "", obs
}

// tcpReference runs the same stream over plain TCP (differential oracle for the expected dialogue).
func tcpReference(b *broker.Broker, c *Case, id int) string {
	s := buildStream(c, id)
	conn, err := net.Dial("tcp", b.Addr)
	if err != nil {
		return "dial: " + err.Error()
	}
	defer conn.Close()
	done := make(chan *result, 1)
	go collect(conn, mqttx.Version(c.V), len(s.payloads), done, 0)
	if _, err := conn.Write(s.bytes); err != nil {
		return err.Error()
	}
	select {
	case got := <-done:
		return diff(got, expectOf(s))
	case <-time.After(15 * time.Second):
		return "timeout"
	}
}

func textCases(r *monitor.Run, b *broker.Broker) {
	for _, when := range []string{"before_connect", "after_connect"} {
		ws, err := wire.DialWS(b.WSAddr)
		if err != nil {
			r.Inconclusive(err.Error())
			return
		}
		id := fmt.Sprintf("ws-text-%s", when)
		from := b.Log.Len()
		if when == "after_connect" {
			pk, _ := mqttx.Encode(&mqttx.Packet{Type: mqttx.CONNECT, ProtoName: "MQTT", Level: 4, ClientID: id, CleanStart: true}, mqttx.V311)
			_ = ws.Conn.WriteMessage(websocket.BinaryMessage, pk)
			_ = ws.Conn.SetReadDeadline(time.Now().Add(5 * time.Second))
			if _, _, err := ws.Conn.ReadMessage(); err != nil {
				r.Inconclusive("no CONNACK over websocket: " + err.Error())
				ws.Close()
				continue
			}
		}
		// a text message carrying a perfectly valid retained PUBLISH / CONNECT
		var pk []byte
		if when == "before_connect" {
			pk, _ = mqttx.Encode(&mqttx.Packet{Type: mqttx.CONNECT, ProtoName: "MQTT", Level: 4, ClientID: id, CleanStart: true}, mqttx.V311)
		} else {
			pk, _ = mqttx.Encode(&mqttx.Packet{Type: mqttx.PUBLISH, Topic: "ws/text", Retain: true, Payload: []byte("via-text")}, mqttx.V311)
		}
		_ = ws.Conn.WriteMessage(websocket.TextMessage, pk)
		_ = ws.Conn.SetReadDeadline(time.Now().Add(5 * time.Second))
		closed := false
		for i := 0; i < 5; i++ {
			if _, _, err := ws.Conn.ReadMessage(); err != nil {
				closed = true
				break
			}
		}
		r.Eval(1)
		r.Count("text_message_cases", 1)
		if !closed {
			r.Violation("text.not_rejected:"+when, "a text message did not lead to the connection being closed", nil)
		}
		if when == "after_connect" {
			b.Log.Wait(from, func(e broker.Event) bool { return e.Kind == "OnClosed" && e.Client == id }, 5*time.Second)
		} else {
			time.Sleep(50 * time.Millisecond)
		}
		if m := b.Srv.RetainedService().GetRetainedMessage("ws/text"); m != nil {
			r.Violation("text.processed:"+when, "a PUBLISH carried in a text message changed the retained store", nil)
		}
		if when == "before_connect" {
			if c := b.Srv.ClientService().GetClient(id); c != nil {
				r.Violation("text.processed:"+when, "a CONNECT carried in a text message created a client", nil)
			}
		}
		ws.Close()
	}
}

func genCases(r *monitor.Run) []Case {
	rng := r.Rand("cases")
	sizesA := []int{0, 1, 5000, 1021, 1022, 1023, 1024, 1025, 1026, 1027, 2045, 2046, 2047, 2048, 2049, 2050, 2051, 3}
	sizesB := []int{300, 0, 1500, 7}
	var cs []Case
	for _, v := range []byte{4, 5} {
		cs = append(cs, Case{Kind: "aligned", V: v, Sizes: sizesA})
		cs = append(cs, Case{Kind: "packed", V: v, K: 1, Sizes: sizesA}, Case{Kind: "packed", V: v, K: 2, Sizes: sizesB})
	}
	var ks []int
	if r.Quick() {
		ks = []int{1, 2, 3, 7, 100, 1022, 1023, 1024, 1025, 1026, 2047, 2048, 2049, 2050, 4096}
		for i := 0; i < 40; i++ {
			ks = append(ks, 1+rng.Intn(2100))
		}
	} else {
		for k := 1; k <= 2100; k++ {
			ks = append(ks, k)
		}
	}
	for _, k := range ks {
		sz := sizesB
		if k >= 16 {
			sz = sizesA
		}
		cs = append(cs, Case{Kind: "fixed", V: []byte{4, 5}[k%2], K: k, Sizes: sz})
	}
	// every single cut position of a ~3 KB stream (thorough) / a sample (quick)
	probe := buildStream(&Case{V: 4, Sizes: sizesB}, 0)
	step := 1
	if r.Quick() {
		step = 29
	}
	for p := 1; p < len(probe.bytes); p += step {
		cs = append(cs, Case{Kind: "onecut", V: 4, K: p, Sizes: sizesB})
	}
	// a message that ends exactly one byte after a 1024-byte read
	for _, total := range []int{1025, 2049, 3073} {
		cs = append(cs, Case{Kind: "onecut", V: 4, K: total, Sizes: []int{5000}})
	}
	// restrictive max_packet_size: every packet fits, the WebSocket messages do not
	for _, v := range []byte{4, 5} {
		cs = append(cs, Case{Kind: "onecut", V: v, K: 1 << 30, Sizes: sizesB, MaxPkt: limitedMaxPkt}, // the whole stream in one message
			Case{Kind: "packed", V: v, K: 1, Sizes: []int{1500, 1400, 1500, 0, 1500, 1500}, MaxPkt: limitedMaxPkt},
			Case{Kind: "packed", V: v, K: 2, Sizes: []int{1500, 1400, 1500, 0, 1500, 1500}, MaxPkt: limitedMaxPkt},
			Case{Kind: "aligned", V: v, Sizes: []int{1500, 1, 1500}, MaxPkt: limitedMaxPkt},
			Case{Kind: "fixed", V: v, K: 1601, Sizes: []int{1500, 1400, 1500}, MaxPkt: limitedMaxPkt},
			Case{Kind: "fixed", V: v, K: 4000, Sizes: []int{1500, 1400, 1500, 1500}, MaxPkt: limitedMaxPkt})
	}
	n := r.Pick(80, 1500)
	for i := 0; i < n; i++ {
		kind := "random"
		if i%4 == 3 {
			kind = "empties"
		}
		var sz []int
		for j := 0; j < 2+rng.Intn(6); j++ {
			sz = append(sz, []int{0, 1, 10, 1020 + rng.Intn(10), 2044 + rng.Intn(10), rng.Intn(5000)}[rng.Intn(6)])
		}
		cs = append(cs, Case{Kind: kind, V: []byte{4, 5}[rng.Intn(2)], Sizes: sz, Seed: rng.Int63()})
	}
	for _, k := range []int{0, 59, 60, 61, 160, 400} {
		cs = append(cs, Case{Kind: "many_empties", K: k, V: []byte{4, 5}[k%2], Sizes: []int{10, 1030, 0}, Seed: rng.Int63()})
	}
	return cs
}

// Run is the entry point.
func Run(r *monitor.Run) {
	// a plugin that takes its time after every message delivered to one of the "noise" subscribers of the neighbours
	// phase: their write loops are in the middle of something when their connections go away
	slowNoise := server.Hooks{OnDelivered: func(ctx context.Context, cl server.Client, msg *gmqtt.Message) {
		if o := cl.ClientOptions(); o != nil && strings.HasPrefix(o.ClientID, "ws-noise-") {
			time.Sleep(time.Millisecond)
		}
	}}
	b, err := broker.Start(broker.Options{WS: true, Hooks: slowNoise})
	if err != nil {
		r.Inconclusive(err.Error())
		return
	}
	defer b.Stop(10 * time.Second)
	bl, err := broker.Start(broker.Options{WS: true, Cfg: func(c *config.Config) { c.MQTT.MaxPacketSize = limitedMaxPkt }})
	if err != nil {
		r.Inconclusive(err.Error())
		return
	}
	defer bl.Stop(10 * time.Second)
	cs := genCases(r)
	// differential sanity: the reference stream over TCP produces the expected dialogue
	for i, c := range []Case{cs[0], cs[1]} {
		if d := tcpReference(b, &c, 900000+i); d != "" {
			r.Violation("tcp_reference", "the reference stream over plain TCP does not produce the expected dialogue: "+d, c)
		}
		r.Eval(1)
	}
	r.Parallel(len(cs), 12, func(i int) {
		c := &cs[i]
		bb := b
		if c.MaxPkt != 0 {
			bb = bl
			r.Count("cases_with_restrictive_max_packet_size", 1)
		}
		sig, what, obs := runCase(bb, c, i)
		r.Eval(1)
		if sig == "harness" {
			r.Inconclusive(what)
			return
		}
		if sig != "" {
			r.Violation(sig, what, map[string]any{"case": c})
		}
		for k, v := range obs {
			r.Count(k, int64(v))
		}
		r.Count("segmentation_"+c.Kind, 1)
		if obs["ws_messages_sent"] > 1 {
			r.Nontrivial(monitor.J(c))
		}
		if i == 3 {
			r.Sample(c)
		}
	})
	neighbours(r, b, cs)
	textCases(r, b)
	for _, e := range b.Log.Events() {
		if e.Kind == "OnClosed" && e.Err != "" && strings.HasPrefix(e.Client, "ws-") && !strings.HasPrefix(e.Client, "ws-text") {
			r.Count("connections_closed_with_error", 1)
		}
	}
}

// neighbours: the stream of one client is its own, whatever other connections of the listener do meanwhile. Streams
// are replayed while other WebSocket connections are refused (CONNECT without client id and clean session 0, a first
// packet that is no CONNECT, a connection that goes away mid-packet) and keep sending afterwards, with the read
// loops of the broker held up for a moment after every packet they hand over (verif yield site read.enqueued).
func neighbours(r *monitor.Run, b *broker.Broker, cs []Case) {
	if !yield.Available {
		return
	}
	yield.Enable(r.Seed, false)
	var cnt int64
	yield.Observe(func(site string) {
		if site == "read.enqueued" && atomic.AddInt64(&cnt, 1)%3 == 0 {
			time.Sleep(1500 * time.Microsecond)
		}
	})
	defer yield.Observe(nil)
	stop := make(chan struct{})
	var wg sync.WaitGroup
	var refused, dropped, poisoned int64
	wg.Add(1)
	go func() { // the flood for the subscribers that drop out
		defer wg.Done()
		payload := strings.Repeat("n", 300)
		for {
			select {
			case <-stop:
				return
			default:
			}
			b.Publish("noise/x", payload, 0, false)
			time.Sleep(50 * time.Microsecond)
		}
	}()
	for g := 0; g < 6; g++ {
		wg.Add(1)
		go func(g int) {
			defer wg.Done()
			for i := 0; ; i++ {
				select {
				case <-stop:
					return
				default:
				}
				ws, err := wire.DialWS(b.WSAddr)
				if err != nil {
					time.Sleep(time.Millisecond)
					continue
				}
				if (i+g)%4 == 3 {
					// a client in good standing that receives a flood and drops its connection in the middle of it:
					// the broker still has packets to write for it when its read side ends
					cid := fmt.Sprintf("ws-noise-%d-%d", g, i)
					cb, _ := mqttx.Encode(&mqttx.Packet{Type: mqttx.CONNECT, Level: 4, ProtoName: "MQTT", ClientID: cid, CleanStart: true}, mqttx.V311)
					sb, _ := mqttx.Encode(&mqttx.Packet{Type: mqttx.SUBSCRIBE, PacketID: 1, Subs: []mqttx.Sub{{Filter: "noise/#", QoS: 0}}}, mqttx.V311)
					_ = ws.Conn.SetWriteDeadline(time.Now().Add(2 * time.Second))
					_ = ws.Conn.WriteMessage(websocket.BinaryMessage, append(cb, sb...))
					time.Sleep(time.Duration(2+i%5) * time.Millisecond)
					ws.Close()
					atomic.AddInt64(&dropped, 1)
					continue
				}
				if (i+g)%5 == 1 {
					// one WebSocket message of 3 KiB whose second packet is malformed (PUBLISH with QoS 3): the broker gives
					// the connection up with most of the message unread. Those bytes belong to this connection and to
					// nobody else.
					cid := fmt.Sprintf("ws-poison-%d-%d", g, i)
					msg, _ := mqttx.Encode(&mqttx.Packet{Type: mqttx.CONNECT, Level: 4, ProtoName: "MQTT", ClientID: cid, CleanStart: true}, mqttx.V311)
					msg = append(msg, 0x36, 0x05, 0x00, 0x01, 'x', 0x00, 0x01)
					ping, _ := mqttx.Encode(&mqttx.Packet{Type: mqttx.PINGREQ}, mqttx.V311)
					for len(msg) < 3000 {
						msg = append(msg, ping...)
					}
					_ = ws.Conn.SetWriteDeadline(time.Now().Add(2 * time.Second))
					_ = ws.Conn.WriteMessage(websocket.BinaryMessage, msg)
					time.Sleep(time.Duration(1+i%3) * time.Millisecond)
					ws.Close()
					atomic.AddInt64(&poisoned, 1)
					continue
				}
				var first []byte
				switch (i + g) % 3 {
				case 0: // refused: no client id, clean session 0
					first, _ = mqttx.Encode(&mqttx.Packet{Type: mqttx.CONNECT, Level: 4, ProtoName: "MQTT", ClientID: "", CleanStart: false}, mqttx.V311)
				case 1: // first packet is no CONNECT
					first, _ = mqttx.Encode(&mqttx.Packet{Type: mqttx.PINGREQ}, mqttx.V311)
				case 2: // half a CONNECT
					full, _ := mqttx.Encode(&mqttx.Packet{Type: mqttx.CONNECT, Level: 4, ProtoName: "MQTT", ClientID: "half", CleanStart: true}, mqttx.V311)
					first = full[:len(full)/2]
				}
				_ = ws.Conn.SetWriteDeadline(time.Now().Add(2 * time.Second))
				_ = ws.Conn.WriteMessage(websocket.BinaryMessage, first)
				ping, _ := mqttx.Encode(&mqttx.Packet{Type: mqttx.PINGREQ}, mqttx.V311)
				for k := 0; k < 3; k++ {
					if ws.Conn.WriteMessage(websocket.BinaryMessage, ping) != nil {
						break
					}
				}
				ws.Close()
				atomic.AddInt64(&refused, 1)
			}
		}(g)
	}
	n := r.Pick(160, 1500)
	if n > len(cs) {
		n = len(cs)
	}
	step := len(cs) / n
	r.Parallel(n, 12, func(i int) {
		c := cs[i*step]
		if c.MaxPkt != 0 {
			return
		}
		sig, what, obs := runCase(b, &c, 500000+i)
		r.Eval(1)
		if sig == "harness" {
			r.Inconclusive(what)
			return
		}
		if sig != "" {
			r.Violation(sig+":neighbours_refused", what, map[string]any{"case": c, "with_refused_neighbour_connections": true})
		}
		r.Count("streams_with_refused_neighbour_connections", 1)
		r.Count("frames_from_broker", int64(obs["frames_from_broker"]))
	})
	close(stop)
	wg.Wait()
	r.Count("refused_neighbour_connections", atomic.LoadInt64(&refused))
	r.Count("neighbour_connections_given_up_with_an_unread_remainder", atomic.LoadInt64(&poisoned))
	r.Count("neighbour_subscribers_dropped_in_a_flood", atomic.LoadInt64(&dropped))
	r.Count("read_loops_held_after_a_packet", atomic.LoadInt64(&cnt)/3)
}

// Replay re-runs one case.
func Replay(r *monitor.Run, detail []byte) {
	var d struct{ Case Case }
	if err := json.Unmarshal(detail, &d); err != nil {
		fmt.Println("replay:", err)
		return
	}
	b, err := broker.Start(broker.Options{WS: true, Cfg: func(c *config.Config) {
		if d.Case.MaxPkt != 0 {
			c.MQTT.MaxPacketSize = uint32(d.Case.MaxPkt)
		}
	}})
	if err != nil {
		fmt.Println("replay:", err)
		return
	}
	defer b.Stop(10 * time.Second)
	if sig, what, _ := runCase(b, &d.Case, 1); sig != "" {
		r.Violation(sig, what, nil)
	}
}

var _ = bytes.Equal
