// Package broker launches in-process gmqtt brokers through the public API and
// records every hook invocation with a global sequence number and a monotonic
// timestamp.
package broker

import (
	"context"
	"fmt"
	"net"
	"net/http"
	"sync"
	"sync/atomic"
	"time"

	"github.com/DrmagicE/gmqtt"
	"github.com/DrmagicE/gmqtt/config"
	_ "github.com/DrmagicE/gmqtt/persistence" // memory + redis factories
	"github.com/DrmagicE/gmqtt/pkg/packets"
	"github.com/DrmagicE/gmqtt/server"
	_ "github.com/DrmagicE/gmqtt/topicalias/fifo"
)

var origin = time.Now()
var gseq int64

// Now is the process-wide monotonic clock of the harness.
func Now() time.Duration { return time.Since(origin) }

// NextSeq returns the next global sequence number.
func NextSeq() int64 { return atomic.AddInt64(&gseq, 1) }

// Event is one recorded hook invocation.
type Event struct {
	Seq     int64
	T       time.Duration
	Kind    string // hook name
	Client  string
	Topic   string `json:",omitempty"`
	Payload string `json:",omitempty"`
	QoS     byte   `json:",omitempty"`
	Retain  bool   `json:",omitempty"`
	Err     string `json:",omitempty"`
	Extra   string `json:",omitempty"`
	Ptr     any    `json:"-"` // e.g. the server.Client for identity comparisons
}

// Log is a thread-safe event log.
type Log struct {
	mu     sync.Mutex
	events []Event
	wake   chan struct{}
}

func NewLog() *Log { return &Log{wake: make(chan struct{})} }

func (l *Log) Add(e Event) {
	e.Seq = NextSeq()
	e.T = Now()
	l.mu.Lock()
	l.events = append(l.events, e)
	close(l.wake)
	l.wake = make(chan struct{})
	l.mu.Unlock()
}

// Events returns a copy of the events recorded so far.
func (l *Log) Events() []Event {
	l.mu.Lock()
	defer l.mu.Unlock()
	return append([]Event(nil), l.events...)
}

// Len returns the number of events.
func (l *Log) Len() int {
	l.mu.Lock()
	defer l.mu.Unlock()
	return len(l.events)
}

// Filter returns the events satisfying pred.
func (l *Log) Filter(pred func(Event) bool) []Event {
	var out []Event
	for _, e := range l.Events() {
		if pred(e) {
			out = append(out, e)
		}
	}
	return out
}

// Wait blocks until pred holds for some event at index >= from or the timeout expires.
func (l *Log) Wait(from int, pred func(Event) bool, timeout time.Duration) (Event, bool) {
	deadline := time.Now().Add(timeout)
	for {
		l.mu.Lock()
		for i := from; i < len(l.events); i++ {
			if pred(l.events[i]) {
				e := l.events[i]
				l.mu.Unlock()
				return e, true
			}
		}
		from = len(l.events)
		w := l.wake
		l.mu.Unlock()
		rem := time.Until(deadline)
		if rem <= 0 {
			return Event{}, false
		}
		select {
		case <-w:
		case <-time.After(rem):
		}
	}
}

// Options configures one broker.
type Options struct {
	// Cfg may adjust the default configuration (memory persistence, no API listeners).
	Cfg func(c *config.Config)
	// Hooks are user decisions; the recorder calls them after recording.
	Hooks server.Hooks
	// WS starts a websocket listener as well.
	WS bool
	// ExtraOpts are appended to the server options.
	ExtraOpts []server.Options
	// NoRecord disables the recording hooks (plugins then see nil core hooks).
	NoRecord bool
	// Delay, if set, is called inside every recorded hook (schedule perturbation).
	Delay func(kind string)
}

// Broker is a running in-process broker.
type Broker struct {
	Srv    server.Server
	Addr   string
	WSAddr string // host:port, path "/"
	Log    *Log
	Cfg    config.Config
	runErr chan error
	stopMu sync.Mutex
	stopped bool
}

type runner interface {
	server.Server
	Init(opts ...server.Options) error
	Run() error
}

func msgEvent(kind, client string, m *gmqtt.Message) Event {
	e := Event{Kind: kind, Client: client}
	if m != nil {
		e.Topic, e.Payload, e.QoS, e.Retain = m.Topic, string(m.Payload), m.QoS, m.Retained
	}
	return e
}

func cid(c server.Client) string {
	if c == nil || c.ClientOptions() == nil {
		return ""
	}
	return c.ClientOptions().ClientID
}

func errStr(err error) string {
	if err == nil {
		return ""
	}
	return err.Error()
}

// RecordingHooks builds hooks that record into l and delegate decisions to user.
func RecordingHooks(l *Log, user server.Hooks, delay func(string)) server.Hooks {
	d := func(k string) {
		if delay != nil {
			delay(k)
		}
	}
	return server.Hooks{
		OnAccept: func(ctx context.Context, conn net.Conn) bool {
			l.Add(Event{Kind: "OnAccept", Extra: conn.RemoteAddr().String()})
			d("OnAccept")
			if user.OnAccept != nil {
				return user.OnAccept(ctx, conn)
			}
			return true
		},
		OnStop: func(ctx context.Context) {
			l.Add(Event{Kind: "OnStop"})
			if user.OnStop != nil {
				user.OnStop(ctx)
			}
		},
		OnSubscribe: func(ctx context.Context, c server.Client, req *server.SubscribeRequest) error {
			l.Add(Event{Kind: "OnSubscribe", Client: cid(c)})
			d("OnSubscribe")
			if user.OnSubscribe != nil {
				return user.OnSubscribe(ctx, c, req)
			}
			return nil
		},
		OnSubscribed: func(ctx context.Context, c server.Client, s *gmqtt.Subscription) {
			l.Add(Event{Kind: "OnSubscribed", Client: cid(c), Topic: s.GetFullTopicName(), QoS: s.QoS})
			if user.OnSubscribed != nil {
				user.OnSubscribed(ctx, c, s)
			}
		},
		OnUnsubscribe: func(ctx context.Context, c server.Client, req *server.UnsubscribeRequest) error {
			l.Add(Event{Kind: "OnUnsubscribe", Client: cid(c)})
			if user.OnUnsubscribe != nil {
				return user.OnUnsubscribe(ctx, c, req)
			}
			return nil
		},
		OnUnsubscribed: func(ctx context.Context, c server.Client, topic string) {
			l.Add(Event{Kind: "OnUnsubscribed", Client: cid(c), Topic: topic})
			if user.OnUnsubscribed != nil {
				user.OnUnsubscribed(ctx, c, topic)
			}
		},
		OnMsgArrived: func(ctx context.Context, c server.Client, req *server.MsgArrivedRequest) error {
			l.Add(msgEvent("OnMsgArrived", cid(c), req.Message))
			d("OnMsgArrived")
			if user.OnMsgArrived != nil {
				return user.OnMsgArrived(ctx, c, req)
			}
			return nil
		},
		OnBasicAuth: func(ctx context.Context, c server.Client, req *server.ConnectRequest) error {
			l.Add(Event{Kind: "OnBasicAuth", Client: string(req.Connect.ClientID)})
			d("OnBasicAuth")
			if user.OnBasicAuth != nil {
				return user.OnBasicAuth(ctx, c, req)
			}
			return nil
		},
		OnEnhancedAuth: user.OnEnhancedAuth,
		OnReAuth:       user.OnReAuth,
		OnConnected: func(ctx context.Context, c server.Client) {
			l.Add(Event{Kind: "OnConnected", Client: cid(c), Ptr: c})
			d("OnConnected")
			if user.OnConnected != nil {
				user.OnConnected(ctx, c)
			}
		},
		OnSessionCreated: func(ctx context.Context, c server.Client) {
			l.Add(Event{Kind: "OnSessionCreated", Client: cid(c), Ptr: c})
			d("OnSessionCreated")
			if user.OnSessionCreated != nil {
				user.OnSessionCreated(ctx, c)
			}
		},
		OnSessionResumed: func(ctx context.Context, c server.Client) {
			l.Add(Event{Kind: "OnSessionResumed", Client: cid(c), Ptr: c})
			d("OnSessionResumed")
			if user.OnSessionResumed != nil {
				user.OnSessionResumed(ctx, c)
			}
		},
		OnSessionTerminated: func(ctx context.Context, clientID string, reason server.SessionTerminatedReason) {
			l.Add(Event{Kind: "OnSessionTerminated", Client: clientID, Extra: fmt.Sprint(reason)})
			if user.OnSessionTerminated != nil {
				user.OnSessionTerminated(ctx, clientID, reason)
			}
		},
		OnDelivered: func(ctx context.Context, c server.Client, m *gmqtt.Message) {
			l.Add(msgEvent("OnDelivered", cid(c), m))
			if user.OnDelivered != nil {
				user.OnDelivered(ctx, c, m)
			}
		},
		OnClosed: func(ctx context.Context, c server.Client, err error) {
			l.Add(Event{Kind: "OnClosed", Client: cid(c), Err: errStr(err), Ptr: c})
			d("OnClosed")
			if user.OnClosed != nil {
				user.OnClosed(ctx, c, err)
			}
		},
		OnMsgDropped: func(ctx context.Context, clientID string, m *gmqtt.Message, err error) {
			e := msgEvent("OnMsgDropped", clientID, m)
			e.Err = errStr(err)
			l.Add(e)
			if user.OnMsgDropped != nil {
				user.OnMsgDropped(ctx, clientID, m, err)
			}
		},
		OnWillPublish: func(ctx context.Context, clientID string, req *server.WillMsgRequest) {
			l.Add(msgEvent("OnWillPublish", clientID, req.Message))
			if user.OnWillPublish != nil {
				user.OnWillPublish(ctx, clientID, req)
			}
		},
		OnWillPublished: func(ctx context.Context, clientID string, m *gmqtt.Message) {
			l.Add(msgEvent("OnWillPublished", clientID, m))
			if user.OnWillPublished != nil {
				user.OnWillPublished(ctx, clientID, m)
			}
		},
	}
}

// DefaultConfig is the harness' base configuration: memory persistence, no API
// listeners, no plugins, generous limits.
func DefaultConfig() config.Config {
	c := config.DefaultConfig()
	c.Listeners = nil
	c.API = config.API{}
	c.PluginOrder = nil
	c.Log.Level = "error"
	return c
}

func freePort() (string, error) {
	l, err := net.Listen("tcp", "127.0.0.1:0")
	if err != nil {
		return "", err
	}
	a := l.Addr().String()
	l.Close()
	return a, nil
}

// Start launches a broker and waits until its listener accepts connections.
func Start(o Options) (*Broker, error) {
	cfg := DefaultConfig()
	if o.Cfg != nil {
		o.Cfg(&cfg)
	}
	ln, err := net.Listen("tcp", "127.0.0.1:0")
	if err != nil {
		return nil, err
	}
	b := &Broker{Addr: ln.Addr().String(), Log: NewLog(), Cfg: cfg, runErr: make(chan error, 1)}
	opts := []server.Options{server.WithConfig(cfg), server.WithTCPListener(ln)}
	if !o.NoRecord {
		opts = append(opts, server.WithHook(RecordingHooks(b.Log, o.Hooks, o.Delay)))
	} else {
		opts = append(opts, server.WithHook(o.Hooks))
	}
	if o.WS {
		a, err := freePort()
		if err != nil {
			return nil, err
		}
		b.WSAddr = a
		opts = append(opts, server.WithWebsocketServer(&server.WsServer{Server: &http.Server{Addr: a}, Path: "/"}))
	}
	opts = append(opts, o.ExtraOpts...)
	var srv runner = server.New(opts...)
	if err := srv.Init(); err != nil {
		ln.Close()
		return nil, fmt.Errorf("init: %w", err)
	}
	b.Srv = srv
	go func() { b.runErr <- srv.Run() }()
	// the TCP listener is already bound; wait for the websocket listener if any
	if o.WS {
		deadline := time.Now().Add(5 * time.Second)
		for {
			c, err := net.DialTimeout("tcp", b.WSAddr, 200*time.Millisecond)
			if err == nil {
				c.Close()
				break
			}
			if time.Now().After(deadline) {
				return nil, fmt.Errorf("websocket listener not up: %v", err)
			}
			time.Sleep(5 * time.Millisecond)
		}
	}
	return b, nil
}

// Stop stops the broker within timeout; returns Stop's error or a timeout error.
func (b *Broker) Stop(timeout time.Duration) error {
	b.stopMu.Lock()
	if b.stopped {
		b.stopMu.Unlock()
		return nil
	}
	b.stopped = true
	b.stopMu.Unlock()
	ctx, cancel := context.WithTimeout(context.Background(), timeout)
	defer cancel()
	done := make(chan error, 1)
	go func() { done <- b.Srv.Stop(ctx) }()
	select {
	case err := <-done:
		select {
		case <-b.runErr:
		case <-time.After(timeout):
			if err == nil {
				err = fmt.Errorf("Run did not return within %v after Stop", timeout)
			}
		}
		return err
	case <-time.After(timeout + 2*time.Second):
		return fmt.Errorf("Stop did not return within %v", timeout+2*time.Second)
	}
}

// Publish publishes through the in-process Publisher API.
func (b *Broker) Publish(topic string, payload string, qos byte, retain bool) {
	b.Srv.Publisher().Publish(&gmqtt.Message{Topic: topic, Payload: []byte(payload), QoS: qos, Retained: retain})
}

var _ = packets.Version5
