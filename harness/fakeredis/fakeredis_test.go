package fakeredis

import (
	"bufio"
	"bytes"
	"fmt"
	"io"
	"math/rand"
	"net"
	"path"
	"reflect"
	"strings"
	"sync"
	"testing"
	"time"

	"github.com/gomodule/redigo/redis"
)

// ---- helpers ----

func startServer(t testing.TB) *Server {
	t.Helper()
	s, err := Start()
	if err != nil {
		t.Fatal(err)
	}
	t.Cleanup(func() { s.Close() })
	return s
}

func dial(t testing.TB, s *Server) redis.Conn {
	t.Helper()
	c, err := redis.Dial("tcp", s.Addr())
	if err != nil {
		t.Fatal(err)
	}
	t.Cleanup(func() { c.Close() })
	return c
}

// Reply values as redigo decodes them: simple string -> string, bulk ->
// []byte, nil bulk / nil array -> nil, integer -> int64, array ->
// []interface{}, error -> redis.Error (returned as err).
type bulk = []byte

func arr(v ...interface{}) []interface{} {
	if v == nil {
		return []interface{}{}
	}
	return v
}

func bulks(s ...string) []interface{} {
	out := []interface{}{}
	for _, x := range s {
		out = append(out, bulk(x))
	}
	return out
}

// expect runs a command and requires exactly the given reply (type and value).
func expect(t testing.TB, c redis.Conn, want interface{}, cmd string, args ...interface{}) {
	t.Helper()
	got, err := c.Do(cmd, args...)
	if err != nil {
		t.Fatalf("%s %v: unexpected error %v", cmd, args, err)
	}
	if !reflect.DeepEqual(got, want) {
		t.Fatalf("%s %v: got %#v (%T), want %#v (%T)", cmd, args, got, got, want, want)
	}
}

// expectErr runs a command and requires exactly the given redis error reply.
func expectErr(t testing.TB, c redis.Conn, want string, cmd string, args ...interface{}) {
	t.Helper()
	got, err := c.Do(cmd, args...)
	re, ok := err.(redis.Error)
	if !ok {
		t.Fatalf("%s %v: got reply %#v err %v, want redis error %q", cmd, args, got, err, want)
	}
	if string(re) != want {
		t.Fatalf("%s %v: got error %q, want %q", cmd, args, string(re), want)
	}
}

const (
	wrongType = "WRONGTYPE Operation against a key holding the wrong kind of value"
	notInt    = "ERR value is not an integer or out of range"
)

func arityErr(cmd string) string {
	return "ERR wrong number of arguments for '" + cmd + "' command"
}

func allBytes() []byte {
	b := make([]byte, 256)
	for i := range b {
		b[i] = byte(i)
	}
	return b
}

// ---- raw protocol ----

// TestRawReplies checks the exact bytes on the wire for every reply kind.
func TestRawReplies(t *testing.T) {
	s := startServer(t)
	nc, err := net.Dial("tcp", s.Addr())
	if err != nil {
		t.Fatal(err)
	}
	defer nc.Close()
	req := func(args ...string) string {
		var b strings.Builder
		fmt.Fprintf(&b, "*%d\r\n", len(args))
		for _, a := range args {
			fmt.Fprintf(&b, "$%d\r\n%s\r\n", len(a), a)
		}
		return b.String()
	}
	steps := []struct{ req, want string }{
		{req("PING"), "+PONG\r\n"},
		{req("ping", "x\r\ny"), "$4\r\nx\r\ny\r\n"},
		{req("SELECT", "3"), "+OK\r\n"},
		{req("HGETALL", "nokey"), "*0\r\n"},
		{req("HGET", "nokey", "f"), "$-1\r\n"},
		{req("HMGET", "nokey", "a", "b"), "*2\r\n$-1\r\n$-1\r\n"},
		{req("hSeT", "h", "a", "1", "b", ""), ":2\r\n"},
		{req("HMGET", "h", "a", "x", "b"), "*3\r\n$1\r\n1\r\n$-1\r\n$0\r\n\r\n"},
		{req("HGETALL", "h"), "*4\r\n$1\r\na\r\n$1\r\n1\r\n$1\r\nb\r\n$0\r\n\r\n"},
		{req("LRANGE", "nokey", "0", "-1"), "*0\r\n"},
		{req("LINDEX", "nokey", "0"), "$-1\r\n"},
		{req("RPUSH", "l", "x", "y"), ":2\r\n"},
		{req("LSET", "l", "0", "z"), "+OK\r\n"},
		{req("LRANGE", "l", "0", "-1"), "*2\r\n$1\r\nz\r\n$1\r\ny\r\n"},
		{req("LLEN", "l"), ":2\r\n"},
		{req("SCAN", "0", "MATCH", "nomatch*"), "*2\r\n$1\r\n0\r\n*0\r\n"},
		{req("SCAN", "0"), "*2\r\n$1\r\n0\r\n*2\r\n$1\r\nh\r\n$1\r\nl\r\n"},
		{req("TYPE", "h"), "+hash\r\n"},
		{req("HGET", "l", "f"), "-WRONGTYPE Operation against a key holding the wrong kind of value\r\n"},
		{req("NoSuch\r\nCmd", "a"), "-ERR unknown command 'NoSuch  Cmd'\r\n"},
		{req("hGet", "h"), "-ERR wrong number of arguments for 'hget' command\r\n"},
		{"*0\r\n" + "*-1\r\n" + req("ECHO", ""), "$0\r\n\r\n"}, // empty multibulks are ignored
		{req("DEL", "h", "l", "nokey"), ":2\r\n"},
		{req("FLUSHALL"), "+OK\r\n"},
		{req("QUIT"), "+OK\r\n"},
	}
	br := bufio.NewReader(nc)
	for _, st := range steps {
		if _, err := io.WriteString(nc, st.req); err != nil {
			t.Fatal(err)
		}
		got := make([]byte, len(st.want))
		nc.SetReadDeadline(time.Now().Add(5 * time.Second))
		if _, err := io.ReadFull(br, got); err != nil {
			t.Fatalf("%q: read: %v (got %q)", st.req, err, got)
		}
		if string(got) != st.want {
			t.Fatalf("%q: got %q, want %q", st.req, got, st.want)
		}
		if br.Buffered() != 0 {
			rest, _ := br.Peek(br.Buffered())
			t.Fatalf("%q: unexpected extra reply bytes %q", st.req, rest)
		}
	}
	// QUIT closes the connection after its reply.
	nc.SetReadDeadline(time.Now().Add(5 * time.Second))
	if _, err := br.ReadByte(); err != io.EOF {
		t.Fatalf("after QUIT: got %v, want EOF", err)
	}
}

func TestProtocolErrors(t *testing.T) {
	s := startServer(t)
	for _, tc := range []struct{ send, wantPrefix string }{
		{"PING\r\n", "-ERR Protocol error: expected '*', got 'P'"},
		{"*1\r\n+PING\r\n", "-ERR Protocol error: expected '$', got '+'\r\n"},
		{"*x\r\n", "-ERR Protocol error: invalid multibulk length\r\n"},
		{"*1\r\n$-5\r\n", "-ERR Protocol error: invalid bulk length\r\n"},
		{"*1\r\n$4\r\nPINGxx", "-ERR Protocol error: bulk string not terminated by CRLF\r\n"},
	} {
		nc, err := net.Dial("tcp", s.Addr())
		if err != nil {
			t.Fatal(err)
		}
		io.WriteString(nc, tc.send)
		nc.SetReadDeadline(time.Now().Add(5 * time.Second))
		got, err := io.ReadAll(nc) // server replies and closes
		if err != nil {
			t.Fatalf("%q: %v", tc.send, err)
		}
		if !strings.HasPrefix(string(got), tc.wantPrefix) || !strings.HasSuffix(string(got), "\r\n") || strings.Count(string(got), "\n") != 1 {
			t.Fatalf("%q: got %q, want prefix %q", tc.send, got, tc.wantPrefix)
		}
		nc.Close()
	}
	if n := s.JournalLen(); n != 0 {
		t.Fatalf("journal len %d", n)
	}
}

// ---- commands via redigo ----

func TestConnectionCommands(t *testing.T) {
	s := startServer(t)
	c := dial(t, s)
	expect(t, c, "PONG", "PING")
	expect(t, c, "PONG", "ping")
	expect(t, c, bulk("hello"), "PING", "hello")
	expectErr(t, c, arityErr("ping"), "PING", "a", "b")
	expect(t, c, bulk("x y"), "ECHO", "x y")
	expectErr(t, c, arityErr("echo"), "ECHO")
	expect(t, c, "OK", "AUTH", "secret")
	expect(t, c, "OK", "AUTH", "user", "secret")
	expectErr(t, c, arityErr("auth"), "AUTH")
	expect(t, c, "OK", "SELECT", 0)
	expect(t, c, "OK", "SELECT", 7)
	expectErr(t, c, "ERR invalid DB index", "SELECT", "x")
	expectErr(t, c, "ERR DB index is out of range", "SELECT", -1)
	expectErr(t, c, arityErr("select"), "SELECT")
	expectErr(t, c, "ERR unknown command 'SET'", "SET", "k", "v")
	expectErr(t, c, "ERR unknown command 'foo'", "foo")

	// SELECT is ignored: all databases share one keyspace.
	expect(t, c, int64(1), "RPUSH", "k", "v")
	expect(t, c, "OK", "SELECT", 5)
	expect(t, c, int64(1), "LLEN", "k")

	// Dialling the way the broker does (AUTH + SELECT options) works too.
	c2, err := redis.Dial("tcp", s.Addr(), redis.DialPassword("pw"), redis.DialDatabase(2))
	if err != nil {
		t.Fatal(err)
	}
	defer c2.Close()
	expect(t, c2, int64(1), "LLEN", "k")

	st := s.Stats()
	if st["PING"] != 3 || st["SELECT"] != 6 || st["AUTH"] != 3 || st["LLEN"] != 2 || st["RPUSH"] != 1 || st["SET"] != 0 {
		t.Fatalf("stats: %v", st)
	}
}

func TestHashCommands(t *testing.T) {
	s := startServer(t)
	c := dial(t, s)

	expect(t, c, arr(), "HGETALL", "h")
	expect(t, c, arr(nil, nil), "HMGET", "h", "a", "b")
	expect(t, c, nil, "HGET", "h", "a")
	expect(t, c, int64(0), "HLEN", "h")
	expect(t, c, int64(0), "HDEL", "h", "a")
	expect(t, c, int64(0), "EXISTS", "h")

	expect(t, c, int64(3), "HSET", "h", "c", "3", "a", "1", "b", "2")
	expect(t, c, int64(1), "HSET", "h", "a", "one", "d", "4") // 1 new, 1 updated
	expect(t, c, int64(0), "HSET", "h", "a", "uno")
	expect(t, c, int64(1), "HSET", "h", "e", "5", "e", "55") // duplicate field in one call
	expect(t, c, int64(5), "HLEN", "h")
	expect(t, c, bulk("uno"), "HGET", "h", "a")
	expect(t, c, nil, "HGET", "h", "zz")
	expect(t, c, arr(bulk("uno"), nil, bulk("2"), bulk("uno")), "HMGET", "h", "a", "zz", "b", "a")
	// insertion order; updates keep their position
	expect(t, c, bulks("c", "3", "a", "uno", "b", "2", "d", "4", "e", "55"), "HGETALL", "h")
	expect(t, c, "hash", "TYPE", "h")
	expect(t, c, int64(1), "EXISTS", "h")

	expect(t, c, int64(2), "HDEL", "h", "a", "zz", "d", "a")
	expect(t, c, bulks("c", "3", "b", "2", "e", "55"), "HGETALL", "h")
	expect(t, c, int64(1), "HSET", "h", "a", "again") // re-added fields go to the end
	expect(t, c, bulks("c", "3", "b", "2", "e", "55", "a", "again"), "HGETALL", "h")
	expect(t, c, int64(4), "HDEL", "h", "a", "b", "c", "e")
	expect(t, c, int64(0), "EXISTS", "h") // empty hash => key removed
	expect(t, c, "none", "TYPE", "h")
	expect(t, c, arr(), "KEYS", "*")

	// integer arguments as the broker sends them (unack store: HSET key id 1)
	expect(t, c, int64(1), "HSET", "u", 17, 1)
	expect(t, c, bulks("17", "1"), "HGETALL", "u")

	// arity
	expectErr(t, c, arityErr("hset"), "HSET", "h")
	expectErr(t, c, arityErr("hset"), "HSET", "h", "f")
	expectErr(t, c, arityErr("hset"), "hset", "h", "f", "v", "g")
	expectErr(t, c, arityErr("hmget"), "HMGET", "h")
	expectErr(t, c, arityErr("hgetall"), "HGETALL")
	expectErr(t, c, arityErr("hgetall"), "HGETALL", "a", "b")
	expectErr(t, c, arityErr("hdel"), "HDEL", "h")
	expectErr(t, c, arityErr("hget"), "HGET", "h")
	expectErr(t, c, arityErr("hlen"), "HLEN")

	// wrong type
	expect(t, c, int64(1), "RPUSH", "l", "x")
	expectErr(t, c, wrongType, "HSET", "l", "f", "v")
	expectErr(t, c, wrongType, "HGET", "l", "f")
	expectErr(t, c, wrongType, "HMGET", "l", "f")
	expectErr(t, c, wrongType, "HGETALL", "l")
	expectErr(t, c, wrongType, "HDEL", "l", "f")
	expectErr(t, c, wrongType, "HLEN", "l")
	expect(t, c, bulks("x"), "LRANGE", "l", 0, -1) // untouched
}

func TestListCommands(t *testing.T) {
	s := startServer(t)
	c := dial(t, s)

	expect(t, c, int64(0), "LLEN", "l")
	expect(t, c, arr(), "LRANGE", "l", 0, -1)
	expect(t, c, nil, "LINDEX", "l", 0)
	expect(t, c, int64(0), "LREM", "l", 0, "x")
	expectErr(t, c, "ERR no such key", "LSET", "l", 0, "x")

	expect(t, c, int64(1), "RPUSH", "l", "a")
	expect(t, c, int64(3), "RPUSH", "l", "b", "c")
	expect(t, c, int64(3), "LLEN", "l")
	expect(t, c, "list", "TYPE", "l")
	expect(t, c, bulk("a"), "LINDEX", "l", 0)
	expect(t, c, bulk("c"), "LINDEX", "l", -1)
	expect(t, c, bulk("a"), "LINDEX", "l", -3)
	expect(t, c, nil, "LINDEX", "l", 3)
	expect(t, c, nil, "LINDEX", "l", -4)
	expectErr(t, c, notInt, "LINDEX", "l", "x")

	expect(t, c, int64(2), "RPUSH", "l2", "x", "y")
	expect(t, c, int64(2), "EXISTS", "l", "l2", "nokey")
	expect(t, c, int64(3), "EXISTS", "l", "l", "l2")
	expect(t, c, bulks("l", "l2"), "KEYS", "*")
	expect(t, c, int64(2), "DEL", "l", "nokey", "l2", "l")
	expect(t, c, int64(0), "DEL", "l")
	expect(t, c, arr(), "KEYS", "*")

	// non-integer arguments
	expect(t, c, int64(1), "RPUSH", "l", "a")
	for _, bad := range []string{"x", "", "1.0", " 1", "1 ", "+1", "01", "-0", "9223372036854775808", "0x10"} {
		expectErr(t, c, notInt, "LRANGE", "l", bad, 1)
		expectErr(t, c, notInt, "LRANGE", "l", 0, bad)
		expectErr(t, c, notInt, "LREM", "l", bad, "a")
		expectErr(t, c, notInt, "LSET", "l", bad, "a")
	}
	expectErr(t, c, notInt, "LRANGE", "nokey", "x", 1) // parsed before the key lookup
	expectErr(t, c, notInt, "LREM", "nokey", "x", "a")
	expectErr(t, c, "ERR no such key", "LSET", "nokey", "x", "a") // key lookup before parsing

	// arity
	expectErr(t, c, arityErr("rpush"), "RPUSH", "l")
	expectErr(t, c, arityErr("llen"), "LLEN")
	expectErr(t, c, arityErr("lrange"), "LRANGE", "l", 0)
	expectErr(t, c, arityErr("lrange"), "LRANGE", "l", 0, 1, 2)
	expectErr(t, c, arityErr("lrem"), "LREM", "l", 0)
	expectErr(t, c, arityErr("lset"), "LSET", "l", 0)
	expectErr(t, c, arityErr("lindex"), "LINDEX", "l")
	expectErr(t, c, arityErr("del"), "DEL")
	expectErr(t, c, arityErr("exists"), "EXISTS")
	expectErr(t, c, arityErr("type"), "TYPE")
	expectErr(t, c, arityErr("keys"), "KEYS")
	expectErr(t, c, arityErr("scan"), "SCAN")

	// wrong type
	expect(t, c, int64(1), "HSET", "h", "f", "v")
	expectErr(t, c, wrongType, "RPUSH", "h", "x")
	expectErr(t, c, wrongType, "LLEN", "h")
	expectErr(t, c, wrongType, "LRANGE", "h", 0, -1)
	expectErr(t, c, wrongType, "LINDEX", "h", 0)
	expectErr(t, c, wrongType, "LREM", "h", 0, "x")
	expectErr(t, c, wrongType, "LSET", "h", 0, "x")
	expectErr(t, c, wrongType, "LSET", "h", "notint", "x") // type check before parsing
	expect(t, c, bulks("f", "v"), "HGETALL", "h")          // untouched
	expect(t, c, int64(1), "DEL", "h")                     // DEL works on any type

	// FLUSHALL / FLUSHDB
	expect(t, c, int64(1), "HSET", "h", "f", "v")
	expect(t, c, "OK", "FLUSHDB")
	expect(t, c, arr(), "KEYS", "*")
	expect(t, c, int64(1), "HSET", "h", "f", "v")
	expect(t, c, "OK", "FLUSHALL", "async")
	expect(t, c, arr(), "KEYS", "*")
	expect(t, c, "OK", "FLUSHALL", "SYNC")
	expectErr(t, c, "ERR syntax error", "FLUSHALL", "now")
	expectErr(t, c, "ERR syntax error", "FLUSHDB", "sync", "sync")
}

func resetList(t *testing.T, c redis.Conn, key string, elems string) {
	t.Helper()
	if _, err := c.Do("DEL", key); err != nil {
		t.Fatal(err)
	}
	for _, e := range strings.Fields(elems) {
		if _, err := c.Do("RPUSH", key, e); err != nil {
			t.Fatal(err)
		}
	}
}

// TestLRangeTable checks LRANGE against the behaviour documented at
// https://redis.io/commands/lrange (negative indexes count from the tail,
// out-of-range indexes are clamped and never an error, start > stop or start
// beyond the end gives an empty list, stop is inclusive).
func TestLRangeTable(t *testing.T) {
	s := startServer(t)
	c := dial(t, s)
	resetList(t, c, "l", "a b c d e")
	for _, tc := range []struct {
		start, stop int
		want        string
	}{
		{0, -1, "a b c d e"},
		{0, 0, "a"},
		{0, 4, "a b c d e"},
		{0, 5, "a b c d e"},
		{0, 100, "a b c d e"},
		{-100, 100, "a b c d e"},
		{-100, -100, ""},
		{-100, 0, "a"},
		{-100, -5, "a"},
		{-100, -6, ""},
		{1, 3, "b c d"},
		{1, -2, "b c d"},
		{-3, 2, "c"},
		{-3, -1, "c d e"},
		{-1, -1, "e"},
		{4, 4, "e"},
		{4, 100, "e"},
		{5, 5, ""},
		{5, 10, ""},
		{100, 200, ""},
		{3, 1, ""},
		{-2, -3, ""},
		{0, -6, ""},
		{2, 100, "c d e"},
		{-5, -5, "a"},
		{-6, -5, "a"},
	} {
		expect(t, c, bulks(strings.Fields(tc.want)...), "LRANGE", "l", tc.start, tc.stop)
	}
	// The ranges the broker's queue store issues: LRANGE key 0 len, LRANGE key cur cur+n-1.
	expect(t, c, bulks("a", "b", "c", "d", "e"), "LRANGE", "l", 0, 5)
	expect(t, c, bulks("c", "d"), "LRANGE", "l", 2, 3)
	expect(t, c, arr(), "LRANGE", "l", 2, 1) // cur+0-1
	expect(t, c, arr(), "LRANGE", "l", 0, -6)
}

// TestLRemTable checks LREM against https://redis.io/commands/lrem: count > 0
// removes head to tail, count < 0 tail to head, count = 0 all; the reply is the
// number of removed elements; a list that becomes empty is deleted.
func TestLRemTable(t *testing.T) {
	s := startServer(t)
	c := dial(t, s)
	for _, tc := range []struct {
		list    string
		count   int
		val     string
		removed int64
		want    string
	}{
		{"a b a c a b", 1, "a", 1, "b a c a b"},
		{"a b a c a b", 2, "a", 2, "b c a b"},
		{"a b a c a b", 3, "a", 3, "b c b"},
		{"a b a c a b", 5, "a", 3, "b c b"},
		{"a b a c a b", -1, "a", 1, "a b a c b"},
		{"a b a c a b", -2, "a", 2, "a b c b"},
		{"a b a c a b", -3, "a", 3, "b c b"},
		{"a b a c a b", -9, "a", 3, "b c b"},
		{"a b a c a b", 0, "a", 3, "b c b"},
		{"a b a c a b", 0, "b", 2, "a a c a"},
		{"a b a c a b", -1, "b", 1, "a b a c a"},
		{"a b a c a b", 1, "b", 1, "a a c a b"},
		{"a b a c a b", 1, "c", 1, "a b a a b"},
		{"a b a c a b", 1, "z", 0, "a b a c a b"},
		{"a b a c a b", 0, "z", 0, "a b a c a b"},
		{"a b a c a b", -1, "z", 0, "a b a c a b"},
		{"a b a c a b", 1, "", 0, "a b a c a b"},
		{"a a a", 0, "a", 3, ""},
		{"a a a", 3, "a", 3, ""},
		{"a a a", -3, "a", 3, ""},
		{"a a a", 2, "a", 2, "a"},
		{"a", 1, "a", 1, ""},
		{"hello hello foo hello", -2, "hello", 2, "hello foo"}, // the example from the redis docs
	} {
		resetList(t, c, "l", tc.list)
		expect(t, c, tc.removed, "LREM", "l", tc.count, tc.val)
		expect(t, c, bulks(strings.Fields(tc.want)...), "LRANGE", "l", 0, -1)
		wantExists := int64(1)
		if tc.want == "" {
			wantExists = 0
		}
		expect(t, c, wantExists, "EXISTS", "l")
	}
	// After a list was emptied by LREM the key is free for another type.
	resetList(t, c, "l", "a")
	expect(t, c, int64(1), "LREM", "l", 1, "a")
	expect(t, c, "none", "TYPE", "l")
	expect(t, c, int64(1), "HSET", "l", "f", "v")
}

// TestLSetTable checks LSET against https://redis.io/commands/lset ("an error
// is returned for out of range indexes"; negative indexes as for LINDEX).
func TestLSetTable(t *testing.T) {
	s := startServer(t)
	c := dial(t, s)
	for _, tc := range []struct {
		idx     int
		wantErr string
		want    string
	}{
		{0, "", "X b c"},
		{1, "", "a X c"},
		{2, "", "a b X"},
		{-1, "", "a b X"},
		{-2, "", "a X c"},
		{-3, "", "X b c"},
		{3, "ERR index out of range", "a b c"},
		{-4, "ERR index out of range", "a b c"},
		{100, "ERR index out of range", "a b c"},
		{-100, "ERR index out of range", "a b c"},
	} {
		resetList(t, c, "l", "a b c")
		if tc.wantErr == "" {
			expect(t, c, "OK", "LSET", "l", tc.idx, "X")
		} else {
			expectErr(t, c, tc.wantErr, "LSET", "l", tc.idx, "X")
		}
		expect(t, c, bulks(strings.Fields(tc.want)...), "LRANGE", "l", 0, -1)
	}
	expectErr(t, c, "ERR no such key", "LSET", "nokey", 0, "X")
	expect(t, c, int64(0), "EXISTS", "nokey")
}

func TestBinarySafe(t *testing.T) {
	s := startServer(t)
	c := dial(t, s)
	all := allBytes()
	crlf := []byte("a\r\nb\r\n$3\r\n*1\r\n")
	nul := []byte{0, 0, 0}
	empty := []byte{}
	key := append([]byte("k\r\n\x00"), all...)

	expect(t, c, int64(4), "HSET", key, all, crlf, crlf, all, nul, empty, empty, nul)
	expect(t, c, arr(bulk(crlf), bulk(all), bulk(empty), bulk(nul), nil), "HMGET", key, all, crlf, nul, empty, "x")
	expect(t, c, arr(bulk(all), bulk(crlf), bulk(crlf), bulk(all), bulk(nul), bulk(empty), bulk(empty), bulk(nul)), "HGETALL", key)
	expect(t, c, arr(bulk(key)), "KEYS", "*")
	expect(t, c, int64(1), "HDEL", key, crlf)
	expect(t, c, int64(3), "HLEN", key)
	expect(t, c, int64(1), "DEL", key)

	expect(t, c, int64(5), "RPUSH", key, all, crlf, nul, empty, all)
	expect(t, c, arr(bulk(all), bulk(crlf), bulk(nul), bulk(empty), bulk(all)), "LRANGE", key, 0, -1)
	expect(t, c, int64(1), "LREM", key, -1, all)
	expect(t, c, int64(1), "LREM", key, 1, empty)
	expect(t, c, "OK", "LSET", key, 1, append(append([]byte{}, crlf...), all...))
	expect(t, c, arr(bulk(all), bulk(append(append([]byte{}, crlf...), all...)), bulk(nul)), "LRANGE", key, 0, -1)
	expect(t, c, bulk(nul), "LINDEX", key, -1)
	expect(t, c, bulk(all), "ECHO", all)
	expect(t, c, bulk(crlf), "PING", crlf)

	// a value of 1 MiB
	big := bytes.Repeat(all, 4096)
	expect(t, c, int64(1), "HSET", "big", "f", big)
	expect(t, c, bulk(big), "HGET", "big", "f")

	// The journal holds the arguments verbatim.
	j := s.Journal()
	if got := j[0].Args; string(got[0]) != "HSET" || !bytes.Equal(got[1], key) || !bytes.Equal(got[2], all) || !bytes.Equal(got[3], crlf) || !bytes.Equal(got[7], empty) || len(got) != 10 {
		t.Fatalf("journal[0] = %q", got)
	}
}

func TestPipelining(t *testing.T) {
	s := startServer(t)
	c := dial(t, s)
	// What the broker's queue store does: lrem + rpush in one flush.
	send := func(cmd string, args ...interface{}) {
		t.Helper()
		if err := c.Send(cmd, args...); err != nil {
			t.Fatal(err)
		}
	}
	send("RPUSH", "q", "m1", "m2")
	send("LREM", "q", 1, "m1")
	send("RPUSH", "q", "m3")
	send("HGET", "q", "f") // an error reply in the middle of a pipeline
	send("LRANGE", "q", 0, -1)
	send("HGETALL", "nokey")
	send("HGET", "nokey", "f")
	send("PING")
	if err := c.Flush(); err != nil {
		t.Fatal(err)
	}
	want := []interface{}{int64(2), int64(1), int64(2), redis.Error(wrongType), bulks("m2", "m3"), arr(), nil, "PONG"}
	for i, w := range want {
		got, err := c.Receive()
		if e, ok := w.(redis.Error); ok {
			if err != e {
				t.Fatalf("reply %d: got %v / %v, want error %v", i, got, err, e)
			}
			continue
		}
		if err != nil || !reflect.DeepEqual(got, w) {
			t.Fatalf("reply %d: got %#v / %v, want %#v", i, got, err, w)
		}
	}
	// Do() after Send() flushes and returns the last reply.
	send("RPUSH", "q", "m4")
	expect(t, c, int64(3), "LLEN", "q")
}

// TestLargePipeline sends far more pipelined data than the socket buffers hold
// before reading the first reply; the server must keep reading (it buffers
// replies like redis does) instead of deadlocking.
func TestLargePipeline(t *testing.T) {
	s := startServer(t)
	c := dial(t, s)
	const n = 100000
	payload := strings.Repeat("x", 100)
	errc := make(chan error, 1)
	go func() {
		for i := 0; i < n; i++ {
			if err := c.Send("ECHO", payload); err != nil {
				errc <- err
				return
			}
		}
		errc <- c.Flush()
	}()
	select {
	case err := <-errc:
		if err != nil {
			t.Fatal(err)
		}
	case <-time.After(60 * time.Second):
		t.Fatal("deadlock: server stopped reading a large pipeline")
	}
	for i := 0; i < n; i++ {
		got, err := redis.String(c.Receive())
		if err != nil || got != payload {
			t.Fatalf("reply %d: %q %v", i, got, err)
		}
	}
}

func TestScanAndKeys(t *testing.T) {
	s := startServer(t)
	c := dial(t, s)
	keys := []string{
		"session:c1", "session:c2", "session:", "session:a*b", "session:a?b", "session:a[b", "session:a\\b",
		"session:\r\n", "session:\x00x", "sub:c1", "queue:c1", "Session:c1", "sessio", "*", "?", "[x]",
	}
	for i, k := range keys {
		if i%2 == 0 {
			expect(t, c, int64(1), "HSET", k, "f", "v")
		} else {
			expect(t, c, int64(1), "RPUSH", k, "v")
		}
	}
	scan := func(args ...interface{}) []string {
		t.Helper()
		rep, err := redis.Values(c.Do("SCAN", args...))
		if err != nil {
			t.Fatalf("SCAN %v: %v", args, err)
		}
		if len(rep) != 2 || !reflect.DeepEqual(rep[0], bulk("0")) {
			t.Fatalf("SCAN %v: reply %#v", args, rep)
		}
		ks, err := redis.Strings(rep[1], nil)
		if err != nil {
			t.Fatal(err)
		}
		kk, err := redis.Strings(c.Do("KEYS", "*"))
		if err != nil {
			t.Fatal(err)
		}
		if len(kk) != len(keys) {
			t.Fatalf("KEYS *: %q", kk)
		}
		return ks
	}
	sorted := func(in ...string) []string {
		out := append([]string{}, in...)
		for i := range out {
			for j := i + 1; j < len(out); j++ {
				if out[j] < out[i] {
					out[i], out[j] = out[j], out[i]
				}
			}
		}
		return out
	}
	check := func(want []string, args ...interface{}) {
		t.Helper()
		got := scan(args...)
		if !reflect.DeepEqual(got, sorted(want...)) {
			t.Fatalf("SCAN %q: got %q, want %q", args, got, sorted(want...))
		}
		// KEYS uses the same matcher.
		for i := 1; i+1 < len(args); i += 2 {
			if strings.EqualFold(fmt.Sprint(args[i]), "match") && len(args) == 3 {
				kk, err := redis.Strings(c.Do("KEYS", args[i+1]))
				if err != nil || !reflect.DeepEqual(kk, got) {
					t.Fatalf("KEYS %q: got %q %v, want %q", args[i+1], kk, err, got)
				}
			}
		}
	}
	sess := keys[:9]
	check(keys, 0)
	check(keys, "0", "COUNT", 1)
	check(keys, 0, "MATCH", "*")
	check(sess, 0, "MATCH", "session:*") // what the broker sends
	check(sess, 0, "match", "session:*", "count", 1000)
	check([]string{"session:c1", "session:c2"}, 0, "MATCH", "session:c?")
	check([]string{"session:c1", "session:c2"}, 0, "MATCH", "session:c[0-9]")
	check([]string{"session:c2"}, 0, "MATCH", "session:c[^1]")
	check([]string{"session:c1", "sub:c1", "queue:c1", "Session:c1"}, 0, "MATCH", "*:c1")
	check([]string{"session:c1", "Session:c1"}, 0, "MATCH", "[sS]ession:c1")
	check([]string{"session:a*b"}, 0, "MATCH", "session:a\\*b")
	check([]string{"session:a*b", "session:a?b", "session:a[b", "session:a\\b"}, 0, "MATCH", "session:a?b")
	check([]string{"session:a?b"}, 0, "MATCH", "session:a\\?b")
	check([]string{"session:a[b"}, 0, "MATCH", "session:a\\[b")
	check([]string{"session:a[b"}, 0, "MATCH", "session:a[[]b")
	check([]string{"session:a\\b"}, 0, "MATCH", "session:a\\\\b")
	check([]string{"session:\r\n"}, 0, "MATCH", "session:\r\n")
	check([]string{"session:\r\n", "session:\x00x", "session:c1", "session:c2"}, 0, "MATCH", "session:??")
	check([]string{"session:\x00x"}, 0, "MATCH", "session:\x00*")
	check([]string{"session:"}, 0, "MATCH", "session:")
	check([]string{"*"}, 0, "MATCH", "\\*")
	check([]string{"*", "?"}, 0, "MATCH", "?")
	check([]string{"[x]"}, 0, "MATCH", "\\[x\\]")
	check([]string{"[x]"}, 0, "MATCH", "[[]x]")
	check(nil, 0, "MATCH", "nomatch*")
	check(nil, 0, "MATCH", "")
	check([]string{"session:c1", "session:", "session:a?b", "session:a\\b", "session:\x00x"}, 0, "MATCH", "session:*", "TYPE", "hash")
	check([]string{"sub:c1"}, 0, "TYPE", "list", "MATCH", "sub*")
	check(nil, 0, "TYPE", "string")
	check(nil, 7) // the iteration always completes at cursor 0, so any other cursor is past the end

	expectErr(t, c, "ERR invalid cursor", "SCAN", "x")
	expectErr(t, c, "ERR invalid cursor", "SCAN", -1)
	expectErr(t, c, "ERR syntax error", "SCAN", 0, "MATCH")
	expectErr(t, c, "ERR syntax error", "SCAN", 0, "FOO", "bar")
	expectErr(t, c, "ERR syntax error", "SCAN", 0, "COUNT", 0)
	expectErr(t, c, notInt, "SCAN", 0, "COUNT", "x")
	if s.JournalLen() != len(keys) {
		t.Fatalf("read-only commands were journalled: %d", s.JournalLen())
	}
}

func TestGlobMatch(t *testing.T) {
	for _, tc := range []struct {
		pat, s string
		want   bool
	}{
		{"", "", true},
		{"", "a", false},
		{"a", "", false},
		{"a", "a", true},
		{"a", "A", false},
		{"a*", "a", true},
		{"a*", "abc", true},
		{"a**", "a", true},
		{"*a", "bca", true},
		{"*a", "bcab", false},
		{"a*b*c", "aXXbYYc", true},
		{"a*b*c", "aXXbYY", false},
		{"a*b*c", "abcbc", true},
		{"*", "anything", true},
		{"***", "anything", true},
		{"?", "a", true},
		{"?", "", false},
		{"?", "ab", false},
		{"a?c", "abc", true},
		{"[abc]", "b", true},
		{"[abc]", "d", false},
		{"[^abc]", "d", true},
		{"[^abc]", "a", false},
		{"[a-c]x", "bx", true},
		{"[c-a]x", "bx", true}, // reversed range is swapped
		{"[a-c]x", "dx", false},
		{"[a\\-c]", "-", true},
		{"[a\\-c]", "b", false},
		{"[\\]]", "]", true},
		{"[abc", "b", true}, // unterminated class
		{"[abc", "d", false},
		{"\\a", "a", true},
		{"\\*", "*", true},
		{"\\*", "a", false},
		{"a\\", "a\\", true}, // trailing backslash is literal
		{"h[^e]llo", "hallo", true},
		{"h[^e]llo", "hello", false},
		{"h[a-b]llo", "hbllo", true},
		{"\xff*", "\xff\x00", true},
		// redis quirk kept on purpose: the matcher never matches an empty string
		// against a non-empty pattern (KEYS/SCAN special-case the pattern "*").
		{"*", "", false},
	} {
		if got := globMatch([]byte(tc.pat), []byte(tc.s)); got != tc.want {
			t.Errorf("globMatch(%q, %q) = %v, want %v", tc.pat, tc.s, got, tc.want)
		}
	}
	if !matchKey([]byte("*"), "") {
		t.Error(`matchKey("*", "") = false`)
	}
	// pathological pattern (CVE-2022-36021) must terminate quickly
	start := time.Now()
	if globMatch([]byte(strings.Repeat("a*", 30)+"b"), []byte(strings.Repeat("a", 200))) {
		t.Error("pathological pattern matched")
	}
	if d := time.Since(start); d > 2*time.Second {
		t.Errorf("pathological pattern took %v", d)
	}
}

// TestGlobMatchDifferential compares the matcher with the independent
// implementation in package path on random well-formed patterns (path.Match
// rejects malformed ones, which are skipped; it treats '/' specially, which is
// not in the alphabet; and unlike redis it matches "*" against "", so subjects
// are non-empty).
func TestGlobMatchDifferential(t *testing.T) {
	r := rand.New(rand.NewSource(42))
	const palpha, salpha = "ab*?[]^-\\c", "abc-^]*?[\\"
	compared := 0
	for i := 0; i < 300000; i++ {
		pat := make([]byte, r.Intn(8))
		for j := range pat {
			pat[j] = palpha[r.Intn(len(palpha))]
		}
		sub := make([]byte, 1+r.Intn(5))
		for j := range sub {
			sub[j] = salpha[r.Intn(len(salpha))]
		}
		want, err := path.Match(string(pat), string(sub))
		if err != nil {
			continue
		}
		reversed := false // redis swaps the bounds of a reversed range like [z-a], path.Match does not
		for j := 1; j+1 < len(pat); j++ {
			if pat[j] == '-' && pat[j-1] > pat[j+1] {
				reversed = true
			}
		}
		if reversed {
			continue
		}
		compared++
		if got := globMatch(pat, sub); got != want {
			t.Fatalf("globMatch(%q, %q) = %v, path.Match = %v", pat, sub, got, want)
		}
	}
	if compared < 50000 {
		t.Fatalf("only %d comparable cases", compared)
	}
}

// ---- journal ----

func TestJournalContents(t *testing.T) {
	s := startServer(t)
	c := dial(t, s)
	type obs struct {
		pos, conn int
		name      string
	}
	var seen []obs
	s.OnCommand(func(pos, conn int, args [][]byte) {
		seen = append(seen, obs{pos, conn, string(args[0])})
		if pos != 0 && pos != s.JournalLen() { // hooks may call back into the server
			t.Errorf("observer: pos %d, JournalLen %d", pos, s.JournalLen())
		}
	})
	c.Do("ping")
	c.Do("hset", "h", "f", "v")      // 1
	c.Do("HSET", "h", "f", "v")      // 2: no-op, still journalled
	c.Do("hget", "h", "f")           // read-only
	c.Do("rpush", "h", "x")          // 3: WRONGTYPE, journalled
	c.Do("lset", "nokey", 0, "x")    // 4: error, journalled
	c.Do("lset", "nokey")            // arity error: not journalled
	c.Do("hset", "h", "f", "v", "g") // arity error (odd pairs): not journalled
	c.Do("nosuchcommand", "h")       // unknown: not journalled
	c.Do("Del", "nokey")             // 5: no-op
	c.Do("lrem", "nokey", "x", "y")  // 6: not-an-integer error, journalled
	c.Do("hdel", "h", "zz")          // 7
	c.Do("rpush", "l", "a", "b")     // 8
	c.Do("lrange", "l", 0, -1)       // read-only
	c.Do("scan", 0)                  // read-only
	c.Do("flushdb")                  // 9
	c.Do("FLUSHALL")                 // 10
	c.Do("flushall", "bogus")        // 11: syntax error, journalled (harmless no-op on replay)
	c.Do("select", 1)                // read-only
	s.OnCommand(nil)
	c.Do("hset", "h2", "f", "v") // 12, not observed

	want := []string{
		"HSET h f v", "HSET h f v", "RPUSH h x", "LSET nokey 0 x", "DEL nokey", "LREM nokey x y",
		"HDEL h zz", "RPUSH l a b", "FLUSHDB", "FLUSHALL", "FLUSHALL bogus", "HSET h2 f v",
	}
	j := s.Journal()
	if len(j) != len(want) || s.JournalLen() != len(want) {
		t.Fatalf("journal has %d entries, want %d: %v", len(j), len(want), j)
	}
	for i, cmd := range j {
		if got := string(bytes.Join(cmd.Args, []byte(" "))); got != want[i] || cmd.Pos != i+1 || cmd.Conn != 1 {
			t.Errorf("journal[%d] = {%d %d %q}, want {%d 1 %q}", i, cmd.Pos, cmd.Conn, got, i+1, want[i])
		}
	}
	wantSeen := []obs{
		{0, 1, "PING"}, {1, 1, "HSET"}, {2, 1, "HSET"}, {0, 1, "HGET"}, {3, 1, "RPUSH"}, {4, 1, "LSET"},
		{5, 1, "DEL"}, {6, 1, "LREM"}, {7, 1, "HDEL"}, {8, 1, "RPUSH"}, {0, 1, "LRANGE"}, {0, 1, "SCAN"},
		{9, 1, "FLUSHDB"}, {10, 1, "FLUSHALL"}, {11, 1, "FLUSHALL"}, {0, 1, "SELECT"},
	}
	if !reflect.DeepEqual(seen, wantSeen) {
		t.Errorf("observer saw %v,\nwant %v", seen, wantSeen)
	}
	// Journal() is a deep copy.
	j[0].Args[1][0] = 'X'
	if string(s.Journal()[0].Args[1]) != "h" {
		t.Error("Journal() aliases internal state")
	}
	st := s.Stats()
	if st["HSET"] != 3 || st["FLUSHALL"] != 2 || st["LSET"] != 1 || st["NOSUCHCOMMAND"] != 0 || st["SCAN"] != 1 {
		t.Errorf("stats %v", st)
	}
	st["HSET"] = 99
	if s.Stats()["HSET"] != 3 {
		t.Error("Stats() aliases internal state")
	}
}

func TestJournalConcurrent(t *testing.T) {
	s := startServer(t)
	const perConn = 500
	var obsMu sync.Mutex // not needed for exclusion (observer is serialised) but keeps -race honest about the reads below
	var observed []int
	s.OnCommand(func(pos, conn int, args [][]byte) {
		obsMu.Lock()
		observed = append(observed, pos)
		obsMu.Unlock()
	})
	var wg sync.WaitGroup
	for g := 0; g < 2; g++ {
		c := dial(t, s)
		wg.Add(1)
		go func(g int) {
			defer wg.Done()
			for i := 0; i < perConn; i++ {
				var err error
				if i%3 == 0 { // mix in reads and pipelines
					_, err = c.Do("LLEN", "shared")
				}
				if err == nil && i%5 == 0 {
					c.Send("RPUSH", "shared", fmt.Sprintf("%d:%d", g, i))
					c.Send("HSET", fmt.Sprintf("own%d", g), i, i)
					err = c.Flush()
					if err == nil {
						_, err = c.Receive()
					}
					if err == nil {
						_, err = c.Receive()
					}
				} else if err == nil {
					_, err = c.Do("RPUSH", "shared", fmt.Sprintf("%d:%d", g, i))
				}
				if err != nil {
					t.Error(err)
					return
				}
			}
		}(g)
	}
	wg.Wait()
	j := s.Journal()
	wantLen := 2 * (perConn + perConn/5)
	if len(j) != wantLen || s.JournalLen() != wantLen {
		t.Fatalf("journal len %d, want %d", len(j), wantLen)
	}
	lastPerConn := map[int]int{}
	conns := map[int]int{}
	var shared []string
	for i, cmd := range j {
		if cmd.Pos != i+1 {
			t.Fatalf("journal[%d].Pos = %d: positions must be 1,2,3,...", i, cmd.Pos)
		}
		conns[cmd.Conn]++
		if string(cmd.Args[0]) == "RPUSH" {
			var g, n int
			fmt.Sscanf(string(cmd.Args[2]), "%d:%d", &g, &n)
			if last, ok := lastPerConn[cmd.Conn]; ok && n <= last {
				t.Fatalf("per-connection order violated at pos %d", cmd.Pos)
			}
			lastPerConn[cmd.Conn] = n
			shared = append(shared, string(cmd.Args[2]))
		}
	}
	if len(conns) != 2 || conns[1] != wantLen/2 || conns[2] != wantLen/2 {
		t.Fatalf("conn ids in journal: %v", conns)
	}
	// The journal order IS the execution order: the shared list has the elements in journal order.
	c := dial(t, s)
	got, err := redis.Strings(c.Do("LRANGE", "shared", 0, -1))
	if err != nil || !reflect.DeepEqual(got, shared) {
		t.Fatalf("list order differs from journal order (%v)", err)
	}
	// Observer positions (ignoring read-only zeros) are exactly 1..n in order.
	next := 1
	for _, p := range observed {
		if p == 0 {
			continue
		}
		if p != next {
			t.Fatalf("observer saw position %d, want %d", p, next)
		}
		next++
	}
	if next != wantLen+1 {
		t.Fatalf("observer saw %d writes, want %d", next-1, wantLen)
	}
}

// randomWrite issues one random state-changing command over a small universe
// of keys, fields and values so that all interesting interactions (type
// clashes, emptied keys, out-of-range indexes, duplicates) happen often.
func randomWrite(r *rand.Rand, c redis.Conn) error {
	keys := []string{"k0", "k1", "k2", "k3", "bin\r\n\x00"}
	vals := []string{"a", "b", "c", "", "\r\n", "\x00\xff"}
	key := keys[r.Intn(len(keys))]
	val := func() string { return vals[r.Intn(len(vals))] }
	var err error
	switch n := r.Intn(100); {
	case n < 22:
		_, err = c.Do("HSET", key, val(), val(), val(), val())
	case n < 34:
		_, err = c.Do("HDEL", key, val(), val())
	case n < 62:
		_, err = c.Do("RPUSH", key, val(), val())
	case n < 76:
		_, err = c.Do("LREM", key, r.Intn(5)-2, val())
	case n < 90:
		_, err = c.Do("LSET", key, r.Intn(8)-4, val())
	case n < 97:
		_, err = c.Do("DEL", key, keys[r.Intn(len(keys))])
	case n < 98:
		_, err = c.Do("FLUSHALL")
	case n < 99:
		_, err = c.Do("FLUSHDB")
	default:
		_, err = c.Do("LREM", key, "notint", val())
	}
	if _, isReply := err.(redis.Error); isReply {
		return nil // WRONGTYPE etc. are part of the game
	}
	return err
}

func TestPrefixReplay(t *testing.T) {
	for _, seed := range []int64{1, 2, 3} {
		t.Run(fmt.Sprint("seed", seed), func(t *testing.T) {
			s := startServer(t)
			conns := []redis.Conn{dial(t, s), dial(t, s)}
			snaps := []*Snapshot{s.Snapshot()} // snaps[k] = state right after journal position k
			s.OnCommand(func(pos, conn int, args [][]byte) {
				if pos == 0 {
					return
				}
				if pos != len(snaps) {
					t.Errorf("observer pos %d, want %d", pos, len(snaps))
				}
				snaps = append(snaps, s.Snapshot())
			})
			r := rand.New(rand.NewSource(seed))
			const n = 200
			for i := 0; i < n; i++ {
				c := conns[r.Intn(2)]
				if r.Intn(4) == 0 { // interleave reads; they must not disturb positions
					if _, err := c.Do("SCAN", 0); err != nil {
						t.Fatal(err)
					}
				}
				if err := randomWrite(r, c); err != nil {
					t.Fatal(err)
				}
			}
			s.OnCommand(nil)
			j := s.Journal()
			if len(j) != n || len(snaps) != n+1 {
				t.Fatalf("journal %d, snapshots %d, want %d/%d", len(j), len(snaps), n, n+1)
			}
			if !s.Snapshot().Equal(snaps[n]) {
				t.Fatal("final snapshot differs from last observed one")
			}
			distinct := 0
			for k := 0; k <= n; k++ {
				if k > 0 && !snaps[k].Equal(snaps[k-1]) {
					distinct++
				}
				// crash at prefix k, from an empty base
				fresh := startServer(t)
				if err := fresh.Apply(j[:k]); err != nil {
					t.Fatal(err)
				}
				got := fresh.Snapshot()
				if !got.Equal(snaps[k]) || !reflect.DeepEqual(got, snaps[k]) {
					t.Fatalf("k=%d: replayed state differs\n got  %v\n want %v\n last cmd %q", k, got, snaps[k], j[max(k, 1)-1].Args)
				}
				if fresh.JournalLen() != 0 || len(fresh.Stats()) != 0 {
					t.Fatalf("k=%d: Apply touched journal/stats", k)
				}
				// the same with a non-empty base: Restore(snaps[b]) + Apply(j[b:k])
				if b := k / 2; true {
					fresh2 := startServer(t)
					fresh2.Restore(snaps[b])
					if err := fresh2.Apply(j[b:k]); err != nil {
						t.Fatal(err)
					}
					if got := fresh2.Snapshot(); !got.Equal(snaps[k]) || !reflect.DeepEqual(got, snaps[k]) {
						t.Fatalf("k=%d base=%d: replayed state differs\n got  %v\n want %v", k, b, got, snaps[k])
					}
					fresh2.Close()
				}
				// the replayed server answers over the network like the original did
				if k == n {
					fc, oc := dial(t, fresh), conns[0]
					keys, err := redis.Strings(oc.Do("KEYS", "*"))
					if err != nil {
						t.Fatal(err)
					}
					fkeys, _ := redis.Strings(fc.Do("KEYS", "*"))
					if !reflect.DeepEqual(keys, fkeys) {
						t.Fatalf("keys differ: %q vs %q", keys, fkeys)
					}
					for _, key := range keys {
						typ, _ := redis.String(oc.Do("TYPE", key))
						cmd := []interface{}{key}
						name := "HGETALL"
						if typ == "list" {
							name, cmd = "LRANGE", append(cmd, 0, -1)
						}
						a, err1 := oc.Do(name, cmd...)
						b, err2 := fc.Do(name, cmd...)
						if err1 != nil || err2 != nil || !reflect.DeepEqual(a, b) {
							t.Fatalf("%s %q differs: %v %v / %v %v", name, key, a, err1, b, err2)
						}
					}
				}
				fresh.Close()
			}
			if distinct < n/3 {
				t.Fatalf("workload too boring: only %d of %d commands changed the state", distinct, n)
			}
		})
	}
}

func TestSnapshotRestoreApplyDeepCopy(t *testing.T) {
	s := startServer(t)
	c := dial(t, s)
	c.Do("HSET", "h", "f1", "v1", "f2", "v2")
	c.Do("RPUSH", "l", "a", "b")

	snap := s.Snapshot()
	want := &Snapshot{
		Hashes:    map[string]map[string][]byte{"h": {"f1": []byte("v1"), "f2": []byte("v2")}},
		HashOrder: map[string][]string{"h": {"f1", "f2"}},
		Lists:     map[string][][]byte{"l": {[]byte("a"), []byte("b")}},
	}
	if !reflect.DeepEqual(snap, want) || !snap.Equal(want) {
		t.Fatalf("snapshot %v", snap)
	}
	// mutate the snapshot: server unaffected
	snap.Hashes["h"]["f1"][0] = 'X'
	snap.Lists["l"][0][0] = 'X'
	snap.HashOrder["h"][0] = "zz"
	delete(snap.Lists, "l")
	if !s.Snapshot().Equal(want) {
		t.Fatal("Snapshot aliases server state")
	}
	// a later write does not change an earlier snapshot
	before := s.Snapshot()
	c.Do("LSET", "l", 0, "Z")
	c.Do("HSET", "h", "f1", "Z")
	if !before.Equal(want) {
		t.Fatal("snapshot changed by later command")
	}

	// Restore deep-copies and leaves the journal alone
	jl := s.JournalLen()
	src := s.Snapshot()
	s2 := startServer(t)
	s2.Restore(src)
	src.Hashes["h"]["f1"][0] = 'Q'
	src.Lists["l"][1][0] = 'Q'
	c2 := dial(t, s2)
	expect(t, c2, bulks("f1", "Z", "f2", "v2"), "HGETALL", "h")
	expect(t, c2, bulks("Z", "b"), "LRANGE", "l", 0, -1)
	if s2.JournalLen() != 0 || s.JournalLen() != jl {
		t.Fatal("Restore touched a journal")
	}
	// Restore replaces (does not merge), tolerates nil, missing order, empty values
	s2.Restore(&Snapshot{
		Hashes: map[string]map[string][]byte{"x": {"b": nil, "a": []byte("1")}, "emptyhash": {}},
		Lists:  map[string][][]byte{"y": {nil, []byte("2")}, "emptylist": {}},
	})
	expect(t, c2, bulks("x", "y"), "KEYS", "*")
	expect(t, c2, bulks("a", "1", "b", ""), "HGETALL", "x") // missing order => sorted
	expect(t, c2, bulks("", "2"), "LRANGE", "y", 0, -1)
	s2.Restore(nil)
	expect(t, c2, arr(), "KEYS", "*")
	func() {
		defer func() {
			if recover() == nil {
				t.Error("Restore of a key that is both hash and list did not panic")
			}
		}()
		s2.Restore(&Snapshot{Hashes: map[string]map[string][]byte{"k": {"f": nil}}, Lists: map[string][][]byte{"k": {nil}}})
	}()

	// Apply deep-copies its input
	cmds := []Cmd{{Pos: 1, Args: [][]byte{[]byte("RPUSH"), []byte("l"), []byte("v")}}, {Pos: 2, Args: [][]byte{[]byte("hset"), []byte("h"), []byte("f"), []byte("v")}}}
	if err := s2.Apply(cmds); err != nil {
		t.Fatal(err)
	}
	cmds[0].Args[2][0] = 'X'
	cmds[1].Args[3][0] = 'X'
	expect(t, c2, bulks("v"), "LRANGE", "l", 0, -1)
	expect(t, c2, bulks("f", "v"), "HGETALL", "h")

	// Apply rejects what cannot be a journal entry, atomically
	for _, bad := range [][]Cmd{
		{{Args: [][]byte{[]byte("RPUSH"), []byte("l"), []byte("w")}}, {Args: [][]byte{[]byte("LLEN"), []byte("l")}}},
		{{Args: [][]byte{[]byte("RPUSH"), []byte("l"), []byte("w")}}, {Args: [][]byte{[]byte("RPUSH"), []byte("l")}}},
		{{Args: [][]byte{[]byte("RPUSH"), []byte("l"), []byte("w")}}, {Args: [][]byte{[]byte("HSET"), []byte("l"), []byte("f"), []byte("v"), []byte("g")}}},
		{{Args: [][]byte{[]byte("RPUSH"), []byte("l"), []byte("w")}}, {Args: nil}},
		{{Args: [][]byte{[]byte("RPUSH"), []byte("l"), []byte("w")}}, {Args: [][]byte{[]byte("BOGUS")}}},
	} {
		if err := s2.Apply(bad); err == nil {
			t.Errorf("Apply(%q) succeeded", bad[1].Args)
		}
	}
	expect(t, c2, bulks("v"), "LRANGE", "l", 0, -1)

	// Snapshot.Equal
	a, b := s.Snapshot(), s.Snapshot()
	if !a.Equal(b) {
		t.Fatal("Equal(self) false")
	}
	b.HashOrder["h"][0], b.HashOrder["h"][1] = b.HashOrder["h"][1], b.HashOrder["h"][0]
	if a.Equal(b) {
		t.Fatal("Equal ignores field order")
	}
	b = s.Snapshot()
	b.Lists["l"][0] = []byte("different")
	if a.Equal(b) {
		t.Fatal("Equal ignores list values")
	}
	b = s.Snapshot()
	b.Lists["l2"] = [][]byte{{1}}
	if a.Equal(b) || b.Equal(a) {
		t.Fatal("Equal ignores extra keys")
	}
}

// ---- fault hook ----

func TestFaultHook(t *testing.T) {
	s := startServer(t)
	c := dial(t, s)
	type call struct {
		pos  int
		args string
	}
	var calls []call
	s.SetFault(func(pos int, args [][]byte) string {
		calls = append(calls, call{pos, string(bytes.Join(args, []byte(" ")))})
		if pos != 0 && pos != s.JournalLen()+1 {
			t.Errorf("fault hook pos %d, JournalLen %d", pos, s.JournalLen())
		}
		switch {
		case pos == 2:
			return "ERR injected at 2"
		case string(args[0]) == "LLEN":
			return "LOADING fakeredis is pretending"
		}
		return ""
	})
	expect(t, c, int64(1), "rpush", "l", "a")                       // pos 1
	expectErr(t, c, "ERR injected at 2", "rpush", "l", "b")         // would be pos 2: rejected
	expectErr(t, c, "ERR injected at 2", "Rpush", "l", "b")         // still pos 2
	expectErr(t, c, "LOADING fakeredis is pretending", "llen", "l") // read-only: pos 0
	expect(t, c, bulks("a"), "lrange", "l", 0, -1)
	expectErr(t, c, arityErr("rpush"), "rpush", "l") // arity errors never reach the hook
	expectErr(t, c, "ERR unknown command 'bogus'", "bogus")
	wantCalls := []call{{1, "RPUSH l a"}, {2, "RPUSH l b"}, {2, "RPUSH l b"}, {0, "LLEN l"}, {0, "LRANGE l 0 -1"}}
	if !reflect.DeepEqual(calls, wantCalls) {
		t.Fatalf("hook calls %v, want %v", calls, wantCalls)
	}
	if j := s.Journal(); len(j) != 1 || j[0].Pos != 1 {
		t.Fatalf("journal %v", j)
	}
	if st := s.Stats(); st["RPUSH"] != 1 || st["LLEN"] != 0 || st["LRANGE"] != 1 {
		t.Fatalf("stats %v: rejected commands must not count", st)
	}

	// removing the hook
	s.SetFault(nil)
	expect(t, c, int64(2), "rpush", "l", "b")
	expect(t, c, int64(2), "llen", "l")

	// CLOSE in the middle of a pipeline: earlier replies arrive, then the connection drops;
	// the faulted command and everything after it is not executed.
	s.SetFault(func(pos int, args [][]byte) string {
		if string(args[0]) == "RPUSH" && string(args[2]) == "boom" {
			return FaultClose
		}
		return ""
	})
	c.Send("RPUSH", "l", "c")
	c.Send("RPUSH", "l", "boom")
	c.Send("RPUSH", "l", "after")
	if err := c.Flush(); err != nil {
		t.Fatal(err)
	}
	if n, err := redis.Int(c.Receive()); err != nil || n != 3 {
		t.Fatalf("first pipelined reply: %v %v", n, err)
	}
	if rep, err := c.Receive(); err == nil {
		t.Fatalf("got reply %v after CLOSE fault", rep)
	} else if _, isReply := err.(redis.Error); isReply {
		t.Fatalf("got error reply %v, want connection error", err)
	}
	if _, err := c.Do("PING"); err == nil {
		t.Fatal("connection still usable after CLOSE fault")
	}
	s.SetFault(nil)
	c2 := dial(t, s)
	expect(t, c2, bulks("a", "b", "c"), "LRANGE", "l", 0, -1)
	if s.JournalLen() != 3 {
		t.Fatalf("journal len %d, want 3", s.JournalLen())
	}
	// CLOSE on a plain Do
	s.SetFault(func(int, [][]byte) string { return "CLOSE" })
	if rep, err := c2.Do("PING"); err == nil {
		t.Fatalf("got %v", rep)
	}
}

// ---- Close ----

func TestCloseWithClients(t *testing.T) {
	s, err := Start()
	if err != nil {
		t.Fatal(err)
	}
	idle, err := redis.Dial("tcp", s.Addr())
	if err != nil {
		t.Fatal(err)
	}
	defer idle.Close()
	if _, err := idle.Do("RPUSH", "l", "a"); err != nil {
		t.Fatal(err)
	}
	// a client stuck in the middle of a request
	half, err := net.Dial("tcp", s.Addr())
	if err != nil {
		t.Fatal(err)
	}
	defer half.Close()
	io.WriteString(half, "*3\r\n$5\r\nRPUSH\r\n$1\r\nl\r\n$100\r\npartial")
	// busy clients hammering the server while it closes
	var wg sync.WaitGroup
	for i := 0; i < 4; i++ {
		wg.Add(1)
		go func() {
			defer wg.Done()
			c, err := redis.Dial("tcp", s.Addr())
			if err != nil {
				return
			}
			defer c.Close()
			for {
				if _, err := c.Do("RPUSH", "busy", "x"); err != nil {
					return
				}
			}
		}()
	}
	time.Sleep(50 * time.Millisecond)

	done := make(chan error, 1)
	go func() { done <- s.Close() }()
	select {
	case err := <-done:
		if err != nil {
			t.Fatalf("Close: %v", err)
		}
	case <-time.After(10 * time.Second):
		t.Fatal("Close hangs with connected clients")
	}
	wg.Wait() // all busy clients saw an error

	if _, err := idle.Do("PING"); err == nil {
		t.Fatal("idle client still served after Close")
	}
	half.SetReadDeadline(time.Now().Add(5 * time.Second))
	if n, err := half.Read(make([]byte, 1)); err == nil {
		t.Fatalf("half-request client got %d bytes after Close", n)
	}
	if c, err := net.DialTimeout("tcp", s.Addr(), time.Second); err == nil {
		c.Close()
		t.Fatal("listener still accepting after Close")
	}
	if err := s.Close(); err != nil { // idempotent
		t.Fatalf("second Close: %v", err)
	}
	// the in-memory state stays available: this is how the harness reads the journal after a run
	j := s.Journal()
	if len(j) == 0 || len(j) != s.JournalLen() || string(j[0].Args[0]) != "RPUSH" {
		t.Fatalf("journal after Close: %d entries", len(j))
	}
	snap := s.Snapshot()
	if len(snap.Lists["busy"]) != len(j)-1 {
		t.Fatalf("busy list has %d elements, journal %d", len(snap.Lists["busy"]), len(j))
	}
	fresh := startServer(t)
	if err := fresh.Apply(j); err != nil {
		t.Fatal(err)
	}
	if !fresh.Snapshot().Equal(snap) {
		t.Fatal("replay after Close differs")
	}
}

func TestRedigoPool(t *testing.T) {
	// The broker uses a redigo Pool with a Dial that SELECTs; make sure that works end to end.
	s := startServer(t)
	pool := &redis.Pool{
		MaxIdle: 4,
		Dial: func() (redis.Conn, error) {
			c, err := redis.Dial("tcp", s.Addr())
			if err != nil {
				return nil, err
			}
			if _, err := c.Do("SELECT", 0); err != nil {
				c.Close()
				return nil, err
			}
			return c, nil
		},
	}
	defer pool.Close()
	var wg sync.WaitGroup
	for g := 0; g < 8; g++ {
		wg.Add(1)
		go func(g int) {
			defer wg.Done()
			for i := 0; i < 50; i++ {
				c := pool.Get()
				if _, err := c.Do("HSET", fmt.Sprint("h", g), i, i); err != nil {
					t.Error(err)
				}
				c.Close()
			}
		}(g)
	}
	wg.Wait()
	if s.JournalLen() != 400 {
		t.Fatalf("journal len %d", s.JournalLen())
	}
	snap := s.Snapshot()
	for g := 0; g < 8; g++ {
		if len(snap.Hashes[fmt.Sprint("h", g)]) != 50 {
			t.Fatalf("hash h%d has %d fields", g, len(snap.Hashes[fmt.Sprint("h", g)]))
		}
	}
}

// Paged SCAN: pages hold at most n examined keys, MATCH is applied afterwards (empty pages before the end are
// possible), every key present during the whole iteration is returned once, additions and removals do not disturb it.
func TestScanPaged(t *testing.T) {
	s := startServer(t)
	s.SetScanPage(3)
	c := dial(t, s)
	for i := 0; i < 12; i++ {
		expect(t, c, int64(1), "RPUSH", fmt.Sprintf("queue:c%02d", i), "v")
		expect(t, c, int64(1), "HSET", fmt.Sprintf("session:c%02d", i), "f", "v")
	}
	var got []string
	cursor, pages, empty := "0", 0, 0
	for {
		rep, err := redis.Values(c.Do("SCAN", cursor, "MATCH", "session:*"))
		if err != nil || len(rep) != 2 {
			t.Fatalf("SCAN: %v %v", rep, err)
		}
		cursor = string(rep[0].([]byte))
		ks, _ := redis.Strings(rep[1], nil)
		if len(ks) == 0 && cursor != "0" {
			empty++
		}
		if pages == 1 {
			// modifications during the iteration
			expect(t, c, int64(1), "DEL", "queue:c00")
			expect(t, c, int64(1), "HSET", "a-new-key", "f", "v")
		}
		got = append(got, ks...)
		pages++
		if cursor == "0" {
			break
		}
		if pages > 100 {
			t.Fatal("SCAN does not terminate")
		}
	}
	if len(got) != 12 || empty == 0 || pages < 8 {
		t.Fatalf("paged SCAN: %d keys %q in %d pages (%d empty)", len(got), got, pages, empty)
	}
	seen := map[string]bool{}
	for _, k := range got {
		if seen[k] || !strings.HasPrefix(k, "session:") {
			t.Fatalf("paged SCAN returned %q twice or unexpectedly", k)
		}
		seen[k] = true
	}
	// an unknown cursor ends the iteration
	rep, err := redis.Values(c.Do("SCAN", 12345))
	if err != nil || string(rep[0].([]byte)) != "0" {
		t.Fatalf("unknown cursor: %v %v", rep, err)
	}
}
