//go:build gmqttsuites

package fakeredis

// Sanity check: gmqtt's own redis store test suites (the ones
// /repo/persistence/redis_test.go runs against a dockerised redis on :6379)
// run against fakeredis. Each suite gets a fresh server, like the original
// which restarts the container in SetupTest.
//
// Behind a build tag because the suite packages import testify, which is not
// (yet) a requirement in the harness go.mod: with GOFLAGS=-mod=mod the go tool
// ADDS testify, go-spew, go-difflib and yaml.v3 as indirect requirements to
// go.mod (and three lines to go.sum) when this file is compiled. Run with
//
//	go test -race -tags gmqttsuites -run Gmqtt -v ./fakeredis

import (
	"testing"
	"time"

	"github.com/DrmagicE/gmqtt/config"
	"github.com/DrmagicE/gmqtt/persistence"
	queue_test "github.com/DrmagicE/gmqtt/persistence/queue/test"
	sess_test "github.com/DrmagicE/gmqtt/persistence/session/test"
	"github.com/DrmagicE/gmqtt/persistence/subscription"
	sub_test "github.com/DrmagicE/gmqtt/persistence/subscription/test"
	unack_test "github.com/DrmagicE/gmqtt/persistence/unack/test"
	"github.com/DrmagicE/gmqtt/server"
)

func gmqttRedis(t *testing.T) (*Server, config.RedisPersistence, server.Persistence) {
	t.Helper()
	s := startServer(t)
	maxIdle, maxActive := uint(100), uint(100)
	rc := config.RedisPersistence{
		Addr:        s.Addr(),
		Password:    "",
		Database:    0,
		MaxIdle:     &maxIdle,
		MaxActive:   &maxActive,
		IdleTimeout: 100 * time.Second,
	}
	p, err := persistence.NewRedis(config.Config{
		Persistence: config.Persistence{Type: config.PersistenceTypeRedis, Redis: rc},
	})
	if err != nil {
		t.Fatal(err)
	}
	if err := p.Open(); err != nil {
		t.Fatal("fail to open redis", err)
	}
	t.Cleanup(func() {
		p.Close()
		t.Logf("fakeredis stats: %v, journal length %d", s.Stats(), s.JournalLen())
	})
	return s, rc, p
}

func TestGmqttQueueSuite(t *testing.T) {
	if testing.Short() {
		t.Skip("sleeps for several seconds (inflight expiry)")
	}
	_, rc, p := gmqttRedis(t)
	cfg := queue_test.TestServerConfig
	cfg.Persistence.Redis = rc
	qs, err := p.NewQueueStore(cfg, queue_test.TestNotifier, queue_test.TestClientID)
	if err != nil {
		t.Fatal(err)
	}
	queue_test.TestQueue(t, qs)
}

func TestGmqttSubscriptionSuite(t *testing.T) {
	_, _, p := gmqttRedis(t)
	sub_test.TestSuite(t, func() subscription.Store {
		st, err := p.NewSubscriptionStore(config.Config{})
		if err != nil {
			panic(err)
		}
		return st
	})
}

func TestGmqttSessionSuite(t *testing.T) {
	_, _, p := gmqttRedis(t)
	st, err := p.NewSessionStore(config.Config{})
	if err != nil {
		t.Fatal(err)
	}
	sess_test.TestSuite(t, st)
}

func TestGmqttUnackSuite(t *testing.T) {
	_, _, p := gmqttRedis(t)
	st, err := p.NewUnackStore(unack_test.TestServerConfig, unack_test.TestClientID)
	if err != nil {
		t.Fatal(err)
	}
	unack_test.TestSuite(t, st)
}
