package fakeredis

import (
	"bufio"
	"errors"
	"fmt"
	"io"
	"strconv"
)

// Limits taken from redis (proto-max-bulk-len default and the hard multibulk limit).
const (
	maxMultiBulk = 1024 * 1024
	maxBulkLen   = 512 * 1024 * 1024
)

// protoError is a RESP framing violation. Like redis, the server answers it
// with "-ERR Protocol error: ..." and closes the connection.
type protoError string

func (e protoError) Error() string { return "Protocol error: " + string(e) }

// readLine reads one CRLF terminated header line (without the CRLF).
func readLine(br *bufio.Reader, what string) ([]byte, error) {
	line, err := br.ReadSlice('\n')
	if err != nil {
		if errors.Is(err, bufio.ErrBufferFull) {
			return nil, protoError("too big " + what + " count string")
		}
		return nil, err
	}
	if len(line) < 2 || line[len(line)-2] != '\r' {
		return nil, protoError("invalid " + what + " length")
	}
	return line[:len(line)-2], nil
}

// readCommand reads one RESP2 multibulk request ("*N\r\n" followed by N bulk
// strings). Every returned argument is a freshly allocated slice. A request
// with N <= 0 yields (nil, nil) and is ignored by the caller, as in redis.
// Inline commands are not supported.
func readCommand(br *bufio.Reader) ([][]byte, error) {
	first, err := br.Peek(1)
	if err != nil {
		return nil, err
	}
	if first[0] != '*' {
		return nil, protoError(fmt.Sprintf("expected '*', got '%c' (fakeredis does not support inline commands)", printable(first[0])))
	}
	line, err := readLine(br, "mbulk")
	if err != nil {
		return nil, err
	}
	n, ok := parseInt(line[1:])
	if !ok || n > maxMultiBulk {
		return nil, protoError("invalid multibulk length")
	}
	if n <= 0 {
		return nil, nil
	}
	args := make([][]byte, 0, n)
	for i := int64(0); i < n; i++ {
		line, err := readLine(br, "bulk")
		if err != nil {
			return nil, eofIsUnexpected(err)
		}
		if len(line) == 0 || line[0] != '$' {
			c := byte(' ')
			if len(line) > 0 {
				c = line[0]
			}
			return nil, protoError(fmt.Sprintf("expected '$', got '%c'", printable(c)))
		}
		l, ok := parseInt(line[1:])
		if !ok || l < 0 || l > maxBulkLen {
			return nil, protoError("invalid bulk length")
		}
		buf := make([]byte, l+2)
		if _, err := io.ReadFull(br, buf); err != nil {
			return nil, eofIsUnexpected(err)
		}
		if buf[l] != '\r' || buf[l+1] != '\n' {
			return nil, protoError("bulk string not terminated by CRLF")
		}
		args = append(args, buf[:l:l])
	}
	return args, nil
}

func eofIsUnexpected(err error) error {
	if err == io.EOF {
		return io.ErrUnexpectedEOF
	}
	return err
}

func printable(c byte) byte {
	if c < 0x20 || c > 0x7e {
		return '?'
	}
	return c
}

// parseInt is redis' string2ll: an optional '-', no '+', no leading zeros, no
// surrounding whitespace, must fit in an int64.
func parseInt(b []byte) (int64, bool) {
	if len(b) == 0 || len(b) > 20 {
		return 0, false
	}
	if len(b) == 1 && b[0] == '0' {
		return 0, true
	}
	digits := b
	if b[0] == '-' {
		digits = b[1:]
	}
	if len(digits) == 0 || digits[0] < '1' || digits[0] > '9' {
		return 0, false
	}
	for _, c := range digits {
		if c < '0' || c > '9' {
			return 0, false
		}
	}
	v, err := strconv.ParseInt(string(b), 10, 64)
	if err != nil {
		return 0, false
	}
	return v, true
}

// ---- reply encoding (RESP2) ----

func appendSimple(out []byte, s string) []byte {
	out = append(out, '+')
	out = append(out, s...)
	return append(out, '\r', '\n')
}

// appendError appends "-msg\r\n". CR and LF inside msg are replaced by spaces
// (as redis does) so that the reply stays a single line.
func appendError(out []byte, msg string) []byte {
	out = append(out, '-')
	for i := 0; i < len(msg); i++ {
		c := msg[i]
		if c == '\r' || c == '\n' {
			c = ' '
		}
		out = append(out, c)
	}
	return append(out, '\r', '\n')
}

func appendInt(out []byte, n int) []byte {
	out = append(out, ':')
	out = strconv.AppendInt(out, int64(n), 10)
	return append(out, '\r', '\n')
}

func appendBulk(out []byte, b []byte) []byte {
	out = append(out, '$')
	out = strconv.AppendInt(out, int64(len(b)), 10)
	out = append(out, '\r', '\n')
	out = append(out, b...)
	return append(out, '\r', '\n')
}

func appendBulkString(out []byte, s string) []byte {
	out = append(out, '$')
	out = strconv.AppendInt(out, int64(len(s)), 10)
	out = append(out, '\r', '\n')
	out = append(out, s...)
	return append(out, '\r', '\n')
}

func appendNil(out []byte) []byte { return append(out, "$-1\r\n"...) }

func appendArrayLen(out []byte, n int) []byte {
	out = append(out, '*')
	out = strconv.AppendInt(out, int64(n), 10)
	return append(out, '\r', '\n')
}
