package fakeredis

import (
	"bytes"
	"sort"
	"strconv"
	"strings"
)

// Error replies, verbatim from redis.
const (
	errWrongType = "WRONGTYPE Operation against a key holding the wrong kind of value"
	errNotInt    = "ERR value is not an integer or out of range"
	errSyntax    = "ERR syntax error"
	errNoSuchKey = "ERR no such key"
	errIndex     = "ERR index out of range"
)

// hashVal is a redis hash that remembers field insertion order (what a
// listpack encoded hash does: new fields are appended, updates are in place,
// deletions close the gap).
type hashVal struct {
	m     map[string][]byte
	order []string
}

// entry is one key: a hash (h != nil) or a list (h == nil, len(l) > 0).
// Empty hashes and lists never exist; the key is removed instead.
type entry struct {
	h *hashVal
	l [][]byte
}

// keyspace is the single database shared by all SELECT indexes. It is not
// synchronised; the Server serialises access.
type keyspace struct {
	m map[string]*entry
	// scanPage > 0: SCAN examines that many keys per call (COUNT overrides it) and applies MATCH/TYPE afterwards, so
	// pages may be empty although the iteration is not over - the documented behaviour of redis. 0: one page.
	scanPage   int
	cursors    map[int64]string // cursor -> last key examined
	nextCursor int64
}

func newKeyspace() *keyspace { return &keyspace{m: make(map[string]*entry)} }

// cmdSpec describes a command. arity follows the redis convention: a positive
// value is the exact number of arguments including the command name, a
// negative value -N means "at least N". All checks that produce the "wrong
// number of arguments" error are expressed here so that they happen before
// journalling.
type cmdSpec struct {
	arity    int
	maxArgs  int  // 0 = unbounded (only meaningful with negative arity)
	evenArgs bool // total argument count must be even (HSET key f v [f v ...])
	write    bool // state-changing: journalled
	fn       func(ks *keyspace, a [][]byte, out []byte) []byte
}

func (c *cmdSpec) arityOK(n int) bool {
	if c.arity >= 0 && n != c.arity {
		return false
	}
	if c.arity < 0 && n < -c.arity {
		return false
	}
	if c.maxArgs > 0 && n > c.maxArgs {
		return false
	}
	if c.evenArgs && n%2 != 0 {
		return false
	}
	return true
}

var commands map[string]*cmdSpec

func init() {
	commands = map[string]*cmdSpec{
		// connection
		"PING":   {arity: -1, maxArgs: 2, fn: cmdPing},
		"ECHO":   {arity: 2, fn: cmdEcho},
		"AUTH":   {arity: -2, fn: cmdAuth},
		"SELECT": {arity: 2, fn: cmdSelect},
		"QUIT":   {arity: -1, fn: cmdOK}, // the connection handler closes after the reply
		// keys
		"DEL":      {arity: -2, write: true, fn: cmdDel},
		"EXISTS":   {arity: -2, fn: cmdExists},
		"TYPE":     {arity: 2, fn: cmdType},
		"KEYS":     {arity: 2, fn: cmdKeys},
		"SCAN":     {arity: -2, fn: cmdScan},
		"FLUSHALL": {arity: -1, write: true, fn: cmdFlush},
		"FLUSHDB":  {arity: -1, write: true, fn: cmdFlush},
		// hashes
		"HSET":    {arity: -4, evenArgs: true, write: true, fn: cmdHSet},
		"HGET":    {arity: 3, fn: cmdHGet},
		"HMGET":   {arity: -3, fn: cmdHMGet},
		"HGETALL": {arity: 2, fn: cmdHGetAll},
		"HDEL":    {arity: -3, write: true, fn: cmdHDel},
		"HLEN":    {arity: 2, fn: cmdHLen},
		// lists
		"RPUSH":  {arity: -3, write: true, fn: cmdRPush},
		"LLEN":   {arity: 2, fn: cmdLLen},
		"LRANGE": {arity: 4, fn: cmdLRange},
		"LINDEX": {arity: 3, fn: cmdLIndex},
		"LREM":   {arity: 4, write: true, fn: cmdLRem},
		"LSET":   {arity: 4, write: true, fn: cmdLSet},
	}
}

// ---- typed lookups ----

// hash returns the hash at key; (nil, true) if the key is missing and
// (nil, false) if it holds a list.
func (ks *keyspace) hash(key []byte) (*hashVal, bool) {
	e := ks.m[string(key)]
	if e == nil {
		return nil, true
	}
	if e.h == nil {
		return nil, false
	}
	return e.h, true
}

// list returns the entry holding the list at key; (nil, true) if the key is
// missing and (nil, false) if it holds a hash.
func (ks *keyspace) list(key []byte) (*entry, bool) {
	e := ks.m[string(key)]
	if e == nil {
		return nil, true
	}
	if e.h != nil {
		return nil, false
	}
	return e, true
}

func (ks *keyspace) sortedKeys(keep func(string, *entry) bool) []string {
	keys := make([]string, 0, len(ks.m))
	for k, e := range ks.m {
		if keep == nil || keep(k, e) {
			keys = append(keys, k)
		}
	}
	sort.Strings(keys)
	return keys
}

func appendKeys(out []byte, keys []string) []byte {
	out = appendArrayLen(out, len(keys))
	for _, k := range keys {
		out = appendBulkString(out, k)
	}
	return out
}

// ---- connection commands ----

func cmdOK(_ *keyspace, _ [][]byte, out []byte) []byte { return appendSimple(out, "OK") }

func cmdPing(_ *keyspace, a [][]byte, out []byte) []byte {
	if len(a) == 2 {
		return appendBulk(out, a[1])
	}
	return appendSimple(out, "PONG")
}

func cmdEcho(_ *keyspace, a [][]byte, out []byte) []byte { return appendBulk(out, a[1]) }

// cmdAuth accepts every credential (fakeredis has no users or passwords).
func cmdAuth(_ *keyspace, a [][]byte, out []byte) []byte {
	if len(a) > 3 {
		return appendError(out, errSyntax)
	}
	return appendSimple(out, "OK")
}

// cmdSelect validates the index and otherwise does nothing: all databases
// share one keyspace.
func cmdSelect(_ *keyspace, a [][]byte, out []byte) []byte {
	n, ok := parseInt(a[1])
	if !ok {
		return appendError(out, "ERR invalid DB index")
	}
	if n < 0 {
		return appendError(out, "ERR DB index is out of range")
	}
	return appendSimple(out, "OK")
}

// ---- generic key commands ----

func cmdDel(ks *keyspace, a [][]byte, out []byte) []byte {
	n := 0
	for _, k := range a[1:] {
		if _, ok := ks.m[string(k)]; ok {
			delete(ks.m, string(k))
			n++
		}
	}
	return appendInt(out, n)
}

func cmdExists(ks *keyspace, a [][]byte, out []byte) []byte {
	n := 0
	for _, k := range a[1:] {
		if _, ok := ks.m[string(k)]; ok {
			n++
		}
	}
	return appendInt(out, n)
}

func typeName(e *entry) string {
	switch {
	case e == nil:
		return "none"
	case e.h != nil:
		return "hash"
	default:
		return "list"
	}
}

func cmdType(ks *keyspace, a [][]byte, out []byte) []byte {
	return appendSimple(out, typeName(ks.m[string(a[1])]))
}

// cmdKeys returns the matching keys in sorted order (redis: unspecified order).
func cmdKeys(ks *keyspace, a [][]byte, out []byte) []byte {
	return appendKeys(out, ks.sortedKeys(func(k string, _ *entry) bool { return matchKey(a[1], k) }))
}

// cmdScan implements SCAN cursor [MATCH pattern] [COUNT n] [TYPE type]. The
// whole keyspace is returned in one page (sorted) with next-cursor "0", which
// is a legal SCAN behaviour; COUNT is only validated. Since cursor 0 always
// completes the iteration, any other cursor value yields an empty final page.
func cmdScan(ks *keyspace, a [][]byte, out []byte) []byte {
	cursor, ok := parseInt(a[1])
	if !ok || cursor < 0 {
		return appendError(out, "ERR invalid cursor")
	}
	var pattern []byte
	var typ string
	hasPattern, hasType := false, false
	count := ks.scanPage
	for i := 2; i < len(a); i += 2 {
		if i+1 >= len(a) {
			return appendError(out, errSyntax)
		}
		switch strings.ToUpper(string(a[i])) {
		case "MATCH":
			pattern, hasPattern = a[i+1], true
		case "COUNT":
			n, ok := parseInt(a[i+1])
			if !ok {
				return appendError(out, errNotInt)
			}
			if n < 1 {
				return appendError(out, errSyntax)
			}
			if ks.scanPage > 0 {
				count = int(n)
			}
		case "TYPE":
			typ, hasType = strings.ToLower(string(a[i+1])), true
		default:
			return appendError(out, errSyntax)
		}
	}
	if ks.scanPage > 0 {
		// paged iteration: the cursor stands for the last key examined, so keys that exist during the whole
		// iteration are returned whatever is added or removed meanwhile
		after, known := "", cursor == 0
		if cursor != 0 {
			after, known = ks.cursors[int64(cursor)]
			delete(ks.cursors, int64(cursor))
		}
		var page []string
		next := "0"
		if known {
			all := ks.sortedKeys(func(k string, _ *entry) bool { return cursor == 0 || k > after })
			if len(all) > count {
				all = all[:count]
				if ks.cursors == nil {
					ks.cursors = map[int64]string{}
				}
				ks.nextCursor += 7
				ks.cursors[ks.nextCursor] = all[len(all)-1]
				next = strconv.FormatInt(ks.nextCursor, 10)
			}
			for _, k := range all {
				if hasPattern && !matchKey(pattern, k) {
					continue
				}
				if hasType && typeName(ks.m[k]) != typ {
					continue
				}
				page = append(page, k)
			}
		}
		out = appendArrayLen(out, 2)
		out = appendBulkString(out, next)
		return appendKeys(out, page)
	}
	var keys []string
	if cursor == 0 {
		keys = ks.sortedKeys(func(k string, e *entry) bool {
			if hasPattern && !matchKey(pattern, k) {
				return false
			}
			return !hasType || typeName(e) == typ
		})
	}
	out = appendArrayLen(out, 2)
	out = appendBulkString(out, "0")
	return appendKeys(out, keys)
}

// cmdFlush implements FLUSHALL and FLUSHDB [ASYNC|SYNC] (identical here, as
// there is one keyspace).
func cmdFlush(ks *keyspace, a [][]byte, out []byte) []byte {
	if len(a) > 2 {
		return appendError(out, errSyntax)
	}
	if len(a) == 2 {
		if o := strings.ToUpper(string(a[1])); o != "ASYNC" && o != "SYNC" {
			return appendError(out, errSyntax)
		}
	}
	ks.m = make(map[string]*entry)
	return appendSimple(out, "OK")
}

// ---- hash commands ----

func cmdHSet(ks *keyspace, a [][]byte, out []byte) []byte {
	h, ok := ks.hash(a[1])
	if !ok {
		return appendError(out, errWrongType)
	}
	if h == nil {
		h = &hashVal{m: make(map[string][]byte)}
		ks.m[string(a[1])] = &entry{h: h}
	}
	added := 0
	for i := 2; i+1 < len(a); i += 2 {
		f := string(a[i])
		if _, exists := h.m[f]; !exists {
			h.order = append(h.order, f)
			added++
		}
		h.m[f] = a[i+1]
	}
	return appendInt(out, added)
}

func cmdHGet(ks *keyspace, a [][]byte, out []byte) []byte {
	h, ok := ks.hash(a[1])
	if !ok {
		return appendError(out, errWrongType)
	}
	if h != nil {
		if v, exists := h.m[string(a[2])]; exists {
			return appendBulk(out, v)
		}
	}
	return appendNil(out)
}

func cmdHMGet(ks *keyspace, a [][]byte, out []byte) []byte {
	h, ok := ks.hash(a[1])
	if !ok {
		return appendError(out, errWrongType)
	}
	out = appendArrayLen(out, len(a)-2)
	for _, f := range a[2:] {
		if h != nil {
			if v, exists := h.m[string(f)]; exists {
				out = appendBulk(out, v)
				continue
			}
		}
		out = appendNil(out)
	}
	return out
}

func cmdHGetAll(ks *keyspace, a [][]byte, out []byte) []byte {
	h, ok := ks.hash(a[1])
	if !ok {
		return appendError(out, errWrongType)
	}
	if h == nil {
		return appendArrayLen(out, 0)
	}
	out = appendArrayLen(out, 2*len(h.order))
	for _, f := range h.order {
		out = appendBulkString(out, f)
		out = appendBulk(out, h.m[f])
	}
	return out
}

func cmdHDel(ks *keyspace, a [][]byte, out []byte) []byte {
	h, ok := ks.hash(a[1])
	if !ok {
		return appendError(out, errWrongType)
	}
	if h == nil {
		return appendInt(out, 0)
	}
	removed := 0
	for _, fb := range a[2:] {
		f := string(fb)
		if _, exists := h.m[f]; !exists {
			continue
		}
		delete(h.m, f)
		for i, o := range h.order {
			if o == f {
				h.order = append(h.order[:i], h.order[i+1:]...)
				break
			}
		}
		removed++
	}
	if len(h.m) == 0 {
		delete(ks.m, string(a[1]))
	}
	return appendInt(out, removed)
}

func cmdHLen(ks *keyspace, a [][]byte, out []byte) []byte {
	h, ok := ks.hash(a[1])
	if !ok {
		return appendError(out, errWrongType)
	}
	if h == nil {
		return appendInt(out, 0)
	}
	return appendInt(out, len(h.m))
}

// ---- list commands ----

func cmdRPush(ks *keyspace, a [][]byte, out []byte) []byte {
	e, ok := ks.list(a[1])
	if !ok {
		return appendError(out, errWrongType)
	}
	if e == nil {
		e = &entry{}
		ks.m[string(a[1])] = e
	}
	e.l = append(e.l, a[2:]...)
	return appendInt(out, len(e.l))
}

func cmdLLen(ks *keyspace, a [][]byte, out []byte) []byte {
	e, ok := ks.list(a[1])
	if !ok {
		return appendError(out, errWrongType)
	}
	if e == nil {
		return appendInt(out, 0)
	}
	return appendInt(out, len(e.l))
}

// cmdLRange follows t_list.c:lrangeCommand: both indexes are parsed first,
// then the key is looked up (missing key: empty array), then the type check.
func cmdLRange(ks *keyspace, a [][]byte, out []byte) []byte {
	start, ok1 := parseInt(a[2])
	stop, ok2 := parseInt(a[3])
	if !ok1 || !ok2 {
		return appendError(out, errNotInt)
	}
	e, ok := ks.list(a[1])
	if !ok {
		return appendError(out, errWrongType)
	}
	if e == nil {
		return appendArrayLen(out, 0)
	}
	n := int64(len(e.l))
	if start < 0 {
		start += n
	}
	if stop < 0 {
		stop += n
	}
	if start < 0 {
		start = 0
	}
	if start > stop || start >= n {
		return appendArrayLen(out, 0)
	}
	if stop >= n {
		stop = n - 1
	}
	out = appendArrayLen(out, int(stop-start+1))
	for _, v := range e.l[start : stop+1] {
		out = appendBulk(out, v)
	}
	return out
}

// cmdLIndex follows lindexCommand: key lookup and type check come before the
// index is parsed.
func cmdLIndex(ks *keyspace, a [][]byte, out []byte) []byte {
	e, ok := ks.list(a[1])
	if !ok {
		return appendError(out, errWrongType)
	}
	if e == nil {
		return appendNil(out)
	}
	idx, ok := parseInt(a[2])
	if !ok {
		return appendError(out, errNotInt)
	}
	n := int64(len(e.l))
	if idx < 0 {
		idx += n
	}
	if idx < 0 || idx >= n {
		return appendNil(out)
	}
	return appendBulk(out, e.l[idx])
}

// cmdLRem follows lremCommand: the count is parsed before the key lookup.
func cmdLRem(ks *keyspace, a [][]byte, out []byte) []byte {
	count, ok := parseInt(a[2])
	if !ok || count == -1<<63 { // redis accepts the range [-LONG_MAX, LONG_MAX]
		return appendError(out, errNotInt)
	}
	e, ok := ks.list(a[1])
	if !ok {
		return appendError(out, errWrongType)
	}
	if e == nil {
		return appendInt(out, 0)
	}
	val := a[3]
	limit := count // number of matches to remove; 0 = all
	if limit < 0 {
		limit = -limit
	}
	drop := make([]bool, len(e.l))
	removed := int64(0)
	if count >= 0 {
		for i := 0; i < len(e.l) && (limit == 0 || removed < limit); i++ {
			if bytes.Equal(e.l[i], val) {
				drop[i] = true
				removed++
			}
		}
	} else {
		for i := len(e.l) - 1; i >= 0 && removed < limit; i-- {
			if bytes.Equal(e.l[i], val) {
				drop[i] = true
				removed++
			}
		}
	}
	if removed > 0 {
		kept := make([][]byte, 0, len(e.l)-int(removed))
		for i, v := range e.l {
			if !drop[i] {
				kept = append(kept, v)
			}
		}
		e.l = kept
		if len(e.l) == 0 {
			delete(ks.m, string(a[1]))
		}
	}
	return appendInt(out, int(removed))
}

// cmdLSet follows lsetCommand: missing key, then type check, then index
// parsing, then the range check.
func cmdLSet(ks *keyspace, a [][]byte, out []byte) []byte {
	e, ok := ks.list(a[1])
	if !ok {
		return appendError(out, errWrongType)
	}
	if e == nil {
		return appendError(out, errNoSuchKey)
	}
	idx, ok := parseInt(a[2])
	if !ok {
		return appendError(out, errNotInt)
	}
	n := int64(len(e.l))
	if idx < 0 {
		idx += n
	}
	if idx < 0 || idx >= n {
		return appendError(out, errIndex)
	}
	e.l[idx] = a[3]
	return appendSimple(out, "OK")
}
