package fakeredis

// globMatch is a port of redis' util.c:stringmatchlen (case sensitive): `*`,
// `?`, `[abc]`, `[^abc]`, `[a-z]` and `\x` escaping, operating on bytes. The
// quirks of the original are kept on purpose (an unterminated `[` class is
// closed by the end of the pattern, reversed ranges are swapped, a trailing
// lone `\` matches a literal backslash).
//
// Like redis, KEYS and SCAN treat the exact pattern "*" as "all keys" without
// calling the matcher; see matchKey.
func globMatch(p, s []byte) bool {
	skip := false
	return globMatchN(p, s, &skip, 0)
}

// skipLonger is redis' skipLongerMatches (the fix for CVE-2022-36021): once
// the rest of the pattern after some `*` failed to match at every position of
// the rest of the string, letting an earlier `*` swallow more cannot help, so
// all enclosing `*` loops stop. It only prunes work, never changes the result.
func globMatchN(p, s []byte, skipLonger *bool, nesting int) bool {
	if nesting > 1000 { // same protection against abusive patterns as redis
		return false
	}
	for len(p) > 0 && len(s) > 0 {
		switch p[0] {
		case '*':
			for len(p) > 1 && p[1] == '*' {
				p = p[1:]
			}
			if len(p) == 1 {
				return true
			}
			for len(s) > 0 {
				if globMatchN(p[1:], s, skipLonger, nesting+1) {
					return true
				}
				if *skipLonger {
					return false
				}
				s = s[1:]
			}
			*skipLonger = true
			return false
		case '?':
			s = s[1:]
		case '[':
			p = p[1:]
			not := len(p) > 0 && p[0] == '^'
			if not {
				p = p[1:]
			}
			match := false
			for {
				if len(p) >= 2 && p[0] == '\\' {
					p = p[1:]
					if p[0] == s[0] {
						match = true
					}
				} else if len(p) == 0 {
					// Unterminated class: redis steps back one byte so that the
					// common "advance the pattern" below lands on the end.
					p = nil
					break
				} else if p[0] == ']' {
					break
				} else if len(p) >= 3 && p[1] == '-' {
					start, end, c := p[0], p[2], s[0]
					if start > end {
						start, end = end, start
					}
					p = p[2:]
					if c >= start && c <= end {
						match = true
					}
				} else if p[0] == s[0] {
					match = true
				}
				p = p[1:]
			}
			if not {
				match = !match
			}
			if !match {
				return false
			}
			s = s[1:]
		case '\\':
			if len(p) >= 2 {
				p = p[1:]
			}
			fallthrough
		default:
			if p[0] != s[0] {
				return false
			}
			s = s[1:]
		}
		if len(p) > 0 { // len(p)==0 only after an unterminated class
			p = p[1:]
		}
		if len(s) == 0 {
			for len(p) > 0 && p[0] == '*' {
				p = p[1:]
			}
			break
		}
	}
	return len(p) == 0 && len(s) == 0
}

// matchKey applies a KEYS/SCAN pattern to a key name.
func matchKey(pattern []byte, key string) bool {
	if len(pattern) == 1 && pattern[0] == '*' {
		return true
	}
	return globMatch(pattern, []byte(key))
}
