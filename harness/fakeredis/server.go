// Package fakeredis is an in-process stand-in for a redis server (RESP2 over
// TCP) for the verification harness. It implements, with real redis reply
// types and error texts, exactly the commands gmqtt's redis persistence
// backend issues (PING AUTH SELECT HSET HMGET HGETALL HDEL DEL LLEN LRANGE LREM
// RPUSH LSET SCAN) plus a few for test convenience (EXISTS TYPE KEYS FLUSHALL
// FLUSHDB LINDEX HGET HLEN ECHO QUIT).
//
// Every state-changing command is recorded in a journal. A crash of redis
// after the k-th write is simulated by replaying the journal prefix into a
// fresh instance:
//
//	fresh, _ := fakeredis.Start()
//	fresh.Restore(base)        // optional: state the journal started from
//	fresh.Apply(journal[:k])
//
// Deliberate differences from a real redis server:
//
//   - All databases share ONE keyspace: SELECT only validates its argument
//     (any non-negative integer) and is otherwise ignored; FLUSHDB == FLUSHALL.
//   - AUTH accepts any credentials.
//   - SCAN returns the complete (matching) keyspace in a single page with next
//     cursor "0"; COUNT is validated and ignored. SCAN and KEYS return keys in
//     sorted order, HGETALL returns fields in insertion order (both are
//     "unspecified" in redis; determinism helps replay).
//   - Only RESP2 multibulk requests are understood (no inline commands, no
//     HELLO/RESP3), there is no expiry, no transactions, no pub/sub.
//   - Unknown commands are answered with "ERR unknown command '<cmd>'" (redis
//     appends ", with args beginning with: ...").
//
// Concurrency model: commands from all connections are executed one at a time
// under a single server-wide execution lock, in the order that defines journal
// positions. Fault hook and observer run under that lock.
package fakeredis

import (
	"bufio"
	"bytes"
	"errors"
	"fmt"
	"net"
	"slices"
	"sort"
	"strings"
	"sync"
	"time"
)

// FaultClose is the special fault hook result that closes the client
// connection without sending a reply for the command.
const FaultClose = "CLOSE"

// Cmd is one journalled command: the arguments exactly as received (Args[0] is
// the command name, upper-cased).
type Cmd struct {
	Pos  int // 1-based global position in the journal (order of execution)
	Conn int // id of the client connection that issued it (1, 2, ... in accept order)
	Args [][]byte
}

// Snapshot is a deep copy of the keyspace. HashOrder[key] lists the fields of
// Hashes[key] in insertion order (the order HGETALL reports).
type Snapshot struct {
	Hashes    map[string]map[string][]byte
	HashOrder map[string][]string
	Lists     map[string][][]byte
}

// Equal reports whether two snapshots describe the same keyspace, including
// hash field order. nil and empty byte slices are considered equal.
func (a *Snapshot) Equal(b *Snapshot) bool {
	if a == nil || b == nil {
		return a == b
	}
	if len(a.Hashes) != len(b.Hashes) || len(a.Lists) != len(b.Lists) {
		return false
	}
	for k, ha := range a.Hashes {
		hb, ok := b.Hashes[k]
		if !ok || len(ha) != len(hb) || !slices.Equal(a.HashOrder[k], b.HashOrder[k]) {
			return false
		}
		for f, va := range ha {
			if vb, ok := hb[f]; !ok || !bytes.Equal(va, vb) {
				return false
			}
		}
	}
	for k, la := range a.Lists {
		lb, ok := b.Lists[k]
		if !ok || len(la) != len(lb) {
			return false
		}
		for i := range la {
			if !bytes.Equal(la[i], lb[i]) {
				return false
			}
		}
	}
	return true
}

// Server is a fake redis server. Create it with Start.
type Server struct {
	ln net.Listener

	// execMu serialises command execution (fault hook, execution, journalling,
	// observer) as well as Restore and Apply. It is always taken before mu.
	execMu sync.Mutex

	// mu protects the fields below. It is held only for short, non-blocking
	// sections and never while a hook runs, so hooks may call Journal,
	// JournalLen, Snapshot, Stats, SetFault and OnCommand.
	mu      sync.Mutex
	ks      *keyspace
	journal []Cmd
	stats   map[string]int
	fault   func(pos int, args [][]byte) string
	observe func(pos int, conn int, args [][]byte)

	connMu   sync.Mutex
	conns    map[*conn]struct{}
	nextConn int
	closed   bool
	wg       sync.WaitGroup
	closeErr error
	once     sync.Once
}

// Start listens on 127.0.0.1:0 and serves until Close.
func Start() (*Server, error) {
	ln, err := net.Listen("tcp", "127.0.0.1:0")
	if err != nil {
		return nil, err
	}
	s := &Server{
		ln:    ln,
		ks:    newKeyspace(),
		stats: make(map[string]int),
		conns: make(map[*conn]struct{}),
	}
	s.wg.Add(1)
	go s.acceptLoop()
	return s, nil
}

// Addr returns the listening address ("127.0.0.1:port").
func (s *Server) Addr() string { return s.ln.Addr().String() }

// Close closes the listener and all client connections and waits for the
// connection goroutines to finish. It is idempotent. The in-memory state
// (Journal, Snapshot, Stats, Apply, Restore) stays usable afterwards.
// Close must not be called from a fault hook or observer.
func (s *Server) Close() error {
	s.once.Do(func() {
		s.connMu.Lock()
		s.closed = true
		s.closeErr = s.ln.Close()
		for c := range s.conns {
			c.nc.Close()
		}
		s.connMu.Unlock()
		s.wg.Wait()
	})
	return s.closeErr
}

// Journal returns a deep copy of the journal: every state-changing command
// (HSET, HDEL, DEL, RPUSH, LREM, LSET, FLUSHALL, FLUSHDB) that passed the arity
// check and the fault hook, in execution order, whether or not it changed
// anything or was answered with an error (WRONGTYPE, no such key, index out of
// range, not an integer, ...). Commands with a wrong number of arguments,
// unknown commands and read-only commands are not journalled.
func (s *Server) Journal() []Cmd {
	s.mu.Lock()
	defer s.mu.Unlock()
	out := make([]Cmd, len(s.journal))
	for i, c := range s.journal {
		out[i] = Cmd{Pos: c.Pos, Conn: c.Conn, Args: copyArgs(c.Args)}
	}
	return out
}

// JournalLen returns len(Journal()) cheaply. It is the "position" clock used
// by the harness.
func (s *Server) JournalLen() int {
	s.mu.Lock()
	defer s.mu.Unlock()
	return len(s.journal)
}

// Snapshot returns a deep copy of the whole keyspace. Called from an observer
// it returns the state right after the observed command.
func (s *Server) Snapshot() *Snapshot {
	s.mu.Lock()
	defer s.mu.Unlock()
	snap := &Snapshot{
		Hashes:    make(map[string]map[string][]byte),
		HashOrder: make(map[string][]string),
		Lists:     make(map[string][][]byte),
	}
	for k, e := range s.ks.m {
		if e.h != nil {
			m := make(map[string][]byte, len(e.h.m))
			for f, v := range e.h.m {
				m[f] = copyBytes(v)
			}
			snap.Hashes[k] = m
			snap.HashOrder[k] = append([]string{}, e.h.order...)
		} else {
			snap.Lists[k] = copyArgs(e.l)
		}
	}
	return snap
}

// Restore replaces the keyspace with a deep copy of snap (nil = empty); the
// journal is left untouched. Empty hashes and lists are skipped (redis has no
// empty keys). Fields missing from HashOrder are appended in sorted order and
// HashOrder entries without a value are ignored. Restore panics if a key is
// both a hash and a list. It must not be called from a hook.
func (s *Server) Restore(snap *Snapshot) {
	ks := newKeyspace()
	if snap != nil {
		for k, src := range snap.Hashes {
			if len(src) == 0 {
				continue
			}
			h := &hashVal{m: make(map[string][]byte, len(src))}
			for _, f := range snap.HashOrder[k] {
				if v, ok := src[f]; ok {
					if _, dup := h.m[f]; !dup {
						h.m[f] = copyBytes(v)
						h.order = append(h.order, f)
					}
				}
			}
			var rest []string
			for f := range src {
				if _, ok := h.m[f]; !ok {
					rest = append(rest, f)
				}
			}
			sort.Strings(rest)
			for _, f := range rest {
				h.m[f] = copyBytes(src[f])
				h.order = append(h.order, f)
			}
			ks.m[k] = &entry{h: h}
		}
		for k, src := range snap.Lists {
			if len(src) == 0 {
				continue
			}
			if _, clash := ks.m[k]; clash {
				panic(fmt.Sprintf("fakeredis: Restore: key %q is both a hash and a list", k))
			}
			ks.m[k] = &entry{l: copyArgs(src)}
		}
	}
	s.execMu.Lock()
	defer s.execMu.Unlock()
	s.mu.Lock()
	defer s.mu.Unlock()
	ks.scanPage = s.ks.scanPage
	s.ks = ks
}

// Apply executes the given journalled commands directly on the keyspace (no
// network), in slice order, WITHOUT appending them to the journal. Fault hook,
// observer and Stats are not involved. Redis-level error replies (WRONGTYPE,
// no such key, ...) are ignored: the command failed the same way when it was
// journalled. Apply returns an error, and applies nothing, if a command could
// not have come from a journal (not a state-changing command, or wrong arity).
// Arguments are deep-copied. It must not be called from a hook.
func (s *Server) Apply(cmds []Cmd) error {
	type step struct {
		spec *cmdSpec
		args [][]byte
	}
	steps := make([]step, len(cmds))
	for i, c := range cmds {
		if len(c.Args) == 0 {
			return fmt.Errorf("fakeredis: Apply: command %d (pos %d) has no arguments", i, c.Pos)
		}
		name := strings.ToUpper(string(c.Args[0]))
		spec := commands[name]
		if spec == nil || !spec.write {
			return fmt.Errorf("fakeredis: Apply: command %d (pos %d): %q is not a state-changing command", i, c.Pos, name)
		}
		if !spec.arityOK(len(c.Args)) {
			return fmt.Errorf("fakeredis: Apply: command %d (pos %d): wrong number of arguments for %q", i, c.Pos, name)
		}
		steps[i] = step{spec, copyArgs(c.Args)}
	}
	s.execMu.Lock()
	defer s.execMu.Unlock()
	s.mu.Lock()
	defer s.mu.Unlock()
	var scratch []byte
	for _, st := range steps {
		scratch = st.spec.fn(s.ks, st.args, scratch[:0])
	}
	return nil
}

// Stats returns how many commands were executed so far (including read-only
// ones), per upper-cased command name. Unknown commands, arity errors and
// commands rejected by the fault hook are not counted.
func (s *Server) Stats() map[string]int {
	s.mu.Lock()
	defer s.mu.Unlock()
	out := make(map[string]int, len(s.stats))
	for k, v := range s.stats {
		out[k] = v
	}
	return out
}

// SetFault installs a hook consulted before each command executes (after the
// unknown-command and arity checks, under the execution lock). If it returns a
// non-empty string the command is NOT executed, journalled, counted or
// observed and the string is sent as an error reply ("-<string>"); if it
// returns FaultClose ("CLOSE") the replies of earlier pipelined commands are
// flushed and the connection is closed without a reply for this command. The
// hook receives the would-be journal position (JournalLen()+1 for
// state-changing commands, 0 for read-only ones) and the arguments with
// args[0] upper-cased; it must treat them as read-only. nil removes the hook.
func (s *Server) SetFault(f func(pos int, args [][]byte) string) {
	s.mu.Lock()
	s.fault = f
	s.mu.Unlock()
}

// SetScanPage makes SCAN examine n keys per call (COUNT overrides n) and apply MATCH afterwards, as redis does:
// pages can be empty while the cursor is not 0. n = 0 restores the single-page behaviour.
func (s *Server) SetScanPage(n int) {
	s.mu.Lock()
	s.ks.scanPage = n
	s.mu.Unlock()
}

// OnCommand installs an observer called (under the execution lock, right after
// execution and before any other command can execute) for every executed
// command with its journal position (0 for read-only commands), the connection
// id and the arguments (args[0] upper-cased; shared with the journal, to be
// treated as read-only). nil removes it.
func (s *Server) OnCommand(f func(pos int, conn int, args [][]byte)) {
	s.mu.Lock()
	s.observe = f
	s.mu.Unlock()
}

// ---- command dispatch ----

type action int

const (
	actReply      action = iota // send the reply, keep going
	actReplyClose               // send the reply, then close (QUIT)
	actClose                    // close without replying (fault hook)
)

// dispatch executes one request atomically and returns its encoded reply.
func (s *Server) dispatch(connID int, args [][]byte) ([]byte, action) {
	name := strings.ToUpper(string(args[0]))
	spec := commands[name]
	if spec == nil {
		raw := args[0]
		if len(raw) > 128 {
			raw = raw[:128]
		}
		return appendError(nil, "ERR unknown command '"+string(raw)+"'"), actReply
	}
	if !spec.arityOK(len(args)) {
		return appendError(nil, "ERR wrong number of arguments for '"+strings.ToLower(name)+"' command"), actReply
	}
	args[0] = []byte(name)

	s.execMu.Lock()
	defer s.execMu.Unlock()

	s.mu.Lock()
	fault := s.fault
	pos := 0
	if spec.write {
		pos = len(s.journal) + 1
	}
	s.mu.Unlock()

	if fault != nil {
		switch r := fault(pos, args); r {
		case "":
		case FaultClose:
			return nil, actClose
		default:
			return appendError(nil, r), actReply
		}
	}

	s.mu.Lock()
	reply := spec.fn(s.ks, args, nil)
	if spec.write {
		s.journal = append(s.journal, Cmd{Pos: pos, Conn: connID, Args: args})
	}
	s.stats[name]++
	observe := s.observe
	s.mu.Unlock()

	if observe != nil {
		observe(pos, connID, args)
	}
	if name == "QUIT" {
		return reply, actReplyClose
	}
	return reply, actReply
}

// ---- networking ----

// conn is one client connection. The reader goroutine executes commands and
// queues replies; a writer goroutine drains the queue. The queue is unbounded
// (like redis' client output buffer) so that a client that pipelines a large
// batch before reading any reply cannot deadlock against the server.
type conn struct {
	id int
	nc net.Conn

	mu   sync.Mutex
	cond *sync.Cond
	out  []byte
	done bool // reader finished: drain out, then close
	dead bool // write failed: discard output
}

func (c *conn) queue(b []byte) {
	c.mu.Lock()
	if !c.dead {
		c.out = append(c.out, b...)
	}
	c.mu.Unlock()
	c.cond.Signal()
}

func (c *conn) finish() {
	c.mu.Lock()
	c.done = true
	c.mu.Unlock()
	c.cond.Signal()
}

func (c *conn) writeLoop() {
	defer c.nc.Close()
	var buf []byte
	for {
		c.mu.Lock()
		for len(c.out) == 0 && !c.done {
			c.cond.Wait()
		}
		if len(c.out) == 0 {
			c.mu.Unlock()
			return
		}
		buf, c.out = c.out, buf[:0]
		c.mu.Unlock()
		if _, err := c.nc.Write(buf); err != nil {
			c.mu.Lock()
			c.dead, c.out = true, nil
			c.mu.Unlock()
			return
		}
	}
}

func (s *Server) acceptLoop() {
	defer s.wg.Done()
	for {
		nc, err := s.ln.Accept()
		if err != nil {
			if errors.Is(err, net.ErrClosed) {
				return
			}
			s.connMu.Lock()
			closed := s.closed
			s.connMu.Unlock()
			if closed {
				return
			}
			time.Sleep(5 * time.Millisecond)
			continue
		}
		s.connMu.Lock()
		if s.closed {
			s.connMu.Unlock()
			nc.Close()
			return
		}
		s.nextConn++
		c := &conn{id: s.nextConn, nc: nc}
		c.cond = sync.NewCond(&c.mu)
		s.conns[c] = struct{}{}
		s.wg.Add(1)
		s.connMu.Unlock()
		go s.serve(c)
	}
}

func (s *Server) serve(c *conn) {
	defer s.wg.Done()
	writerDone := make(chan struct{})
	go func() {
		c.writeLoop()
		close(writerDone)
	}()
	defer func() {
		c.finish()
		<-writerDone // closes c.nc after draining
		s.connMu.Lock()
		delete(s.conns, c)
		s.connMu.Unlock()
	}()

	br := bufio.NewReaderSize(c.nc, 16*1024)
	for {
		args, err := readCommand(br)
		if err != nil {
			var pe protoError
			if errors.As(err, &pe) {
				c.queue(appendError(nil, "ERR "+pe.Error()))
			}
			return // any other error (EOF, reset, closed): just drop the connection
		}
		if args == nil {
			continue
		}
		reply, act := s.dispatch(c.id, args)
		switch act {
		case actReply:
			c.queue(reply)
		case actReplyClose:
			c.queue(reply)
			return
		case actClose:
			return
		}
	}
}

func copyBytes(b []byte) []byte { return append([]byte{}, b...) }

func copyArgs(a [][]byte) [][]byte {
	out := make([][]byte, len(a))
	for i, b := range a {
		out[i] = copyBytes(b)
	}
	return out
}
