package mqttx

import (
	"fmt"
	"reflect"
	"strings"
)

// UserProp is one User Property (0x26) name/value pair.
type UserProp struct{ K, V string }

// Props holds every MQTT 5.0 property (section 2.2.2.2). A nil pointer means
// the property is absent. Binary properties are present when the HasX flag is
// set or the data is non-empty.
type Props struct {
	PayloadFormat        *byte
	MessageExpiry        *uint32
	ContentType          *string
	ResponseTopic        *string
	CorrelationData      []byte
	HasCorrelationData   bool
	SubscriptionIDs      []uint32 // may repeat in PUBLISH
	SessionExpiry        *uint32
	AssignedClientID     *string
	ServerKeepAlive      *uint16
	AuthMethod           *string
	AuthData             []byte
	HasAuthData          bool
	RequestProblemInfo   *byte
	WillDelay            *uint32
	RequestResponseInfo  *byte
	ResponseInfo         *string
	ServerReference      *string
	ReasonString         *string
	ReceiveMax           *uint16
	TopicAliasMax        *uint16
	TopicAlias           *uint16
	MaximumQoS           *byte
	RetainAvailable      *byte
	User                 []UserProp
	MaxPacketSize        *uint32
	WildcardSubAvailable *byte
	SubIDAvailable       *byte
	SharedSubAvailable   *byte
}

// Property identifiers, MQTT 5.0 table 2-4.
const (
	pPayloadFormat       = 0x01
	pMessageExpiry       = 0x02
	pContentType         = 0x03
	pResponseTopic       = 0x08
	pCorrelationData     = 0x09
	pSubscriptionID      = 0x0B
	pSessionExpiry       = 0x11
	pAssignedClientID    = 0x12
	pServerKeepAlive     = 0x13
	pAuthMethod          = 0x15
	pAuthData            = 0x16
	pRequestProblemInfo  = 0x17
	pWillDelay           = 0x18
	pRequestResponseInfo = 0x19
	pResponseInfo        = 0x1A
	pServerReference     = 0x1C
	pReasonString        = 0x1F
	pReceiveMax          = 0x21
	pTopicAliasMax       = 0x22
	pTopicAlias          = 0x23
	pMaximumQoS          = 0x24
	pRetainAvailable     = 0x25
	pUser                = 0x26
	pMaxPacketSize       = 0x27
	pWildcardSubAvail    = 0x28
	pSubIDAvail          = 0x29
	pSharedSubAvail      = 0x2A
)

// ctxWill is the pseudo packet type used for Will Properties in the table below.
const ctxWill = 0

func in(types ...byte) (m uint16) {
	for _, t := range types {
		m |= 1 << t
	}
	return m
}

// propTable: for each property identifier its name and the set of packet types
// (bit per type, bit 0 = Will Properties) in which it may appear (table 2-4).
var propTable = map[byte]struct {
	name string
	in   uint16
}{
	pPayloadFormat:       {"Payload Format Indicator", in(PUBLISH, ctxWill)},
	pMessageExpiry:       {"Message Expiry Interval", in(PUBLISH, ctxWill)},
	pContentType:         {"Content Type", in(PUBLISH, ctxWill)},
	pResponseTopic:       {"Response Topic", in(PUBLISH, ctxWill)},
	pCorrelationData:     {"Correlation Data", in(PUBLISH, ctxWill)},
	pSubscriptionID:      {"Subscription Identifier", in(PUBLISH, SUBSCRIBE)},
	pSessionExpiry:       {"Session Expiry Interval", in(CONNECT, CONNACK, DISCONNECT)},
	pAssignedClientID:    {"Assigned Client Identifier", in(CONNACK)},
	pServerKeepAlive:     {"Server Keep Alive", in(CONNACK)},
	pAuthMethod:          {"Authentication Method", in(CONNECT, CONNACK, AUTH)},
	pAuthData:            {"Authentication Data", in(CONNECT, CONNACK, AUTH)},
	pRequestProblemInfo:  {"Request Problem Information", in(CONNECT)},
	pWillDelay:           {"Will Delay Interval", in(ctxWill)},
	pRequestResponseInfo: {"Request Response Information", in(CONNECT)},
	pResponseInfo:        {"Response Information", in(CONNACK)},
	pServerReference:     {"Server Reference", in(CONNACK, DISCONNECT)},
	pReasonString:        {"Reason String", in(CONNACK, PUBACK, PUBREC, PUBREL, PUBCOMP, SUBACK, UNSUBACK, DISCONNECT, AUTH)},
	pReceiveMax:          {"Receive Maximum", in(CONNECT, CONNACK)},
	pTopicAliasMax:       {"Topic Alias Maximum", in(CONNECT, CONNACK)},
	pTopicAlias:          {"Topic Alias", in(PUBLISH)},
	pMaximumQoS:          {"Maximum QoS", in(CONNACK)},
	pRetainAvailable:     {"Retain Available", in(CONNACK)},
	pUser:                {"User Property", in(CONNECT, CONNACK, PUBLISH, ctxWill, PUBACK, PUBREC, PUBREL, PUBCOMP, SUBSCRIBE, SUBACK, UNSUBSCRIBE, UNSUBACK, DISCONNECT, AUTH)},
	pMaxPacketSize:       {"Maximum Packet Size", in(CONNECT, CONNACK)},
	pWildcardSubAvail:    {"Wildcard Subscription Available", in(CONNACK)},
	pSubIDAvail:          {"Subscription Identifier Available", in(CONNACK)},
	pSharedSubAvail:      {"Shared Subscription Available", in(CONNACK)},
}

// IsEmpty reports whether no property is present (true for a nil receiver).
func (ps *Props) IsEmpty() bool {
	if ps == nil {
		return true
	}
	v := reflect.ValueOf(*ps)
	for i := 0; i < v.NumField(); i++ {
		switch f := v.Field(i); f.Kind() {
		case reflect.Pointer:
			if !f.IsNil() {
				return false
			}
		case reflect.Slice:
			if f.Len() > 0 {
				return false
			}
		case reflect.Bool:
			if f.Bool() {
				return false
			}
		default:
			panic("mqttx: unexpected Props field kind")
		}
	}
	return true
}

// String lists the present properties.
func (ps *Props) String() string {
	if ps == nil {
		return "{}"
	}
	var parts []string
	v := reflect.ValueOf(*ps)
	for i := 0; i < v.NumField(); i++ {
		f, name := v.Field(i), v.Type().Field(i).Name
		switch {
		case f.Kind() == reflect.Pointer && !f.IsNil():
			parts = append(parts, fmt.Sprintf("%s=%v", name, f.Elem().Interface()))
		case f.Kind() == reflect.Slice && f.Len() > 0:
			if b, ok := f.Interface().([]byte); ok {
				parts = append(parts, name+"="+trunc(b))
			} else {
				parts = append(parts, fmt.Sprintf("%s=%v", name, f.Interface()))
			}
		case f.Kind() == reflect.Bool && f.Bool():
			parts = append(parts, name)
		}
	}
	return "{" + strings.Join(parts, " ") + "}"
}

// props parses a Properties field (length + properties) for packet type ctx
// (ctxWill for Will Properties). It always returns a non-nil *Props.
func (r *reader) props(ctx byte) *Props {
	n := int(r.varint("property length"))
	r.need(n, "properties")
	q := &reader{b: r.b[r.i : r.i+n]}
	r.i += n
	ps := &Props{}
	seen := map[byte]bool{}
	for q.left() > 0 {
		idv := q.varint("property identifier")
		ent, ok := propTable[byte(idv)]
		if !ok || idv > 0xFF {
			malf("unknown property identifier 0x%02x", idv)
		}
		id, name := byte(idv), ent.name
		if ent.in&(1<<ctx) == 0 {
			where := TypeName(ctx)
			if ctx == ctxWill {
				where = "Will Properties"
			}
			malf("property %s not allowed in %s", name, where)
		}
		if seen[id] && id != pUser && !(id == pSubscriptionID && ctx == PUBLISH) {
			malf("property %s appears more than once", name)
		}
		seen[id] = true
		flag := func() *byte { // byte property restricted to 0 or 1
			x := q.u8(name)
			if x > 1 {
				malf("%s has value %d", name, x)
			}
			return &x
		}
		pu16 := func(nonzero bool) *uint16 {
			x := q.u16(name)
			if nonzero && x == 0 {
				malf("%s is 0", name)
			}
			return &x
		}
		pu32 := func() *uint32 { x := q.u32(name); return &x }
		pstr := func() *string { x := q.str(name); return &x }
		switch id {
		case pPayloadFormat:
			ps.PayloadFormat = flag()
		case pMessageExpiry:
			ps.MessageExpiry = pu32()
		case pContentType:
			ps.ContentType = pstr()
		case pResponseTopic:
			ps.ResponseTopic = pstr()
			if !ValidTopicName([]byte(*ps.ResponseTopic)) {
				malf("Response Topic %q is not a valid topic name", *ps.ResponseTopic)
			}
		case pCorrelationData:
			ps.CorrelationData, ps.HasCorrelationData = q.bin(name), true
		case pSubscriptionID:
			x := q.varint(name)
			if x == 0 {
				malf("Subscription Identifier is 0")
			}
			ps.SubscriptionIDs = append(ps.SubscriptionIDs, x)
		case pSessionExpiry:
			ps.SessionExpiry = pu32()
		case pAssignedClientID:
			ps.AssignedClientID = pstr()
		case pServerKeepAlive:
			ps.ServerKeepAlive = pu16(false)
		case pAuthMethod:
			ps.AuthMethod = pstr()
		case pAuthData:
			ps.AuthData, ps.HasAuthData = q.bin(name), true
		case pRequestProblemInfo:
			ps.RequestProblemInfo = flag()
		case pWillDelay:
			ps.WillDelay = pu32()
		case pRequestResponseInfo:
			ps.RequestResponseInfo = flag()
		case pResponseInfo:
			ps.ResponseInfo = pstr()
		case pServerReference:
			ps.ServerReference = pstr()
		case pReasonString:
			ps.ReasonString = pstr()
		case pReceiveMax:
			ps.ReceiveMax = pu16(true)
		case pTopicAliasMax:
			ps.TopicAliasMax = pu16(false)
		case pTopicAlias:
			ps.TopicAlias = pu16(true)
		case pMaximumQoS:
			ps.MaximumQoS = flag()
		case pRetainAvailable:
			ps.RetainAvailable = flag()
		case pUser:
			k := q.str(name)
			ps.User = append(ps.User, UserProp{k, q.str(name)})
		case pMaxPacketSize:
			ps.MaxPacketSize = pu32()
			if *ps.MaxPacketSize == 0 {
				malf("Maximum Packet Size is 0")
			}
		case pWildcardSubAvail:
			ps.WildcardSubAvailable = flag()
		case pSubIDAvail:
			ps.SubIDAvailable = flag()
		case pSharedSubAvail:
			ps.SharedSubAvailable = flag()
		default:
			panic("mqttx: property table and decoder out of sync")
		}
	}
	if ps.HasAuthData && ps.AuthMethod == nil {
		malf("Authentication Data without Authentication Method")
	}
	return ps
}

// props writes a Properties field (length + properties in ascending identifier
// order; nil => zero length). No per-packet-type filtering is applied.
func (w *writer) props(ps *Props) {
	q := &writer{}
	if ps == nil {
		ps = &Props{}
	}
	b8 := func(id byte, x *byte) {
		if x != nil {
			q.u8(id)
			q.u8(*x)
		}
	}
	b16 := func(id byte, x *uint16) {
		if x != nil {
			q.u8(id)
			q.u16(*x)
		}
	}
	b32 := func(id byte, x *uint32) {
		if x != nil {
			q.u8(id)
			q.u32(*x)
		}
	}
	str := func(id byte, x *string) {
		if x != nil {
			q.u8(id)
			q.str(*x)
		}
	}
	bin := func(id byte, x []byte, has bool) {
		if has || len(x) > 0 {
			q.u8(id)
			q.bin(x)
		}
	}
	b8(pPayloadFormat, ps.PayloadFormat)
	b32(pMessageExpiry, ps.MessageExpiry)
	str(pContentType, ps.ContentType)
	str(pResponseTopic, ps.ResponseTopic)
	bin(pCorrelationData, ps.CorrelationData, ps.HasCorrelationData)
	for _, id := range ps.SubscriptionIDs {
		q.u8(pSubscriptionID)
		q.varint(id)
	}
	b32(pSessionExpiry, ps.SessionExpiry)
	str(pAssignedClientID, ps.AssignedClientID)
	b16(pServerKeepAlive, ps.ServerKeepAlive)
	str(pAuthMethod, ps.AuthMethod)
	bin(pAuthData, ps.AuthData, ps.HasAuthData)
	b8(pRequestProblemInfo, ps.RequestProblemInfo)
	b32(pWillDelay, ps.WillDelay)
	b8(pRequestResponseInfo, ps.RequestResponseInfo)
	str(pResponseInfo, ps.ResponseInfo)
	str(pServerReference, ps.ServerReference)
	str(pReasonString, ps.ReasonString)
	b16(pReceiveMax, ps.ReceiveMax)
	b16(pTopicAliasMax, ps.TopicAliasMax)
	b16(pTopicAlias, ps.TopicAlias)
	b8(pMaximumQoS, ps.MaximumQoS)
	b8(pRetainAvailable, ps.RetainAvailable)
	for _, u := range ps.User {
		q.u8(pUser)
		q.str(u.K)
		q.str(u.V)
	}
	b32(pMaxPacketSize, ps.MaxPacketSize)
	b8(pWildcardSubAvail, ps.WildcardSubAvailable)
	b8(pSubIDAvail, ps.SubIDAvailable)
	b8(pSharedSubAvail, ps.SharedSubAvailable)
	if q.err != nil && w.err == nil {
		w.err = q.err
	}
	if len(q.b) > maxVarint {
		w.fail("properties too long")
		return
	}
	w.varint(uint32(len(q.b)))
	w.b = append(w.b, q.b...)
}

func normProps(ps *Props) *Props {
	var q Props
	if ps != nil {
		q = *ps
	}
	q.HasCorrelationData = q.HasCorrelationData || len(q.CorrelationData) > 0
	q.HasAuthData = q.HasAuthData || len(q.AuthData) > 0
	if len(q.CorrelationData) == 0 {
		q.CorrelationData = nil
	}
	if len(q.AuthData) == 0 {
		q.AuthData = nil
	}
	if len(q.SubscriptionIDs) == 0 {
		q.SubscriptionIDs = nil
	}
	if len(q.User) == 0 {
		q.User = nil
	}
	return &q
}
