// Package mqttx is an independent MQTT 3.1 / 3.1.1 / 5.0 control packet
// encoder and strict decoder written from the OASIS specifications. It is meant
// as a differential oracle and test-client codec; it depends only on the
// standard library.
//
// Decode is strict (see its doc); Encode is deliberately lenient so that tests
// can produce ill-formed packets: it only fails on things that cannot be put on
// the wire at all.
package mqttx

import (
	"bufio"
	"errors"
	"fmt"
	"io"
	"reflect"
	"strings"
)

// Version is the MQTT protocol level.
type Version byte

const (
	V31  Version = 3
	V311 Version = 4
	V5   Version = 5
)

// Control packet types.
const (
	CONNECT     = 1
	CONNACK     = 2
	PUBLISH     = 3
	PUBACK      = 4
	PUBREC      = 5
	PUBREL      = 6
	PUBCOMP     = 7
	SUBSCRIBE   = 8
	SUBACK      = 9
	UNSUBSCRIBE = 10
	UNSUBACK    = 11
	PINGREQ     = 12
	PINGRESP    = 13
	DISCONNECT  = 14
	AUTH        = 15
)

const maxVarint = 268435455

// Sub is one SUBSCRIBE payload entry. NoLocal, RAP and RetainHandling exist
// only in v5.
type Sub struct {
	Filter         string
	QoS            byte
	NoLocal        bool
	RAP            bool
	RetainHandling byte
}

// Packet is the union of the fields of all control packets.
type Packet struct {
	Type byte
	// CONNECT
	ProtoName                string
	Level                    byte // protocol level byte as on the wire
	CleanStart               bool
	KeepAlive                uint16
	ClientID                 string
	WillFlag                 bool
	WillQoS                  byte
	WillRetain               bool
	WillTopic                string
	WillPayload              []byte
	WillProps                *Props
	HasUsername, HasPassword bool
	Username                 string
	Password                 []byte
	// CONNACK
	SessionPresent bool
	// Return/reason code of CONNACK, PUBACK, PUBREC, PUBREL, PUBCOMP, DISCONNECT, AUTH.
	Code byte
	// PUBLISH. Dup is also the DUP flag of v3.1 PUBREL/SUBSCRIBE/UNSUBSCRIBE.
	Dup     bool
	QoS     byte
	Retain  bool
	Topic   string
	Payload []byte
	// PUBLISH with QoS>0, PUBACK, PUBREC, PUBREL, PUBCOMP, SUBSCRIBE, SUBACK, UNSUBSCRIBE, UNSUBACK.
	PacketID uint16
	Subs     []Sub    // SUBSCRIBE
	Filters  []string // UNSUBSCRIBE
	Codes    []byte   // SUBACK, v5 UNSUBACK
	Props    *Props   // v5 properties; nil encodes as zero-length properties
}

// ErrShort is returned by Decode when b does not yet hold one complete packet.
var ErrShort = errors.New("mqttx: short buffer")

// MalformedError reports a packet violating a format rule of the specification.
type MalformedError struct{ Reason string }

func (e *MalformedError) Error() string { return "mqttx: malformed packet: " + e.Reason }

func malf(format string, a ...any) { panic(&MalformedError{fmt.Sprintf(format, a...)}) }

var typeNames = [16]string{"RESERVED0", "CONNECT", "CONNACK", "PUBLISH", "PUBACK", "PUBREC", "PUBREL", "PUBCOMP",
	"SUBSCRIBE", "SUBACK", "UNSUBSCRIBE", "UNSUBACK", "PINGREQ", "PINGRESP", "DISCONNECT", "AUTH"}

// TypeName returns the specification name of packet type t.
func TypeName(t byte) string {
	if t < 16 {
		return typeNames[t]
	}
	return fmt.Sprintf("TYPE(%d)", t)
}

// v5 reason codes allowed per packet type (sections 3.2.2.2, 3.4.2.1, 3.5.2.1,
// 3.6.2.1, 3.7.2.1, 3.9.3, 3.11.3, 3.14.2.1, 3.15.2.1).
var reasonCodes = map[byte]string{
	CONNACK:    "\x00\x80\x81\x82\x83\x84\x85\x86\x87\x88\x89\x8A\x8C\x90\x95\x97\x99\x9A\x9B\x9C\x9D\x9F",
	PUBACK:     "\x00\x10\x80\x83\x87\x90\x91\x97\x99",
	PUBREC:     "\x00\x10\x80\x83\x87\x90\x91\x97\x99",
	PUBREL:     "\x00\x92",
	PUBCOMP:    "\x00\x92",
	SUBACK:     "\x00\x01\x02\x80\x83\x87\x8F\x91\x97\x9E\xA1\xA2",
	UNSUBACK:   "\x00\x11\x80\x83\x87\x8F\x91",
	DISCONNECT: "\x00\x04\x80\x81\x82\x83\x87\x89\x8B\x8D\x8E\x8F\x90\x93\x94\x95\x96\x97\x98\x99\x9A\x9B\x9C\x9D\x9E\x9F\xA0\xA1\xA2",
	AUTH:       "\x00\x18\x19",
}

// ValidReasonCode reports whether code is a reason code the MQTT 5.0
// specification defines for packet type t.
func ValidReasonCode(t, code byte) bool {
	return strings.IndexByte(reasonCodes[t], code) >= 0
}

func checkCode(t, code byte) {
	if !ValidReasonCode(t, code) {
		malf("reason code 0x%02x is not defined for %s", code, TypeName(t))
	}
}

// ---------------------------------------------------------------- decoding

// varint decodes a Variable Byte Integer from the front of b. It returns
// ErrShort if b ends inside the integer and a *MalformedError for a fifth byte
// or a non-minimal encoding.
func varint(b []byte) (v uint32, n int, err error) {
	for i := 0; i < 4; i++ {
		if i >= len(b) {
			return 0, 0, ErrShort
		}
		c := b[i]
		v |= uint32(c&0x7F) << (7 * i)
		if c&0x80 == 0 {
			if i > 0 && c == 0 {
				return 0, 0, &MalformedError{"non-minimal variable byte integer"}
			}
			return v, i + 1, nil
		}
	}
	return 0, 0, &MalformedError{"variable byte integer longer than 4 bytes"}
}

// reader is a cursor over the bytes of one packet body; every method panics
// with *MalformedError when the body is too short.
type reader struct {
	b []byte
	i int
}

func (r *reader) left() int { return len(r.b) - r.i }

func (r *reader) need(n int, what string) {
	if r.left() < n {
		malf("truncated %s (need %d bytes, %d left)", what, n, r.left())
	}
}

func (r *reader) u8(what string) byte {
	r.need(1, what)
	r.i++
	return r.b[r.i-1]
}

func (r *reader) u16(what string) uint16 {
	r.need(2, what)
	r.i += 2
	return uint16(r.b[r.i-2])<<8 | uint16(r.b[r.i-1])
}

func (r *reader) u32(what string) uint32 {
	hi := r.u16(what)
	return uint32(hi)<<16 | uint32(r.u16(what))
}

func (r *reader) varint(what string) uint32 {
	v, n, err := varint(r.b[r.i:])
	if err == ErrShort {
		malf("truncated %s", what)
	} else if err != nil {
		malf("%s: %s", what, err.(*MalformedError).Reason)
	}
	r.i += n
	return v
}

func (r *reader) raw(n int, what string) []byte {
	r.need(n, what)
	out := make([]byte, n)
	copy(out, r.b[r.i:])
	r.i += n
	return out
}

func (r *reader) bin(what string) []byte { return r.raw(int(r.u16(what)), what) }

func (r *reader) str(what string) string {
	b := r.bin(what)
	if !ValidUTF8(b) {
		malf("%s is not a valid UTF-8 string: %q", what, b)
	}
	return string(b)
}

func (r *reader) packetID(nonzero bool) uint16 {
	id := r.u16("packet identifier")
	if nonzero && id == 0 {
		malf("packet identifier is 0")
	}
	return id
}

// Decode parses exactly one packet from the front of b under version v (v is
// ignored for CONNECT, whose protocol name and level decide; see Packet.Level).
// It returns the packet and the number of bytes consumed. If b holds less than
// one complete packet it returns ErrShort. Any format violation yields a
// *MalformedError; on every error p is nil and n is 0. The packet does not
// alias b.
//
// Enforced: reserved fixed-header flags (v3.1 additionally allows DUP on
// PUBREL/SUBSCRIBE/UNSUBSCRIBE), packet type 0, AUTH before v5, minimal
// variable byte integers of at most 4 bytes (all versions), exact consumption of
// the remaining length, UTF-8 string rules, protocol name/level pairs, CONNECT
// flag rules (reserved bit, will flags, password without username in v3.x),
// will topic and Response Topic being valid topic names, CONNACK flag bits, v3
// return codes and v3 SUBACK codes, v5 reason codes per packet type, QoS 3, DUP
// with QoS 0, zero packet identifier in PUBLISH(QoS>0)/SUBSCRIBE/UNSUBSCRIBE,
// topic name and topic filter validity (an empty v5 PUBLISH topic needs a Topic
// Alias), empty SUBSCRIBE/UNSUBSCRIBE/SUBACK/v5 UNSUBACK payloads, subscription
// option bits (reserved, QoS 3, Retain Handling 3, No Local on a shared
// subscription), and all property rules: table 2-4 placement, duplicates, value
// ranges, Authentication Data without Authentication Method.
func Decode(b []byte, v Version) (p *Packet, n int, err error) {
	if len(b) < 2 {
		return nil, 0, ErrShort
	}
	rl, k, err := varint(b[1:])
	if err != nil {
		if me, ok := err.(*MalformedError); ok {
			err = &MalformedError{"remaining length: " + me.Reason}
		}
		return nil, 0, err
	}
	total := 1 + k + int(rl)
	if len(b) < total {
		return nil, 0, ErrShort
	}
	if b[0]>>4 != CONNECT && v != V31 && v != V311 && v != V5 {
		return nil, 0, fmt.Errorf("mqttx: unsupported version %d", v)
	}
	defer func() {
		if x := recover(); x != nil {
			me, ok := x.(*MalformedError)
			if !ok {
				panic(x)
			}
			p, n, err = nil, 0, me
		}
	}()
	return decodeBody(b[0], b[1+k:total], v), total, nil
}

func decodeBody(h byte, body []byte, v Version) *Packet {
	t, fl := h>>4, h&0x0F
	p := &Packet{Type: t}
	r := &reader{b: body}
	switch t {
	case 0:
		malf("reserved packet type 0")
	case PUBLISH:
	case PUBREL, SUBSCRIBE, UNSUBSCRIBE:
		if v == V31 && fl == 0x0A { // MQTT 3.1: these are QoS 1 messages and may carry DUP
			p.Dup = true
		} else if fl != 0x02 {
			malf("%s with fixed header flags 0x%x", TypeName(t), fl)
		}
	default:
		if fl != 0 {
			malf("%s with fixed header flags 0x%x", TypeName(t), fl)
		}
	}
	v5 := v == V5
	switch t {
	case CONNECT:
		decodeConnect(r, p)
	case CONNACK:
		ack := r.u8("connect acknowledge flags")
		if ack&0xFE != 0 {
			malf("reserved CONNACK flag bits set: 0x%02x", ack)
		}
		p.SessionPresent = ack&1 != 0
		p.Code = r.u8("connect return code")
		if v5 {
			checkCode(t, p.Code)
			p.Props = r.props(t)
		} else if p.Code > 5 {
			malf("CONNACK return code %d", p.Code)
		}
	case PUBLISH:
		p.Dup, p.QoS, p.Retain = fl&8 != 0, fl>>1&3, fl&1 != 0
		if p.QoS == 3 {
			malf("PUBLISH with QoS 3")
		}
		if p.QoS == 0 && p.Dup {
			malf("PUBLISH with DUP set and QoS 0")
		}
		p.Topic = r.str("topic name")
		if p.QoS > 0 {
			p.PacketID = r.packetID(true)
		}
		if v5 {
			p.Props = r.props(t)
		}
		if !(v5 && p.Topic == "" && p.Props.TopicAlias != nil) && !ValidTopicName([]byte(p.Topic)) {
			malf("invalid topic name %q", p.Topic)
		}
		p.Payload = r.raw(r.left(), "payload")
	case PUBACK, PUBREC, PUBREL, PUBCOMP:
		p.PacketID = r.packetID(false)
		if v5 { // 3.4.2.1: reason code and property length may be omitted
			p.Props = &Props{}
			if r.left() > 0 {
				p.Code = r.u8("reason code")
				checkCode(t, p.Code)
			}
			if r.left() > 0 {
				p.Props = r.props(t)
			}
		}
	case SUBSCRIBE:
		p.PacketID = r.packetID(true)
		if v5 {
			p.Props = r.props(t)
		}
		if r.left() == 0 {
			malf("SUBSCRIBE without topic filter")
		}
		for r.left() > 0 {
			p.Subs = append(p.Subs, decodeSub(r, v5))
		}
	case UNSUBSCRIBE:
		p.PacketID = r.packetID(true)
		if v5 {
			p.Props = r.props(t)
		}
		if r.left() == 0 {
			malf("UNSUBSCRIBE without topic filter")
		}
		for r.left() > 0 {
			f := r.str("topic filter")
			if !ValidTopicFilter([]byte(f)) {
				malf("invalid topic filter %q", f)
			}
			p.Filters = append(p.Filters, f)
		}
	case SUBACK, UNSUBACK:
		p.PacketID = r.packetID(false)
		if v5 {
			p.Props = r.props(t)
		}
		if !v5 && t == UNSUBACK {
			break
		}
		if r.left() == 0 {
			malf("%s without reason codes", TypeName(t))
		}
		p.Codes = r.raw(r.left(), "reason codes")
		for _, c := range p.Codes {
			if v5 {
				checkCode(t, c)
			} else if c > 2 && c != 0x80 {
				malf("SUBACK return code 0x%02x", c)
			}
		}
	case PINGREQ, PINGRESP:
	case DISCONNECT, AUTH:
		if t == AUTH && !v5 {
			malf("AUTH packet in MQTT version %d", v)
		}
		if v5 {
			p.Props = &Props{}
			if r.left() > 0 {
				p.Code = r.u8("reason code")
				checkCode(t, p.Code)
				// 3.14.2.2.1: DISCONNECT may omit the property length; AUTH (3.15.2.1) may not.
				if r.left() > 0 || t == AUTH {
					p.Props = r.props(t)
				}
			}
		}
	}
	if r.left() != 0 {
		malf("%d bytes left in %s after its last field", r.left(), TypeName(t))
	}
	return p
}

func decodeConnect(r *reader, p *Packet) {
	p.ProtoName = r.str("protocol name")
	p.Level = r.u8("protocol level")
	switch {
	case p.ProtoName == "MQIsdp" && p.Level == 3, p.ProtoName == "MQTT" && (p.Level == 4 || p.Level == 5):
	default:
		malf("unsupported protocol name/level %q/%d", p.ProtoName, p.Level)
	}
	v5 := p.Level == 5
	cf := r.u8("connect flags")
	if cf&0x01 != 0 {
		malf("reserved connect flag bit set")
	}
	p.CleanStart = cf&0x02 != 0
	p.WillFlag = cf&0x04 != 0
	p.WillQoS = cf >> 3 & 3
	p.WillRetain = cf&0x20 != 0
	p.HasPassword = cf&0x40 != 0
	p.HasUsername = cf&0x80 != 0
	if p.WillQoS == 3 {
		malf("will QoS 3")
	}
	if !p.WillFlag && (p.WillQoS != 0 || p.WillRetain) {
		malf("will QoS/retain set without will flag")
	}
	if !v5 && p.HasPassword && !p.HasUsername {
		malf("password flag without user name flag")
	}
	p.KeepAlive = r.u16("keep alive")
	if v5 {
		p.Props = r.props(CONNECT)
	}
	p.ClientID = r.str("client identifier")
	if p.WillFlag {
		if v5 {
			p.WillProps = r.props(ctxWill)
		}
		p.WillTopic = r.str("will topic")
		if !ValidTopicName([]byte(p.WillTopic)) {
			malf("invalid will topic %q", p.WillTopic)
		}
		p.WillPayload = r.bin("will payload")
	}
	if p.HasUsername {
		p.Username = r.str("user name")
	}
	if p.HasPassword {
		p.Password = r.bin("password")
	}
}

func decodeSub(r *reader, v5 bool) Sub {
	f := r.str("topic filter")
	if !ValidTopicFilter([]byte(f)) {
		malf("invalid topic filter %q", f)
	}
	o := r.u8("subscription options")
	s := Sub{Filter: f, QoS: o & 3}
	if s.QoS == 3 {
		malf("subscription with QoS 3")
	}
	if !v5 {
		if o&0xFC != 0 {
			malf("reserved bits set in requested QoS byte 0x%02x", o)
		}
		return s
	}
	if o&0xC0 != 0 {
		malf("reserved bits set in subscription options 0x%02x", o)
	}
	s.NoLocal, s.RAP, s.RetainHandling = o&0x04 != 0, o&0x08 != 0, o>>4&3
	if s.RetainHandling == 3 {
		malf("retain handling 3")
	}
	if _, _, shared := SplitShare(f); shared && s.NoLocal {
		malf("No Local set on shared subscription %q", f)
	}
	return s
}

// ---------------------------------------------------------------- encoding

type writer struct {
	b   []byte
	err error
}

func (w *writer) fail(format string, a ...any) {
	if w.err == nil {
		w.err = fmt.Errorf("mqttx: encode: "+format, a...)
	}
}

func (w *writer) u8(x byte)    { w.b = append(w.b, x) }
func (w *writer) u16(x uint16) { w.b = append(w.b, byte(x>>8), byte(x)) }
func (w *writer) u32(x uint32) { w.b = append(w.b, byte(x>>24), byte(x>>16), byte(x>>8), byte(x)) }

func (w *writer) varint(x uint32) {
	if x > maxVarint {
		w.fail("value %d exceeds variable byte integer range", x)
		return
	}
	for {
		c := byte(x & 0x7F)
		x >>= 7
		if x > 0 {
			c |= 0x80
		}
		w.b = append(w.b, c)
		if x == 0 {
			return
		}
	}
}

func (w *writer) bin(x []byte) {
	if len(x) > 65535 {
		w.fail("string or binary data of %d bytes", len(x))
		return
	}
	w.u16(uint16(len(x)))
	w.b = append(w.b, x...)
}

func (w *writer) str(s string) { w.bin([]byte(s)) }

func b2i(b bool) byte {
	if b {
		return 1
	}
	return 0
}

// Encode returns the canonical wire bytes of p for version v. v governs the
// packet layout; for CONNECT the protocol name and level bytes are p.ProtoName
// and p.Level when set, else the ones belonging to v. Canonical choices: v5
// properties in ascending identifier order; v5 PUBACK/PUBREC/PUBREL/PUBCOMP,
// DISCONNECT and AUTH use the shortest form the specification allows (reason
// code omitted when it is 0 and there are no properties; property length
// omitted when there are no properties, except in AUTH).
//
// Encode does not validate: it fails only for an unknown type or version, AUTH
// before v5, strings longer than 65535 bytes and lengths beyond 268435455.
// Fields that do not belong to p.Type or v are ignored; user name and password
// are written when the HasX flag is set or the value is non-empty.
func Encode(p *Packet, v Version) ([]byte, error) {
	if p == nil {
		return nil, errors.New("mqttx: encode: nil packet")
	}
	if v != V31 && v != V311 && v != V5 {
		return nil, fmt.Errorf("mqttx: encode: unsupported version %d", v)
	}
	v5 := v == V5
	w := &writer{}
	var fl byte
	noProps := p.Props.IsEmpty()
	switch p.Type {
	case CONNECT:
		name, lvl := p.ProtoName, p.Level
		if name == "" {
			name = "MQTT"
			if v == V31 {
				name = "MQIsdp"
			}
		}
		if lvl == 0 {
			lvl = byte(v)
		}
		hasUser, hasPass := p.HasUsername || p.Username != "", p.HasPassword || len(p.Password) > 0
		w.str(name)
		w.u8(lvl)
		w.u8(b2i(p.CleanStart)<<1 | b2i(p.WillFlag)<<2 | (p.WillQoS&3)<<3 | b2i(p.WillRetain)<<5 | b2i(hasPass)<<6 | b2i(hasUser)<<7)
		w.u16(p.KeepAlive)
		if v5 {
			w.props(p.Props)
		}
		w.str(p.ClientID)
		if p.WillFlag {
			if v5 {
				w.props(p.WillProps)
			}
			w.str(p.WillTopic)
			w.bin(p.WillPayload)
		}
		if hasUser {
			w.str(p.Username)
		}
		if hasPass {
			w.bin(p.Password)
		}
	case CONNACK:
		w.u8(b2i(p.SessionPresent))
		w.u8(p.Code)
		if v5 {
			w.props(p.Props)
		}
	case PUBLISH:
		fl = b2i(p.Dup)<<3 | (p.QoS&3)<<1 | b2i(p.Retain)
		w.str(p.Topic)
		if p.QoS&3 > 0 {
			w.u16(p.PacketID)
		}
		if v5 {
			w.props(p.Props)
		}
		w.b = append(w.b, p.Payload...)
	case PUBACK, PUBREC, PUBREL, PUBCOMP:
		w.u16(p.PacketID)
		if v5 && (p.Code != 0 || !noProps) {
			w.u8(p.Code)
			if !noProps {
				w.props(p.Props)
			}
		}
	case SUBSCRIBE:
		w.u16(p.PacketID)
		if v5 {
			w.props(p.Props)
		}
		for _, s := range p.Subs {
			w.str(s.Filter)
			o := s.QoS & 3
			if v5 {
				o |= b2i(s.NoLocal)<<2 | b2i(s.RAP)<<3 | (s.RetainHandling&3)<<4
			}
			w.u8(o)
		}
	case UNSUBSCRIBE:
		w.u16(p.PacketID)
		if v5 {
			w.props(p.Props)
		}
		for _, f := range p.Filters {
			w.str(f)
		}
	case SUBACK, UNSUBACK:
		w.u16(p.PacketID)
		if v5 {
			w.props(p.Props)
		}
		if v5 || p.Type == SUBACK {
			w.b = append(w.b, p.Codes...)
		}
	case PINGREQ, PINGRESP:
	case DISCONNECT, AUTH:
		if p.Type == AUTH && !v5 {
			return nil, fmt.Errorf("mqttx: encode: AUTH in version %d", v)
		}
		if v5 && (p.Code != 0 || !noProps) {
			w.u8(p.Code)
			if !noProps || p.Type == AUTH {
				w.props(p.Props)
			}
		}
	default:
		return nil, fmt.Errorf("mqttx: encode: unknown packet type %d", p.Type)
	}
	switch p.Type {
	case PUBREL, SUBSCRIBE, UNSUBSCRIBE:
		fl = 0x02
		if v == V31 && p.Dup {
			fl = 0x0A
		}
	}
	if w.err == nil && len(w.b) > maxVarint {
		w.fail("remaining length %d too large", len(w.b))
	}
	if w.err != nil {
		return nil, w.err
	}
	h := &writer{b: make([]byte, 0, len(w.b)+5)}
	h.u8(p.Type<<4 | fl)
	h.varint(uint32(len(w.b)))
	return append(h.b, w.b...), nil
}

// Size returns len(Encode(p, v)), or 0 if p cannot be encoded.
func Size(p *Packet, v Version) int {
	b, _ := Encode(p, v)
	return len(b)
}

// ---------------------------------------------------------------- stream reader

// Reader reads packets from a byte stream. It buffers, so it must own the stream.
type Reader struct {
	r *bufio.Reader
	v Version
}

// NewReader returns a Reader decoding under version v.
func NewReader(r io.Reader, v Version) *Reader { return &Reader{r: bufio.NewReader(r), v: v} }

// SetVersion changes the version used for subsequent packets.
func (r *Reader) SetVersion(v Version) { r.v = v }

// ReadPacket reads one packet and returns it with its raw bytes exactly as
// read. At a clean end of stream it returns io.EOF; an end of stream inside a
// packet gives io.ErrUnexpectedEOF. On a decode error the packet is nil and the
// raw bytes read so far are still returned.
func (r *Reader) ReadPacket() (*Packet, []byte, error) {
	first, err := r.r.ReadByte()
	if err != nil {
		return nil, nil, err
	}
	raw := []byte{first}
	for {
		c, err := r.r.ReadByte()
		if err != nil {
			return nil, raw, noEOF(err)
		}
		raw = append(raw, c)
		if c&0x80 == 0 || len(raw) == 5 {
			break
		}
	}
	rl, _, err := varint(raw[1:])
	if err != nil { // cannot be ErrShort here
		return nil, raw, &MalformedError{"remaining length: " + err.(*MalformedError).Reason}
	}
	hl := len(raw)
	raw = append(raw, make([]byte, rl)...)
	if n, err := io.ReadFull(r.r, raw[hl:]); err != nil {
		return nil, raw[:hl+n], noEOF(err)
	}
	p, _, err := Decode(raw, r.v)
	return p, raw, err
}

func noEOF(err error) error {
	if err == io.EOF {
		return io.ErrUnexpectedEOF
	}
	return err
}

// ---------------------------------------------------------------- String / Equal

func trunc(b []byte) string {
	if len(b) > 32 {
		return fmt.Sprintf("(%d)%q...", len(b), b[:32])
	}
	return fmt.Sprintf("(%d)%q", len(b), b)
}

// String renders p compactly for logs: type name and main fields, binary data
// truncated to 32 bytes.
func (p *Packet) String() string {
	if p == nil {
		return "<nil>"
	}
	var sb strings.Builder
	f := func(format string, a ...any) { fmt.Fprintf(&sb, " "+format, a...) }
	switch p.Type {
	case CONNECT:
		f("proto=%q/%d clean=%t keepalive=%d client=%q", p.ProtoName, p.Level, p.CleanStart, p.KeepAlive, p.ClientID)
		if p.WillFlag {
			f("will{qos=%d retain=%t topic=%q payload=%s props=%s}", p.WillQoS, p.WillRetain, p.WillTopic, trunc(p.WillPayload), p.WillProps)
		}
		if p.HasUsername {
			f("user=%q", p.Username)
		}
		if p.HasPassword {
			f("pass=%s", trunc(p.Password))
		}
	case CONNACK:
		f("sp=%t code=0x%02x", p.SessionPresent, p.Code)
	case PUBLISH:
		f("dup=%t qos=%d retain=%t topic=%q", p.Dup, p.QoS, p.Retain, p.Topic)
		if p.QoS > 0 {
			f("pid=%d", p.PacketID)
		}
		f("payload=%s", trunc(p.Payload))
	case PUBACK, PUBREC, PUBREL, PUBCOMP:
		f("pid=%d code=0x%02x", p.PacketID, p.Code)
	case SUBSCRIBE:
		f("pid=%d", p.PacketID)
		for _, s := range p.Subs {
			f("%q:qos=%d,nl=%t,rap=%t,rh=%d", s.Filter, s.QoS, s.NoLocal, s.RAP, s.RetainHandling)
		}
	case UNSUBSCRIBE:
		f("pid=%d filters=%q", p.PacketID, p.Filters)
	case SUBACK, UNSUBACK:
		f("pid=%d codes=%x", p.PacketID, p.Codes)
	case DISCONNECT, AUTH:
		f("code=0x%02x", p.Code)
	}
	if !p.Props.IsEmpty() {
		f("props=%s", p.Props)
	}
	return TypeName(p.Type) + "{" + strings.TrimPrefix(sb.String(), " ") + "}"
}

// Equal compares two packets field by field. Nil Props equal empty Props, nil
// slices equal empty slices, and the HasX flags are implied by non-empty values.
func Equal(a, b *Packet) bool {
	if a == nil || b == nil {
		return a == b
	}
	return reflect.DeepEqual(norm(a), norm(b))
}

func norm(p *Packet) Packet {
	q := *p
	q.HasUsername = q.HasUsername || q.Username != ""
	q.HasPassword = q.HasPassword || len(q.Password) > 0
	if len(q.WillPayload) == 0 {
		q.WillPayload = nil
	}
	if len(q.Password) == 0 {
		q.Password = nil
	}
	if len(q.Payload) == 0 {
		q.Payload = nil
	}
	if len(q.Subs) == 0 {
		q.Subs = nil
	}
	if len(q.Filters) == 0 {
		q.Filters = nil
	}
	if len(q.Codes) == 0 {
		q.Codes = nil
	}
	q.Props, q.WillProps = normProps(p.Props), normProps(p.WillProps)
	return q
}
