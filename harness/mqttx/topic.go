package mqttx

import (
	"bytes"
	"strings"
	"unicode/utf8"
)

// ValidUTF8 reports whether s is a well-formed MQTT "UTF-8 Encoded String"
// body (MQTT 5.0 section 1.5.4 / MQTT 3.1.1 section 1.5.3): well-formed UTF-8
// (which excludes encoded surrogates U+D800..U+DFFF and overlong forms), no
// U+0000, and at most 65535 bytes.
func ValidUTF8(s []byte) bool {
	return len(s) <= 65535 && utf8.Valid(s) && bytes.IndexByte(s, 0) < 0
}

// ValidTopicName reports whether s is a valid Topic Name (section 4.7): at
// least one character, a valid UTF-8 string, no wildcard characters.
func ValidTopicName(s []byte) bool {
	return len(s) >= 1 && ValidUTF8(s) && bytes.IndexAny(s, "+#") < 0
}

// ValidTopicFilter reports whether s is a valid Topic Filter (sections 4.7.1,
// 4.7.3, 4.8.2). A filter starting with "$share/" must have the shape
// "$share/<name>/<filter>" with a non-empty wildcard-free name and a non-empty
// valid filter.
func ValidTopicFilter(s []byte) bool {
	if len(s) < 1 || !ValidUTF8(s) {
		return false
	}
	f := string(s)
	if strings.HasPrefix(f, "$share/") {
		_, rest, ok := SplitShare(f)
		if !ok {
			return false
		}
		f = rest
	}
	return validPlainFilter(f)
}

func validPlainFilter(f string) bool {
	if f == "" {
		return false
	}
	levels := strings.Split(f, "/")
	for i, l := range levels {
		switch {
		case l == "#":
			if i != len(levels)-1 {
				return false
			}
		case l == "+":
		case strings.ContainsAny(l, "+#"):
			return false
		}
	}
	return true
}

// SplitShare splits a shared-subscription filter "$share/<name>/<rest>". ok is
// false (and rest == filter) when filter is not a well-formed shared filter:
// missing prefix, empty name, wildcard in name, or empty rest. The rest is not
// itself validated as a filter.
func SplitShare(filter string) (share, rest string, ok bool) {
	if !strings.HasPrefix(filter, "$share/") {
		return "", filter, false
	}
	s := filter[len("$share/"):]
	i := strings.IndexByte(s, '/')
	if i <= 0 || strings.ContainsAny(s[:i], "+#") || s[i+1:] == "" {
		return "", filter, false
	}
	return s[:i], s[i+1:], true
}

// TopicMatch reports whether Topic Name name matches the (non-shared) Topic
// Filter filter per section 4.7. Invalid names or filters never match.
func TopicMatch(name, filter string) bool {
	if !ValidTopicName([]byte(name)) || !ValidUTF8([]byte(filter)) || !validPlainFilter(filter) {
		return false
	}
	// 4.7.2: a filter starting with a wildcard does not match $-topics.
	if name[0] == '$' && (filter[0] == '+' || filter[0] == '#') {
		return false
	}
	nl, fl := strings.Split(name, "/"), strings.Split(filter, "/")
	for i, f := range fl {
		if f == "#" { // last level by validity; matches parent and any children
			return true
		}
		if i >= len(nl) || (f != "+" && f != nl[i]) {
			return false
		}
	}
	return len(nl) == len(fl)
}
